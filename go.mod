module verif

go 1.21

require (
	github.com/anishathalye/porcupine v1.3.0
	github.com/uhn/ggql v0.0.0
)

replace github.com/uhn/ggql => /repo
