package checks

import "math/big"

type bigInt = big.Int
