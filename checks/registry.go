// Package checks wires one workload + monitors per property.
package checks

import "verif/internal/run"

// Check is one property check.
type Check struct {
	ID    string
	Level string
	Race  bool // needs the -race build
	Run   func(c *run.Ctx)
}

// All is the registry, filled by init() functions of the cXX.go files.
var All = map[string]*Check{}

func register(c *Check) { All[c.ID] = c }
