package checks

import (
	"fmt"
	"sort"
	"strings"

	"github.com/uhn/ggql/pkg/ggql"

	"verif/internal/model"
	"verif/internal/ref"
	"verif/internal/run"
)

// C04Filter is the Go type an application binds the input type Filter to with RegisterType.
type C04Filter struct {
	Min   int32
	Tag   string
	Inner *C04Filter
	List  []*C04Filter
}

type c04RegRoot struct {
	calls []interface{} // what the resolver got for the argument f, as handed over
}

func (r *c04RegRoot) Resolve(field *ggql.Field, args map[string]interface{}) (interface{}, error) {
	if field.Name == "query" {
		return r, nil
	}
	r.calls = append(r.calls, args["f"])
	return "ok", nil
}

// c04RegView renders what is common to the two shapes a Filter reaches a resolver in (a map before the input type is
// bound to a Go type, a *C04Filter after): null and absent optional members look the same in a struct, so they do here.
func c04RegView(v interface{}) string {
	switch t := v.(type) {
	case nil:
		return "null"
	case *C04Filter:
		if t == nil {
			return "null"
		}
		var l []string
		for _, e := range t.List {
			l = append(l, c04RegView(e))
		}
		in := "null"
		if t.Inner != nil {
			in = c04RegView(t.Inner)
		}
		return fmt.Sprintf("{min:%d tag:%q inner:%s list:[%s]}", t.Min, t.Tag, in, strings.Join(l, " "))
	case map[string]interface{}:
		var l []string
		if ll, ok := t["list"].([]interface{}); ok {
			for _, e := range ll {
				l = append(l, c04RegView(e))
			}
		}
		tag, _ := t["tag"].(string)
		return fmt.Sprintf("{min:%s tag:%q inner:%s list:[%s]}", ref.Render(ref.Canon(t["min"])), tag, c04RegView(t["inner"]), strings.Join(l, " "))
	}
	return fmt.Sprintf("?%T(%v)", v, v)
}

// c04Registered: an input type that the application binds to a Go struct (RegisterType) - before the first request or
// between two requests. Input objects are then delivered as that struct, and a struct has no room for what the input
// type does not declare: an undeclared member (at any depth, in a literal, in a variable's value, in a list element)
// must still be refused with the resolver not invoked, and everything declared must arrive as written, on both sides of
// the registration. The verdict for each request comes from the reference coercion of the written value.
func c04Registered(c *run.Ctx) int {
	const sdl = `input Filter { min: Int! tag: String = "x" inner: Filter list: [Filter!] }
type Query { find(f: Filter): String }`
	s := &model.Schema{Query: "Query"}
	fl := model.Named("Filter")
	s.Types = append(s.Types, &model.TypeDef{Kind: model.Input, Name: "Filter", Inputs: []*model.ArgDef{
		{Name: "min", Type: model.NonNullOf(model.Named("Int"))},
		{Name: "tag", Type: model.Named("String"), HasDefault: true, Default: "x"},
		{Name: "inner", Type: fl},
		{Name: "list", Type: model.ListOf(model.NonNullOf(model.Named("Filter")))},
	}})
	done := 0
	for round := 0; round < c.N(150, 30000) && !c.TooMany(); round++ {
		r := c.Rand(1400000 + round)
		// a Filter value: depth-bounded, one defect at most (kind 0 = none)
		var mk func(depth int, defect *int, json bool) interface{}
		mk = func(depth int, defect *int, json bool) interface{} {
			kv := map[string]interface{}{"min": float64(r.Intn(50))}
			if !json {
				kv["min"] = int64(r.Intn(50))
			}
			if r.Intn(2) == 0 {
				kv["tag"] = []string{"a", "", "long tag"}[r.Intn(3)]
			}
			if depth > 0 && r.Intn(2) == 0 {
				kv["inner"] = mk(depth-1, defect, json)
			}
			if depth > 0 && r.Intn(3) == 0 {
				var l []interface{}
				for k := r.Intn(3); k >= 0; k-- {
					l = append(l, mk(depth-1, defect, json))
				}
				kv["list"] = l
			}
			if *defect > 0 && (depth == 0 || r.Intn(3) == 0) {
				switch *defect {
				case 1: // a member the input type does not declare
					kv[[]string{"limit", "Min", "tags", "__typename", "inne"}[r.Intn(5)]] = []interface{}{float64(5), "v", nil, true}[r.Intn(4)]
				case 2: // the required member is missing
					delete(kv, "min")
				case 3: // the required member is null
					kv["min"] = nil
				case 4: // a member of the wrong kind
					kv["min"] = "seven"
				case 5:
					kv["tag"] = map[string]interface{}{"min": float64(1)}
				}
				*defect = -*defect
			}
			if json {
				return kv
			}
			o := model.NewObjLit()
			keys := make([]string, 0, len(kv))
			for k := range kv {
				keys = append(keys, k)
			}
			sort.Strings(keys)
			r.Shuffle(len(keys), func(a, b int) { keys[a], keys[b] = keys[b], keys[a] })
			for _, k := range keys {
				v := kv[k]
				if f, isF := v.(float64); isF {
					v = int64(f)
				}
				o.Set(k, v)
			}
			return o
		}
		ro := &c04RegRoot{}
		root := ggql.NewRoot(ro)
		if err := root.ParseString(sdl); err != nil {
			c.Violation("c04-schema-rejected", map[string]interface{}{"error": err.Error()})
			return done
		}
		regAt := r.Intn(4) // the request before which the application binds Filter (0: before the first)
		var hist []string
		for k := 0; k < 4+r.Intn(4); k++ {
			if k == regAt {
				if err := root.RegisterType(&C04Filter{}, "Filter"); err != nil {
					c.Violation("c04-registered", map[string]interface{}{"diag": "RegisterType refused: " + err.Error()})
					return done
				}
				hist = append(hist, "RegisterType(&C04Filter{}, \"Filter\")")
			}
			defect := 0
			if r.Intn(5) < 3 {
				defect = 1
			} else if r.Intn(2) == 0 {
				defect = 2 + r.Intn(4)
			}
			planted := defect
			form := r.Intn(3)
			var text string
			var vars map[string]interface{}
			var expVal interface{}
			var expErr error
			switch form {
			case 0: // the whole value written in the document
				lit := mk(2, &defect, false)
				doc := &model.Doc{Ops: []*model.Op{{Kind: "query", Sels: []model.Sel{&model.Field{Name: "find", Args: []model.Arg{{Name: "f", Value: lit}}}}}}}
				text = doc.Print(model.LayoutN(round + k))
				expVal, expErr = ref.CoerceIn(s, fl, lit)
			case 1: // the whole value supplied for a variable
				val := mk(2, &defect, true)
				text = `query($f: Filter){ find(f: $f) }`
				vars = map[string]interface{}{"f": val}
				expVal, expErr = ref.CoerceIn(s, fl, deepCopyAny(val))
			default: // a variable one level down inside a literal
				val := mk(1, &defect, true)
				text = `query($in: Filter){ find(f: {min: 3, inner: $in}) }`
				vars = map[string]interface{}{"in": val}
				var cv interface{}
				if cv, expErr = ref.CoerceIn(s, fl, deepCopyAny(val)); expErr == nil {
					expVal, expErr = ref.CoerceIn(s, fl, model.NewObjLit().Set("min", int64(3)).Set("inner", ref.Coerced{V: cv}))
				}
			}
			if defect > 0 {
				planted = 0 // the defect found no place
			}
			ro.calls = nil
			var res map[string]interface{}
			pv, _ := run.Protect(func() { res = root.ResolveString(text, "", vars) })
			hist = append(hist, fmt.Sprintf("%s vars=%s", text, ref.Render(ref.Canon(vars))))
			done++
			c.Eval("registered|"+strings.Join(hist, "|"), planted != 0 || k >= regAt)
			c.Bucket("form", "input-bound-to-struct")
			c.Bucket("registered-input", fmt.Sprintf("bound=%v defect=%d form=%d", k >= regAt, planted, form))
			diag := ""
			hasErr := res != nil && res["errors"] != nil
			switch {
			case pv != nil:
				diag = fmt.Sprint("panic: ", pv)
			case len(ro.calls) > 1:
				diag = "resolver invoked more than once"
			case len(ro.calls) == 0 && !hasErr:
				diag = "resolver not invoked and no error reported"
			case len(ro.calls) == 0:
				if expErr == nil {
					c.Count("rejected_although_coercible(stricter_than_spec)", 1)
				} else {
					c.Count("uncoercible_rejected", 1)
				}
			case expErr != nil:
				diag = "resolver invoked although the value cannot be coerced: " + expErr.Error()
			case c04RegView(ro.calls[0]) != c04RegView(ref.Canon(expVal)) && c04RegView(ro.calls[0]) != c04RegView(expVal):
				diag = fmt.Sprintf("received %s, the client wrote %s", c04RegView(ro.calls[0]), c04RegView(expVal))
			default:
				if _, isStruct := ro.calls[0].(*C04Filter); isStruct != (k >= regAt) && ro.calls[0] != nil {
					diag = fmt.Sprintf("received a %T although bound=%v", ro.calls[0], k >= regAt)
				}
				c.Count("resolver_invocations_checked", 1)
			}
			if diag != "" {
				c.Violation("c04-registered", map[string]interface{}{"sdl": sdl, "history": hist, "diag": diag, "response": fmt.Sprint(res)})
				break
			}
		}
		if round == 0 {
			c.Sample(map[string]interface{}{"history": hist})
		}
	}
	return done
}
