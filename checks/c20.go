package checks

import (
	"encoding/json"
	"fmt"
	"math/rand"
	"os"
	"os/exec"
	"path/filepath"
	"regexp"
	"runtime"
	"sort"
	"strconv"
	"strings"
	"sync"
	"sync/atomic"
	"time"

	"github.com/anishathalye/porcupine"
	"github.com/uhn/ggql/pkg/ggql"

	"verif/internal/model"
	"verif/internal/run"
)

func init() {
	register(&Check{ID: "C20", Level: "exploration", Race: true, Run: runC20})
	childModes["c20"] = c20Child
}

type c20Op struct {
	Client int    `json:"client"`
	Kind   string `json:"kind"` // subscribe | publish | unsubscribe
	Topic  string `json:"topic"`
	Sub    int    `json:"sub,omitempty"`   // subscribe: subscriber id
	Event  int64  `json:"event,omitempty"` // publish: unique event id
	Fails  []int  `json:"fails,omitempty"`
	Call   int64  `json:"call"`
	Ret    int64  `json:"ret"`
	Count  int    `json:"count"`
	Err    bool   `json:"err"`
}

type c20Report struct {
	Histories     int            `json:"histories"`
	Ops           int            `json:"ops"`
	Deliveries    int            `json:"deliveries"`
	Linearizable  int            `json:"linearizable"`
	LinUnknown    int            `json:"lin_unknown"`
	LinChecked    int            `json:"lin_checked"`
	WithFailures  int            `json:"histories_with_failing_subscribers"`
	Doubles       int            `json:"subscription_requests_opening_two_streams"`
	Violations    []c20Violation `json:"violations"`
	Hits          map[string]int `json:"hook_hits"`
	Signatures    int            `json:"distinct_interleaving_signatures"`
	Sample        interface{}    `json:"sample"`
	Overlaps      int            `json:"histories_with_overlapping_ops"`
	TwoFailers    int            `json:"deliveries_failed_by_two_publishers_on_one_subscriber"`
	FailedChecked int            `json:"failed_deliveries_checked_for_removal"`
	UnsubDuringPh int            `json:"unsubscribe_overlapping_a_failing_publish"`
}

type c20Violation struct {
	Kind    string      `json:"kind"`
	Diag    string      `json:"diag"`
	History []c20Op     `json:"history"`
	Extra   interface{} `json:"extra,omitempty"`
}

var evIDRe = regexp.MustCompile(`"id":"e(\d+)"`)

// registry model for porcupine: state is the set of live subscribers "sid:topic" (kept sorted).
type c20In struct {
	Kind  string
	Topic string
	Sub   int
}
type c20Out struct {
	Count int
	Subs  string // publish: sorted subscriber ids that received the event
}

func c20Model() porcupine.Model {
	match := func(subTopic, id string) bool { return subTopic == "*" || subTopic == id }
	return porcupine.Model{
		Init: func() interface{} { return "" },
		Step: func(state, input, output interface{}) (bool, interface{}) {
			st := state.(string)
			in := input.(c20In)
			out := output.(c20Out)
			var entries []string
			if st != "" {
				entries = strings.Split(st, ",")
			}
			switch in.Kind {
			case "subscribe":
				// the outcomes the model predicts (counts, sets of receivers) do not depend on the registration order, so the
				// state is kept as a sorted set: orders of the same subscribes collapse into one state for the checker
				entries = append(entries, fmt.Sprintf("%d:%s", in.Sub, in.Topic))
				sort.Strings(entries)
				return true, strings.Join(entries, ",")
			case "publish":
				var ids []string
				for _, e := range entries {
					p := strings.SplitN(e, ":", 2)
					if match(p[1], in.Topic) {
						ids = append(ids, p[0])
					}
				}
				sort.Strings(ids)
				return out.Count == len(ids) && out.Subs == strings.Join(ids, " "), st
			case "unsubscribe":
				var keep []string
				n := 0
				for _, e := range entries {
					p := strings.SplitN(e, ":", 2)
					if match(p[1], in.Topic) {
						n++
					} else {
						keep = append(keep, e)
					}
				}
				return out.Count == n, strings.Join(keep, ",")
			}
			return false, st
		},
		Equal: func(a, b interface{}) bool { return a.(string) == b.(string) },
		DescribeOperation: func(input, output interface{}) string {
			return fmt.Sprintf("%+v -> %+v", input, output)
		},
	}
}

func c20Child(args []string) int {
	if len(args) < 4 {
		return 2
	}
	var seed int64
	var from, to int
	fmt.Sscan(args[0], &seed)
	fmt.Sscan(args[1], &from)
	fmt.Sscan(args[2], &to)
	reportPath := args[3]
	ys.r = rand.New(rand.NewSource(seed ^ int64(from)*104729))
	ys.on = true
	ggql.VerifYield = ys.hook
	rep := &c20Report{Hits: map[string]int{}}
	sigs := map[string]bool{}
	var progress int64
	go func() {
		last := int64(-1)
		still := 0
		for {
			time.Sleep(2 * time.Second)
			p := atomic.LoadInt64(&progress)
			if p == last {
				still++
			} else {
				still = 0
			}
			last = p
			if still >= 10 {
				for k := 0; k < 2; k++ {
					buf := make([]byte, 1<<22)
					n := runtime.Stack(buf, true)
					fmt.Fprintf(os.Stderr, "=== STALL DUMP %d (progress %d) ===\n%s\n", k, p, buf[:n])
					time.Sleep(5 * time.Second)
				}
				os.Exit(3)
			}
		}
	}()
	topics := []string{"a", "b", "*"}
	lin := c20Model()
	for h := from; h < to; h++ {
		r := rand.New(rand.NewSource(seed*1000003 + int64(h)))
		var clock int64
		lg := &subLog{cleanups: map[int][]int64{}, clock: &clock}
		ro := &c20Root{log: lg, pending: map[string]*hSub{}}
		root := ggql.NewRoot(ro)
		if err := root.ParseString(subSDL); err != nil {
			return 2
		}
		ro.root = root
		clients := 4 + r.Intn(5)
		scenario := h % 4 // 0 mixed, 1 failure-free (linearizability), 2 two publishers failing on one subscriber, 3 unsubscribe racing clean-up
		var nextSub int32
		var nextEvent int64
		var doubles int64
		type plan struct {
			kind   string
			topic  string
			fails  []int
			also   string // subscribe: when set the SAME request opens a second stream on this topic (second root field, through a fragment)
			refuse bool   // with also: a third root field fails, the request is answered with an error and subscribes nobody
		}
		plans := make([][]plan, clients)
		total := 0
		for ci := range plans {
			n := 2 + r.Intn(5)
			for k := 0; k < n && total < 40; k++ {
				p := plan{topic: topics[r.Intn(len(topics))]}
				switch x := r.Intn(10); {
				case x < 3 || (k == 0 && ci < 2):
					p.kind = "subscribe"
					if scenario != 1 && r.Intn(3) == 0 {
						p.fails = []int{r.Intn(3)}
					}
					if scenario == 2 && ci == 0 && k == 0 {
						p.topic, p.fails = "*", []int{0, 1, 2}
					} else if scenario == 3 && ci < 3 && k == 0 {
						// several subscribers that fail in the same publish, registered one after the other, on topics that ONE
						// unsubscribe call does not all match: that call can take the first of them away between the two phases
						p.topic, p.fails = []string{"*", "a", "b"}[ci], []int{0, 1}
					} else if r.Intn(5) == 0 {
						p.also = topics[r.Intn(len(topics))]
						p.refuse = r.Intn(4) == 0
						if p.refuse {
							p.fails = nil
						}
					}
				case x < 8:
					p.kind = "publish"
					if p.topic == "*" {
						p.topic = "a"
					}
				default:
					p.kind = "unsubscribe"
					if scenario == 3 && r.Intn(2) == 0 {
						p.topic = "*" // matches only the subscribers of every topic
					}
				}
				plans[ci] = append(plans[ci], p)
				total++
			}
		}
		ops := make([][]c20Op, clients)
		start := make(chan struct{})
		var wg sync.WaitGroup
		ys.signature()
		for ci := 0; ci < clients; ci++ {
			wg.Add(1)
			go func(ci int) {
				defer wg.Done()
				<-start
				for _, p := range plans[ci] {
					op := c20Op{Client: ci, Kind: p.kind, Topic: p.topic}
					switch p.kind {
					case "subscribe":
						sid := int(atomic.AddInt32(&nextSub, 1)) - 1
						hs := &hSub{sid: sid, log: lg, failOn: map[int]bool{}, topic: p.topic}
						for _, f := range p.fails {
							hs.failOn[f] = true
						}
						op.Sub, op.Fails = sid, p.fails
						key := fmt.Sprintf("k%d", sid)
						ro.mu.Lock()
						ro.pending[key] = hs
						ro.mu.Unlock()
						text := `subscription { listen(topic: "` + key + `|` + p.topic + `") { id n inner { v } } }`
						var op2 *c20Op
						if p.also != "" {
							// one request, two root fields, two subscribers: both are registered when the request has returned
							sid2 := int(atomic.AddInt32(&nextSub, 1)) - 1
							hs2 := &hSub{sid: sid2, log: lg, failOn: map[int]bool{}, topic: p.also}
							key2 := fmt.Sprintf("k%d", sid2)
							ro.mu.Lock()
							ro.pending[key2] = hs2
							ro.mu.Unlock()
							op2 = &c20Op{Client: ci, Kind: "subscribe", Topic: p.also, Sub: sid2}
							text = `subscription { s1: listen(topic: "` + key + `|` + p.topic + `") { id n inner { v } } ...Two } fragment Two on Subscription { s2: listen(topic: "` + key2 + `|` + p.also + `") { id n inner { v } } }`
							atomic.AddInt64(&doubles, 1)
							if p.refuse {
								text = strings.Replace(text, "...Two }", "...Two s3: fail(topic: \"x\") { id } }", 1)
								op.Kind, op2.Kind = "subscribe-refused", "subscribe-refused"
							}
						}
						op.Call = atomic.AddInt64(&clock, 1)
						res := root.ResolveString(text, "", nil)
						op.Ret = atomic.AddInt64(&clock, 1)
						_, op.Err = res["errors"]
						if p.refuse {
							op.Err = !op.Err // for a refused request the anomaly is the absence of an error
						}
						if op2 != nil {
							op2.Call, op2.Ret, op2.Err = op.Call, op.Ret, op.Err
							ops[ci] = append(ops[ci], *op2)
						}
					case "publish":
						uid := atomic.AddInt64(&nextEvent, 1)
						op.Event = uid
						ev := &subEvent{uid: uid, id: fmt.Sprintf("e%d", uid), n: int(uid), tag: "t", v: 1}
						op.Call = atomic.AddInt64(&clock, 1)
						cnt, err := root.AddEvent(p.topic, ev)
						op.Ret = atomic.AddInt64(&clock, 1)
						op.Count, op.Err = cnt, err != nil
					case "unsubscribe":
						op.Call = atomic.AddInt64(&clock, 1)
						op.Count = root.Unsubscribe(p.topic)
						op.Ret = atomic.AddInt64(&clock, 1)
					}
					ops[ci] = append(ops[ci], op)
					atomic.AddInt64(&progress, 1)
				}
			}(ci)
		}
		close(start)
		wg.Wait()
		rep.Doubles += int(atomic.LoadInt64(&doubles))
		sigs[ys.signature()] = true
		var all []c20Op
		for _, l := range ops {
			all = append(all, l...)
		}
		sort.Slice(all, func(i, j int) bool { return all[i].Call < all[j].Call })
		rep.Histories++
		rep.Ops += len(all)
		lg.mu.Lock()
		dels := append([]delivery{}, lg.deliveries...)
		cleanups := map[int][]int64{}
		for k, v := range lg.cleanups {
			cleanups[k] = append([]int64{}, v...)
		}
		lg.mu.Unlock()
		rep.Deliveries += len(dels)
		viol := func(kind, diag string, extra interface{}) {
			if len(rep.Violations) < 10 {
				rep.Violations = append(rep.Violations, c20Violation{Kind: kind, Diag: diag, History: all, Extra: extra})
			}
		}
		// attribute deliveries to events through the unique id inside the message
		for i := range dels {
			if m := evIDRe.FindStringSubmatch(dels[i].Msg); m != nil {
				dels[i].Event, _ = strconv.ParseInt(m[1], 10, 64)
			} else {
				viol("message", fmt.Sprintf("delivery to subscriber %d carries no event id: %s", dels[i].Sub, dels[i].Msg), nil)
			}
		}
		overl := false
		for i := range all {
			for j := i + 1; j < len(all); j++ {
				if all[j].Call < all[i].Ret {
					overl = true
				}
			}
		}
		if overl {
			rep.Overlaps++
		}
		subOp := map[int]c20Op{}
		refusedSub := map[int]bool{}
		for _, o := range all {
			if o.Kind == "subscribe-refused" {
				refusedSub[o.Sub] = true
				if o.Err {
					viol("refused-subscription-without-error", fmt.Sprintf("the request that made subscriber %d had a failing root field but reported no error", o.Sub), nil)
				}
			}
		}
		for _, d := range dels {
			if refusedSub[d.Sub] {
				viol("delivery-to-refused-subscriber", fmt.Sprintf("subscriber %d received e%d although the request that made it was answered with an error", d.Sub, d.Event), nil)
			}
		}
		for sid := range cleanups {
			if refusedSub[sid] && len(cleanups[sid]) > 0 {
				viol("cleanup-of-refused-subscriber", fmt.Sprintf("subscriber %d was never subscribed but cleaned up", sid), nil)
			}
		}
		for _, o := range all {
			if o.Kind == "subscribe" {
				subOp[o.Sub] = o
				if o.Err {
					viol("subscribe-rejected", fmt.Sprintf("subscription request of subscriber %d reported errors", o.Sub), nil)
				}
			}
		}
		// (1) at most one delivery per (event, subscriber); message content
		seen := map[[2]int64]int{}
		perEvent := map[int64][]int{}
		failsBy := map[[2]int64]bool{}
		for _, d := range dels {
			k := [2]int64{d.Event, int64(d.Sub)}
			seen[k]++
			if seen[k] > 1 {
				viol("duplicate-delivery", fmt.Sprintf("event e%d delivered %d times to subscriber %d", d.Event, seen[k], d.Sub), nil)
			}
			perEvent[d.Event] = append(perEvent[d.Event], d.Sub)
			want := fmt.Sprintf(`{"id":"e%d","inner":{"v":1},"n":%d}`, d.Event, d.Event)
			if d.Msg != want {
				viol("message", fmt.Sprintf("subscriber %d received %s, expected %s", d.Sub, d.Msg, want), nil)
			}
			if so, has := subOp[d.Sub]; has {
				if !(so.Topic == "*") {
					// the event's topic must match the subscriber's
					for _, o := range all {
						if o.Kind == "publish" && o.Event == d.Event && o.Topic != so.Topic {
							viol("wrong-topic", fmt.Sprintf("event e%d published on %s reached subscriber %d listening on %s", d.Event, o.Topic, d.Sub, so.Topic), nil)
						}
					}
				}
				if d.Stamp < so.Call {
					viol("delivery-before-subscribe", fmt.Sprintf("subscriber %d received e%d before its subscription was requested", d.Sub, d.Event), nil)
				}
			}
			if d.Fail {
				failsBy[k] = true
			}
		}
		// (2) at most one clean-up per subscriber
		for sid, st := range cleanups {
			if len(st) > 1 {
				viol("double-cleanup", fmt.Sprintf("subscriber %d cleaned up %d times", sid, len(st)), nil)
			}
		}
		// failing deliveries per subscriber (two publishers failing on one subscriber)
		failCount := map[int]int{}
		for _, d := range dels {
			if d.Fail {
				failCount[d.Sub]++
			}
		}
		hasFailures := false
		for _, n := range failCount {
			hasFailures = true
			if n >= 2 {
				rep.TwoFailers++
			}
		}
		if hasFailures {
			rep.WithFailures++
		}
		// (3) nothing delivered after the unsubscribe that removed the subscriber has returned
		for sid, st := range cleanups {
			if len(st) == 0 {
				continue
			}
			tc := st[0]
			for _, o := range all {
				if o.Kind == "unsubscribe" && o.Call < tc && tc < o.Ret {
					for _, d := range dels {
						if d.Sub == sid && d.Stamp > o.Ret {
							viol("delivery-after-unsubscribe", fmt.Sprintf("subscriber %d received e%d (stamp %d) after the unsubscribe that removed it returned (stamp %d)", sid, d.Event, d.Stamp, o.Ret), nil)
						}
					}
					for _, p := range all {
						if p.Kind == "publish" && p.Err && p.Call < o.Ret && o.Call < p.Ret {
							rep.UnsubDuringPh++
							break
						}
					}
				}
			}
			// a live subscriber is never cleaned up without a cause: an enclosing unsubscribe or a failed delivery before tc
			caused := failCount[sid] > 0
			for _, o := range all {
				if o.Kind == "unsubscribe" && o.Call < tc && tc < o.Ret {
					caused = true
				}
			}
			if !caused {
				viol("spurious-cleanup", fmt.Sprintf("subscriber %d was cleaned up without an unsubscribe or failed delivery", sid), nil)
			}
		}
		// (7) a subscriber whose delivery failed is gone when the publish that failed on it has returned: its clean-up was
		// called (once, by whoever removed it - that publish, another publish or an unsubscribe; all of them work under the
		// registry lock) and nothing reaches it afterwards
		for _, p := range all {
			if p.Kind != "publish" {
				continue
			}
			for _, sid := range perEvent[p.Event] {
				if !failsBy[[2]int64{p.Event, int64(sid)}] {
					continue
				}
				rep.FailedChecked++
				if st := cleanups[sid]; len(st) == 0 || st[0] > p.Ret {
					viol("failed-subscriber-kept", fmt.Sprintf("delivery of e%d to subscriber %d failed; when that publish had returned (stamp %d) the subscriber's clean-up had not been called (clean-ups %v)", p.Event, sid, p.Ret, st), nil)
				}
				for _, d := range dels {
					if d.Sub == sid && d.Stamp > p.Ret {
						viol("delivery-after-failed-delivery", fmt.Sprintf("subscriber %d received e%d (stamp %d) after the publish of e%d that failed on it had returned (stamp %d)", sid, d.Event, d.Stamp, p.Event, p.Ret), nil)
					}
				}
			}
		}
		// (4) an event published after a subscription returned (and finished before anything could remove the subscriber) reaches it
		for _, p := range all {
			if p.Kind != "publish" {
				continue
			}
			got := map[int]bool{}
			for _, sid := range perEvent[p.Event] {
				got[sid] = true
			}
			// (5) the reported count equals the deliveries of this event
			if p.Count != len(perEvent[p.Event]) {
				viol("count", fmt.Sprintf("publish of e%d reported %d, %d deliveries observed", p.Event, p.Count, len(perEvent[p.Event])), nil)
			}
			for sid, so := range subOp {
				if so.Err || !(so.Topic == "*" || so.Topic == p.Topic) || so.Ret > p.Call {
					continue
				}
				// anything that may have removed the subscriber before the publish ended?
				removable := false
				for _, o := range all {
					if o.Kind == "unsubscribe" && (o.Topic == so.Topic || so.Topic == "*" || o.Topic == "*") && o.Call < p.Ret {
						removable = true
					}
				}
				for _, d := range dels {
					if d.Sub == sid && d.Fail && d.Stamp < p.Ret {
						removable = true
					}
				}
				if len(cleanups[sid]) > 0 && cleanups[sid][0] < p.Ret {
					removable = true
				}
				if !removable && !got[sid] {
					viol("lost-delivery", fmt.Sprintf("e%d was published on %s after subscriber %d (topic %s) was registered and before anything could remove it, but was not delivered", p.Event, p.Topic, sid, so.Topic), nil)
				}
			}
		}
		// (6) linearizability of failure-free histories against the registry model
		if !hasFailures {
			var pops []porcupine.Operation
			for _, o := range all {
				if o.Kind == "subscribe-refused" {
					continue // no effect on the registry
				}
				in := c20In{Kind: o.Kind, Topic: o.Topic, Sub: o.Sub}
				out := c20Out{Count: o.Count}
				if o.Kind == "publish" {
					ids := []string{}
					for _, sid := range perEvent[o.Event] {
						ids = append(ids, fmt.Sprint(sid))
					}
					sort.Strings(ids)
					out.Subs = strings.Join(ids, " ")
				}
				pops = append(pops, porcupine.Operation{ClientId: o.Client, Input: in, Call: o.Call, Output: out, Return: o.Ret})
			}
			rep.LinChecked++
			atomic.AddInt64(&progress, 1) // the checker may think for a while: not a stall of the workload
			switch porcupine.CheckOperationsTimeout(lin, pops, 15*time.Second) {
			case porcupine.Ok:
				rep.Linearizable++
			case porcupine.Illegal:
				viol("not-linearizable", "no sequential order of the recorded calls explains the observed counts and delivery sets", nil)
			default:
				rep.LinUnknown++
			}
		}
		if h == from {
			rep.Sample = map[string]interface{}{"history": all, "deliveries": len(dels), "clients": clients, "scenario": scenario}
		}
	}
	ys.mu.Lock()
	for k, v := range ys.hits {
		rep.Hits[k] = v
	}
	ys.mu.Unlock()
	rep.Signatures = len(sigs)
	b, _ := json.Marshal(rep)
	_ = os.WriteFile(reportPath, b, 0o644)
	return 0
}

// c20Root creates subscribers looked up by the key embedded in the topic argument ("k<sid>|<topic>").
type c20Root struct {
	mu      sync.Mutex
	log     *subLog
	pending map[string]*hSub
	// root, when set, is used by every third subscription resolver the way a "newest stream of a client replaces the old
	// one" server does: it calls Unsubscribe (with an id nobody matches, so the history is the same) before it makes the
	// new stream. Resolvers are application code running outside the registry's critical sections.
	root *ggql.Root
}

func (r *c20Root) Resolve(field *ggql.Field, args map[string]interface{}) (interface{}, error) {
	if field.Name == "subscription" {
		return &c20Subs{r}, nil
	}
	return &subQuery{}, nil
}

type c20Subs struct{ r *c20Root }

func (s *c20Subs) Resolve(field *ggql.Field, args map[string]interface{}) (interface{}, error) {
	if field.Name == "fail" {
		return nil, fmt.Errorf("the application refuses this stream")
	}
	t, _ := args["topic"].(string)
	parts := strings.SplitN(t, "|", 2)
	s.r.mu.Lock()
	h := s.r.pending[parts[0]]
	delete(s.r.pending, parts[0])
	s.r.mu.Unlock()
	if h == nil {
		return nil, fmt.Errorf("harness: no subscriber prepared for %q", t)
	}
	if s.r.root != nil && h.sid%3 == 0 {
		_ = s.r.root.Unsubscribe("B:zz-nobody-listens-to-this")
		_, _ = s.r.root.AddEvent("B:zz-nobody-listens-to-this", 1)
	}
	return ggql.NewSubscription(h, field, args), nil
}

func runC20(c *run.Ctx) {
	c.Rule = "concurrent histories (4-8 client goroutines, <=40 calls) of subscribe/publish/unsubscribe on one root under -race, every call recorded at the client boundary with call/return stamps from one atomic " +
		"counter, every event and subscriber with a unique id, subscribers stamping each delivery and clean-up; scenarios steered to failure-free runs, two publishers failing on one subscriber and unsubscribe racing " +
		"the clean-up phase. Monitors: race detector log; trace invariants (<=1 delivery per (event,subscriber), <=1 clean-up per subscriber, nothing delivered after the removing unsubscribe returned, an event " +
		"published after a subscription returned reaches it, publish count = deliveries, message = subscriber's selection of the event); porcupine linearizability of failure-free histories against the registry model " +
		"(timeout => inconclusive); stall/deadlock snapshot monitor. A history is non-trivial when two calls overlap in time; distinct by (seed, history index)"
	hist := c.N(800, 300000)
	procs := c.N(8, 16)
	work := filepath.Join(run.VerifDir(), ".work", fmt.Sprintf("c20-%d", os.Getpid()))
	_ = os.MkdirAll(work, 0o755)
	defer os.RemoveAll(work)
	self, _ := os.Executable()
	per := (hist + procs - 1) / procs
	type cres struct {
		k    int
		rep  *c20Report
		exit int
		out  string
	}
	ch := make(chan cres, procs)
	for k := 0; k < procs; k++ {
		go func(k int) {
			from, to := k*per, (k+1)*per
			if to > hist {
				to = hist
			}
			rp := filepath.Join(work, fmt.Sprintf("report-%d.json", k))
			op := filepath.Join(work, fmt.Sprintf("out-%d.txt", k))
			of, _ := os.Create(op)
			cmd := exec.Command(self, "child", "c20", fmt.Sprint(c.Seed), fmt.Sprint(from), fmt.Sprint(to), rp)
			cmd.Stdout, cmd.Stderr = of, of
			cmd.Env = append(os.Environ(), "GORACE=halt_on_error=0 log_path="+filepath.Join(work, fmt.Sprintf("race-%d", k)), "GOTRACEBACK=all")
			res := cres{k: k}
			if err := cmd.Start(); err == nil {
				done := make(chan error, 1)
				go func() { done <- cmd.Wait() }()
				select {
				case err := <-done:
					if ee, isEE := err.(*exec.ExitError); isEE {
						res.exit = ee.ExitCode()
					}
				case <-time.After(time.Duration(c.N(600, 3000)) * time.Second):
					_ = cmd.Process.Kill()
					<-done
					res.exit = -2
				}
			} else {
				res.exit = -1
			}
			of.Close()
			if b, err := os.ReadFile(rp); err == nil {
				var rep c20Report
				if json.Unmarshal(b, &rep) == nil {
					res.rep = &rep
				}
			}
			ob, _ := os.ReadFile(op)
			res.out = string(ob)
			ch <- res
		}(k)
	}
	hits := map[string]int{}
	tot := c20Report{}
	for k := 0; k < procs; k++ {
		res := <-ch
		if res.rep == nil {
			switch {
			case res.exit == 3 && c12AllBlockedOnMutex(res.out):
				c.Violation("c20-deadlock", map[string]interface{}{"diag": "all goroutines running ggql frames are parked in Mutex.Lock in two dumps 5 s apart", "dump": clip(res.out, 8000)})
			case strings.Contains(res.out, "fatal error:"):
				c.Violation("c20-fatal", map[string]interface{}{"diag": firstLineWith(res.out, "fatal error:"), "output": clip(res.out, 8000)})
			case c20PanicInGgql(res.out):
				// a panic inside a registry call took the client goroutine (and the process) down: "any number of goroutines may ..."
				c.Violation("c20-panic", map[string]interface{}{"diag": firstLineWith(res.out, "panic:"), "output": clip(res.out, 8000)})
			default:
				c.Inconclusive(fmt.Sprintf("child %d ended without a report (exit %d)", res.k, res.exit))
			}
			continue
		}
		r := res.rep
		tot.Histories += r.Histories
		tot.Ops += r.Ops
		tot.Deliveries += r.Deliveries
		tot.Linearizable += r.Linearizable
		tot.LinUnknown += r.LinUnknown
		tot.LinChecked += r.LinChecked
		tot.WithFailures += r.WithFailures
		tot.Doubles += r.Doubles
		tot.Signatures += r.Signatures
		tot.Overlaps += r.Overlaps
		tot.TwoFailers += r.TwoFailers
		tot.FailedChecked += r.FailedChecked
		tot.UnsubDuringPh += r.UnsubDuringPh
		for s, n := range r.Hits {
			hits[s] += n
		}
		for _, v := range r.Violations {
			c.Violation("c20-"+v.Kind, map[string]interface{}{"diag": v.Diag, "history": v.History, "extra": v.Extra})
		}
		if r.Sample != nil {
			c.Sample(r.Sample)
		}
		for i := 0; i < r.Histories; i++ {
			c.Eval(fmt.Sprintf("child %d history %d seed %d", res.k, i, c.Seed), i < r.Overlaps)
		}
		for i := 0; i < r.LinUnknown; i++ {
			c.Inconclusive("porcupine timed out on a history")
		}
	}
	reports, totalRaces := parseRaceLogs(filepath.Join(work, "race-*"))
	keys := make([]string, 0, len(reports))
	for k := range reports {
		keys = append(keys, k)
	}
	sort.Strings(keys)
	for _, k := range keys {
		c.Violation("c20-data-race", map[string]interface{}{"frames": k, "report": reports[k]})
	}
	c.Set("race_reports_total", totalRaces)
	c.Set("histories", tot.Histories)
	c.Set("client_calls_recorded", tot.Ops)
	c.Set("deliveries_observed", tot.Deliveries)
	c.Set("histories_with_overlapping_calls", tot.Overlaps)
	c.Set("histories_checked_by_porcupine", tot.LinChecked)
	c.Set("histories_linearizable", tot.Linearizable)
	c.Set("histories_porcupine_unknown", tot.LinUnknown)
	c.Set("histories_with_failing_subscribers", tot.WithFailures)
	c.Set("subscription_requests_opening_two_streams", tot.Doubles)
	// what the registry holds are subscriptions, not subscribers: the sequential history with one Subscriber value behind two
	// subscriptions (C19) is part of what a concurrent history must be explainable by
	c19SharedSubscriber(c, "c20-shared-subscriber")
	c.Set("subscribers_failed_on_by_two_or_more_deliveries", tot.TwoFailers)
	c.Set("failed_deliveries_checked_for_removal_by_the_end_of_their_publish", tot.FailedChecked)
	c.Set("unsubscribes_overlapping_a_failing_publish", tot.UnsubDuringPh)
	c.Set("hook_hits_per_site", hits)
	c.Set("distinct_interleaving_signatures", tot.Signatures)
	c.MinNontriv = hist / 4
	for _, site := range []string{"subscribe", "Unsubscribe", "AddEvent", "AddEvent.cleanup"} {
		if hits[site] == 0 {
			c.Inconclusive("hook site never reached: " + site)
			c.MinNontriv = hist + 1
		}
	}
}

var _ = model.Scalar

// c20PanicInGgql: the child died of a Go panic whose goroutine trace starts inside ggql (not in the harness).
func c20PanicInGgql(out string) bool {
	i := strings.Index(out, "\npanic: ")
	if i < 0 && !strings.HasPrefix(out, "panic: ") {
		return false
	}
	if i < 0 {
		i = 0
	}
	rest := out[i:]
	j := strings.Index(rest, "goroutine ")
	if j < 0 {
		return false
	}
	trace := rest[j:]
	if k := strings.Index(trace, "\n\n"); k > 0 {
		trace = trace[:k]
	}
	g := strings.Index(trace, "github.com/uhn/ggql/pkg/ggql.")
	v := strings.Index(trace, "verif/")
	return g >= 0 && (v < 0 || g < v)
}
