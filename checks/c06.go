package checks

import (
	"fmt"
	"github.com/uhn/ggql/pkg/ggql"
	"math/rand"
	"sort"
	"strings"

	"verif/internal/back"
	"verif/internal/gen"
	"verif/internal/model"
	"verif/internal/ref"
	"verif/internal/run"
	"verif/internal/zoo"
)

func init() {
	register(&Check{ID: "C06", Level: "fault_enumeration", Run: runC06})
}

// c06BadLeaf returns a value that cannot be represented in the named built-in leaf type.
func c06BadLeaf(name string) (interface{}, bool) {
	switch name {
	case "Float":
		return 1e300, true // finite, but not representable as the 32-bit Float
	case "Int", "Int64", "Float64", "Boolean":
		return "not-a-" + name, true
	case "Time":
		return "not-a-time", true
	}
	return nil, false
}

type leafSite struct {
	node  *model.Node
	field string
	idx   []int // indexes into nested lists (empty: the field value itself)
	typ   string
}

// c06LeafSites lists leaf positions of built-in types that hold a non-null value.
func c06LeafSites(s *model.Schema, g *model.Graph) []leafSite {
	var out []leafSite
	for _, n := range g.Nodes[1:] {
		td := s.Type(n.Type)
		if td == nil {
			continue
		}
		for _, f := range td.Fields {
			base := f.Type.Base()
			if _, okb := c06BadLeaf(base); !okb {
				continue
			}
			var walk func(v interface{}, idx []int)
			walk = func(v interface{}, idx []int) {
				switch t := v.(type) {
				case nil:
				case model.VList:
					for i, e := range t {
						walk(e, append(append([]int{}, idx...), i))
					}
				default:
					out = append(out, leafSite{node: n, field: f.Name, idx: idx, typ: base})
				}
			}
			walk(n.F[f.Name], nil)
		}
	}
	return out
}

func setLeaf(v interface{}, idx []int, nv interface{}) interface{} {
	if len(idx) == 0 {
		return nv
	}
	l := v.(model.VList)
	cp := append(model.VList{}, l...)
	cp[idx[0]] = setLeaf(l[idx[0]], idx[1:], nv)
	return cp
}

func runC06(c *run.Ctx) {
	c.Rule = "for each generated tuple: one clean run gives the resolver call log; then EVERY invocation is made to fail in turn (plain error / ggql.Errors group / *ggql.Error; " +
		"list accessor failure under the any strategy; a leaf value that cannot be coerced), plus sampled pairs and triples; oracle: reference executor with the same fault plan " +
		"(exact multiset of error paths, null at the failed position, all other positions equal); a faulted run is non-trivial when the failing site is below the top level or inside a list/fragment/alias; " +
		"distinct by (document, back-end, fault plan)"
	nt := c.N(300, 4000)
	fragseg := c.Open("K-C06-fragseg")
	sites := 0
	for i := 0; i < nt && !c.TooMany(); i++ {
		r := c.Rand(i)
		kinds := []string{"iface", "any", "mixed-any", "reflect", "mixed-reflect"}
		kind := kinds[i%len(kinds)]
		refl := kind == "reflect" || kind == "mixed-reflect"
		// every third case may be a mutation: several root fields resolved one after the other, each failure its own entry
		ec := newExecCase(r, gen.SchemaOpts{Args: !refl, Mutation: i%3 == 1},
			gen.DocOpts{Frags: true, Dirs: i%3 == 0, Vars: true, Aliases: true, Depth: 2 + r.Intn(3), DupKeys: i%4 == 2, Mutation: i%3 == 1})
		if refl && !back.ReflectFriendly(ec.S) {
			continue
		}
		h, err := back.Build(kind, ec.S, ec.SDL, ec.G)
		if err != nil {
			c.Violation("c06-schema-rejected", ec.replay(kind, "", map[string]interface{}{"error": err.Error()}))
			continue
		}
		rq := Request{Text: ec.Text, OpName: ec.DC.OpName, Vars: ec.DC.Vars, Entry: i}
		clean := Do(h, rq, nil)
		exp0 := ref.Execute(ec.S, ec.DC.Doc, rq.OpName, rq.Vars, ec.G, nil, ref.Flags{})
		if d := Compare(exp0, clean, CompareOpts{}); d != "" {
			// the failure-free run itself disagrees: that is C01's subject, not a C06 verdict
			c.Count("clean_run_disagreements_skipped", 1)
			continue
		}
		// a response key selected twice makes ggql call the resolver twice; an application fails at a (node, field), not at
		// the n-th call for it, so in such documents a planted fault fires at every call with its key
		dup := ec.DC.Feats["dup-key"]
		check := func(tag string, plan model.FaultPlan, g *model.Graph, hh *back.Harness, nontriv bool) {
			fl := ref.Flags{}
			hh.AllOcc = dup
			if dup {
				if strings.HasPrefix(tag, "nth") {
					return
				}
				p0 := model.FaultPlan{}
				for k, f := range plan {
					k.Occ = 0
					p0[k] = f
				}
				plan, fl.AllOcc = p0, true
				c.Bucket("doc_features", "repeated-response-key-with-faults")
			}
			sites++
			exp := ref.Execute(ec.S, ec.DC.Doc, rq.OpName, rq.Vars, g, plan, fl)
			out := Do(hh, rq, plan)
			c.Eval(fmt.Sprintf("%s|%s|%v|%s", ec.Text, kind, plan, tag), nontriv)
			c.Bucket("fault_kind", tag)
			c.Bucket("backend", kind)
			c.Count("error_entries_observed", len(out.ErrPaths))
			if sites%500 == 1 {
				c.Sample(map[string]interface{}{"document": ec.Text, "backend": kind, "fault": fmt.Sprint(plan), "tag": tag, "expected": exp.Describe()})
			}
			diff := Compare(exp, out, CompareOpts{})
			if diff == "" {
				return
			}
			if fragseg {
				flm := fl
				flm.SpreadMarks = true
				if d2 := Compare(exp, out, CompareOpts{StripFragSeg: true}); d2 == "" && fragSegsAtSpreads(ec.DC.Doc, out) &&
					fragSegsNameTheirSpread(ref.Execute(ec.S, ec.DC.Doc, rq.OpName, rq.Vars, g, plan, flm), out) {
					c.Known("K-C06-fragseg", map[string]interface{}{"document": ec.Text, "fault": fmt.Sprint(plan), "observed_paths": out.Describe()["error_paths"]})
					return
				}
			}
			c.Violation("c06-"+tag, ec.replay(kind, rq.OpName, map[string]interface{}{"fault": fmt.Sprint(plan), "diff": diff,
				"expected": exp.Describe(), "observed": out.Describe()}))
		}
		// every single invocation fails in turn
		for k, cl := range clean.Calls {
			var faults []model.Fault
			all := []model.Fault{{Kind: "error"}, {Kind: "group", N: 2 + k%2}, {Kind: "gerror"}, {Kind: "sentinel"}, {Kind: "wgroup", N: 2 + k%2}, {Kind: "ngroup", N: 1 + k%3}, {Kind: "plainresolve"}}
			if c.Thorough() {
				faults = all
			} else {
				faults = []model.Fault{all[(i+k)%5]}
				if (i+k)%4 == 1 {
					faults = append(faults, all[6])
				}
				if (i+k)%3 == 0 {
					faults = append(faults, all[5])
				}
			}
			nontriv := k > 0 && (len(exp0.Calls) > k && len(exp0.Calls[k].Path) > 1)
			for _, f := range faults {
				check(f.Kind, model.FaultPlan{cl.Key: f}, ec.G, h, nontriv)
			}
		}
		// list accessor failures (AnyResolver.Nth has an error channel)
		if kind == "any" {
			for k, cl := range exp0.Calls {
				if k == 0 {
					continue
				}
				n := ec.G.Nodes[cl.Key.Node]
				if l, isL := n.F[cl.Key.Field].(model.VList); isL && len(l) > 0 {
					check("nth", model.FaultPlan{cl.Key: model.Fault{Kind: "nth", N: r.Intn(len(l))}}, ec.G, h, true)
				}
			}
		}
		// a member failing below element k of an accessor list together with the accessor failing at k+1
		if kind == "any" {
			for _, cl := range exp0.Calls {
				if len(cl.Path) == 0 {
					continue
				}
				n := ec.G.Nodes[cl.Key.Node]
				l, isL := n.F[cl.Key.Field].(model.VList)
				if !isL || len(l) < 2 {
					continue
				}
				k := r.Intn(len(l) - 1)
				en, isNode := l[k].(*model.Node)
				if !isNode || en == nil {
					continue
				}
				// a call made on element k below this list
				for _, c2 := range exp0.Calls {
					if c2.Key.Node == en.ID && len(c2.Path) == len(cl.Path)+2 && pathKey(c2.Path[:len(cl.Path)]) == pathKey(cl.Path) {
						check("nth+member", model.FaultPlan{cl.Key: model.Fault{Kind: "nth", N: k + 1}, c2.Key: model.Fault{Kind: "error"}}, ec.G, h, true)
						break
					}
				}
			}
		}
		// pairs and triples
		if len(clean.Calls) >= 3 {
			for m := 0; m < c.N(2, 6); m++ {
				plan := model.FaultPlan{}
				for j := 0; j < 2+m%2; j++ {
					cl := clean.Calls[1+r.Intn(len(clean.Calls)-1)]
					plan[cl.Key] = model.Fault{Kind: []string{"error", "group", "gerror", "sentinel", "sentinel", "wgroup", "ngroup"}[r.Intn(7)], N: 2}
				}
				check(fmt.Sprintf("multi-%d", len(plan)), plan, ec.G, h, true)
			}
		}
		// output coercion failures: one reachable leaf replaced by an unrepresentable value
		ls := c06LeafSites(ec.S, ec.G)
		for m := 0; m < c.N(2, 8) && len(ls) > 0; m++ {
			site := ls[r.Intn(len(ls))]
			bad, _ := c06BadLeaf(site.typ)
			g2 := cloneGraph(ec.G)
			n2 := g2.Nodes[site.node.ID]
			n2.F[site.field] = setLeaf(n2.F[site.field], site.idx, bad)
			h2, err := back.Build(kind, ec.S, ec.SDL, g2)
			if err != nil {
				continue
			}
			check("coerce-out", nil, g2, h2, true)
		}
	}
	// reflected methods with a (value, error) signature: the failure channel of the reflection strategy
	for zi, zc := range []struct {
		text string
		key  string
	}{{`{ name flag(on: false) count }`, "flag"}, {`{ fail name }`, "fail"}, {`{ self { f: flag(on: false) } name }`, "f"}, {`{ items { id } flag(on: true) fail }`, "fail"},
		{`{ name mustFail { id } }`, "mustFail"}, {`{ mustFails { id } count }`, "mustFails"}, {`{ a: mustFail { id } self { name } mustFails { size } }`, "mustFails"}} {
		root, _, err := zoo.NewRoot()
		if err != nil {
			break
		}
		res := root.ResolveString(zc.text, "", nil)
		sites++
		c.Eval("zoo-method-error|"+zc.text, true)
		c.Bucket("fault_kind", "reflected-method-error")
		data := ref.Canon(res["data"])
		var holder interface{} = data
		if zi == 2 {
			m, _ := data.(map[string]interface{})
			holder = m["self"]
		}
		hm, _ := holder.(map[string]interface{})
		val, has := hm[zc.key]
		nerr := 0
		if es, isL := res["errors"].([]interface{}); isL {
			for _, e := range es {
				em, _ := e.(map[string]interface{})
				if p, _ := em["path"].([]interface{}); len(p) > 0 && p[len(p)-1] == zc.key {
					nerr++
				}
			}
		}
		switch {
		case nerr != 1:
			c.Violation("c06-reflected-method", map[string]interface{}{"document": zc.text, "diag": fmt.Sprintf("%d error entries for the failed method field %s, expected 1", nerr, zc.key), "response": fmt.Sprint(res)})
		case has && val != nil:
			emptyList := false
			if l, isL := val.([]interface{}); isL && len(l) == 0 {
				emptyList = true // a nil slice returned next to the error
			}
			if c.Open("K-C06-method-value-kept") && (val == "" || emptyList) {
				c.Known("K-C06-method-value-kept", map[string]interface{}{"document": zc.text, "value_in_data": val})
			} else {
				c.Violation("c06-reflected-method", map[string]interface{}{"document": zc.text, "diag": fmt.Sprintf("failed position %s holds %v instead of null", zc.key, val), "response": fmt.Sprint(res)})
			}
		}
	}
	sites += c06Subscription(c)
	c.MinNontriv = sites / 10
	c.Set("fault_sites_enumerated", sites)
}

// ---------------------------------------------------------------- failures while an event is resolved for a subscriber

const c06SubSDL = `type Query { a: Int }
type Subscription { listen: Ev }
type Ev { id: ID boom: Int info: Inf list: [Inf] }
type Inf { text: String boom: Int deeper: Inf }`

type c06SubRoot struct{ sub *c06Sub }
type c06Sub struct{ got []interface{} }

func (s *c06Sub) Match(string) bool { return true }
func (s *c06Sub) Send(v interface{}) error {
	s.got = append(s.got, v)
	return nil
}
func (s *c06Sub) Unsubscribe() {}

type c06Subs struct{ r *c06SubRoot }

func (r *c06SubRoot) Resolve(field *ggql.Field, args map[string]interface{}) (interface{}, error) {
	if field.Name == "subscription" {
		return &c06Subs{r}, nil
	}
	return nil, nil
}
func (s *c06Subs) Resolve(field *ggql.Field, args map[string]interface{}) (interface{}, error) {
	s.r.sub = &c06Sub{}
	return ggql.NewSubscription(s.r.sub, field, args), nil
}

// c06Ev / c06Inf fail on every field called boom.
type c06Ev struct{ n int }
type c06Inf struct{ depth int }

func (e *c06Ev) Resolve(field *ggql.Field, args map[string]interface{}) (interface{}, error) {
	switch field.Name {
	case "id":
		return "ev", nil
	case "boom":
		return nil, fmt.Errorf("%w in the event", back.ErrInjected)
	case "info":
		return &c06Inf{1}, nil
	case "list":
		l := make([]interface{}, e.n)
		for i := range l {
			l[i] = &c06Inf{1}
		}
		return l, nil
	}
	return nil, nil
}
func (i *c06Inf) Resolve(field *ggql.Field, args map[string]interface{}) (interface{}, error) {
	switch field.Name {
	case "text":
		return "t", nil
	case "boom":
		return nil, fmt.Errorf("%w below the event", back.ErrInjected)
	case "deeper":
		return &c06Inf{i.depth + 1}, nil
	}
	return nil, nil
}

// c06Subscription: resolver failures while Root.AddEvent applies a subscriber's selection to an event. The error AddEvent
// returns must carry one entry per failure with the path of that position below the subscription field, and the message
// the subscriber receives has null exactly there.
func c06Subscription(c *run.Ctx) int {
	cases := []struct {
		sel   string
		n     int
		paths []string
	}{
		{`{ id boom }`, 0, []string{"s:boom"}},
		{`{ id info { text boom } }`, 0, []string{"s:info/s:boom"}},
		{`{ b: boom info { text deeper { x: boom text } } }`, 0, []string{"s:b", "s:info/s:deeper/s:x"}},
		{`{ list { text boom } id }`, 3, []string{"s:list/i:0/s:boom", "s:list/i:1/s:boom", "s:list/i:2/s:boom"}},
		{`{ info { boom } list { deeper { boom } } boom }`, 2, []string{"s:info/s:boom", "s:list/i:0/s:deeper/s:boom", "s:list/i:1/s:deeper/s:boom", "s:boom"}},
		{`{ id info { text } }`, 1, nil},
	}
	done := 0
	for ci, cs := range cases {
		for variant := 0; variant < 2; variant++ {
			ro := &c06SubRoot{}
			root := ggql.NewRoot(ro)
			if err := root.ParseString(c06SubSDL); err != nil {
				c.Violation("c06-subscription-schema", map[string]interface{}{"error": err.Error()})
				return done
			}
			text := "subscription { listen " + cs.sel + " }"
			var res map[string]interface{}
			if variant == 0 {
				res = root.ResolveString(text, "", nil)
			} else {
				exe, perr := root.ParseExecutableString(text)
				if perr == nil {
					var rerr error
					if res, rerr = root.ResolveExecutable(exe, "", nil); rerr != nil {
						res = map[string]interface{}{"errors": rerr.Error()}
					}
				}
			}
			if ro.sub == nil || (res != nil && res["errors"] != nil) {
				c.Violation("c06-subscription", map[string]interface{}{"subscription": text, "diag": fmt.Sprint("subscription request failed: ", res)})
				continue
			}
			var aerr error
			pv, _ := run.Protect(func() { _, aerr = root.AddEvent("x", &c06Ev{n: cs.n}) })
			done++
			c.Eval(fmt.Sprintf("subscription-event|%d|%d", ci, variant), true)
			c.Bucket("fault_kind", "failure-while-resolving-a-subscription-event")
			var got []string
			if aerr != nil {
				for _, e := range ggql.FormErrorsResult(aerr) {
					em, _ := e.(map[string]interface{})
					p, _ := em["path"].([]interface{})
					got = append(got, pathKey(p))
				}
			}
			want := append([]string{}, cs.paths...)
			sort.Strings(got)
			sort.Strings(want)
			diag := ""
			switch {
			case pv != nil:
				diag = fmt.Sprintf("AddEvent panics: %v", pv)
			case strings.Join(got, " ") != strings.Join(want, " "):
				diag = fmt.Sprintf("error paths %v, expected %v (one entry per failure, addressed below the subscription field)", got, want)
			case len(ro.sub.got) != 1:
				diag = fmt.Sprintf("%d messages for one event", len(ro.sub.got))
			}
			if diag != "" {
				c.Violation("c06-subscription-event", map[string]interface{}{"sdl": c06SubSDL, "subscription": text, "diag": diag, "message": fmt.Sprint(ro.sub.got)})
			}
		}
	}
	return done
}

// fragSegsAtSpreads checks the K-C06-fragseg predicate's second half: every
// "fragment at L:C" segment must name a position where the document has a named spread (line match).
func fragSegsAtSpreads(d *model.Doc, out *Outcome) bool {
	lines := map[int]bool{}
	for _, l := range d.AllSelLists() {
		for _, s := range *l {
			if sp, isSp := s.(*model.Spread); isSp {
				lines[sp.Line] = true
				lines[sp.NameLine] = true
				lines[sp.Line+1] = true // ggql reports the position after its look-ahead byte
			}
		}
	}
	for _, p := range out.ErrPaths {
		for _, e := range p {
			if s, isS := e.(string); isS && fragSegRe.MatchString(s) {
				var l, col int
				fmt.Sscanf(s, "fragment at %d:%d", &l, &col)
				if !lines[l] {
					return false
				}
			}
		}
	}
	return true
}

// fragSegsNameTheirSpread is the third part of the predicate: the segments of an error's path name, in order, the spreads
// the failing position was reached through (the reference executed with SpreadMarks says which), not some other spread of
// the same fragment. A position is taken as named when the line is the spread's (its dots, its name, or the line after:
// ggql reports positions after its look-ahead byte, K-C07-lookahead).
func fragSegsNameTheirSpread(marked *ref.Result, out *Outcome) bool {
	used := make([]bool, len(marked.Errs))
	for _, p := range out.ErrPaths {
		found := false
		for i, e := range marked.Errs {
			if used[i] || len(e.Path) != len(p) {
				continue
			}
			same := true
			for j := range p {
				if sp, isSp := e.Path[j].(*model.Spread); isSp {
					seg, _ := p[j].(string)
					var l, col int
					if n, _ := fmt.Sscanf(seg, "fragment at %d:%d", &l, &col); n != 2 || (l != sp.Line && l != sp.NameLine && l != sp.Line+1) {
						same = false
					}
				} else if pathKey([]interface{}{e.Path[j]}) != pathKey([]interface{}{p[j]}) {
					same = false
				}
				if !same {
					break
				}
			}
			if same {
				used[i], found = true, true
				break
			}
		}
		if !found {
			return false
		}
	}
	return true
}

func cloneGraph(g *model.Graph) *model.Graph {
	ng := &model.Graph{}
	m := map[*model.Node]*model.Node{}
	for _, n := range g.Nodes {
		nn := &model.Node{ID: n.ID, Type: n.Type, F: map[string]interface{}{}}
		m[n] = nn
		ng.Nodes = append(ng.Nodes, nn)
	}
	var cv func(v interface{}) interface{}
	cv = func(v interface{}) interface{} {
		switch t := v.(type) {
		case *model.Node:
			if t == nil {
				return t
			}
			return m[t]
		case model.VList:
			o := make(model.VList, len(t))
			for i, e := range t {
				o[i] = cv(e)
			}
			return o
		}
		return v
	}
	for _, n := range g.Nodes {
		for k, v := range n.F {
			m[n].F[k] = cv(v)
		}
	}
	ng.Root = m[g.Root]
	return ng
}

var _ = rand.Int
