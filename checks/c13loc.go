package checks

import (
	"fmt"
	"strings"

	"verif/internal/run"

	"github.com/uhn/ggql/pkg/ggql"
)

// c13LocationMatrix: every one of the 19 directive locations as the ONLY declared location of a directive, used at every
// place of a schema document whose uses ggql validates (type definitions of all six kinds, enum values, the schema
// definition, the same through extend blocks and through a later document, arguments of directive definitions). The
// document is accepted exactly when the declared location is the location of the place; a refusal names the directive.
// (Uses on field definitions, field arguments and input fields: open finding K-C13-member-diruse, not in the matrix.)
func c13LocationMatrix(c *run.Ctx) int {
	locs := []string{"QUERY", "MUTATION", "SUBSCRIPTION", "FIELD", "FRAGMENT_DEFINITION", "FRAGMENT_SPREAD", "INLINE_FRAGMENT", "VARIABLE_DEFINITION", "SCHEMA", "SCALAR", "OBJECT",
		"FIELD_DEFINITION", "ARGUMENT_DEFINITION", "INTERFACE", "UNION", "ENUM", "ENUM_VALUE", "INPUT_OBJECT", "INPUT_FIELD_DEFINITION"}
	base := "type Query { a: Int t: T i: I u: U e: E s: S f(x: In): Int }\n"
	type place struct {
		name  string
		allow []string // declared locations under which the use is right
		docs  []string // documents loaded in order; @d marks the use (the directive definition is prepended to the first)
	}
	places := []place{
		{"object-definition", []string{"OBJECT"}, []string{base + "type T @d { a: Int }\ninterface I { a: Int }\nunion U = T\nenum E { A }\nscalar S\ninput In { a: Int }\n"}},
		{"interface-definition", []string{"INTERFACE"}, []string{base + "type T { a: Int }\ninterface I @d { a: Int }\nunion U = T\nenum E { A }\nscalar S\ninput In { a: Int }\n"}},
		{"union-definition", []string{"UNION"}, []string{base + "type T { a: Int }\ninterface I { a: Int }\nunion U @d = T\nenum E { A }\nscalar S\ninput In { a: Int }\n"}},
		{"enum-definition", []string{"ENUM"}, []string{base + "type T { a: Int }\ninterface I { a: Int }\nunion U = T\nenum E @d { A }\nscalar S\ninput In { a: Int }\n"}},
		{"enum-value", []string{"ENUM_VALUE"}, []string{base + "type T { a: Int }\ninterface I { a: Int }\nunion U = T\nenum E { A @d B }\nscalar S\ninput In { a: Int }\n"}},
		{"scalar-definition", []string{"SCALAR"}, []string{base + "type T { a: Int }\ninterface I { a: Int }\nunion U = T\nenum E { A }\nscalar S @d\ninput In { a: Int }\n"}},
		{"input-definition", []string{"INPUT_OBJECT"}, []string{base + "type T { a: Int }\ninterface I { a: Int }\nunion U = T\nenum E { A }\nscalar S\ninput In @d { a: Int }\n"}},
		{"schema-definition", []string{"SCHEMA"}, []string{base + "schema @d { query: Query }\ntype T { a: Int }\ninterface I { a: Int }\nunion U = T\nenum E { A }\nscalar S\ninput In { a: Int }\n"}},
	}
	plain := base + "type T { a: Int }\ninterface I { a: Int }\nunion U = T\nenum E { A }\nscalar S\ninput In { a: Int }\n"
	for _, ext := range []struct{ name, loc, text string }{
		{"extend-type", "OBJECT", "extend type T @d { b: Int }\n"}, {"extend-interface", "INTERFACE", "extend interface I @d { b: Int }\n"},
		{"extend-union", "UNION", "type T2 { a: Int }\nextend union U @d = T2\n"}, {"extend-enum", "ENUM", "extend enum E @d { C }\n"},
		{"extend-input", "INPUT_OBJECT", "extend input In @d { b: Int }\n"}, {"extend-scalar", "SCALAR", "extend scalar S @d\n"},
		{"extend-enum-new-value", "ENUM_VALUE", "extend enum E { C @d }\n"},
	} {
		places = append(places, place{ext.name + "-same-document", []string{ext.loc}, []string{plain + ext.text}})
		places = append(places, place{ext.name + "-later-document", []string{ext.loc}, []string{plain, ext.text}})
	}
	done := 0
	for _, pl := range places {
		for _, loc := range locs {
			right := false
			for _, a := range pl.allow {
				right = right || a == loc
			}
			root := ggql.NewRoot(nil)
			var err error
			var pv interface{}
			where := 0
			for di, doc := range pl.docs {
				text := doc
				if di == 0 {
					text = "directive @d on " + loc + "\n" + doc
				}
				pv, _ = run.Protect(func() { err = root.ParseString(text) })
				if pv != nil || err != nil {
					where = di
					break
				}
			}
			done++
			c.Eval("locmatrix|"+pl.name+"|"+loc, true)
			c.Bucket("rule", "location-matrix:"+pl.name)
			diag := ""
			switch {
			case pv != nil:
				diag = fmt.Sprintf("panic: %v", pv)
			case right && err != nil:
				// (never demanded by the property: a root that refuses a right use is no unsound acceptance; reported all the same
				// because the matrix is only meaningful when its diagonal is accepted)
				diag = "the use at its declared location is refused: " + clip(err.Error(), 200)
			case !right && err == nil:
				diag = "accepted: a directive declared on " + loc + " only, used at the place " + pl.name
			case !right && (where != len(pl.docs)-1 || !strings.Contains(err.Error(), "d")):
				diag = "refused, but not for the use: " + clip(err.Error(), 200)
			}
			if diag != "" {
				c.Violation("c13-location-matrix", map[string]interface{}{"place": pl.name, "declared_on": loc, "documents": pl.docs, "diag": diag})
			}
		}
	}
	c.Set("location_matrix_cells", done)
	return done
}

// c13SecondSchemaDefinition: a root has one schema definition. A second one - in the same document, in a later document,
// built in Go and handed to AddTypes, before or after - is a duplicate definition and is refused; the first stays in force
// (operation root types unchanged). An explicit definition after an IMPLICIT schema (no definition, root types by name) is
// the first definition and accepted.
func c13SecondSchemaDefinition(c *run.Ctx) int {
	d1 := "schema { query: Query }\ntype Query { a: Int }\n"
	d2 := "schema { query: Other }\ntype Other { b: Int }\n"
	other := "type Other { b: Int }\n"
	type step struct {
		what   string
		do     func(root *ggql.Root) error
		refuse bool
	}
	parse := func(text string) func(root *ggql.Root) error {
		return func(root *ggql.Root) error { return root.ParseString(text) }
	}
	built := func(root *ggql.Root) error {
		// schema { query: Built } with type Built { a: Int }, made in Go
		q := &ggql.Object{Base: ggql.Base{N: "Built"}}
		_ = q.AddField(&ggql.FieldDef{Base: ggql.Base{N: "a"}, Type: &ggql.Ref{Base: ggql.Base{N: "Int"}}})
		sc := &ggql.Schema{}
		_ = sc.AddField(&ggql.FieldDef{Base: ggql.Base{N: "query"}, Type: &ggql.Ref{Base: ggql.Base{N: "Built"}}})
		return root.AddTypes(q, sc)
	}
	hists := [][]step{
		{{"document with a schema definition", parse(d1), false}, {"later document with another schema definition", parse(d2), true}},
		{{"one document with two schema definitions", parse(d1 + d2), true}},
		{{"document with a schema definition", parse(d1), false}, {"AddTypes(a built *ggql.Schema)", built, true}},
		{{"document with a schema definition", parse(d1), false}, {"later document: a type", parse(other), false}, {"later document: only a schema definition", parse("schema { query: Other }\n"), true}},
		{{"document without a schema definition (implicit schema)", parse("type Query { a: Int }\n" + other), false}, {"later document: the first schema definition", parse("schema { query: Other }\n"), false},
			{"later document: a second schema definition", parse("schema { query: Query }\n"), true}},
		{{"AddTypes(a built *ggql.Schema)", built, false}, {"document with a schema definition", parse(d1), true}},
	}
	done := 0
	for hi, h := range hists {
		root := ggql.NewRoot(nil)
		var trace []string
		for _, st := range h {
			var err error
			pv, _ := run.Protect(func() { err = st.do(root) })
			trace = append(trace, fmt.Sprintf("%s = %v", st.what, err))
			done++
			c.Eval(fmt.Sprintf("second-schema|%d|%s", hi, st.what), true)
			c.Bucket("rule", "second-schema-definition")
			diag := ""
			switch {
			case pv != nil:
				diag = fmt.Sprintf("panic: %v", pv)
			case st.refuse && err == nil:
				diag = "a second schema definition was accepted"
			case !st.refuse && err != nil:
				diag = "a first definition was refused"
			}
			if diag != "" {
				c.Violation("c13-second-schema-definition", map[string]interface{}{"history": trace, "diag": diag})
				break
			}
		}
	}
	return done
}

// c13AfterRefusedExtensions: "accepts well-formed schemas" also holds for the document that comes AFTER a refused one. A
// document with several extend blocks, of which a later one names a type that does not exist (or is of another kind), is
// refused as a whole; the document that then brings the earlier blocks alone is well-formed and is accepted, and what it
// adds is there once.
func c13AfterRefusedExtensions(c *run.Ctx) int {
	const base = "type Query { a: Int item: Item kind: Kind box(in: Box): Int }\ntype Item implements Node { id: ID }\ninterface Node { id: ID }\nenum Kind { A B }\ninput Box { x: Int }\nunion U = Item\n"
	good := []string{"extend type Item { b: Int }\n", "extend enum Kind { C }\n", "extend input Box { y: Int }\n", "extend interface Node { n: Int }\nextend type Item { n: Int }\n", "type Other { o: Int }\nextend union U = Other\n"}
	bad := []string{"extend type NopeZz { x: Int }\n", "extend enum Item { Z }\n", "extend input Kind { z: Int }\n", "extend union Box = Item\n", "extend interface Item { q: Int }\n"}
	done := 0
	for gi, g := range good {
		for bi, b := range bad {
			root, err := loadSDL(base)
			if err != nil {
				c.Violation("c13-wellformed-rejected", map[string]interface{}{"sdl": base, "error": err.Error()})
				return done
			}
			var e1, e2 error
			pv, _ := run.Protect(func() {
				e1 = root.ParseString(g + b)
				e2 = root.ParseString(g)
			})
			done++
			c.Eval(fmt.Sprintf("after-refused|%d|%d", gi, bi), true)
			c.Bucket("rule", "well-formed-document-after-a-refused-one")
			diag := ""
			switch {
			case pv != nil:
				diag = fmt.Sprintf("panic: %v", pv)
			case e1 == nil:
				diag = "the document with an extension of a missing / wrong-kind type was accepted"
			case e2 != nil:
				diag = "the well-formed document after the refused one is refused: " + clip(e2.Error(), 300)
			}
			if diag != "" {
				c.Violation("c13-after-refused-extension", map[string]interface{}{"sdl": base, "refused_document": g + b, "refused_with": fmt.Sprint(e1), "then": g, "diag": diag})
			}
		}
	}
	return done
}
