package checks

import (
	"fmt"
	"github.com/uhn/ggql/pkg/ggql"
	"strings"
	"sync/atomic"

	"verif/internal/back"
	"verif/internal/gen"
	"verif/internal/model"
	"verif/internal/ref"
	"verif/internal/run"
	"verif/internal/zoo"
)

func init() {
	register(&Check{ID: "C10", Level: "fault_enumeration", Run: runC10})
}

type selPos struct {
	list   *[]model.Sel
	idx    int
	parent string // static type of the container
	inFrag bool
}

// typedPositions lists every selection position with the static type of its container.
func typedPositions(s *model.Schema, d *model.Doc) []selPos {
	var out []selPos
	var rec func(l *[]model.Sel, parent string, inFrag bool)
	rec = func(l *[]model.Sel, parent string, inFrag bool) {
		for i, sel := range *l {
			out = append(out, selPos{l, i, parent, inFrag})
			switch t := sel.(type) {
			case *model.Field:
				if len(t.Sels) > 0 {
					if td := s.Type(parent); td != nil {
						if fd := td.Field(t.Name); fd != nil {
							rec(&t.Sels, fd.Type.Base(), inFrag)
						}
					}
				}
			case *model.Inline:
				p := parent
				if t.Cond != "" {
					p = t.Cond
				}
				rec(&t.Sels, p, inFrag)
			}
		}
	}
	for _, o := range d.Ops {
		root := s.Query
		if o.Kind == "mutation" {
			root = s.Mutation
		}
		rec(&o.Sels, root, false)
	}
	for _, f := range d.Frags {
		rec(&f.Sels, f.Cond, true)
	}
	return out
}

const c10Key = "zzbad"

// stripBadKey removes null entries for the offending key from observed data.
func stripBadKey(v interface{}) interface{} {
	switch t := v.(type) {
	case map[string]interface{}:
		o := map[string]interface{}{}
		for k, e := range t {
			if k == c10Key && e == nil {
				continue
			}
			o[k] = stripBadKey(e)
		}
		return o
	case []interface{}:
		o := make([]interface{}, len(t))
		for i, e := range t {
			o[i] = stripBadKey(e)
		}
		return o
	}
	return v
}

func containerKind(s *model.Schema, parent string) string {
	if parent == s.Query || parent == s.Mutation {
		return "root"
	}
	if td := s.Type(parent); td != nil {
		switch td.Kind {
		case model.Interface:
			return "interface"
		case model.Union:
			return "union"
		case model.Object:
			for _, t := range s.Types {
				if t.Kind == model.Union && s.Implements(parent, t.Name) {
					return "union-member"
				}
			}
			return "object"
		}
	}
	return "other"
}

func runC10(c *run.Ctx) {
	c.Rule = "each valid generated tuple is re-generated and exactly one defect is injected at a selection position: unknown field; undeclared argument (alone / next to valid ones / replacing one); " +
		"omitted required argument; unknown directive; directive at a wrong location; undefined type in an inline condition; undefined type in a fragment definition; spread of an undefined fragment; " +
		"positions enumerated over all selections (sampled in quick), containers: root, object, interface, union member; back-ends iface/any/reflect. Oracle: errors non-empty and naming the offender, " +
		"call log shows the offending resolver not invoked (with it), and, when data is returned, every other position equals the reference run of the document without the offending selection. " +
		"All injected cases are non-trivial; distinct by (document text, back-end)"
	nt := c.N(250, 4000)
	per := c.N(2, 1000)
	defects := []string{"unknown-field", "undeclared-arg-alone", "undeclared-arg-beside", "undeclared-arg-replacing", "missing-required-arg",
		"unknown-directive", "misplaced-directive", "undefined-inline-type", "undefined-fragment-type", "undefined-spread",
		"unknown-directive-on-fragment-definition", "misplaced-directive-on-fragment-definition", "unknown-directive-on-operation", "required-arg-null-variable",
		"directive-missing-required-arg", "directive-undeclared-arg"}
	injected := 0
	for i := 0; i < nt && !c.TooMany(); i++ {
		kinds := []string{"iface", "any", "reflect"}
		kind := kinds[i%3]
		refl := kind == "reflect"
		so := gen.SchemaOpts{Args: !refl, Abstract: true, Mutation: true}
		do := gen.DocOpts{Frags: true, Vars: true, Aliases: true, Abstract: true, Mutation: true, Depth: 2 + i%3, DupKeys: i%2 == 0}
		base := newExecCase(c.Rand(i), so, do)
		if refl && !back.ReflectFriendly(base.S) {
			continue
		}
		if kind != "reflect" {
			// abstract-typed data needs type bindings; the interface/any strategies are exercised on object containers
			so.Abstract = false
			do.Abstract = false
			base = newExecCase(c.Rand(i), so, do)
		}
		h, err := back.Build(kind, base.S, base.SDL, base.G)
		if err != nil {
			c.Violation("c10-schema-rejected", base.replay(kind, "", map[string]interface{}{"error": err.Error()}))
			continue
		}
		nPos := len(typedPositions(base.S, base.DC.Doc))
		for _, defect := range defects {
			done := 0
			for p := 0; p < nPos && done < per; p++ {
				pos := (p*7 + i) % nPos // a fixed pseudo-permutation of positions
				ec := newExecCase(c.Rand(i), so, do)
				positions := typedPositions(ec.S, ec.DC.Doc)
				sp := positions[pos]
				sel := (*sp.list)[sp.idx]
				fld, isField := sel.(*model.Field)
				var fd *model.FieldDef
				if isField {
					if td := ec.S.Type(sp.parent); td != nil {
						fd = td.Field(fld.Name)
					}
				}
				offender := ""
				noCallField := "" // a resolver for this (field name, key) must not be invoked
				badArg := ""
				removeForExpected := true
				switch defect {
				case "unknown-field":
					if !isField || fld.Name == "__typename" {
						continue
					}
					// (every third one looks like a meta-field: two leading underscores do not make a name defined)
					fld.Name = []string{"nope_field_zz", "nope_field_zz", "__nope_field_zz"}[(i+sp.idx)%3]
					fld.Alias = c10Key
					fld.Args = nil
					fld.Sels = nil
					offender = fld.Name
					noCallField = fld.Name
				case "undeclared-arg-alone":
					if !isField || fd == nil || len(fd.Args) > 0 || fld.Name == "__typename" || refl {
						continue
					}
					fld.Alias = c10Key
					fld.Args = []model.Arg{{Name: "zz_undeclared", Value: int64(1)}}
					offender, badArg = "zz_undeclared", "zz_undeclared"
				case "undeclared-arg-beside":
					if !isField || fd == nil || len(fld.Args) == 0 {
						continue
					}
					fld.Alias = c10Key
					fld.Args = append(fld.Args, model.Arg{Name: "zz_undeclared", Value: "x"})
					offender, badArg = "zz_undeclared", "zz_undeclared"
				case "undeclared-arg-replacing":
					if !isField || fd == nil || len(fld.Args) == 0 {
						continue
					}
					fld.Alias = c10Key
					fld.Args[len(fld.Args)-1].Name = "zz_undeclared"
					offender, badArg = "zz_undeclared", "zz_undeclared"
				case "missing-required-arg":
					if !isField || fd == nil {
						continue
					}
					req := ""
					for _, a := range fd.Args {
						if a.Type.NonNull && !a.HasDefault {
							req = a.Name
						}
					}
					if req == "" {
						continue
					}
					var keep []model.Arg
					for _, a := range fld.Args {
						if a.Name != req {
							keep = append(keep, a)
						}
					}
					fld.Args = keep
					fld.Alias = c10Key
					offender = req
					noCallField = fld.Name
				case "unknown-directive":
					d := model.DirUse{Name: "nope_dir_zz"}
					switch t := sel.(type) {
					case *model.Field:
						t.Dirs = append(t.Dirs, d)
						t.Alias = c10Key
					case *model.Inline:
						t.Dirs = append(t.Dirs, d)
					case *model.Spread:
						t.Dirs = append(t.Dirs, d)
					}
					offender = "nope_dir_zz"
				case "directive-missing-required-arg", "directive-undeclared-arg":
					// @skip / @include without their `if: Boolean!`; or with an argument they do not declare
					d := model.DirUse{Name: []string{"skip", "include"}[(p+i)%2]}
					offender = d.Name
					if defect == "directive-undeclared-arg" {
						d.Args = []model.Arg{{Name: "if", Value: d.Name == "include"}, {Name: "zz_undeclared", Value: int64(1)}}
						if (p+i)%3 == 0 {
							// the value of the undeclared argument comes from a variable
							d.Args[1].Value = model.VarRef("zzDirVar")
							for _, op := range ec.DC.Doc.Ops {
								op.Vars = append(op.Vars, &model.VarDef{Name: "zzDirVar", Type: model.Named("Int"), HasDefault: true, Default: int64(1)})
								op.Shorthand = false
							}
							c.Bucket("defect_detail", "undeclared-directive-argument-given-by-a-variable")
						}
						offender = "zz_undeclared"
					}
					switch t := sel.(type) {
					case *model.Field:
						t.Dirs = append(t.Dirs, d)
						t.Alias = c10Key
					case *model.Inline:
						t.Dirs = append(t.Dirs, d)
					case *model.Spread:
						t.Dirs = append(t.Dirs, d)
					}
				case "misplaced-directive":
					d := model.DirUse{Name: "deprecated"} // declared on FIELD_DEFINITION | ENUM_VALUE only
					switch t := sel.(type) {
					case *model.Field:
						t.Dirs = append(t.Dirs, d)
						t.Alias = c10Key
					case *model.Inline:
						t.Dirs = append(t.Dirs, d)
					case *model.Spread:
						t.Dirs = append(t.Dirs, d)
					}
					offender = "deprecated"
				case "unknown-directive-on-fragment-definition", "misplaced-directive-on-fragment-definition":
					spr, isSp := sel.(*model.Spread)
					if !isSp {
						continue
					}
					fr := ec.DC.Doc.Frag(spr.Name)
					if fr == nil {
						continue
					}
					d := model.DirUse{Name: "nope_dir_zz"}
					if defect == "misplaced-directive-on-fragment-definition" {
						d = model.DirUse{Name: "deprecated"}
					}
					fr.Dirs = append(fr.Dirs, d)
					// the definition may stand before or after the operation that spreads it
					ec.DC.Doc.FragsFirst = (p+i)%2 == 0
					offender = d.Name
				case "unknown-directive-on-operation":
					if p > 0 {
						continue // one per document is enough: the position plays no role
					}
					for _, o := range ec.DC.Doc.Ops {
						if o.Name == ec.DC.OpName || len(ec.DC.Doc.Ops) == 1 {
							if o.Shorthand {
								o.Shorthand = false
							}
							o.Dirs = append(o.Dirs, model.DirUse{Name: "nope_dir_zz"})
						}
					}
					offender = "nope_dir_zz"
				case "required-arg-null-variable":
					// the required argument is written, but through a variable that is not supplied / is null
					if !isField || fd == nil {
						continue
					}
					req := ""
					var rt *model.TypeRef
					for _, a := range fd.Args {
						if a.Type.NonNull && !a.HasDefault {
							req, rt = a.Name, a.Type
						}
					}
					if req == "" {
						continue
					}
					var op *model.Op
					for _, o := range ec.DC.Doc.Ops {
						if o.Name == ec.DC.OpName || len(ec.DC.Doc.Ops) == 1 {
							op = o
						}
					}
					if op == nil || op.Shorthand {
						continue
					}
					vn := "zzNullVar"
					vt := rt
					if (p+i)%2 == 0 {
						vt = rt.Nullable() // declared nullable and supplied as null
						ec.DC.Vars[vn] = nil
					} // else: declared non-null and simply not supplied
					op.Vars = append(op.Vars, &model.VarDef{Name: vn, Type: vt})
					var keep []model.Arg
					for _, a := range fld.Args {
						if a.Name != req {
							keep = append(keep, a)
						}
					}
					fld.Args = append(keep, model.Arg{Name: req, Value: model.VarRef(vn)})
					fld.Alias = c10Key
					offender = req
					noCallField = fld.Name
				case "undefined-inline-type":
					in, isIn := sel.(*model.Inline)
					if !isIn {
						continue
					}
					in.Cond = "NopeTypeZz"
					offender = "NopeTypeZz"
					if (p+i)%3 == 0 {
						// a name that is defined - as a DIRECTIVE - is no type either
						in.Cond = []string{"skip", "include", "deprecated"}[p%3]
						offender = in.Cond
					}
				case "undefined-fragment-type":
					spr, isSp := sel.(*model.Spread)
					if !isSp {
						continue
					}
					fr := ec.DC.Doc.Frag(spr.Name)
					if fr == nil {
						continue
					}
					fr.Cond = "NopeTypeZz"
					offender = "NopeTypeZz"
					if (p+i)%3 == 1 {
						fr.Cond = []string{"skip", "include", "deprecated"}[p%3]
						offender = fr.Cond
					}
				case "undefined-spread":
					spr, isSp := sel.(*model.Spread)
					if !isSp {
						continue
					}
					spr.Name = "NopeFragZz"
					offender = "NopeFragZz"
				}
				done++
				injected++
				text := ec.DC.Doc.Print(model.LayoutN(ec.Layout))
				ck := containerKind(ec.S, sp.parent)
				c.Eval(text+"|"+kind, true)
				c.Bucket("defect", defect)
				c.Bucket("container", ck)
				c.Bucket("backend", kind)
				out := Do(h, Request{Text: text, OpName: ec.DC.OpName, Vars: ec.DC.Vars, Entry: injected}, nil)
				c.Count("resolver_calls_observed", len(out.Calls))
				if injected%300 == 1 {
					c.Sample(map[string]interface{}{"defect": defect, "container": ck, "document": text, "backend": kind, "observed": out.Describe()})
				}
				rep := func(diag string) {
					c.Violation("c10-"+defect, map[string]interface{}{"backend": kind, "defect": defect, "container": ck, "sdl": ec.SDL, "document": text,
						"op": ec.DC.OpName, "vars": ec.DC.Vars, "offender": offender, "diag": diag, "observed": out.Describe()})
				}
				if out.Panic != nil {
					rep("panic")
					continue
				}
				// The defect may sit in a part of the document the chosen operation never reaches (another
				// operation, an unused fragment). ggql validates executables lazily, so such a defect is only
				// required to be reported when the offending selection is reached; reachability is decided by
				// the reference executor on the document with the offender marked.
				reached := c10Reached(ec, sel, defect)
				if len(out.ErrPaths) == 0 {
					if reached {
						rep("no error reported for the defect")
					} else {
						c.Count("defect_not_reached_by_operation", 1)
					}
					continue
				}
				named := false
				for _, m := range out.Msgs {
					if strings.Contains(m, offender) {
						named = true
					}
				}
				// the statement asks for the offender to be named for undefined fields and arguments
				needName := defect == "unknown-field" || strings.HasPrefix(defect, "undeclared-arg") || defect == "missing-required-arg"
				if defect == "required-arg-null-variable" {
					// the error may name the argument or the variable
					for _, m := range out.Msgs {
						if strings.Contains(m, "zzNullVar") {
							named = true
						}
					}
				}
				if !named && reached && needName {
					rep("no error message names the offender")
					continue
				}
				for _, cl := range out.Calls {
					if noCallField != "" && cl.Key.Field == noCallField && cl.Key.Key == c10Key {
						rep("the offending field's resolver was invoked")
					}
					if badArg != "" {
						if _, has := cl.Raw[badArg]; has {
							rep("a resolver was invoked with the undeclared argument")
						}
					}
				}
				if !out.HasData {
					c.Count("whole_document_rejected", 1)
					continue
				}
				// siblings: equal to the reference run without the offending selection
				if removeForExpected {
					*sp.list = append(append([]model.Sel{}, (*sp.list)[:sp.idx]...), (*sp.list)[sp.idx+1:]...)
				}
				exp := ref.Execute(ec.S, ec.DC.Doc, ec.DC.OpName, ec.DC.Vars, ec.G, nil, ref.Flags{})
				if exp.ReqErr {
					continue
				}
				if !ref.Match(exp.Data, stripBadKey(out.Data)) {
					rep("valid sibling selections differ from the run without the offender: expected " + ref.Render(exp.Data))
				}
				c.Count("sibling_comparisons", 1)
			}
		}
	}
	// reflection methods: the only argument guard under reflection is ggql's own; every element of a list must be refused
	// and the method must not run; a defect placed in a selection that repeats an already produced response key must be reported too
	zooCases := []struct{ text, offender, method string }{
		{`{ items { id label(prefix: "p", upper: true, bogus: 1) } }`, "bogus", "Item.Label"},
		{`{ items { label(bogus: 1) } name }`, "bogus", "Item.Label"},
		{`{ name hello(name: "x", extra: 2) }`, "extra", "Query.Hello"},
		{`{ self { items { label(prefix: "a", nope: "z") } } items { label(prefix: "b", nope: "z") } }`, "nope", "Item.Label"},
		{`{ name items { id } items { nope_field_zz } }`, "nope_field_zz", ""},
		{`{ name n: name n: nope_field_zz }`, "nope_field_zz", ""},
		{`{ items { id } ...More } fragment More on Query { items { label(prefix: "q", bogus: 1) } }`, "bogus", "Item.Label"},
		{`{ self { name } ... on Query { self(bogus: 2) { name } } }`, "bogus", ""},
		{`{ label(upper: true) }`, "prefix", "Query.Label"},
		{`{ items { id } items { label(prefix: 3) } }`, "", "Item.Label"},
	}
	for round := 0; round < c.N(3, 40); round++ {
		for zi, zc := range zooCases {
			root, _, err := zoo.NewRoot()
			if err != nil {
				c.Violation("c10-zoo-schema", map[string]interface{}{"error": err.Error()})
				return
			}
			exe, perr := root.ParseExecutableString(zc.text)
			for rep := 0; rep < 2; rep++ { // the same parsed document twice: the refusal must not wear off
				before := int64(0)
				if zc.method != "" {
					before = zoo.CallCount(zc.method)
				}
				var res map[string]interface{}
				var rerr error
				if perr == nil {
					pv, _ := run.Protect(func() { res, rerr = root.ResolveExecutable(exe, "", nil) })
					if pv != nil {
						c.Violation("c10-zoo-panic", map[string]interface{}{"document": zc.text, "panic": fmt.Sprint(pv)})
						break
					}
				} else {
					rerr = perr
				}
				injected++
				c.Eval(fmt.Sprintf("zoo|%s|%d|%d", zc.text, rep, round), true)
				c.Bucket("defect", "reflection-method-catalogue")
				msgs := ""
				if rerr != nil {
					msgs = rerr.Error()
				}
				diag := ""
				switch {
				case rerr == nil:
					diag = "no error reported"
				case zc.offender != "" && !strings.Contains(msgs, zc.offender):
					diag = "no error names " + zc.offender
				case zc.method != "" && zoo.CallCount(zc.method) != before:
					diag = fmt.Sprintf("method %s was invoked %d time(s) for the offending selection", zc.method, zoo.CallCount(zc.method)-before)
				}
				if diag != "" {
					c.Violation("c10-reflection-method", map[string]interface{}{"document": zc.text, "case": zi, "resolution": rep + 1, "diag": diag, "errors": clip(msgs, 600), "data": fmt.Sprint(res)})
					break
				}
			}
		}
	}
	injected += c10Menagerie(c)
	injected += c10Unbound(c)
	injected += c10AfterFailedLoad(c)
	injected += c10RootMoved(c)
	injected += c10ReflectRequired(c)
	injected += c10LateRequired(c)
	injected += c10Subscription(c)
	c.MinNontriv = injected / 2
	c.Set("defects_injected", injected)
}

// c10Menagerie: a field that only a SIBLING implementer defines, selected where objects of several concrete types pass
// through one request node (heterogeneous interface/union lists, a fragment shared by fields of different types). For
// every position whose concrete type does not define the field there must be an error naming it with that position's
// path, the value there must be null or absent, and positions whose type does define it carry no such error.
func c10Menagerie(c *run.Ctx) int {
	n := c.N(400, 6000)
	done := 0
	own := map[string]string{"Dog": "barks", "Cat": "lives", "Eel": "volts"}
	for i := 0; i < n && !c.TooMany(); i++ {
		r := c.Rand(700000 + i)
		s := gen.Menagerie(r)
		sdl := s.SDL(model.SDLOpts{})
		g := gen.Graph(r, s, gen.GraphOpts{NullProb: 4, PerType: 2})
		h, err := back.Build("reflect", s, sdl, g)
		if err != nil {
			c.Violation("c10-schema-rejected", map[string]interface{}{"sdl": sdl, "error": err.Error()})
			continue
		}
		impls := s.PossibleTypes("Animal")
		x := own[impls[r.Intn(len(impls))]] // the field only one implementer defines
		f := func(n string, sels ...model.Sel) *model.Field { return &model.Field{Name: n, Sels: sels} }
		argMode := i%3 == 2 // instead: an ARGUMENT only one implementer declares (Dog.name(limit:) - the interface and the others have none)
		var xf model.Sel = f(x)
		lacks := func(tn string) bool { return s.Type(tn).Field(x) == nil }
		if argMode {
			x = "limit"
			xf = &model.Field{Name: "name", Alias: "nm", Args: []model.Arg{{Name: "limit", Value: int64(3)}}}
			lacks = func(tn string) bool { return s.Type(tn).Field("name").Arg("limit") == nil }
		}
		pathEnd := x
		if argMode {
			pathEnd = "nm"
		}
		doc := &model.Doc{}
		var inner []model.Sel
		switch r.Intn(3) {
		case 0:
			inner = []model.Sel{f("name"), xf}
		case 1:
			inner = []model.Sel{&model.Inline{Cond: "Animal", Sels: []model.Sel{xf}}, f("name")}
		default:
			doc.Frags = []*model.FragDef{{Name: "F", Cond: "Animal", Sels: []model.Sel{f("name"), xf}}}
			inner = []model.Sel{&model.Spread{Name: "F"}}
		}
		roots := []string{"pets", "anyPet", "a1", "a2", "grid"}
		for _, im := range impls {
			roots = append(roots, strings.ToLower(im))
		}
		var top []model.Sel
		for _, ri := range r.Perm(len(roots))[:2+r.Intn(3)] {
			top = append(top, f(roots[ri], inner...))
		}
		doc.Ops = []*model.Op{{Kind: "query", Name: "Q", Sels: top}}
		text := doc.Print(model.LayoutN(i))
		out := Do(h, Request{Text: text, OpName: "Q", Entry: i}, nil)
		done++
		c.Eval("menagerie|"+text+fmt.Sprint(describeGraph(g)), true)
		if argMode {
			c.Bucket("defect", "argument-of-sibling-implementer")
		} else {
			c.Bucket("defect", "field-of-sibling-implementer")
		}
		c.Bucket("container", "heterogeneous-abstract")
		c.Bucket("backend", "reflect")
		rep := func(diag string) {
			c.Violation("c10-sibling-field", map[string]interface{}{"backend": "reflect", "sdl": sdl, "graph": describeGraph(g), "document": text, "offender": x, "diag": diag, "observed": out.Describe()})
		}
		if out.Panic != nil {
			rep("panic")
			continue
		}
		// expected error paths: walk the data graph along the selected top-level fields
		have := map[string]int{}
		for _, p := range out.ErrPaths {
			// "fragment at L:C" segments under named spreads are C06's open finding K-C06-fragseg, not this property's subject
			sp, _ := stripFragSegs(p)
			have[pathKey(sp)]++
		}
		q, _ := g.Root.F["query"].(*model.Node)
		lacking, defining := 0, 0
		var walk func(v interface{}, path []interface{})
		bad := ""
		walk = func(v interface{}, path []interface{}) {
			switch t := v.(type) {
			case model.VList:
				for j, e := range t {
					walk(e, append(append([]interface{}{}, path...), j))
				}
			case *model.Node:
				p := pathKey(append(append([]interface{}{}, path...), pathEnd))
				if lacks(t.Type) {
					lacking++
					if have[p] == 0 && bad == "" {
						bad = fmt.Sprintf("object of type %s at %s does not define %q but no error addresses %s", t.Type, pathKey(path), x, p)
					}
				} else {
					defining++
					if have[p] > 0 && bad == "" {
						bad = fmt.Sprintf("object of type %s at %s defines %q but an error addresses %s", t.Type, pathKey(path), x, p)
					}
				}
			}
		}
		for _, tf := range top {
			walk(q.F[tf.(*model.Field).Name], []interface{}{tf.(*model.Field).Name})
		}
		c.Count("sibling_field_positions_lacking", lacking)
		c.Count("sibling_field_positions_defining", defining)
		if bad != "" {
			rep(bad)
			continue
		}
		if lacking > 0 {
			named := false
			for _, m := range out.Msgs {
				if strings.Contains(m, x) {
					named = true
				}
			}
			if !named {
				rep("no error message names the offender")
			}
		}
		if i == 0 {
			c.Sample(map[string]interface{}{"defect": "field-of-sibling-implementer", "document": text, "offender": x, "observed": out.Describe()})
		}
	}
	return done
}

// c10Reached says whether the chosen operation reaches the offending selection:
// the reference executor runs the document with the offender replaced by a marker field.
func c10Reached(ec *execCase, sel model.Sel, defect string) bool {
	switch defect {
	case "undefined-fragment-type":
		// the fragment definition is reached when any spread of it is
		return true
	}
	// mark: walk the execution and look whether sel is visited
	visited := false
	var visit func(n *model.Node, sels []model.Sel, depth int)
	x := &ref.Exec{S: ec.S, D: ec.DC.Doc, G: ec.G}
	_ = x
	seenFrag := map[string]int{}
	var walk func(sels []model.Sel, depth int)
	walk = func(sels []model.Sel, depth int) {
		if depth > 12 {
			return
		}
		for _, s := range sels {
			if s == sel {
				visited = true
			}
			switch t := s.(type) {
			case *model.Field:
				walk(t.Sels, depth+1)
			case *model.Inline:
				walk(t.Sels, depth+1)
			case *model.Spread:
				if fr := ec.DC.Doc.Frag(t.Name); fr != nil && seenFrag[t.Name] < 3 {
					seenFrag[t.Name]++
					walk(fr.Sels, depth+1)
				}
			}
		}
	}
	_ = visit
	var op *model.Op
	for _, o := range ec.DC.Doc.Ops {
		if o.Name == ec.DC.OpName || (ec.DC.OpName == "" && len(ec.DC.Doc.Ops) == 1) {
			op = o
		}
	}
	if op == nil {
		return false
	}
	walk(op.Sels, 0)
	// Syntactic reachability over-approximates: a selection under a null object, an empty list, a
	// non-applying fragment or an excluded parent is never executed. Only positions executed for sure
	// are demanded: those the reference run of the *original* document actually visits are hard to know
	// without instrumentation of the reference, so visited is combined with a run of the reference on a
	// document where the offender is turned into a __typename probe.
	if !visited {
		return false
	}
	return c10Executes(ec, sel)
}

// c10Executes replaces the offending selection by a uniquely aliased __typename probe and asks the
// reference executor whether the probe shows up in the data.
func c10Executes(ec *execCase, sel model.Sel) bool {
	probe := &model.Field{Name: "__typename", Alias: "zzprobe"}
	replaced := false
	for _, l := range ec.DC.Doc.AllSelLists() {
		for i, s := range *l {
			if s == sel {
				(*l)[i] = probe
				replaced = true
				defer func(l *[]model.Sel, i int) { (*l)[i] = sel }(l, i)
			}
		}
	}
	if !replaced {
		return false
	}
	exp := ref.Execute(ec.S, ec.DC.Doc, ec.DC.OpName, ec.DC.Vars, ec.G, nil, ref.Flags{})
	return strings.Contains(ref.Render(exp.Data), `"zzprobe"`)
}

var _ = fmt.Sprint

// c10Unbound: containers that are not a plain object type. Under the Resolver and AnyResolver strategies an object
// handed out for an interface-typed field is not bound to any Go type, so the interface ITSELF is the container its
// selections are checked against; the introspection objects (__schema, __type and what hangs below) are containers of
// ggql's own. Each document has exactly one defect; the error must name the offender, no resolver may be invoked with
// the undeclared argument / for the unknown field, and the valid sibling next to it must carry the reference value.
func c10Unbound(c *run.Ctx) int {
	done := 0
	n := c.N(60, 900)
	holders := []string{"a1", "a2", "pets", "grid", "a1 { friend", "pets { pals", "a2 { rival"}
	type dcase struct{ defect, sel, offender, noCall string }
	dcs := []dcase{
		{"undeclared-arg-alone", `zzbad: name(zz_undeclared: 1)`, "zz_undeclared", ""},
		{"undeclared-arg-alone", `zzbad: friend(zz_undeclared: "x") { name }`, "zz_undeclared", ""},
		{"unknown-field", `zzbad: nope_field_zz`, "nope_field_zz", "nope_field_zz"},
		{"unknown-directive", `zzbad: name @nopeDirZz`, "nopeDirZz", ""},
		{"misplaced-directive", `zzbad: name @deprecated`, "deprecated", ""},
		{"undefined-inline-type", `... on NopeTypeZz { name }`, "NopeTypeZz", ""},
		{"undeclared-arg-alone", `zzbad: __typename(zz_undeclared: 1)`, "zz_undeclared", ""},
		// an argument only ONE implementer adds to its own `name`: the interface, which is the container here, does not declare it
		{"undeclared-arg-alone", `zzbad: name(limit: 2)`, "limit", ""},
	}
	for i := 0; i < n && !c.TooMany(); i++ {
		r := c.Rand(760000 + i)
		s := gen.Menagerie(r)
		sdl := s.SDL(model.SDLOpts{})
		g := gen.Graph(r, s, gen.GraphOpts{NullProb: 6, PerType: 2})
		kind := []string{"iface", "any"}[i%2]
		h, err := back.Build(kind, s, sdl, g)
		if err != nil {
			c.Violation("c10-schema-rejected", map[string]interface{}{"sdl": sdl, "error": err.Error()})
			continue
		}
		hd := holders[r.Intn(len(holders))]
		dc := dcs[(i/2)%len(dcs)]
		closing := " }"
		if strings.Contains(hd, "{") {
			closing = " } }"
		}
		mk := func(inner string) string { return "query Q { " + hd + " { " + inner + closing + " }" }
		sib := "ok: name"
		var text, base string
		if r.Intn(2) == 0 {
			text, base = mk(sib+" "+dc.sel), mk(sib)
		} else {
			text, base = mk(dc.sel+" "+sib), mk(sib)
		}
		out := Do(h, Request{Text: text, OpName: "Q", Entry: i}, nil)
		good := Do(h, Request{Text: base, OpName: "Q", Entry: i}, nil)
		done++
		c.Eval("unbound|"+text+"|"+kind+fmt.Sprint(describeGraph(g)), true)
		c.Bucket("defect", dc.defect)
		c.Bucket("container", "interface-not-bound-to-go-type")
		c.Bucket("backend", kind)
		rep := func(diag string) {
			c.Violation("c10-"+dc.defect, map[string]interface{}{"backend": kind, "defect": dc.defect, "container": "interface (objects not bound to a Go type)", "sdl": sdl,
				"graph": describeGraph(g), "document": text, "offender": dc.offender, "diag": diag, "observed": out.Describe()})
		}
		if out.Panic != nil || good.Panic != nil {
			rep("panic")
			continue
		}
		if len(good.ErrPaths) > 0 || len(good.Msgs) > 0 {
			rep("the document without the defect already fails: " + strings.Join(good.Msgs, "; "))
			continue
		}
		// is the offending selection reached at all (a null holder, an empty list)?
		reached := false
		var walk func(v interface{})
		walk = func(v interface{}) {
			switch t := v.(type) {
			case map[string]interface{}:
				if _, has := t["ok"]; has {
					reached = true
				}
				for _, e := range t {
					walk(e)
				}
			case []interface{}:
				for _, e := range t {
					walk(e)
				}
			}
		}
		walk(good.Data)
		if !reached {
			c.Count("defect_not_reached_by_operation", 1)
			continue
		}
		c.Count("unbound_interface_defects_reached", 1)
		if len(out.Msgs) == 0 {
			rep("no error reported for the defect")
			continue
		}
		named := false
		for _, m := range out.Msgs {
			if strings.Contains(m, dc.offender) {
				named = true
			}
		}
		if !named && (dc.defect == "unknown-field" || dc.defect == "undeclared-arg-alone") {
			rep("no error message names the offender")
			continue
		}
		for _, cl := range out.Calls {
			if dc.noCall != "" && cl.Key.Field == dc.noCall {
				rep("the offending field's resolver was invoked")
			}
			if _, has := cl.Raw["zz_undeclared"]; has {
				rep("a resolver was invoked with the undeclared argument")
			}
		}
		if out.HasData && !ref.Match(stripBadKey(good.Data), stripBadKey(out.Data)) {
			rep("valid sibling selections differ from the run without the offender: expected " + ref.Render(good.Data))
		}
	}
	// ggql's own containers
	intro := []struct{ text, offender string }{
		{`{ __schema { queryType(zz_undeclared: 1) { name } } }`, "zz_undeclared"},
		{`{ __schema(zz_undeclared: 1) { queryType { name } } }`, "zz_undeclared"},
		{`{ __type(name: "Dog", zz_undeclared: 1) { name } }`, "zz_undeclared"},
		{`{ __schema { types { name fields(includeDeprecated: true, zz_undeclared: 2) { name } } } }`, "zz_undeclared"},
		{`{ __type(name: "Dog") { fields { name args(zz_undeclared: 2) { name } } } }`, "zz_undeclared"},
		{`{ __type(name: "Animal") { possibleTypes(zz_undeclared: true) { name } } }`, "zz_undeclared"},
		{`{ __schema { directives { name args { name(zz_undeclared: 1) } } } }`, "zz_undeclared"},
		{`{ __schema { nope_field_zz } }`, "nope_field_zz"},
		{`{ __schema { queryType { name nope_field_zz } } }`, "nope_field_zz"},
		{`{ __type(name: "Dog") { fields { type { nope_field_zz } } } }`, "nope_field_zz"},
		{`{ __type { name } }`, "name"},
		{`{ __schema { types { enumValues(zz_undeclared: 1) { name } } } }`, "zz_undeclared"},
		{`{ ant { __typename(zz_undeclared: 1) } }`, "zz_undeclared"},
		{`{ __typename(zz_undeclared: 1) }`, "zz_undeclared"},
		{`{ __schema { __typename(zz_undeclared: 1) } }`, "zz_undeclared"},
		{`{ __schema { types { name __typename(zz_undeclared: 1) } } }`, "zz_undeclared"},
		{`{ __type(name: "Dog") { fields { __typename(zz_undeclared: 1) type { __typename(zz_undeclared: 2) } } } }`, "zz_undeclared"},
		{`{ __schema { directives { args { __typename(zz_undeclared: 1) } } } }`, "zz_undeclared"},
	}
	for i := 0; i < len(intro)*3; i++ {
		ic := intro[i%len(intro)]
		kind := []string{"iface", "any", "reflect"}[i/len(intro)]
		r := c.Rand(770000 + i)
		s := gen.Menagerie(r)
		sdl := s.SDL(model.SDLOpts{})
		g := gen.Graph(r, s, gen.GraphOpts{NullProb: 1, PerType: 2})
		h, err := back.Build(kind, s, sdl, g)
		if err != nil {
			c.Violation("c10-schema-rejected", map[string]interface{}{"sdl": sdl, "error": err.Error()})
			continue
		}
		out := Do(h, Request{Text: ic.text, Entry: i}, nil)
		done++
		c.Eval("intro|"+ic.text+"|"+kind, true)
		c.Bucket("container", "introspection")
		c.Bucket("backend", kind)
		diag := ""
		if dm, _ := out.Data.(map[string]interface{}); dm != nil && len(out.Msgs) == 0 && strings.HasPrefix(ic.text, "{ ant ") && dm["ant"] == nil {
			continue // the holder is null in this graph: the selection below it is not reached
		}
		switch {
		case out.Panic != nil:
			diag = "panic"
		case len(out.Msgs) == 0:
			diag = "no error reported for the defect"
		case !strings.Contains(strings.Join(out.Msgs, "\n"), ic.offender):
			diag = "no error message names the offender"
		}
		if diag != "" {
			c.Violation("c10-introspection-container", map[string]interface{}{"backend": kind, "document": ic.text, "offender": ic.offender, "diag": diag, "observed": out.Describe()})
		}
	}
	return done
}

// c10AfterFailedLoad: a field that only a FAILED schema load would have added is as undefined as any other. After the
// schema is loaded, a later document extends a loaded type with a field and fails (an extension of an unknown type in the
// same document, or a validation error); a request naming that field must get the undefined-field error and no resolver
// may be invoked for it - under object, root and interface containers, all three strategies.
func c10AfterFailedLoad(c *run.Ctx) int {
	done := 0
	n := c.N(45, 600)
	for i := 0; i < n && !c.TooMany(); i++ {
		r := c.Rand(780000 + i)
		s := gen.Menagerie(r)
		sdl := s.SDL(model.SDLOpts{})
		g := gen.Graph(r, s, gen.GraphOpts{NullProb: 1, PerType: 2})
		kind := []string{"iface", "any", "reflect"}[i%3]
		h, err := back.Build(kind, s, sdl, g)
		if err != nil {
			c.Violation("c10-schema-rejected", map[string]interface{}{"sdl": sdl, "error": err.Error()})
			continue
		}
		impl := s.PossibleTypes("Animal")[0]
		cases := []struct{ ext, request, container string }{
			{"extend type Query { zzGhost: Int }", `{ zzbad: zzGhost ant { name } }`, "root"},
			{"extend type Ant { zzGhost: String }", `{ ant { name zzbad: zzGhost } }`, "object"},
			{"extend type " + impl + " { zzGhost: Int }", `{ ` + strings.ToLower(impl) + ` { name zzbad: zzGhost } }`, "object"},
			{"extend type " + impl + " { zzGhost: Int }", `{ pets { name ... on ` + impl + ` { zzbad: zzGhost } } }`, "interface"},
			{"extend interface Animal { zzGhost: Int }", `{ pets { name zzbad: zzGhost } }`, "interface"},
		}
		cs := cases[(i/3)%len(cases)]
		failing := cs.ext + "\n" + []string{"extend type NopeTypeZz { a: Int }", "type ZzBroken { a: NopeTypeZz }", "type ZzEmpty { }"}[r.Intn(3)]
		var lerr error
		run.Protect(func() { lerr = h.Root.ParseString(failing) })
		if lerr == nil {
			c.Count("expected_failure_was_accepted(left_to_C13)", 1)
			continue
		}
		// is the selection reached at all (a null object, an empty list, a fragment that applies to no element)?
		probe := Do(h, Request{Text: strings.Replace(cs.request, "zzbad: zzGhost", "zzprobe: __typename", 1), Entry: i}, nil)
		reached := false
		var walk func(v interface{})
		walk = func(v interface{}) {
			switch t := v.(type) {
			case map[string]interface{}:
				if _, has := t["zzprobe"]; has {
					reached = true
				}
				for _, e := range t {
					walk(e)
				}
			case []interface{}:
				for _, e := range t {
					walk(e)
				}
			}
		}
		walk(probe.Data)
		if !reached {
			c.Count("defect_not_reached_by_operation", 1)
			continue
		}
		out := Do(h, Request{Text: cs.request, Entry: i}, nil)
		done++
		c.Eval("ghost|"+failing+"|"+cs.request+"|"+kind, true)
		c.Bucket("defect", "field-of-a-failed-load")
		c.Bucket("container", cs.container)
		c.Bucket("backend", kind)
		diag := ""
		switch {
		case out.Panic != nil:
			diag = "panic"
		case len(out.Msgs) == 0:
			diag = "no error reported for a field the container type does not define"
		case !strings.Contains(strings.Join(out.Msgs, "\n"), "zzGhost"):
			diag = "no error message names the offender"
		}
		for _, cl := range out.Calls {
			if cl.Key.Field == "zzGhost" {
				diag = "the resolver was invoked for the undefined field"
			}
		}
		if diag != "" {
			c.Violation("c10-field-of-a-failed-load", map[string]interface{}{"backend": kind, "sdl": sdl, "failed_load": failing, "load_error": lerr.Error(), "document": cs.request, "diag": diag, "observed": out.Describe()})
		}
	}
	return done
}

// c10Subscription: a defect below the root field of a subscription is met when an event is resolved for that subscriber:
// AddEvent is where "the response carries an error" then, whoever else is subscribed and in whatever order.
func c10Subscription(c *run.Ctx) int {
	defects := []struct{ sel, offender string }{
		{`{ id nope_field_zz }`, "nope_field_zz"},
		{`{ id n(zz_undeclared: 1) }`, "zz_undeclared"},
		{`{ inner { v nope_field_zz } id }`, "nope_field_zz"},
		{`{ id ... on NopeTypeZz { n } }`, "NopeTypeZz"},
	}
	done := 0
	for di, d := range defects {
		for order := 0; order < 3; order++ { // defective first, defective last, defective between two clean ones
			var clock int64
			lg := &subLog{cleanups: map[int][]int64{}, clock: &clock}
			ro := &subRootObj{log: lg}
			root := ggql.NewRoot(ro)
			if err := root.ParseString(subSDL); err != nil {
				c.Violation("c10-schema-rejected", map[string]interface{}{"error": err.Error()})
				return done
			}
			var cur int64 = 1
			texts := []string{"subscription { listen(topic: \"a\") { id n } }", "subscription { listen(topic: \"a\") " + d.sel + " }", "subscription { listen(topic: \"a\") { tag } }"}
			seq := [][]int{{1, 0}, {0, 1}, {0, 1, 2}}[order]
			rejectedAtSubscribe := false
			for si, ti := range seq {
				ro.pending = &hSub{sid: si, log: lg, failOn: map[int]bool{}, field: "listen", current: &cur}
				res := root.ResolveString(texts[ti], "", nil)
				if ti == 1 && res["errors"] != nil {
					rejectedAtSubscribe = strings.Contains(fmt.Sprint(res["errors"]), d.offender)
				}
			}
			done++
			c.Eval(fmt.Sprintf("subscription-defect|%d|%d", di, order), true)
			c.Bucket("container", "subscription-event")
			if rejectedAtSubscribe {
				c.Count("defective_subscription_refused_when_made", 1)
				continue // reported even earlier: fine
			}
			var aerr error
			pv, _ := run.Protect(func() { _, aerr = root.AddEvent("a", &subEvent{uid: 1, id: "e1", n: 5, tag: "t", v: 2}) })
			diag := ""
			switch {
			case pv != nil:
				diag = fmt.Sprintf("AddEvent panics: %v", pv)
			case aerr == nil:
				diag = "no error reported for the defect when the event was resolved for the subscriber"
			case !strings.Contains(aerr.Error(), d.offender):
				diag = "no error message names the offender: " + clip(aerr.Error(), 300)
			}
			if diag != "" {
				c.Violation("c10-subscription-event", map[string]interface{}{"subscriptions_in_order": seq, "defective_subscription": texts[1], "offender": d.offender, "diag": diag})
			}
		}
	}
	return done
}

type c10MObj struct{}

func (o *c10MObj) Resolve(f *ggql.Field, args map[string]interface{}) (interface{}, error) {
	switch f.Name {
	case "query", "mutation", "legacy":
		return &c10MObj{}, nil
	}
	return 1, nil
}

// c10RootMoved: __schema and __type are fields of the query root operation type only - of the type that IS the query
// root when the request is answered. An application loads a first document (implicit schema, root type Query), answers
// requests (some with meta-fields, also under mutation), then loads a second document whose explicit schema makes Root2
// the query root, from which objects of the former root type Query stay reachable. From then on the meta-fields are
// undefined on Query objects (error, nothing resolved for them) and defined on Root2.
func c10RootMoved(c *run.Ctx) int {
	warm := []string{``, `{ __schema { queryType { name } } a }`, `{ __type(name: "Query") { name } }`, `mutation { __schema { queryType { name } } m }`, `{ a }`,
		`mutation { m __type(name: "Query") { name } }`}
	type probe struct {
		text    string
		defined bool
		offend  string
	}
	probes := []probe{
		{`{ legacy { __schema { queryType { name } } a } b }`, false, "__schema"},
		{`{ legacy { a __type(name: "Query") { name } } b }`, false, "__type"},
		{`{ b legacy { ...F } } fragment F on Query { __schema { types { name } } }`, false, "__schema"},
		{`{ __schema { queryType { name } } b }`, true, ""},
		{`{ b __type(name: "Query") { name } }`, true, ""},
		{`mutation { __schema { queryType { name } } m }`, false, "__schema"},
	}
	done := 0
	for round := 0; round < c.N(30, 400) && !c.TooMany(); round++ {
		r := c.Rand(790000 + round)
		root := ggql.NewRoot(&c10MObj{})
		if err := root.ParseString("type Query { a: Int }\ntype Mutation { m: Int }"); err != nil {
			c.Violation("c10-schema-rejected", map[string]interface{}{"error": err.Error()})
			return done
		}
		var hist []string
		for k := r.Intn(3); k > 0; k-- {
			if w := warm[r.Intn(len(warm))]; w != "" {
				_, _ = run.Protect(func() { _ = root.ResolveString(w, "", nil) })
				hist = append(hist, w)
			}
		}
		if err := root.ParseString("schema { query: Root2 mutation: Mutation }\ntype Root2 { legacy: Query b: Int }"); err != nil {
			c.Violation("c10-schema-rejected", map[string]interface{}{"error": err.Error(), "history": hist})
			return done
		}
		hist = append(hist, "load: schema { query: Root2 mutation: Mutation } type Root2 { legacy: Query b: Int }")
		for k := 0; k < 3; k++ {
			p := probes[r.Intn(len(probes))]
			var resp map[string]interface{}
			pv, _ := run.Protect(func() { resp = root.ResolveString(p.text, "", nil) })
			hist = append(hist, p.text)
			done++
			c.Eval("root-moved|"+strings.Join(hist, "|"), true)
			c.Bucket("container", "former-query-root-after-the-schema-names-another")
			diag := ""
			el, _ := resp["errors"].([]interface{})
			msgs := fmt.Sprint(el)
			data, _ := resp["data"].(map[string]interface{})
			switch {
			case pv != nil:
				diag = fmt.Sprint("panic: ", pv)
			case p.defined && len(el) > 0:
				diag = "meta-field of the query root refused: " + msgs
			case p.defined:
				if sm, isS := data["__schema"].(map[string]interface{}); isS {
					if qt, _ := sm["queryType"].(map[string]interface{}); qt == nil || qt["name"] != "Root2" {
						diag = fmt.Sprint("queryType is ", sm["queryType"])
					}
				} else if tm, isT := data["__type"].(map[string]interface{}); !isT || tm["name"] != "Query" {
					diag = "no data for the meta-field"
				}
			case len(el) == 0:
				diag = "no error reported for " + p.offend + " selected on a type that is not the query root"
			case !strings.Contains(msgs, p.offend):
				diag = "no error message names the offender"
			default:
				if lm, _ := data["legacy"].(map[string]interface{}); lm != nil {
					if v, has := lm[p.offend]; has && v != nil {
						diag = "the undefined meta-field was resolved: " + fmt.Sprint(v)
					}
				}
				if v, has := data[p.offend]; has && v != nil {
					diag = "the undefined meta-field was resolved: " + fmt.Sprint(v)
				}
			}
			if diag != "" {
				c.Violation("c10-root-moved", map[string]interface{}{"history": hist, "document": p.text, "offender": p.offend, "diag": diag, "response": fmt.Sprint(resp)})
				break
			}
		}
	}
	return done
}

// c10ReflectRequired: the reflection strategy binds a field to a Go METHOD; a required (non-null, no default) argument of
// that field left out of the request - with no argument at all, or with only the optional one - is the request's error:
// the response names the argument, the position is null and the method is not called with a made-up value. Valid calls
// right next to it run.
func c10ReflectRequired(c *run.Ctx) int {
	const sdl = "type Query { a: Int item: Item items: [Item] }\ntype Item { name: String sub: Item greet(name: String!, loud: Boolean): String }\n"
	reqs := []struct {
		text  string
		calls int64 // valid greet calls in the request
	}{
		{`{ item { greet } }`, 0},
		{`{ item { name greet } a }`, 0},
		{`{ items { greet name } }`, 0},
		{`{ item { sub { g: greet } } }`, 0},
		{`{ item { ...F } } fragment F on Item { greet }`, 0},
		{`{ item { ... on Item { greet(loud: true) } } }`, 0},
		{`{ item { ok: greet(name: "Bo") bad: greet } }`, 1},
		{`{ item { bad: greet ok: greet(name: "Bo", loud: false) } }`, 1},
		{`query Q($l: Boolean) { item { greet(loud: $l) } }`, 0},
	}
	done := 0
	for round := 0; round < c.N(4, 40); round++ {
		for _, rq := range reqs {
			r := c.Rand(795000 + round)
			q := &c07SQuery{A: 1, Item: &c07SItem{Name: "i", Sub: &c07SItem{Name: "s"}}, Items: []*c07SItem{{Name: "l0"}, {Name: "l1"}}}
			root := ggql.NewRoot(&c07SRoot{Query: q})
			if err := root.ParseString(sdl); err != nil {
				c.Violation("c10-schema-rejected", map[string]interface{}{"error": err.Error()})
				return done
			}
			if r.Intn(2) == 0 {
				_ = root.ResolveString(`{ item { greet(name: "warm") } }`, "", nil) // the method is bound already
			}
			before := atomic.LoadInt64(&c07GreetCalls)
			var resp map[string]interface{}
			pv, _ := run.Protect(func() { resp = root.ResolveString(rq.text, "", nil) })
			calls := atomic.LoadInt64(&c07GreetCalls) - before
			done++
			c.Eval(fmt.Sprintf("reflect-required|%s|%d", rq.text, round), true)
			c.Bucket("defect", "missing-required-arg")
			c.Bucket("container", "object-bound-by-reflection-to-a-method")
			msgs := fmt.Sprint(resp["errors"])
			diag := ""
			switch {
			case pv != nil:
				diag = fmt.Sprint("panic: ", pv)
			case resp["errors"] == nil:
				diag = "no error reported for the missing required argument"
			case !strings.Contains(msgs, "name"):
				diag = "no error message names the missing argument"
			case calls != rq.calls:
				diag = fmt.Sprintf("the method was invoked %d times, %d of the calls in the request are valid", calls, rq.calls)
			}
			if diag != "" {
				c.Violation("c10-missing-required-arg", map[string]interface{}{"backend": "reflect (method)", "sdl": sdl, "document": rq.text, "diag": diag, "response": fmt.Sprint(resp)})
			}
		}
	}
	return done
}

type c10LObj struct{ lateCalls *int }

func (o *c10LObj) Resolve(f *ggql.Field, args map[string]interface{}) (interface{}, error) {
	switch f.Name {
	case "query", "inner", "node":
		return o, nil
	case "late":
		*o.lateCalls++
		return 7, nil
	}
	return 1, nil
}

// c10LateRequired: a field with a required argument that arrives by `extend` after the root has already answered
// requests on that type (object and interface containers). Leaving the argument out is the request's error from then on:
// the response names it and the resolver is not called without it.
func c10LateRequired(c *run.Ctx) int {
	done := 0
	const base = "type Query implements Node { a: Int inner: Query node: Node }\ninterface Node { a: Int }\n"
	const ext = "extend interface Node { late(req: Int!, opt: Int): Int }\nextend type Query { late(req: Int!, opt: Int): Int }\n"
	warm := []string{`{ a }`, `{ inner { a } node { a } }`, `{ __type(name: "Query") { fields { name args { name } } } }`, `{ node { ... on Query { a } } }`}
	probes := []struct {
		text  string
		calls int
	}{{`{ late }`, 0}, {`{ inner { late(opt: 1) } }`, 0}, {`{ node { late } }`, 0}, {`{ ok: late(req: 1) bad: late }`, 1}, {`{ node { a late(opt: 2) } inner { late(req: 3) } }`, 1}}
	for round := 0; round < c.N(20, 300); round++ {
		r := c.Rand(797000 + round)
		calls := 0
		root := ggql.NewRoot(&c10LObj{lateCalls: &calls})
		var hist []string
		if err := root.ParseString(base); err != nil {
			c.Violation("c10-schema-rejected", map[string]interface{}{"error": err.Error()})
			return done
		}
		for k := r.Intn(4); k > 0; k-- {
			w := warm[r.Intn(len(warm))]
			_ = root.ResolveString(w, "", nil)
			hist = append(hist, w)
		}
		if err := root.ParseString(ext); err != nil {
			c.Violation("c10-schema-rejected", map[string]interface{}{"error": err.Error(), "history": hist})
			return done
		}
		hist = append(hist, "load: "+ext)
		for k := 0; k < 3; k++ {
			p := probes[r.Intn(len(probes))]
			calls = 0
			var resp map[string]interface{}
			pv, _ := run.Protect(func() { resp = root.ResolveString(p.text, "", nil) })
			hist = append(hist, p.text)
			done++
			c.Eval("late-required|"+strings.Join(hist, "|"), true)
			c.Bucket("defect", "missing-required-arg")
			c.Bucket("container", "field-added-by-extend-after-requests")
			msgs := fmt.Sprint(resp["errors"])
			diag := ""
			switch {
			case pv != nil:
				diag = fmt.Sprint("panic: ", pv)
			case resp["errors"] == nil:
				diag = "no error reported for the missing required argument"
			case !strings.Contains(msgs, "req"):
				diag = "no error message names the missing argument"
			case calls != p.calls:
				diag = fmt.Sprintf("the resolver of late was invoked %d times, %d of the selections in the request are valid", calls, p.calls)
			}
			if diag != "" {
				c.Violation("c10-missing-required-arg", map[string]interface{}{"backend": "iface", "history": hist, "document": p.text, "diag": diag, "response": fmt.Sprint(resp)})
				break
			}
		}
	}
	return done
}
