package checks

import (
	"fmt"

	"verif/internal/ref"
	"verif/internal/run"

	"github.com/uhn/ggql/pkg/ggql"
)

type c11CtxUser struct{ depth int }

func (u *c11CtxUser) Resolve(field *ggql.Field, args map[string]interface{}) (interface{}, error) {
	switch field.Name {
	case "query", "me", "friend":
		if u.depth > 6 {
			return nil, nil
		}
		return &c11CtxUser{depth: u.depth + 1}, nil
	case "ctx":
		return fmt.Sprint(field.Context), nil // what the application attached to the request
	}
	return "n", nil
}

// c11Contexts: the documented way to hand per-request data to resolvers is Executable.SetContextRecursive on the parsed
// request. A request parsed once and given a NEW context before every resolution answers like a freshly parsed copy given
// the same context - in every field, also those inside named fragments (spread once or several times), inline fragments
// and nested selections; the printed form does not change.
func c11Contexts(c *run.Ctx) {
	const sdl = `type Query { me: User } type User { name: String ctx: String friend: User }`
	docs := []string{
		`query Q { me { ...D ctx friend { ...D } } } fragment D on User { ctx name friend { ctx } }`,
		`fragment D on User { name ctx } query Q { me { ctx ... on User { ctx friend { ...D } } ...D } }`,
		`query Q { me { friend { friend { ...A } } ...A } } fragment A on User { ...B ctx } fragment B on User { ctx name }`,
		`query Q { a: me { ...D } b: me { ...D } } fragment D on User { c1: ctx friend { c2: ctx } }`,
		`{ me { ctx friend { ctx friend { ctx } } } }`,
	}
	n := c.N(60, 800)
	for i := 0; i < n && !c.TooMany(); i++ {
		r := c.Rand(1100000 + i)
		root := ggql.NewRoot(&c11CtxUser{})
		if err := root.ParseString(sdl); err != nil {
			c.Violation("c11-ctx-schema", map[string]interface{}{"error": err.Error()})
			return
		}
		text := docs[i%len(docs)]
		exe, err := root.ParseExecutableString(text)
		if err != nil {
			c.Violation("c11-ctx-schema", map[string]interface{}{"error": err.Error(), "document": text})
			return
		}
		printed := exe.String()
		var hist []string
		for k, steps := 0, 2+r.Intn(4); k < steps; k++ {
			ctx := fmt.Sprintf("request-%d-%d", i, r.Intn(1000))
			var res, exp map[string]interface{}
			var rerr, eerr error
			pv, _ := run.Protect(func() {
				exe.SetContextRecursive(ctx)
				res, rerr = root.ResolveExecutable(exe, "", nil)
			})
			pe, _ := run.Protect(func() {
				fresh, ferr := root.ParseExecutableString(text)
				if ferr != nil {
					eerr = ferr
					return
				}
				fresh.SetContextRecursive(ctx)
				exp, eerr = root.ResolveExecutable(fresh, "", nil)
			})
			hist = append(hist, "SetContextRecursive("+ctx+"); ResolveExecutable")
			c.Count("resolutions_with_a_new_request_context", 1)
			diag := ""
			switch {
			case pv != nil || pe != nil:
				diag = fmt.Sprintf("panic: %v / %v", pv, pe)
			case fmt.Sprint(rerr) != fmt.Sprint(eerr):
				diag = fmt.Sprintf("errors differ: %v / %v", rerr, eerr)
			case ref.Render(ref.Canon(res)) != ref.Render(ref.Canon(exp)):
				diag = "the kept request answers " + ref.Render(ref.Canon(res)) + ", a fresh parse given the same context answers " + ref.Render(ref.Canon(exp))
			case exe.String() != printed:
				diag = "the printed form of the kept request changed"
			}
			if diag != "" {
				c.Violation("c11-request-context", map[string]interface{}{"document": text, "history": hist, "diag": diag})
				break
			}
		}
		c.Eval(fmt.Sprintf("ctx|%d|%d", i%len(docs), i), true)
	}
}

// c11KeptSubscription: a subscription request parsed once and resolved several times - for the SAME Subscriber value (one
// connection asking for the same stream with other variables) and for another one - registers one subscription per
// resolution, exactly like fresh parses of the same text do: every publish reaches each of them once, each message is the
// selection applied with the variables of ITS request.
func c11KeptSubscription(c *run.Ctx) {
	const text = `subscription Watch($k: Int = 7) { listen(topic: "c1") { id e0: echo(x: $k) } }`
	n := c.N(30, 400)
	for i := 0; i < n && !c.TooMany(); i++ {
		r := c.Rand(1150000 + i)
		type outcome struct {
			msgs []string
			cnt  []int
		}
		runHist := func(kept bool, ks []int, conns []int) (o outcome, diag string) {
			ro := &c19ConnRoot{}
			root := ggql.NewRoot(ro)
			if err := root.ParseString(subSDL); err != nil {
				return o, "schema rejected: " + err.Error()
			}
			cs := []*c19Conn{{id: "c1"}, {id: "c1"}}
			var exe *ggql.Executable
			for j, k := range ks {
				ro.next = cs[conns[j]]
				var err error
				pv, _ := run.Protect(func() {
					if !kept || exe == nil {
						exe, err = root.ParseExecutableString(text)
					}
					if err == nil {
						_, err = root.ResolveExecutable(exe, "", map[string]interface{}{"k": k})
					}
				})
				if pv != nil || err != nil {
					return o, fmt.Sprintf("subscription request %d: %v %v", j, pv, err)
				}
			}
			for e := 1; e <= 2; e++ {
				cnt, err := root.AddEvent("c1", &subEvent{uid: int64(e), id: fmt.Sprintf("e%d", e), n: e, tag: "t"})
				if err != nil {
					return o, "AddEvent: " + err.Error()
				}
				o.cnt = append(o.cnt, cnt)
			}
			for _, k := range cs {
				o.msgs = append(o.msgs, fmt.Sprint(k.sent))
			}
			return o, ""
		}
		m := 2 + r.Intn(3)
		ks := make([]int, m)
		conns := make([]int, m)
		for j := range ks {
			ks[j] = []int{1, 100, 1, 5}[r.Intn(4)] + j*1000*r.Intn(2)
			conns[j] = r.Intn(2) * r.Intn(2) // mostly the same connection
		}
		a, da := runHist(true, ks, conns)
		b, db := runHist(false, ks, conns)
		c.Eval(fmt.Sprintf("kept-subscription|%v|%v", ks, conns), true)
		c.Count("subscription_histories_on_a_kept_executable", 1)
		diag := ""
		switch {
		case da != "" || db != "":
			diag = da + " / " + db
		case fmt.Sprint(a) != fmt.Sprint(b):
			diag = fmt.Sprintf("kept executable: matched %v, connections received %v; fresh parses: matched %v, received %v", a.cnt, a.msgs, b.cnt, b.msgs)
		case a.cnt[0] != m:
			diag = fmt.Sprintf("%d subscription requests, a publish matched %d", m, a.cnt[0])
		}
		if diag != "" {
			c.Violation("c11-kept-subscription", map[string]interface{}{"document": text, "variables_k": ks, "connection_of_each_request": conns, "diag": diag})
		}
	}
}
