package checks

import (
	"fmt"
	"math/rand"

	"verif/internal/back"
	"verif/internal/gen"
	"verif/internal/model"
	"verif/internal/ref"
	"verif/internal/run"
)

// c01Unbound: the Resolver and AnyResolver strategies hand out objects that are not bound to any Go type, so a value behind
// an interface-typed field is walked with the INTERFACE as its container. Everything the interface declares can be
// selected there, directly and through inline and named fragments conditioned on that same interface (at every depth,
// below lists and lists of lists, with aliases): each selected key must be there once, with the reference value.
// (Conditions on object types and __typename are left out on purpose: without a binding ggql answers them for the
// interface, which is its documented behaviour for these strategies.)
func c01Unbound(c *run.Ctx, n int) {
	for i := 0; i < n && !c.TooMany(); i++ {
		r := c.Rand(4000000 + i)
		s := gen.Menagerie(r)
		sdl := s.SDL(model.SDLOpts{})
		g := gen.Graph(r, s, gen.GraphOpts{NullProb: 5, PerType: 2 + r.Intn(2)})
		kind := []string{"iface", "any"}[i%2]
		h, err := back.Build(kind, s, sdl, g)
		if err != nil {
			c.Violation("schema-rejected", map[string]interface{}{"sdl": sdl, "error": err.Error()})
			continue
		}
		doc := &model.Doc{}
		nf := 0
		var sels func(r *rand.Rand, depth int) []model.Sel
		sels = func(r *rand.Rand, depth int) []model.Sel {
			var out []model.Sel
			for k, m := 0, 1+r.Intn(3); k < m; k++ {
				var f model.Sel
				switch x := r.Intn(6); {
				case x < 2 || depth <= 0:
					fd := &model.Field{Name: "name"}
					if r.Intn(2) == 0 {
						nf++
						fd.Alias = fmt.Sprintf("n%d", nf)
					}
					f = fd
				default:
					nf++
					f = &model.Field{Alias: fmt.Sprintf("h%d", nf), Name: []string{"friend", "pals", "rival"}[r.Intn(3)], Sels: sels(r, depth-1)}
				}
				switch r.Intn(4) {
				case 0:
					f = &model.Inline{Cond: "Animal", Sels: []model.Sel{f}}
				case 1:
					nf++
					fr := &model.FragDef{Name: fmt.Sprintf("F%d", nf), Cond: "Animal", Sels: []model.Sel{f}}
					doc.Frags = append(doc.Frags, fr)
					f = &model.Spread{Name: fr.Name}
				}
				out = append(out, f)
			}
			return out
		}
		var roots []model.Sel
		for _, hd := range []string{"a1", "a2", "pets", "grid"} {
			if r.Intn(2) == 0 || len(roots) == 0 {
				roots = append(roots, &model.Field{Name: hd, Sels: sels(r, 2)})
			}
		}
		doc.Ops = []*model.Op{{Kind: "query", Name: "Q", Sels: roots}}
		text := doc.Print(model.LayoutN(i))
		exp := ref.Execute(s, doc, "Q", nil, g, nil, ref.Flags{})
		out := Do(h, Request{Text: text, OpName: "Q", Entry: i}, nil)
		c.Eval("unbound|"+text+"|"+kind+fmt.Sprint(i), true)
		c.Bucket("doc_features", "interface-container-of-unbound-objects")
		c.Bucket("backend", kind)
		if i < 1 {
			c.Sample(map[string]interface{}{"document": text, "backend": kind, "expected_data": ref.Render(exp.Data)})
		}
		if diff := Compare(exp, out, CompareOpts{StripFragSeg: c.Open("K-C06-fragseg")}); diff != "" {
			c.Violation("c01-unbound-interface", map[string]interface{}{"backend": kind, "sdl": sdl, "graph": describeGraph(g), "document": text, "diff": diff,
				"expected": exp.Describe(), "observed": out.Describe()})
		}
	}
}
