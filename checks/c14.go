package checks

import (
	"bytes"
	"fmt"
	"math/rand"
	"os"
	"regexp"
	"sort"
	"strings"

	"github.com/uhn/ggql/pkg/ggql"

	"verif/internal/extract"
	"verif/internal/gen"
	"verif/internal/model"
	"verif/internal/ref"
	"verif/internal/run"
)

func init() {
	register(&Check{ID: "C14", Level: "fault_enumeration", Run: runC14})
}

// observe builds the observation vector of a root: printed schema, canonical schema read back through the
// public API, full introspection answer, operation root types and the answers to a fixed request set.
func observe(root *ggql.Root) (vec []string, err error) {
	pv, _ := run.Protect(func() {
		vec = append(vec, "SDL:\n"+root.SDL(true, true))
		s, e := extract.FromRoot(root)
		if e != nil {
			vec = append(vec, "READBACK-ERROR: "+e.Error())
		} else {
			vec = append(vec, "CANON:\n"+extract.Canon(s, extract.CanonOpts{}))
		}
		for _, q := range []struct{ text, op string }{
			{c17FullQuery, "Full"},
			{`{ __typename }`, ""},
			{`{ __schema { queryType { name fields { name } } mutationType { name } subscriptionType { name } } }`, ""},
			{`mutation { __typename }`, ""},
			{`{ __type(name: "Query") { fields(includeDeprecated: true) { name type { name kind } } } }`, ""},
		} {
			res := root.ResolveString(q.text, q.op, map[string]interface{}{"dep": true})
			vec = append(vec, "REQ "+clip(q.text, 40)+" => "+ref.Render(ref.Canon(res["data"]))+" errors="+fmt.Sprint(res["errors"]))
		}
	})
	if pv != nil {
		return vec, fmt.Errorf("panic while observing: %v", pv)
	}
	if pv2, _ := run.Protect(func() { vec = append(vec, observeByName(root)) }); pv2 != nil {
		return vec, fmt.Errorf("panic while observing by name: %v", pv2)
	}
	return vec, nil
}

// c14ProbeNames are the identifiers that occurred in the documents of the current history (failed ones included).
var c14ProbeNames []string

var c14IdentRe = regexp.MustCompile(`[A-Za-z_][A-Za-z0-9_]*`)

func c14NoteNames(text string) {
	seen := map[string]bool{}
	for _, n := range c14ProbeNames {
		seen[n] = true
	}
	for _, n := range c14IdentRe.FindAllString(text, -1) {
		if !seen[n] && len(c14ProbeNames) < 400 {
			seen[n] = true
			c14ProbeNames = append(c14ProbeNames, n)
		}
	}
}

// observeByName asks the types what they know BY NAME, which is what requests go by: the members an input type accepts
// and fills in, the values an enum takes, the fields an object or interface finds. The listings (SDL, introspection) and
// the look-ups are kept in separate structures inside ggql; a failed load must leave neither changed.
func observeByName(root *ggql.Root) string {
	var b strings.Builder
	b.WriteString("BY-NAME:\n")
	sortWas := ggql.Sort
	ggql.Sort = true
	defer func() { ggql.Sort = sortWas }()
	for _, t := range root.Types() {
		switch tt := t.(type) {
		case *ggql.Input:
			v, err := tt.CoerceIn(map[string]interface{}{})
			var vb bytes.Buffer
			_ = ggql.WriteSDLValue(&vb, v, -1)
			fmt.Fprintf(&b, "input %s {} => %s err=%v\n", tt.Name(), vb.String(), err != nil)
			for _, n := range c14ProbeNames {
				if _, err := tt.CoerceIn(map[string]interface{}{n: nil}); err == nil || !strings.Contains(err.Error(), "not a field") {
					fmt.Fprintf(&b, "input %s knows %s\n", tt.Name(), n)
				}
			}
		case *ggql.Enum:
			for _, n := range c14ProbeNames {
				if _, err := tt.CoerceIn(ggql.Symbol(n)); err == nil {
					fmt.Fprintf(&b, "enum %s takes %s\n", tt.Name(), n)
				}
			}
		case *ggql.Object:
			for _, n := range c14ProbeNames {
				if tt.GetField(n) != nil {
					fmt.Fprintf(&b, "type %s finds %s\n", tt.Name(), n)
				}
			}
		case *ggql.Interface:
			for _, n := range c14ProbeNames {
				if tt.GetField(n) != nil {
					fmt.Fprintf(&b, "interface %s finds %s\n", tt.Name(), n)
				}
			}
		}
	}
	return b.String()
}

func vecDiff(a, b []string) string {
	for i := 0; i < len(a) && i < len(b); i++ {
		if a[i] != b[i] {
			return fmt.Sprintf("component %d (%s):\n%s", i, clip(a[i], 20), firstDiff(a[i], b[i]))
		}
	}
	if len(a) != len(b) {
		return "observation vectors have different lengths"
	}
	return ""
}

type c14Load struct {
	Kind     string
	Text     string
	Expect   string // "ok" | "fail" | "either"
	Reader   int    // fault offset (-1: none)
	RKind    int
	Add      func() []ggql.Type // when set the load is Root.AddTypes(Add()...) (fresh type objects for every root)
	Files    map[string]string  // when set the load is Root.ParseFS over these files ("*.graphql")
	FSFault  string             // "", "open", "read", "close": the fault injected into the file system of the history root
	Patterns []string           // ParseFS patterns (default: one pattern matching every schema file)
}

func (l c14Load) patterns() []string {
	if len(l.Patterns) > 0 {
		return l.Patterns
	}
	return []string{"*.graphql"}
}

// apply performs the load on a root (without reader faults).
func (l c14Load) apply(root *ggql.Root) (err error) {
	if l.Add != nil {
		return root.AddTypes(l.Add()...)
	}
	if l.Files != nil {
		return root.ParseFS(&faultyFS{files: l.Files, failOpen: -1, failRead: -1, failClose: -1}, l.patterns()...)
	}
	return root.ParseString(l.Text)
}

// applyFaulty is apply with the load's own fault (only the history root sees it).
func (l c14Load) applyFaulty(root *ggql.Root, r *rand.Rand) error {
	if l.Files == nil || l.FSFault == "" {
		return l.apply(root)
	}
	f := &faultyFS{files: l.Files, failOpen: -1, failRead: -1, failClose: -1}
	k := r.Intn(len(l.Files))
	switch l.FSFault {
	case "open":
		f.failOpen = k
	case "read":
		f.failRead = k
	default:
		f.failClose = k
	}
	return root.ParseFS(f, l.patterns()...)
}

// c14AddTypes: loads through the Go API. Types are built fresh on every call; references are *ggql.Ref like the parser makes them.
func c14AddTypes(r *rand.Rand, base *model.Schema, tag string) c14Load {
	ref := func(n string) ggql.Type { return &ggql.Ref{Base: ggql.Base{N: n}} }
	obj := func(name string, fields ...string) func() ggql.Type {
		return func() ggql.Type {
			o := &ggql.Object{Base: ggql.Base{N: name}}
			for i := 0; i+1 < len(fields); i += 2 {
				_ = o.AddField(&ggql.FieldDef{Base: ggql.Base{N: fields[i]}, Type: ref(fields[i+1])})
			}
			return o
		}
	}
	emptyEnum := func() ggql.Type { return &ggql.Enum{Base: ggql.Base{N: "ZzEmptyEnum" + tag}} }
	rootName := []string{"Mutation", "Subscription"}[r.Intn(2)]
	type cand struct {
		kind, text, expect string
		mk                 []func() ggql.Type
	}
	cands := []cand{
		{"addtypes-fail-validation-with-root-type", "object " + rootName + " {zzRoot: Int}, enum ZzEmptyEnum (no values)", "fail", []func() ggql.Type{obj(rootName, "zzRoot"+tag, "Int"), emptyEnum}},
		{"addtypes-fail-undefined-ref-with-root-type", "object " + rootName + " {zzRoot: Int}, object ZzBad {f: NopeTypeZz}", "fail", []func() ggql.Type{obj(rootName, "zzRoot"+tag, "Int"), obj("ZzBad"+tag, "f", "NopeTypeZz")}},
		{"addtypes-fail-duplicate", "object ZzNew {a: Int}, union Query (duplicate name)", "fail", []func() ggql.Type{obj("ZzNew"+tag, "a", "Int"), func() ggql.Type { return &ggql.Union{Base: ggql.Base{N: "Query"}} }}},
		{"addtypes-fail-reserved-name", "object ZzNew {a: Int}, object ZzRes {__x: Int}", "fail", []func() ggql.Type{obj("ZzNew"+tag, "a", "Int"), obj("ZzRes"+tag, "__x", "Int")}},
		{"addtypes-fail-empty-object", "object " + rootName + " {zzRoot: String}, object ZzEmpty {}", "fail", []func() ggql.Type{obj(rootName, "zzRoot"+tag, "String"), obj("ZzEmpty" + tag)}},
		{"addtypes-enum-named-like-a-root-type", "enum " + rootName + " {A}", "either", []func() ggql.Type{func() ggql.Type {
			e := &ggql.Enum{Base: ggql.Base{N: rootName}}
			_ = e.AddValue(&ggql.EnumValue{Value: ggql.Symbol("A")})
			return e
		}}},
		{"addtypes-valid", "object ZzOk {a: Int, b: Query}", "either", []func() ggql.Type{obj("ZzOk"+tag, "a", "Int", "b", "Query")}},
		{"addtypes-valid-root-type", "object " + rootName + " {zzRoot: Int}", "either", []func() ggql.Type{obj(rootName, "zzRoot"+tag, "Int")}},
	}
	cd := cands[r.Intn(len(cands))]
	return c14Load{Kind: cd.kind, Text: "[AddTypes] " + cd.text, Expect: cd.expect, Reader: -1, Add: func() []ggql.Type {
		var out []ggql.Type
		for _, m := range cd.mk {
			out = append(out, m())
		}
		return out
	}}
}

// c14ValidFragments produces definitions that are valid on top of the base schema (and of each other when names are fresh).
func c14ValidFragments(r *rand.Rand, base *model.Schema, tag string, n int) []string {
	var out []string
	var objs, enums, inputs, unions, ifaces, scalars []string
	for _, t := range base.Types {
		switch t.Kind {
		case model.Scalar:
			scalars = append(scalars, t.Name)
		case model.Object:
			objs = append(objs, t.Name)
		case model.Enum:
			enums = append(enums, t.Name)
		case model.Input:
			inputs = append(inputs, t.Name)
		case model.Union:
			unions = append(unions, t.Name)
		case model.Interface:
			ifaces = append(ifaces, t.Name)
		}
	}
	for i := 0; i < n; i++ {
		id := fmt.Sprintf("%s%d", tag, i)
		switch r.Intn(10) {
		case 7:
			// a directive (defined in the same document) put on an EXISTING type of any kind through an extension
			dir := fmt.Sprintf("directive @xd%s(w: Int = 2) on SCALAR | ENUM | UNION | INPUT_OBJECT | INTERFACE | OBJECT", id)
			var ext string
			switch k := r.Intn(6); {
			case k == 0 && len(scalars) > 0:
				ext = fmt.Sprintf("extend scalar %s @xd%s", scalars[r.Intn(len(scalars))], id)
			case k == 1 && len(enums) > 0:
				ext = fmt.Sprintf("extend enum %s @xd%s(w: 5) { XD%s }", enums[r.Intn(len(enums))], id, strings.ToUpper(id))
			case k == 2 && len(unions) > 0:
				ext = fmt.Sprintf("type NewXU%s { u: Int }\nextend union %s @xd%s = NewXU%s", id, unions[r.Intn(len(unions))], id, id)
			case k == 3 && len(inputs) > 0:
				ext = fmt.Sprintf("extend input %s @xd%s { xd%s: String }", inputs[r.Intn(len(inputs))], id, id)
			case k == 4 && len(ifaces) > 0:
				ext = fmt.Sprintf("scalar NewXS%s\nextend scalar NewXS%s @xd%s", id, id, id)
			default:
				ext = fmt.Sprintf("extend type %s @xd%s { xd%s: Int }", objs[r.Intn(len(objs))], id, id)
			}
			out = append(out, dir+"\n"+ext)
		case 8:
			// an extension that carries a description of its own
			out = append(out, fmt.Sprintf("\"described extension %s\"\nextend type %s { xe%s: Boolean }", id, objs[r.Intn(len(objs))], id))
		case 9:
			if r.Intn(3) == 0 {
				// a built-in scalar carries the directive (Int, Float, ... are scalars like any other)
				out = append(out, fmt.Sprintf("directive @xs%s on SCALAR\nextend scalar %s @xs%s", id, []string{"Int", "Float", "Boolean", "ID", "String", "Time", "Int64"}[r.Intn(7)], id))
			} else if len(scalars) > 0 {
				out = append(out, fmt.Sprintf("directive @xs%s on SCALAR\nextend scalar %s @xs%s", id, scalars[r.Intn(len(scalars))], id))
			} else {
				out = append(out, fmt.Sprintf("scalar NewSc%s", id))
			}
		case 0:
			out = append(out, fmt.Sprintf("type New%s { a: Int b: [%s] }", id, objs[r.Intn(len(objs))]))
		case 1:
			out = append(out, fmt.Sprintf("extend type %s { x%s: String }", objs[r.Intn(len(objs))], id))
		case 2:
			if len(enums) > 0 {
				out = append(out, fmt.Sprintf("extend enum %s { X%s }", enums[r.Intn(len(enums))], strings.ToUpper(id)))
			} else {
				out = append(out, fmt.Sprintf("enum NewE%s { A B }", id))
			}
		case 3:
			if len(inputs) > 0 {
				out = append(out, fmt.Sprintf("extend input %s { x%s: Int = 3 }", inputs[r.Intn(len(inputs))], id))
			} else {
				out = append(out, fmt.Sprintf("input NewI%s { a: Int }", id))
			}
		case 4:
			out = append(out, fmt.Sprintf("\"desc %s\"\nscalar NewS%s", id, id))
		case 5:
			out = append(out, fmt.Sprintf("directive @newd%s(a: Int = 1) on OBJECT\ntype NewD%s @newd%s { a: Int }", id, id, id))
		default:
			if len(ifaces) > 0 && r.Intn(2) == 0 {
				// an object starts implementing an interface in an extension that brings the interface's fields along
				it := base.Type(ifaces[r.Intn(len(ifaces))])
				var cand *model.TypeDef
				for _, t := range base.Types {
					if t.Kind == model.Object && !base.Implements(t.Name, it.Name) {
						clash := false
						for _, f := range it.Fields {
							if t.Field(f.Name) != nil {
								clash = true
							}
						}
						if !clash {
							cand = t
						}
					}
				}
				if cand != nil {
					var fs []string
					for _, f := range it.Fields {
						cp := *f
						cp.Dirs, cp.Desc = nil, ""
						fs = append(fs, model.FieldSDL(&cp, model.SDLOpts{}))
					}
					out = append(out, fmt.Sprintf("extend type %s implements %s {\n  %s\n}", cand.Name, it.Name, strings.Join(fs, "\n  ")))
				} else {
					out = append(out, fmt.Sprintf("extend interface %s { x%s: Int }", it.Name, id)) // breaks implementers: the load fails as a whole
				}
			} else if len(ifaces) > 0 && r.Intn(3) == 0 {
				out = append(out, fmt.Sprintf("extend interface %s { x%s: Int }", ifaces[r.Intn(len(ifaces))], id))
			} else {
				out = append(out, fmt.Sprintf("type NewU%s { u: Int }\nunion NewUn%s = NewU%s", id, id, id))
			}
		}
	}
	return out
}

var c14Failures = []struct{ kind, text string }{
	{"syntax", "type Broken {"},
	{"syntax", "type Broken { a: }"},
	{"syntax", "enum { A }"},
	{"syntax", "= | )"},
	{"undefined-ref", "type BadRef { a: NopeTypeZz }"},
	{"undefined-ref", "type BadRef implements NopeIfZz { a: Int }"},
	{"undefined-ref", "type BadRef @nopeDirZz { a: Int }"},
	{"failed-extend", "extend type NopeTypeZz { a: Int }"},
	{"failed-extend", "extend type Query { plain: Int }"},
	{"failed-extend", "extend enum NopeEnumZz { A }"},
	{"validation", "type EmptyZz { }"},
	{"validation", "interface IfZz { a: Int }\ntype BadImplZz implements IfZz { b: Int }"},
	{"validation", "type __ReservedZz { a: Int }"},
	{"validation", "extend type Query @deprecated { extraZz: Int }"},
	{"validation", "union BadUnionZz = Int"},
	{"validation", "input BadInZz { a: Query }"},
	{"duplicate", "type Query { again: Int }"},
	{"duplicate", "directive @skip on FIELD"},
	{"schema-block", "schema { query: NopeTypeZz }"},
	{"schema-block", "schema { query: Query }\ntype BadRef { a: NopeTypeZz }"},
	{"schema-block", "extend schema { mutation: NopeTypeZz }"},
	{"schema-block-then-syntax", "schema { query: Query }\ntype Broken {"},
	{"schema-block-then-syntax", "type QZz { a: Int }\nschema { query: QZz }\nenum { A }"},
}

// c14DynamicFailures builds failing documents that depend on the base schema: extensions that fail part-way (a valid
// member before a duplicate one), and documents that define a not yet present default root operation type but fail validation.
func c14DynamicFailures(r *rand.Rand, base *model.Schema, tag string) []struct{ kind, text string } {
	var out []struct{ kind, text string }
	add := func(k, t string) { out = append(out, struct{ kind, text string }{k, t}) }
	for _, t := range base.Types {
		switch t.Kind {
		case model.Object:
			if len(t.Fields) > 0 && r.Intn(2) == 0 {
				add("partial-extend", fmt.Sprintf("extend type %s { fresh%s: Int %s: Int }", t.Name, tag, t.Fields[r.Intn(len(t.Fields))].Name))
			}
		case model.Enum:
			add("partial-extend", fmt.Sprintf("extend enum %s { FRESH%s %s }", t.Name, strings.ToUpper(tag), t.Values[r.Intn(len(t.Values))].Name))
			// an existing value repeated WITH a directive (a value object the enum already holds), the document fails at that
			// block or - should the repeat be taken - at the rule breach after it
			add("extend-repeats-enum-value-with-directive-then-invalid", fmt.Sprintf("extend enum %s { %s @deprecated(reason: \"zz %s\") }\nunion BadUnionZz%s = Int", t.Name, t.Values[r.Intn(len(t.Values))].Name, tag, tag))
		case model.Input:
			add("partial-extend", fmt.Sprintf("extend input %s { fresh%s: Int %s: Int }", t.Name, tag, t.Inputs[r.Intn(len(t.Inputs))].Name))
		case model.Union:
			add("partial-extend", fmt.Sprintf("type FreshU%s { a: Int }\nextend union %s = FreshU%s | %s", tag, t.Name, tag, t.Members[0]))
		case model.Interface:
			if len(t.Fields) > 0 {
				add("partial-extend", fmt.Sprintf("extend interface %s { fresh%s: Int %s: Int }", t.Name, tag, t.Fields[0].Name))
			}
		}
	}
	for _, rootName := range []string{"Mutation", "Subscription"} {
		if base.Type(rootName) == nil && !base.ExplicitSchema {
			add("late-root-then-invalid", fmt.Sprintf("type %s { m%s: Int }\ninterface IfZz%s { a: Int }\ntype BadImplZz%s implements IfZz%s { b: Int }", rootName, tag, tag, tag, tag))
			add("late-root-then-invalid", fmt.Sprintf("type %s { m%s: Int }\ntype EmptyZz%s { }", rootName, tag, tag))
			// ... and with an `extend schema` of the IMPLICIT schema in the same failing document
			other := map[string]string{"Mutation": "subscription", "Subscription": "mutation"}[rootName]
			add("late-root-extend-schema-then-invalid", fmt.Sprintf("type %s { m%s: Int }\nextend schema { %s: Query }\ntype EmptyZz%s { }", rootName, tag, other, tag))
		}
	}
	if !base.ExplicitSchema {
		add("extend-implicit-schema-then-invalid", fmt.Sprintf("type RootX%s { r: Int }\nextend schema { mutation: RootX%s }\ninput BadInZz%s { a: Query }", tag, tag, tag))
	}
	// a directive use whose argument value is an input object: extending that input type in a failing document must not
	// show in the use afterwards (c14Base plants @cfgZz(opt: {}) on Query)
	for _, t := range base.Types {
		for _, du := range t.Dirs {
			if du.Name == "go" && t.Kind == model.Object {
				// a directive the type already carries, repeated by an extension of a document that fails (at that block or later)
				add("extend-repeats-go-directive-then-invalid", fmt.Sprintf("extend type %s @go(type: \"OtherGoZz%s\") { fresh%s: Int }\nextend type %s { %s: Int }", t.Name, tag, tag, t.Name, t.Fields[0].Name))
				add("extend-repeats-go-directive-then-invalid", fmt.Sprintf("extend type %s @go(type: \"OtherGoZz%s\")\ntype EmptyZz%s { }", t.Name, tag, tag))
			}
		}
	}
	// a scalar the root already has, declared again with a directive (the repeated declaration is skipped by design), in a
	// document that fails after it
	scalars := []string{"Time"}
	for _, t := range base.Types {
		if t.Kind == model.Scalar {
			scalars = append(scalars, t.Name)
		}
	}
	sc := scalars[r.Intn(len(scalars))]
	add("redeclared-scalar-with-directive-then-invalid", fmt.Sprintf("directive @zzFmt%s(p: String) on SCALAR\nscalar %s @zzFmt%s(p: \"iso\")\ntype EmptyZz%s { }", tag, sc, tag, tag))
	add("redeclared-scalar-with-directive-then-invalid", fmt.Sprintf("scalar %s @deprecated\nunion BadUnionZz%s = Int", sc, tag))
	if base.Type("TriZz") != nil {
		// one more interface for a type that has three, in a document that fails after the extension was applied
		add("extend-implements-then-invalid", fmt.Sprintf("extend type TriZz implements AbZz { fresh%s: Int }\nunion BadUnionZz%s = Int", tag, tag))
		add("extend-implements-then-invalid", fmt.Sprintf("extend type TriZz implements AbZz { fresh%s: Int }\nextend type TriZz { a: Int }", tag))
		add("extend-implements-then-invalid", fmt.Sprintf("interface A0Zz%s { b: Int }\nextend type TriZz implements A0Zz%s { fresh%s: Int }\ntype EmptyZz%s { }", tag, tag, tag, tag))
		// the interface of the failing document DESCRIBES a field the existing type has without a description
		add("extend-implements-described-interface-then-invalid", fmt.Sprintf("interface DescZz%s { \"described by a document that was refused %s\" a: Int }\nextend type TriZz implements DescZz%s { fresh%s: Int }\nunion BadUnionZz%s = Int", tag, tag, tag, tag, tag))
		add("extend-interface-with-described-field-then-invalid", fmt.Sprintf("extend interface CcZz { \"described by a document that was refused %s\" a: Int }\nunion BadUnionZz%s = Int", tag, tag))
	}
	if base.Type("OptZz") != nil {
		add("extend-input-of-directive-argument-then-invalid", fmt.Sprintf("extend input OptZz { b%s: Int = 2 }\ntype EmptyZz%s { }", tag, tag))
		add("extend-input-of-directive-argument-then-invalid", fmt.Sprintf("extend input OptZz { c%s: [Int] = [1] }\nunion BadUnionZz%s = Int", tag, tag))
	}
	return out
}

func runC14(c *run.Ctx) {
	c.Rule = "histories on a root with a generated, loaded schema: 3-8 loads mixing failing documents (syntax, undefined reference, failing extend, validation rule, duplicate, bad schema block - each placed after 0-4 valid " +
		"definitions including extend of existing types and schema blocks), readers failing at sampled offsets of valid documents, failing AddTypes calls, and valid loads; oracle: the observation vector (printed SDL, " +
		"canonical schema read back through the public API, full introspection answer, root operation types, answers to a fixed request set) is unchanged by every failing load, and after every step equals that of a shadow " +
		"root that only ever received the successful loads. Non-trivial = history contains a failing load placed after valid content; distinct by history text"
	n := c.N(300, 8000)
	c.MinNontriv = n / 10
	ggql.Sort = true
	defer func() { ggql.Sort = false }()
	extendRes := c.Open("K-C14-extend-inplace")
	_ = extendRes
	for i := 0; i < n && !c.TooMany(); i++ {
		r := c.Rand(i)
		base := gen.TypeSchema(r, gen.TypeOpts{Directives: true, CustomRoots: false, Small: true})
		if i%2 == 0 {
			// a directive whose argument is an input object, used with a value that leaves a field to its default
			base.Types = append(base.Types, &model.TypeDef{Kind: model.Input, Name: "OptZz", Inputs: []*model.ArgDef{{Name: "a", Type: model.Named("Int"), HasDefault: true, Default: int64(1)}, {Name: "s", Type: model.Named("String")}}})
			base.Dirs = append(base.Dirs, &model.DirDef{Name: "cfgZz", On: []string{"OBJECT"}, Args: []*model.ArgDef{{Name: "opt", Type: model.Named("OptZz")},
				// ... and arguments whose DEFAULTS are such values: a failing load that extends OptZz must not complete them either
				{Name: "dflt", Type: model.Named("OptZz"), HasDefault: true, Default: model.NewObjLit().Set("s", "d")},
				{Name: "many", Type: model.ListOf(model.Named("OptZz")), HasDefault: true, Default: []interface{}{model.NewObjLit()}}}})
			if qt := base.Type(base.Query); qt != nil {
				qt.Dirs = append(qt.Dirs, model.DirUse{Name: "cfgZz", Args: []model.Arg{{Name: "opt", Value: model.NewObjLit().Set("s", "x")}}})
			}
			// ... and an object type that says which Go type stands for it
			for _, t := range base.Types {
				if t.Kind == model.Object && t.Name != base.Query {
					t.Dirs = append(t.Dirs, model.DirUse{Name: "go", Args: []model.Arg{{Name: "type", Value: "ZzGoTypeOf" + t.Name}}})
					break
				}
			}
			base.Reindex()
		}
		if i%3 != 0 {
			// an object implementing three interfaces (the list of a type's interfaces is a slice with spare room after the
			// third), and a fourth interface it could implement whose name sorts between them
			f := func(n string) []*model.FieldDef { return []*model.FieldDef{{Name: n, Type: model.Named("Int")}} }
			base.Types = append(base.Types,
				&model.TypeDef{Kind: model.Interface, Name: "AaZz", Fields: f("a")}, &model.TypeDef{Kind: model.Interface, Name: "BbZz", Fields: f("b")},
				&model.TypeDef{Kind: model.Interface, Name: "CcZz", Fields: f("c")}, &model.TypeDef{Kind: model.Interface, Name: "AbZz", Fields: f("a")},
				&model.TypeDef{Kind: model.Object, Name: "TriZz", Interfaces: []string{"AaZz", "BbZz", "CcZz"}, Fields: append(append(f("a"), f("b")...), f("c")...)})
			if qt := base.Type(base.Query); qt != nil {
				qt.Fields = append(qt.Fields, &model.FieldDef{Name: "triZz", Type: model.Named("TriZz")}, &model.FieldDef{Name: "ccZz", Type: model.ListOf(model.Named("CcZz"))})
			}
			base.Reindex()
		}
		sdl := base.SDL(model.SDLOpts{})
		c14ProbeNames = nil
		c14NoteNames(sdl)
		var hist []string
		root, err := loadSDL(sdl)
		if i%4 == 3 && err == nil {
			// the history starts on a root that has NO schema yet: its very first loads fail (they define the root operation
			// types and break a rule elsewhere), then the base schema arrives
			root = ggql.NewRoot(&c15Root{Query: &c15Obj{}, Mutation: &c15Obj{}, Subscription: &c15Obj{}})
			firsts := []string{
				"type Query { staleZz: Int }\ntype Mutation { staleMutZz: Int }\ntype EmptyZz { }",
				"type Query { staleZz: Int other: NopeTypeZz }",
				"type Subscription { staleSubZz: Int }\ntype Query { staleZz: Int }\nenum NoValuesZz { }",
				"schema { query: QZz }\ntype QZz { staleZz: Int }\ninput BadInZz { a: QZz }",
			}
			for k, m := 0, 1+r.Intn(2); k < m && err == nil; k++ {
				f := firsts[r.Intn(len(firsts))]
				var ferr error
				pv, _ := run.Protect(func() { ferr = root.ParseString(f) })
				hist = append(hist, "[fail-on-empty-root] "+f)
				c.Bucket("load_kind", "fail-on-empty-root")
				if pv != nil {
					c.Violation("c14-panic", map[string]interface{}{"history": hist, "diag": fmt.Sprintf("load panics: %v", pv)})
					err = fmt.Errorf("panic")
				} else if ferr == nil {
					c.Count("expected_failure_was_accepted(left_to_C13)", 1)
					err = fmt.Errorf("accepted")
				}
			}
			if err == nil {
				run.Protect(func() { err = root.ParseString(sdl) })
				hist = append(hist, "[valid base on the so far empty root]")
				if err != nil {
					c.Violation("c14-differs-from-shadow", map[string]interface{}{"base_sdl": sdl, "history": hist,
						"diag": "the base schema loads on a fresh root but not on a root whose only earlier loads failed: " + err.Error()})
					continue
				}
			} else {
				continue
			}
		}
		shadow, err2 := loadSDL(sdl)
		if err != nil || err2 != nil {
			c.Count("base_schema_not_accepted(left_to_C13)", 1)
			if os.Getenv("C14_DEBUG") != "" {
				fmt.Println("BASE NOT ACCEPTED:", err, err2)
			}
			continue
		}
		if i%4 == 3 {
			a, e1 := observe(root)
			b, e2 := observe(shadow)
			if e1 != nil || e2 != nil {
				c.Violation("c14-observe", map[string]interface{}{"base_sdl": sdl, "history": hist, "diag": fmt.Sprint(e1, e2)})
				continue
			}
			if d := vecDiff(a, b); d != "" {
				c.Violation("c14-differs-from-shadow", map[string]interface{}{"base_sdl": sdl, "history": hist, "diag": d})
				continue
			}
		}
		var good []c14Load
		nontriv := false
		bad := false
		steps := 3 + r.Intn(6)
		for st := 0; st < steps && !bad; st++ {
			tag := fmt.Sprintf("S%d", st)
			var load c14Load
			load.Reader = -1
			switch k := r.Intn(12); {
			case k >= 10 && r.Intn(2) == 0: // a load through the Go API
				load = c14AddTypes(r, base, tag)
				nontriv = nontriv || load.Expect == "fail"
			case k >= 10: // several files through ParseFS: valid, one bad file among good ones, or a file system that fails
				frs := c14ValidFragments(r, base, tag, 2+r.Intn(3))
				files := map[string]string{}
				for fi, fr := range frs {
					files[fmt.Sprintf("part%d.graphql", fi)] = fr
				}
				files["ignored.txt"] = "type {"
				load = c14Load{Kind: "parsefs-valid", Expect: "either", Reader: -1, Files: files}
				switch r.Intn(4) {
				case 0:
					f := c14Failures[r.Intn(len(c14Failures))]
					files["zbad.graphql"] = f.text
					load.Kind, load.Expect = "parsefs-bad-file-"+f.kind, "fail"
					if r.Intn(2) == 0 {
						// several patterns, the bad file matched by a later one only
						load.Patterns = []string{"part*.graphql", "z*.graphql"}
						load.Kind += "-later-pattern"
					}
				case 2:
					// several patterns, the last one malformed: whatever the call answers, if it is an error nothing stays
					load.Patterns = []string{"part0*.graphql", "part*.graphql", "ext/[.graphql"}
					load.Kind = "parsefs-malformed-later-pattern"
				case 1:
					load.FSFault = []string{"open", "read", "close"}[r.Intn(3)]
					load.Kind, load.Expect = "parsefs-fault-"+load.FSFault, "fail"
				}
				names := make([]string, 0, len(files))
				for fn := range files {
					names = append(names, fn)
				}
				sort.Strings(names)
				for _, fn := range names {
					load.Text += "--- " + fn + "\n" + files[fn] + "\n"
				}
				if len(load.Patterns) > 0 {
					load.Text = fmt.Sprintf("patterns %q\n", load.Patterns) + load.Text
				}
				nontriv = nontriv || load.Expect == "fail"
			case k < 5: // failing document after some valid content
				f := c14Failures[r.Intn(len(c14Failures))]
				if dyn := c14DynamicFailures(r, base, tag); len(dyn) > 0 && r.Intn(3) == 0 {
					f = dyn[r.Intn(len(dyn))]
				}
				prefix := c14ValidFragments(r, base, tag, r.Intn(5))
				if len(prefix) > 0 {
					nontriv = true
				}
				parts := append(prefix, f.text)
				if r.Intn(3) == 0 && len(prefix) > 0 { // the failing definition in the middle
					j := r.Intn(len(prefix))
					parts = append(append(append([]string{}, prefix[:j]...), f.text), prefix[j:]...)
				}
				load = c14Load{Kind: "fail-" + f.kind, Text: strings.Join(parts, "\n"), Expect: "fail", Reader: -1}
			case k < 7: // reader fault inside a valid document
				text := strings.Join(c14ValidFragments(r, base, tag, 1+r.Intn(4)), "\n")
				// the reader fails for good from the offset on (kind 3), or fails once and would deliver the rest if asked again (kind 0)
				load = c14Load{Kind: "reader-fault", Text: text, Expect: "fail", Reader: r.Intn(len(text)), RKind: []int{3, 0}[r.Intn(2)]}
				nontriv = true
			default: // valid load
				text := strings.Join(c14ValidFragments(r, base, tag, 1+r.Intn(3)), "\n")
				load = c14Load{Kind: "valid", Text: text, Expect: "either", Reader: -1}
			}
			hist = append(hist, fmt.Sprintf("[%s reader=%d] %s", load.Kind, load.Reader, load.Text))
			// the state before the load, looked at with the names of THIS document already among the probes
			c14NoteNames(load.Text)
			before, oerr := observe(root)
			if oerr != nil {
				c.Violation("c14-observe", map[string]interface{}{"base_sdl": sdl, "history": hist[:len(hist)-1], "diag": oerr.Error()})
				bad = true
				break
			}
			var lerr error
			pv, _ := run.Protect(func() {
				if load.Reader >= 0 {
					lerr = root.ParseReader(&faultyReader{data: []byte(load.Text), at: load.Reader, kind: load.RKind})
				} else {
					lerr = load.applyFaulty(root, r)
				}
			})
			c.Bucket("load_kind", load.Kind)
			rep := func(kind, diag string) {
				c.Violation(kind, map[string]interface{}{"base_sdl": sdl, "history": hist, "step": st, "load_kind": load.Kind, "load_error": fmt.Sprint(lerr), "diag": diag})
				bad = true
			}
			if pv != nil {
				rep("c14-panic", fmt.Sprintf("load panics: %v", pv))
				break
			}
			if load.Expect == "fail" && lerr == nil {
				if load.Kind == "reader-fault" {
					c.Count("reader_fault_after_complete_definitions_accepted", 1) // a fault after the last byte needed is not an error
				} else {
					c.Count("expected_failure_was_accepted(left_to_C13)", 1)
				}
			}
			if lerr == nil && load.Kind == "reader-fault" && load.RKind == 0 {
				// The reader reported an error once and ggql went on reading: the call did not fail, so the statement says nothing
				// about it, and which bytes ended up in the root is ggql's business. The shadow can not be kept in step with an
				// unknown prefix: when the root is not what the whole document defines the history ends here (counted, not judged).
				probe, perr := loadSDL(sdl)
				for _, gl := range good {
					if perr == nil {
						perr = gl.apply(probe)
					}
				}
				if perr == nil {
					perr = load.apply(probe)
				}
				whole := false
				if perr == nil {
					a, e1 := observe(root)
					b, e2 := observe(probe)
					whole = e1 == nil && e2 == nil && vecDiff(a, b) == ""
				}
				if !whole {
					c.Count("transient_reader_error_not_reported_and_document_not_loaded_whole(outside_the_statement)", 1)
					bad = true // nothing more can be said about this root: no shadow comparison, no fresh replay
					break
				}
			}
			if lerr == nil {
				// a successful load: the shadow root gets it too
				var serr error
				run.Protect(func() { serr = load.apply(shadow) })
				if serr != nil {
					rep("c14-shadow-diverges", "the same document loads on the history root but not on the shadow root that never saw the failed loads: "+serr.Error())
					break
				}
				c.Count("successful_loads", 1)
				good = append(good, load)
			} else {
				c.Count("failing_loads", 1)
				after, oerr := observe(root)
				if oerr != nil {
					rep("c14-observe", oerr.Error())
					break
				}
				if d := vecDiff(before, after); d != "" {
					rep("c14-state-changed-by-failed-load", d)
					break
				}
			}
			// "as if the failed one had never happened"
			a, e1 := observe(root)
			b, e2 := observe(shadow)
			if e1 != nil || e2 != nil {
				rep("c14-observe", fmt.Sprint(e1, e2))
				break
			}
			if d := vecDiff(a, b); d != "" {
				rep("c14-differs-from-shadow", d)
				break
			}
			c.Count("observation_vectors_compared", 2)
		}
		// a root that receives the successful loads only and was never observed in between (no lazily cached answers)
		if !bad {
			fresh, ferr := loadSDL(sdl)
			for _, gl := range good {
				if ferr == nil {
					gl := gl
					run.Protect(func() { ferr = gl.apply(fresh) })
				}
			}
			if ferr != nil {
				c.Violation("c14-replay-diverges", map[string]interface{}{"base_sdl": sdl, "history": hist, "diag": "replaying only the successful loads on a fresh root fails: " + ferr.Error()})
				bad = true
			} else {
				a, _ := observe(root)
				b, _ := observe(fresh)
				if d := vecDiff(a, b); d != "" {
					c.Violation("c14-differs-from-fresh-replay", map[string]interface{}{"base_sdl": sdl, "history": hist, "diag": d})
					bad = true
				}
				c.Count("fresh_replays_compared", 1)
			}
		}
		// AddTypes failure
		if !bad && i%3 == 0 {
			before, _ := observe(root)
			var aerr error
			pv, _ := run.Protect(func() {
				aerr = root.AddTypes(&ggql.Enum{Base: ggql.Base{N: "AddedEnumZz"}}, &ggql.Scalar{Base: ggql.Base{N: "AddedScalarZz"}}, &ggql.Union{Base: ggql.Base{N: "Query"}})
			})
			hist = append(hist, "[AddTypes] enum AddedEnumZz (empty), scalar AddedScalarZz, union Query (duplicate)")
			if pv != nil {
				c.Violation("c14-panic", map[string]interface{}{"base_sdl": sdl, "history": hist, "diag": fmt.Sprintf("AddTypes panics: %v", pv)})
			} else if aerr != nil {
				after, _ := observe(root)
				if d := vecDiff(before, after); d != "" {
					c.Violation("c14-state-changed-by-failed-addtypes", map[string]interface{}{"base_sdl": sdl, "history": hist, "diag": d})
				}
				c.Count("failing_addtypes", 1)
			}
		}
		c.Eval(sdl+strings.Join(hist, "\n"), nontriv)
		if i < 1 {
			c.Sample(map[string]interface{}{"history": hist})
		}
	}
	c14GhostTypes(c)
}

type c14GObj struct{}

func (o *c14GObj) Resolve(f *ggql.Field, _ map[string]interface{}) (interface{}, error) {
	switch f.Name {
	case "query", "zzGhost", "zzOwner":
		return o, nil
	case "zzGhosts", "zzGrid":
		if f.Name == "zzGrid" {
			return []interface{}{[]interface{}{o}, []interface{}{}}, nil
		}
		return []interface{}{o, o}, nil
	}
	return "v-" + f.Name, nil
}

// c14GhostTypes: a refused document defines a type and uses it behind list / non-null wrappers; the corrected document
// defines the type again (same name, same wrapper texts, one more field) and is accepted. Nothing of the refused
// document's type objects may be reachable afterwards: the root prints, describes and answers exactly like a twin root
// that only ever saw the accepted documents.
func c14GhostTypes(c *run.Ctx) {
	const base = "type Query { a: String }"
	refused := []string{
		"type ZzGhost { id: String zzOwner: ZzGhost }\nextend type Query { zzGhosts: [ZzGhost!] zzGhost: ZzGhost! zzGrid: [[ZzGhost!]!] }\ntype ZzEmpty { }",
		"type ZzGhost { id: String }\nextend type Query { zzGhosts: [ZzGhost!] zzGhost: ZzGhost! zzGrid: [[ZzGhost!]!] }\ninterface ZzI { x: Int }\ntype ZzBad implements ZzI { y: Int }",
		"type ZzGhost { id: String }\nextend type Query { zzGhosts: [ZzGhost!] zzGhost: ZzGhost! zzGrid: [[ZzGhost!]!] }\nextend type Query { a: Int }",
		"type ZzGhost { id: String }\ninput ZzGhostIn { g: [ZzGhostIn!] }\nextend type Query { zzGhosts: [ZzGhost!] zzGhost(in: [ZzGhostIn!]): ZzGhost! zzGrid: [[ZzGhost!]!] }\nunion ZzBadU = Int",
	}
	const fixed = "type ZzGhost { id: String name: String zzOwner: ZzGhost }\nextend type Query { zzGhosts: [ZzGhost!] zzGhost: ZzGhost! zzGrid: [[ZzGhost!]!] }"
	const req = `{ a zzGhosts { id name zzOwner { name } } zzGhost { name } zzGrid { name id } }`
	observe := func(root *ggql.Root) string {
		var out string
		pv, _ := run.Protect(func() {
			intro := root.ResolveString(c17FullQuery, "Full", map[string]interface{}{"dep": true})
			out = root.SDL(false, true) + "\n" + ref.Render(ref.Canon(intro)) + "\n" + ref.Render(ref.Canon(root.ResolveString(req, "", nil)))
		})
		if pv != nil {
			return fmt.Sprint("PANIC ", pv)
		}
		return out
	}
	for ri, bad := range refused {
		for variant := 0; variant < 2; variant++ {
			twin := ggql.NewRoot(&c14GObj{})
			root := ggql.NewRoot(&c14GObj{})
			_ = twin.ParseString(base)
			_ = root.ParseString(base)
			var berr error
			run.Protect(func() { berr = root.ParseString(bad) })
			if variant == 1 {
				run.Protect(func() { _ = root.ParseString(bad) }) // refused twice
			}
			e1, e2 := twin.ParseString(fixed), root.ParseString(fixed)
			c.Eval(fmt.Sprintf("ghost-types|%d|%d", ri, variant), true)
			c.Bucket("failure_kind", "refused-document-whose-types-the-next-document-defines-again")
			switch {
			case berr == nil:
				c.Count("ill_formed_document_accepted(left_to_C13)", 1)
			case (e1 == nil) != (e2 == nil):
				c.Violation("c14", map[string]interface{}{"diag": fmt.Sprintf("the corrected document: accepted by the twin = %v, by the root that refused the first version = %v (%v)", e1 == nil, e2 == nil, e2), "refused_document": bad, "corrected_document": fixed})
			default:
				if a, b := observe(twin), observe(root); a != b {
					c.Violation("c14", map[string]interface{}{"diag": "after the corrected document the root differs from a twin that never saw the refused one: " + firstDiffLong(a, b), "refused_document": bad, "corrected_document": fixed, "request": req})
				}
			}
		}
	}
}
