package checks

import (
	"fmt"

	"verif/internal/back"
	"verif/internal/gen"
	"verif/internal/model"
	"verif/internal/ref"
	"verif/internal/run"
)

// c09Generated: beyond the table - generated schemas, data and documents in which every second selection (fields, inline
// fragments, spreads, at every depth, under lists and abstract types, with aliases and repeated keys) carries @skip and/or
// @include with literal or variable conditions. The document is parsed ONCE and answered under several assignments of
// its Boolean variables; each answer is compared with the reference executor (data, error paths) and the resolver call
// log for THAT assignment.
func c09Generated(c *run.Ctx) int {
	n := c.N(400, 150000)
	done := 0
	for i := 0; i < n && !c.TooMany(); i++ {
		r := c.Rand(2000000 + i)
		kind := []string{"iface", "any", "reflect", "mixed-any"}[i%4]
		refl := kind == "reflect"
		ec := newExecCaseG(r, gen.SchemaOpts{Args: !refl, Abstract: refl && i%8 == 2},
			gen.DocOpts{Frags: true, Dirs: true, DirEvery: 2, Vars: true, Aliases: true, Depth: 2 + r.Intn(3), DupKeys: i%5 == 0, Abstract: refl && i%8 == 2}, gen.GraphOpts{})
		if refl && !back.ReflectFriendly(ec.S) {
			continue
		}
		if !ec.DC.Feats["directives"] {
			continue
		}
		h, err := back.Build(kind, ec.S, ec.SDL, ec.G)
		if err != nil {
			continue
		}
		exe, perr := h.Root.ParseExecutableString(ec.Text)
		if perr != nil {
			c.Violation("c09-generated", ec.replay(kind, ec.DC.OpName, map[string]interface{}{"diag": "valid document rejected: " + perr.Error()}))
			continue
		}
		var trace []string
		for step := 0; step < 2+r.Intn(3); step++ {
			vars := copyVars(ec.DC.Vars)
			if step > 0 {
				for k, v := range vars {
					if b, isB := v.(bool); isB && r.Intn(2) == 0 {
						vars[k] = !b
					}
				}
			}
			exp := ref.Execute(ec.S, ec.DC.Doc, ec.DC.OpName, vars, ec.G, nil, ref.Flags{})
			out := Do(h, Request{Exe: exe, OpName: ec.DC.OpName, Vars: vars}, nil)
			trace = append(trace, fmt.Sprint(vars))
			done++
			c.Eval("generated|"+ec.Text+"|"+kind+fmt.Sprint(trace), true)
			c.Bucket("history_kind", "generated-document-dense-directives")
			c.Count("generated_resolve_calls", 1)
			if diff := Compare(exp, out, CompareOpts{StripFragSeg: c.Open("K-C06-fragseg")}); diff != "" {
				c.Violation("c09-generated", ec.replay(kind, ec.DC.OpName, map[string]interface{}{"history_vars_parse_once": trace, "diff": diff, "expected": exp.Describe(), "observed": out.Describe()}))
				break
			}
			if len(out.Calls) > 1 && !ec.DC.Feats["dup-key"] {
				// the same assignment once more with one resolver failing: an error somewhere in a selection set decides
				// nothing about the selections next to it - what carries @include(true) / @skip(false) is still there
				cl := out.Calls[1+r.Intn(len(out.Calls)-1)]
				plan := model.FaultPlan{cl.Key: model.Fault{Kind: "error"}}
				exp2 := ref.Execute(ec.S, ec.DC.Doc, ec.DC.OpName, vars, ec.G, plan, ref.Flags{})
				out2 := Do(h, Request{Exe: exe, OpName: ec.DC.OpName, Vars: vars}, plan)
				c.Count("generated_resolve_calls_with_a_failing_resolver", 1)
				if diff := Compare(exp2, out2, CompareOpts{StripFragSeg: true}); diff != "" { // error paths are C06's subject
					c.Violation("c09-generated", ec.replay(kind, ec.DC.OpName, map[string]interface{}{"history_vars_parse_once": trace, "fault": fmt.Sprint(plan), "diff": diff, "expected": exp2.Describe(), "observed": out2.Describe()}))
					break
				}
			}
		}
		if i < 2 {
			c.Sample(map[string]interface{}{"document": ec.Text, "backend": kind, "history_vars_parse_once": trace})
		}
	}
	return done
}

var _ = model.LayoutCount
