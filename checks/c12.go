package checks

import (
	"bufio"
	"bytes"
	"crypto/sha1"
	"encoding/hex"
	"encoding/json"
	"fmt"
	"math/rand"
	"os"
	"os/exec"
	"path/filepath"
	"regexp"
	"runtime"
	"sort"
	"strings"
	"sync"
	"sync/atomic"
	"time"

	"github.com/uhn/ggql/pkg/ggql"

	"verif/internal/back"
	"verif/internal/gen"
	"verif/internal/model"
	"verif/internal/ref"
	"verif/internal/run"
	"verif/internal/zoo"
)

func init() {
	register(&Check{ID: "C12", Level: "exploration", Race: true, Run: runC12})
	childModes["c12"] = c12Child
}

// yieldState drives the VerifYield hook: a per-process PRNG picks nothing / Gosched / a short sleep.
type yieldState struct {
	mu    sync.Mutex
	r     *rand.Rand
	hits  map[string]int
	trace []string
	on    bool
}

var ys = &yieldState{hits: map[string]int{}}

func (y *yieldState) hook(site string) {
	y.mu.Lock()
	y.hits[site]++
	if len(y.trace) < 16 {
		y.trace = append(y.trace, site)
	}
	act := 0
	if y.on {
		act = y.r.Intn(8)
	}
	y.mu.Unlock()
	switch {
	case act >= 6:
		time.Sleep(time.Duration(1+act*7) * time.Microsecond)
	case act >= 3:
		runtime.Gosched()
	}
}

func (y *yieldState) signature() string {
	y.mu.Lock()
	defer y.mu.Unlock()
	h := sha1.Sum([]byte(strings.Join(y.trace, ">")))
	y.trace = y.trace[:0]
	return hex.EncodeToString(h[:6])
}

type c12Report struct {
	Rounds      int            `json:"rounds"`
	Requests    int            `json:"requests"`
	Compared    int            `json:"compared"`
	Mismatches  []c12Mismatch  `json:"mismatches"`
	Hits        map[string]int `json:"hook_hits"`
	Signatures  int            `json:"distinct_interleaving_signatures"`
	Goroutines  map[string]int `json:"rounds_by_goroutine_count"`
	Kinds       map[string]int `json:"rounds_by_root_kind"`
	Panics      []string       `json:"panics"`
	WithErrors  int            `json:"responses_with_application_errors"`
	Shared      int            `json:"responses_with_shared_error_value"`
	SampleRound interface{}    `json:"sample_round"`
}

type c12Mismatch struct {
	Round    int    `json:"round"`
	Kind     string `json:"kind"`
	Request  string `json:"request"`
	Vars     string `json:"vars"`
	Alone    string `json:"alone"`
	Together string `json:"together"`
}

type c12Req struct {
	text string
	op   string
	vars map[string]interface{}
}

func respText(m map[string]interface{}) string {
	if m == nil {
		return "<nil>"
	}
	msgs := ""
	if es, isL := m["errors"].([]interface{}); isL {
		for _, e := range es {
			if em, isM := e.(map[string]interface{}); isM {
				msgs += fmt.Sprintf("|%v@%v", em["message"], em["path"])
			}
		}
	}
	return ref.Render(ref.Canon(m["data"])) + msgs
}

// c12WriteCheck writes a response with ggql's JSON writer (and its data with the SDL value writer) and reads the JSON back
// with encoding/json: the decoded data must be the data that was written.
func c12WriteCheck(res map[string]interface{}, indent int) string {
	var b bytes.Buffer
	if err := ggql.WriteJSONValue(&b, res, indent); err != nil {
		return "WriteJSONValue: " + err.Error()
	}
	var back map[string]interface{}
	dec := json.NewDecoder(bytes.NewReader(b.Bytes()))
	dec.UseNumber()
	if err := dec.Decode(&back); err != nil {
		return fmt.Sprintf("the JSON text of a response does not parse: %v: %.200s", err, b.String())
	}
	var backV interface{} = back
	if d := jsonSame(stdView(res), numView(backV), ""); d != "" {
		return fmt.Sprintf("JSON text decodes to another structure at %s: %.300s", d, b.String())
	}
	var sb bytes.Buffer
	if err := ggql.WriteSDLValue(&sb, res["data"], indent); err != nil {
		return "WriteSDLValue: " + err.Error()
	}
	return ""
}

// c12Child runs rounds [from,to) and writes a JSON report.
func c12Child(args []string) int {
	if len(args) < 5 {
		return 2
	}
	var seed int64
	var from, to int
	fmt.Sscan(args[0], &seed)
	fmt.Sscan(args[1], &from)
	fmt.Sscan(args[2], &to)
	reportPath := args[3]
	progressPath := args[4]
	ys.r = rand.New(rand.NewSource(seed ^ int64(from)*7919))
	ys.on = true
	ggql.VerifYield = ys.hook
	rep := &c12Report{Hits: map[string]int{}, Goroutines: map[string]int{}, Kinds: map[string]int{}}
	sigs := map[string]bool{}
	var progress int64
	// stall monitor: two goroutine dumps 5 s apart when the request counter stops moving
	go func() {
		last := int64(-1)
		still := 0
		for {
			time.Sleep(2 * time.Second)
			p := atomic.LoadInt64(&progress)
			if p == last {
				still++
			} else {
				still = 0
			}
			last = p
			if still >= 10 {
				for k := 0; k < 2; k++ {
					buf := make([]byte, 1<<22)
					n := runtime.Stack(buf, true)
					fmt.Fprintf(os.Stderr, "=== STALL DUMP %d (progress %d) ===\n%s\n", k, p, buf[:n])
					time.Sleep(5 * time.Second)
				}
				os.Exit(3)
			}
		}
	}()
	pf, _ := os.OpenFile(progressPath, os.O_CREATE|os.O_WRONLY|os.O_APPEND, 0o644)
	for round := from; round < to; round++ {
		r := rand.New(rand.NewSource(seed*1000003 + int64(round)))
		fmt.Fprintf(pf, "R %d\n", round)
		ng := []int{2, 4, 16, 64}[round%4]
		var reqs []c12Req
		var coldRoot func() *ggql.Root
		kind := "zoo"
		if round%3 == 2 && round%6 != 5 {
			kind = "generated-reflect"
			var ec *execCase
			for {
				ec = newExecCaseG(r, gen.SchemaOpts{Abstract: true}, gen.DocOpts{Frags: true, Dirs: true, Vars: true, Aliases: true, Abstract: true, Depth: 2 + r.Intn(2)}, gen.GraphOpts{})
				if back.ReflectFriendly(ec.S) {
					break
				}
			}
			coldRoot = func() *ggql.Root {
				h, err := back.Build("reflect", ec.S, ec.SDL, ec.G)
				if err != nil {
					panic(err)
				}
				return h.Root
			}
			// several documents over the same schema
			reqs = append(reqs, c12Req{ec.Text, ec.DC.OpName, ec.DC.Vars})
			for k := 0; k < 5; k++ {
				dc := gen.Doc(r, ec.S, gen.DocOpts{Frags: true, Dirs: true, Vars: true, Aliases: true, Abstract: true, Depth: 2 + r.Intn(2)})
				reqs = append(reqs, c12Req{dc.Doc.Print(model.LayoutN(r.Intn(model.LayoutCount))), dc.OpName, dc.Vars})
			}
			reqs = append(reqs, c12Req{`{ __schema { types { name kind fields { name } possibleTypes { name } } } }`, "", nil})
		} else if round%6 == 5 {
			// the Resolver / AnyResolver strategies (and roots mixing them with reflection): application errors of every
			// shape - among them ONE error value the application keeps and returns from every failing site - are raised
			// in all requests at once; what ggql adds to an error (location, path) belongs to the request, not to the value
			kind = "generated-" + []string{"iface", "any", "mixed-any", "mixed-reflect"}[(round/6)%4]
			bk := strings.TrimPrefix(kind, "generated-")
			var ec *execCase
			for {
				ec = newExecCaseG(r, gen.SchemaOpts{Args: true}, gen.DocOpts{Frags: true, Dirs: true, Vars: true, Aliases: true, Depth: 2 + r.Intn(2)}, gen.GraphOpts{})
				if bk != "mixed-reflect" || back.ReflectFriendly(ec.S) {
					break
				}
			}
			reqs = append(reqs, c12Req{ec.Text, ec.DC.OpName, ec.DC.Vars})
			for k := 0; k < 5; k++ {
				dc := gen.Doc(r, ec.S, gen.DocOpts{Frags: true, Dirs: true, Vars: true, Aliases: true, Depth: 2 + r.Intn(2)})
				reqs = append(reqs, c12Req{dc.Doc.Print(model.LayoutN(r.Intn(model.LayoutCount))), dc.OpName, dc.Vars})
			}
			// plant failures at calls the requests really make
			probe, err := back.Build(bk, ec.S, ec.SDL, ec.G)
			if err != nil {
				panic(err)
			}
			ys.on = false
			for _, rq := range reqs {
				probe.Root.ResolveString(rq.text, rq.op, copyVars(rq.vars))
			}
			ys.on = true
			plan := model.FaultPlan{}
			fk := []string{"sentinel", "error", "sentinel", "group", "gerror", "wgroup", "sentinel"}
			for ci, cl := range probe.Calls {
				if cl.Key.Occ == 0 && r.Intn(4) == 0 && len(plan) < 12 {
					plan[cl.Key] = model.Fault{Kind: fk[(ci+round)%len(fk)], N: 2}
				}
			}
			coldRoot = func() *ggql.Root {
				h, err := back.Build(bk, ec.S, ec.SDL, ec.G)
				if err != nil {
					panic(err)
				}
				h.AllOcc = true
				h.Reset(plan)
				h.Prebuild() // the harness's data objects, not anything of ggql's: the root stays cold
				return h.Root
			}
		} else {
			lateMutation := round%12 == 7
			if lateMutation {
				kind = "zoo-mutation-type-added-through-the-go-api"
			}
			coldRoot = func() *ggql.Root {
				mk := zoo.NewRoot
				if lateMutation {
					mk = zoo.NewRootMutationAdded
				}
				root, _, err := mk()
				if err != nil {
					panic(err)
				}
				return root
			}
			for _, zr := range zoo.Requests {
				reqs = append(reqs, c12Req{zr.Text, "", zr.Vars})
			}
			r.Shuffle(len(reqs), func(i, j int) { reqs[i], reqs[j] = reqs[j], reqs[i] })
		}
		// sequential baseline on its own root
		ys.on = false
		base := coldRoot()
		alone := make([]string, len(reqs))
		for i, rq := range reqs {
			if strings.HasPrefix(kind, "zoo") {
				// "run alone" taken literally: a cold root of its own for every request
				base = coldRoot()
			}
			alone[i] = respText(base.ResolveString(rq.text, rq.op, copyVars(rq.vars)))
		}
		ys.on = true
		ys.signature()
		// the concurrent round on a cold root
		root := coldRoot()
		start := make(chan struct{})
		var wg sync.WaitGroup
		got := make([][]string, ng)
		idx := make([][]int, ng)
		var pmu sync.Mutex
		perG := 1 + 24/ng
		for gi := 0; gi < ng; gi++ {
			wg.Add(1)
			go func(gi int) {
				defer wg.Done()
				defer func() {
					if p := recover(); p != nil {
						pmu.Lock()
						rep.Panics = append(rep.Panics, fmt.Sprintf("round %d: %v", round, p))
						pmu.Unlock()
					}
				}()
				<-start
				for k := 0; k < perG; k++ {
					ri := (gi*7 + k*3 + round) % len(reqs)
					rq := reqs[ri]
					res := root.ResolveString(rq.text, rq.op, copyVars(rq.vars))
					// every goroutine also serialises its own response (JSON and SDL value writers are part of answering
					// a request): the text must decode to the response it was written from, whatever the others write
					if d := c12WriteCheck(res, (gi+k)%3-1); d != "" {
						pmu.Lock()
						if len(rep.Mismatches) < 10 {
							rep.Mismatches = append(rep.Mismatches, c12Mismatch{Round: round, Kind: kind + " (serialisation)", Request: rq.text, Alone: "the response value", Together: d})
						}
						pmu.Unlock()
					}
					got[gi] = append(got[gi], respText(res))
					idx[gi] = append(idx[gi], ri)
					atomic.AddInt64(&progress, 1)
				}
			}(gi)
		}
		close(start)
		wg.Wait()
		sigs[ys.signature()] = true
		rep.Rounds++
		rep.Goroutines[fmt.Sprint(ng)]++
		rep.Kinds[kind]++
		for gi := range got {
			for k, txt := range got[gi] {
				rep.Requests++
				rep.Compared++
				ri := idx[gi][k]
				if strings.HasPrefix(kind, "generated-") && kind != "generated-reflect" && strings.Contains(txt, "injected failure") {
					rep.WithErrors++
					if strings.Contains(txt, "shared sentinel instance") {
						rep.Shared++
					}
				}
				if txt != alone[ri] && len(rep.Mismatches) < 10 {
					rep.Mismatches = append(rep.Mismatches, c12Mismatch{Round: round, Kind: kind, Request: reqs[ri].text, Vars: fmt.Sprint(reqs[ri].vars), Alone: alone[ri], Together: txt})
				}
			}
		}
		if round == from {
			rep.SampleRound = map[string]interface{}{"round": round, "root": kind, "goroutines": ng, "requests": len(reqs), "first_request": reqs[0].text, "response": alone[0]}
		}
	}
	ys.mu.Lock()
	for k, v := range ys.hits {
		rep.Hits[k] = v
	}
	ys.mu.Unlock()
	rep.Signatures = len(sigs)
	b, _ := json.Marshal(rep)
	_ = os.WriteFile(reportPath, b, 0o644)
	return 0
}

var raceFrameRe = regexp.MustCompile(`github\.com/uhn/ggql/pkg/ggql\.((?:\(\*?\w+\)\.)?[\w.]+)\(\)\n\s+(\S+?):(\d+)`)

// parseRaceLogs reads GORACE log files and returns deduplicated reports keyed by the pair of innermost ggql frames.
func parseRaceLogs(glob string) (map[string]string, int) {
	files, _ := filepath.Glob(glob)
	reports := map[string]string{}
	total := 0
	for _, f := range files {
		b, err := os.ReadFile(f)
		if err != nil {
			continue
		}
		blocks := strings.Split(string(b), "==================")
		for _, blk := range blocks {
			if !strings.Contains(blk, "WARNING: DATA RACE") {
				continue
			}
			total++
			// the two access stacks: take the first ggql frame after each access header
			parts := regexp.MustCompile(`(?m)^(Write at|Read at|Previous write at|Previous read at|Atomic .* at)`).Split(blk, -1)
			var frames []string
			for _, p := range parts[1:] {
				if m := raceFrameRe.FindStringSubmatch(p); m != nil {
					frames = append(frames, fmt.Sprintf("%s (%s)", m[1], filepath.Base(m[2]))) // line numbers stripped for deduplication
				} else {
					frames = append(frames, "?")
				}
				if len(frames) == 2 {
					break
				}
			}
			sort.Strings(frames)
			key := strings.Join(frames, " <-> ")
			if _, has := reports[key]; !has {
				if len(blk) > 6000 {
					blk = blk[:6000]
				}
				reports[key] = blk
			}
		}
	}
	return reports, total
}

func runC12(c *run.Ctx) {
	c.Rule = "rounds on a COLD root (fresh NewRoot + schema load, nothing lazily registered): N in {2,4,16,64} goroutines parked on a barrier are released at once, each issuing requests from a mix that covers " +
		"every first-use path (reflection fields, methods, (value,error) methods, union dispatch, interface-typed fields, @go and by-name binding, fragments, variables, introspection, parsing); three root kinds " +
		"(hand-written reflection schema with methods; generated schemas over registered dynamic struct types; generated schemas served by Resolver / AnyResolver objects, alone and mixed with reflection, whose " +
		"resolvers fail with every error shape including one error VALUE shared by all failing sites and requests). Build: -race (implies checkptr). Monitors: Go race detector log (any report is a violation, " +
		"deduplicated by the pair of innermost ggql frames), per-request response equality with a sequentially used separate root, stall monitor with two goroutine dumps. The verifYield hook (PRNG: nothing/Gosched/" +
		"1-50us sleep) widens the windows at the lazy-registration sites. A round is non-trivial when >=2 goroutines ran >=2 distinct requests; distinct by (round seed)"
	rounds := c.N(240, 30000)
	procs := c.N(8, 16)
	work := filepath.Join(run.VerifDir(), ".work", fmt.Sprintf("c12-%d", os.Getpid()))
	_ = os.MkdirAll(work, 0o755)
	defer os.RemoveAll(work)
	self, _ := os.Executable()
	per := (rounds + procs - 1) / procs
	type cres struct {
		k       int
		rep     *c12Report
		exit    int
		out     string
		timeout bool
	}
	ch := make(chan cres, procs)
	for k := 0; k < procs; k++ {
		go func(k int) {
			from, to := k*per, (k+1)*per
			if to > rounds {
				to = rounds
			}
			rp := filepath.Join(work, fmt.Sprintf("report-%d.json", k))
			pp := filepath.Join(work, fmt.Sprintf("progress-%d.log", k))
			op := filepath.Join(work, fmt.Sprintf("out-%d.txt", k))
			of, _ := os.Create(op)
			cmd := exec.Command(self, "child", "c12", fmt.Sprint(c.Seed), fmt.Sprint(from), fmt.Sprint(to), rp, pp)
			cmd.Stdout, cmd.Stderr = of, of
			cmd.Env = append(os.Environ(), "GORACE=halt_on_error=0 log_path="+filepath.Join(work, fmt.Sprintf("race-%d", k)), "GOTRACEBACK=all")
			res := cres{k: k}
			if err := cmd.Start(); err != nil {
				res.exit = -1
				ch <- res
				return
			}
			done := make(chan error, 1)
			go func() { done <- cmd.Wait() }()
			select {
			case err := <-done:
				if err != nil {
					if ee, isEE := err.(*exec.ExitError); isEE {
						res.exit = ee.ExitCode()
					} else {
						res.exit = -1
					}
				}
			case <-time.After(time.Duration(c.N(600, 3000)) * time.Second):
				res.timeout = true
				_ = cmd.Process.Kill()
				<-done
			}
			of.Close()
			if b, err := os.ReadFile(rp); err == nil {
				var rep c12Report
				if json.Unmarshal(b, &rep) == nil {
					res.rep = &rep
				}
			}
			ob, _ := os.ReadFile(op)
			res.out = string(ob)
			ch <- res
		}(k)
	}
	hits := map[string]int{}
	totalRounds, requests, compared, sigs := 0, 0, 0, 0
	gcount := map[string]int{}
	kinds := map[string]int{}
	for k := 0; k < procs; k++ {
		res := <-ch
		if res.rep == nil {
			// the child died: fatal error (e.g. concurrent map write), stall (exit 3) or watchdog
			excerpt := clip(res.out, 8000)
			switch {
			case res.exit == 3 && c12AllBlockedOnMutex(res.out):
				c.Violation("c12-deadlock", map[string]interface{}{"child": res.k, "diag": "all workload goroutines blocked acquiring a sync.Mutex / sync.RWMutex under ggql frames in two dumps 5 s apart", "dump": excerpt})
			case strings.Contains(res.out, "fatal error:"):
				c.Violation("c12-fatal", map[string]interface{}{"child": res.k, "diag": firstLineWith(res.out, "fatal error:"), "output": excerpt})
			default:
				c.Inconclusive(fmt.Sprintf("child %d ended without a report (exit %d, timeout %v)", res.k, res.exit, res.timeout))
			}
			continue
		}
		totalRounds += res.rep.Rounds
		requests += res.rep.Requests
		compared += res.rep.Compared
		sigs += res.rep.Signatures
		for s, n := range res.rep.Hits {
			hits[s] += n
		}
		for s, n := range res.rep.Goroutines {
			gcount[s] += n
		}
		for s, n := range res.rep.Kinds {
			kinds[s] += n
		}
		c.Count("concurrent_responses_with_application_errors", res.rep.WithErrors)
		c.Count("concurrent_responses_with_shared_error_value", res.rep.Shared)
		for _, m := range res.rep.Mismatches {
			c.Violation("c12-isolation", map[string]interface{}{"round": m.Round, "root": m.Kind, "request": m.Request, "vars": m.Vars, "alone": m.Alone, "concurrent": m.Together})
		}
		for _, p := range res.rep.Panics {
			c.Violation("c12-panic", map[string]interface{}{"panic": p})
		}
		if res.rep.SampleRound != nil {
			c.Sample(res.rep.SampleRound)
		}
		for i := 0; i < res.rep.Rounds; i++ {
			c.Eval(fmt.Sprintf("child %d round %d seed %d", res.k, i, c.Seed), true)
		}
	}
	reports, totalRaces := parseRaceLogs(filepath.Join(work, "race-*"))
	keys := make([]string, 0, len(reports))
	for k := range reports {
		keys = append(keys, k)
	}
	sort.Strings(keys)
	for _, k := range keys {
		c.Violation("c12-data-race", map[string]interface{}{"frames": k, "report": reports[k]})
	}
	c.Set("race_reports_total", totalRaces)
	c.Set("race_reports_distinct", len(reports))
	c.Set("rounds", totalRounds)
	c.Set("requests", requests)
	c.Set("responses_compared_with_sequential_baseline", compared)
	c.Set("hook_hits_per_site", hits)
	c.Set("distinct_interleaving_signatures", sigs)
	c.Set("rounds_by_goroutine_count", gcount)
	c.Set("rounds_by_root_kind", kinds)
	c.MinNontriv = rounds * 2 / 3
	// the hook must have been reached: a run that saw no hook hit observed nothing about first-use windows
	for _, site := range []string{"assureType", "regField", "resolveReflect.fd", "metaCheck"} {
		if hits[site] == 0 {
			c.Inconclusive("hook site never reached: " + site)
			c.MinNontriv = rounds + 1
		}
	}
}

func firstLineWith(s, sub string) string {
	sc := bufio.NewScanner(strings.NewReader(s))
	sc.Buffer(make([]byte, 1<<20), 1<<24)
	for sc.Scan() {
		if strings.Contains(sc.Text(), sub) {
			return sc.Text()
		}
	}
	return ""
}

// c12AllBlockedOnMutex: both stall dumps must show the goroutines that run ggql frames parked in a Mutex / RWMutex acquisition.
func c12AllBlockedOnMutex(out string) bool {
	dumps := strings.Split(out, "=== STALL DUMP")
	if len(dumps) < 3 {
		return false
	}
	for _, d := range dumps[1:3] {
		gs := strings.Split(d, "\n\ngoroutine ")
		workers, blocked := 0, 0
		for _, g := range gs {
			if !strings.Contains(g, "uhn/ggql/pkg/ggql.") {
				continue
			}
			workers++
			if strings.Contains(g, "sync.(*Mutex).Lock") || strings.Contains(g, "sync.(*RWMutex).Lock") || strings.Contains(g, "sync.(*RWMutex).RLock") ||
				strings.Contains(g, "sync.runtime_Semacquire") {
				blocked++
			}
		}
		if workers == 0 || blocked < workers {
			return false
		}
	}
	return true
}
