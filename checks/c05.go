package checks

import (
	"bytes"
	"encoding/json"
	"fmt"
	"math"
	"time"

	"github.com/uhn/ggql/pkg/ggql"

	"verif/internal/back"
	"verif/internal/gen"
	"verif/internal/model"
	"verif/internal/ref"
	"verif/internal/run"
)

func init() {
	register(&Check{ID: "C05", Level: "exploration", Run: runC05})
}

var c05Types = []string{"Int", "Float", "String", "ID", "Boolean", "En", "Time", "Int64", "Float64", "Custom"}
var c05Wrappers = []string{"T", "T!", "[T]", "[T!]", "[[T]]"}

func c05Wrap(t, w string) *model.TypeRef {
	n := model.Named(t)
	switch w {
	case "T!":
		return model.NonNullOf(n)
	case "[T]":
		return model.ListOf(n)
	case "[T!]":
		return model.ListOf(model.NonNullOf(n))
	case "[[T]]":
		return model.ListOf(model.ListOf(n))
	}
	return n
}

func c05Schema() *model.Schema {
	s := &model.Schema{Query: "Query"}
	s.Types = append(s.Types, &model.TypeDef{Kind: model.Enum, Name: "En", Values: []*model.EnumVal{{Name: "V0"}, {Name: "V1"}, {Name: "true"}}})
	s.Types[0].Values = s.Types[0].Values[:2]
	s.Types = append(s.Types, &model.TypeDef{Kind: model.Scalar, Name: "Custom"})
	q := &model.TypeDef{Kind: model.Object, Name: "Query"}
	for ti, t := range c05Types {
		for wi, w := range c05Wrappers {
			q.Fields = append(q.Fields, &model.FieldDef{Name: fmt.Sprintf("f%d_%d", ti, wi), Type: c05Wrap(t, w)})
		}
	}
	q.Fields = append(q.Fields, &model.FieldDef{Name: "obj", Type: model.Named("Query")})
	q.Fields = append(q.Fields, &model.FieldDef{Name: "objs", Type: model.ListOf(model.Named("Query"))})
	s.Types = append(s.Types, q)
	return s
}

type c05Val struct {
	name string
	v    interface{}
}

func c05Catalogue() []c05Val {
	tm := time.Date(2021, 3, 4, 5, 6, 7, 890000000, time.UTC)
	return []c05Val{
		{"int 0", int(0)}, {"int 1", int(1)}, {"int -1", int(-1)}, {"int8 127", int8(127)}, {"int16 min", int16(math.MinInt16)},
		{"int32 max", int32(math.MaxInt32)}, {"int32 min", int32(math.MinInt32)}, {"int64 2^31", int64(1) << 31}, {"int64 -2^31-1", int64(math.MinInt32) - 1},
		{"int64 2^40", int64(1) << 40}, {"int64 2^53+1", int64(1)<<53 + 1}, {"int64 max", int64(math.MaxInt64)}, {"int64 min", int64(math.MinInt64)}, {"int 2^31", int(1) << 31},
		{"uint 7", uint(7)}, {"uint8 255", uint8(255)}, {"uint16 max", uint16(math.MaxUint16)}, {"uint32 max", uint32(math.MaxUint32)},
		{"uint64 2^63", uint64(1) << 63}, {"uint64 max", uint64(math.MaxUint64)}, {"uint64 5", uint64(5)},
		{"float32 2.5", float32(2.5)}, {"float32 3", float32(3)}, {"float32 0", float32(0)}, {"float32 max", float32(math.MaxFloat32)}, {"float32 NaN", float32(math.NaN())},
		{"float64 3.0", float64(3)}, {"float64 3.3", 3.3}, {"float64 -3.7", -3.7}, {"float64 0.1", 0.1}, {"float64 1e300", 1e300}, {"float64 -1e39", -1e39}, {"float64 2^31", 2147483648.0},
		{"float64 NaN", math.NaN()}, {"float64 +Inf", math.Inf(1)}, {"float64 -Inf", math.Inf(-1)}, {"float64 1e10", 1e10}, {"float64 1.5e9", 1.5e9}, {"float64 tiny", 5e-324},
		{"string 3", "3"}, {"string -7", "-7"}, {"string 3.5", "3.5"}, {"string abc", "abc"}, {"string empty", ""}, {"string true", "true"}, {"string TRUE", "TRUE"}, {"string 1", "1"},
		{"string 12", "12"}, {"string rfc3339", "2006-01-02T15:04:05Z"}, {"string V0", "V0"}, {"string NOTAVALUE", "NOTAVALUE"}, {"string padded", " 3"}, {"string 99999999999", "99999999999"},
		{"string 1e400", "1e400"}, {"string NaN", "NaN"}, {"string quote", "q\"\\\n"},
		{"bool true", true}, {"bool false", false},
		{"time", tm}, {"symbol V1", ggql.Symbol("V1")}, {"symbol Nope", ggql.Symbol("Nope")},
		{"nil *int", (*int)(nil)}, {"nil *string", (*string)(nil)}, {"nil map", map[string]interface{}(nil)},
		{"[]int", []int{1, 2}}, {"[]int64 big", []int64{1 << 40, 3}}, {"[]string", []string{"a", "3"}}, {"[]bool", []bool{true, false}}, {"[]float32", []float32{1.5}},
		{"[]float64 NaN", []float64{2.5, math.NaN()}}, {"[]time", []time.Time{tm}}, {"[]interface mixed", []interface{}{1, "x", nil}}, {"[]int empty", []int{}}, {"nil []int", []int(nil)},
		{"struct", struct{ X int }{1}}, {"map", map[string]interface{}{"a": 1}}, {"*struct", &struct{ X int }{2}}, {"complex", complex(1, 2)}, {"[]byte", []byte("hi")}, {"rune", 'x'},
		{"string Inf", "Inf"}, {"string -Infinity", "-Infinity"}, {"string +Inf", "+Inf"},
		// instants Go's time.Parse accepts although they are not written the RFC 3339 way (one-digit hour, comma fraction)
		// Go times no RFC 3339 text can carry (five-digit or negative years, also reached through the offset)
		{"time year 10000", time.Date(10000, 1, 1, 0, 0, 0, 0, time.UTC)}, {"time year -1", time.Date(-1, 6, 1, 0, 0, 0, 0, time.UTC)},
		{"time 9999 end west", time.Date(9999, 12, 31, 23, 59, 59, 0, time.FixedZone("w", -3600))}, {"time year 9999", time.Date(9999, 12, 31, 23, 59, 59, 0, time.UTC)},
		{"string time 1-digit hour", "2019-10-05T9:53:17Z"}, {"string time comma fraction", "2019-10-05T09:53:17,25Z"}, {"string time offset", "2019-10-05T09:53:17.5+02:00"},
		// floats at the very ends of the integer ranges (2^63 is what float64(math.MaxInt64) is: one more than the largest Int64)
		{"float64 2^63", float64(math.MaxInt64)}, {"float32 2^63", float32(math.MaxInt64)}, {"float64 -2^63", float64(math.MinInt64)},
		{"float64 below 2^63", math.Nextafter(float64(math.MaxInt64), 0)}, {"float64 below -2^63", math.Nextafter(float64(math.MinInt64), math.Inf(-1))},
		{"[]float64 2^63", []float64{float64(math.MaxInt64), 1}}, {"float64 -2^31", float64(math.MinInt32)}, {"float64 -2^31-1", float64(math.MinInt32) - 1}, {"float64 2^31-1", float64(math.MaxInt32)},
		// the platform-sized unsigned kind at and beyond the largest Int64 (new entries go at the END: the cross product places
		// a value by its index)
		{"uint 2^63", uint(1) << 63}, {"uint max", uint(math.MaxUint64)}, {"uint 2^63-1", uint(math.MaxInt64)}, {"uintptr 9", uintptr(9)},
	}
}

// typedWalk is the independent shape monitor: every value must have the JSON shape of its declared type.
func typedWalk(s *model.Schema, t *model.TypeRef, v interface{}, path string, enumOK bool) string {
	if v == nil {
		return ""
	}
	if t.NonNull {
		return typedWalk(s, t.Of, v, path, enumOK)
	}
	if t.List {
		l, isL := v.([]interface{})
		if !isL {
			return fmt.Sprintf("%s: %s is not a list", path, ref.Render(v))
		}
		for i, e := range l {
			if d := typedWalk(s, t.Of, e, fmt.Sprintf("%s/%d", path, i), enumOK); d != "" {
				return d
			}
		}
		return ""
	}
	bad := func(what string) string { return fmt.Sprintf("%s: %s is not %s", path, ref.Render(v), what) }
	if td := s.Type(t.Name); td != nil {
		switch td.Kind {
		case model.Enum:
			str, isS := v.(string)
			if !isS {
				return bad("an enum name")
			}
			if !td.HasValue(str) && !enumOK {
				return bad("the name of a declared value of " + t.Name)
			}
			return ""
		case model.Scalar:
			if _, isS := v.(string); !isS {
				return bad("a string (custom scalar)")
			}
			return ""
		}
		return ""
	}
	switch t.Name {
	case "Int", "Int64":
		n, isN := v.(ref.Num)
		if !isN {
			return bad("a number")
		}
		bi, good := new(bigInt).SetString(string(n), 10)
		if !good {
			return bad("an integer")
		}
		lo, hi := int64(math.MinInt32), int64(math.MaxInt32)
		if t.Name == "Int64" {
			lo, hi = math.MinInt64, math.MaxInt64
		}
		if !bi.IsInt64() || bi.Int64() < lo || bi.Int64() > hi {
			return bad("within the range of " + t.Name)
		}
	case "Float", "Float64":
		n, isN := v.(ref.Num)
		if !isN {
			return bad("a number")
		}
		if n == "NaN" || n == "+Inf" || n == "-Inf" {
			return bad("a finite number")
		}
	case "String", "ID":
		if _, isS := v.(string); !isS {
			return bad("a string")
		}
	case "Boolean":
		if _, isB := v.(bool); !isB {
			return bad("a boolean")
		}
	case "Time":
		str, isS := v.(string)
		if !isS {
			return bad("an RFC 3339 string")
		}
		if _, err := time.Parse(time.RFC3339Nano, str); err != nil || !ref.RFC3339Shape.MatchString(str) {
			return bad("an RFC 3339 string")
		}
	}
	return ""
}

func runC05(c *run.Ctx) {
	c.Rule = "full cross product {Int,Float,String,ID,Boolean,enum,Time,Int64,Float64,custom scalar} x {T,T!,[T],[T!],[[T]]} x hostile Go value catalogue (every numeric kind at boundaries, NaN/Inf, numeric and " +
		"non-numeric strings, bool, time, nil pointers, typed slices, structs, maps) x back-ends {iface, any, reflect}; monitors: (1) typed walk of the response against the declared type, " +
		"(2) faithfulness: value equals the reference coercion or the position is null with an error at exactly that path. A pair is non-trivial when the value is not already of the declared kind; " +
		"distinct by (type, wrapper, value, back-end)"
	c.Exhaustive = false
	s := c05Schema()
	sdl := s.SDL(model.SDLOpts{})
	cat := c05Catalogue()
	flags := ref.Flags{TruncFrac: c.Open("K-C05-frac"), Num2Bool: c.Open("K-C05-num2bool"), EnumUndeclared: c.Open("K-C05-enum-undeclared")}
	pairs := 0
	for _, bk := range []string{"iface", "any", "reflect"} {
		for ti, tn := range c05Types {
			for wi, w := range c05Wrappers {
				fname := fmt.Sprintf("f%d_%d", ti, wi)
				ft := c05Wrap(tn, w)
				for vi, cv := range cat {
					// under [[T]] a list-shaped value is tried at every level (as the leaf, as the whole value, as an inner list); other values at one of them
					places := []int{vi % 3}
					if _, listShaped := ref.AsList(cv.v); listShaped && w == "[[T]]" {
						places = []int{0, 1, 2}
					}
					for _, place := range places {
						var val interface{}
						switch w {
						case "T", "T!":
							val = cv.v
						case "[T]":
							if vi%2 == 0 {
								val = model.VList{cv.v, nil, cv.v}
							} else {
								val = cv.v // a typed slice / scalar where a list is declared
							}
						case "[T!]":
							val = model.VList{cv.v}
						case "[[T]]":
							switch place {
							case 0:
								val = model.VList{model.VList{cv.v}, model.VList{}, nil, model.VList{nil, cv.v}}
							case 1:
								val = cv.v // a flat typed slice / scalar where a list of lists is declared
							default:
								val = model.VList{cv.v, nil, model.VList{cv.v}} // the value as an INNER list (right for a typed slice of T) next to a proper inner list
							}
						}
						if _, isB := val.([]byte); isB && ft.Nullable().List {
							continue // a []byte where a list is declared: a byte string or a list of small integers - the statement leaves that convention open
						}
						if _, innerIsL := ref.AsList(cv.v); bk == "any" && w == "[[T]]" && ((place == 2 && !innerIsL) || place == 1) {
							continue // the same for a non-list standing where an inner list is declared
						}
						if _, isL := ref.AsList(val); bk == "any" && !isL && ft.Nullable().List {
							// AnyResolver.Len has no error channel: what a root resolver answers for a non-list is the
							// application's business, not ggql's
							continue
						}
						g := &model.Graph{}
						root := &model.Node{ID: 0, Type: "__root", F: map[string]interface{}{}}
						q := &model.Node{ID: 1, Type: "Query", F: map[string]interface{}{fname: val}}
						q.F["obj"] = q
						root.F["query"] = q
						g.Root = root
						g.Nodes = []*model.Node{root, q}
						h, err := back.Build(bk, s, sdl, g)
						if err != nil {
							c.Violation("c05-schema-rejected", map[string]interface{}{"error": err.Error(), "sdl": sdl})
							return
						}
						doc := &model.Doc{Ops: []*model.Op{{Kind: "query", Shorthand: true, Sels: []model.Sel{
							&model.Field{Name: fname}, &model.Field{Name: "obj", Sels: []model.Sel{&model.Field{Alias: "again", Name: fname}}}}}}}
						text := doc.Print(model.LayoutN(0))
						out := Do(h, Request{Text: text}, nil)
						pairs++
						c.Eval(fmt.Sprintf("%s|%s|%s|%s|%d", tn, w, cv.name, bk, place), true)
						c.Bucket("declared", tn)
						c.Bucket("wrapper", w)
						if pairs%977 == 0 {
							c.Sample(map[string]interface{}{"declared": ft.String(), "value": fmt.Sprintf("%T(%v)", cv.v, cv.v), "backend": bk, "response": out.Describe()})
						}
						rep := func(kind, diag string, exp *ref.Result) {
							m := map[string]interface{}{"backend": bk, "declared": ft.String(), "value": fmt.Sprintf("%s = %T(%v)", cv.name, cv.v, cv.v), "document": text, "diag": diag, "observed": out.Describe()}
							if exp != nil {
								m["expected"] = exp.Describe()
							}
							c.Violation(kind, m)
						}
						if out.Panic != nil {
							rep("c05-panic", fmt.Sprint(out.Panic), nil)
							continue
						}
						exp := ref.Execute(s, doc, "", nil, g, nil, ref.Flags{})
						diff := Compare(exp, out, CompareOpts{})
						explained := ""
						if diff != "" {
							// defect models of the open findings: the whole response must equal the prediction
							for _, fl := range []struct {
								id string
								f  ref.Flags
							}{{"K-C05-frac", ref.Flags{TruncFrac: flags.TruncFrac}}, {"K-C05-num2bool", ref.Flags{Num2Bool: flags.Num2Bool}}, {"K-C05-enum-undeclared", ref.Flags{EnumUndeclared: flags.EnumUndeclared}}} {
								if fl.f == (ref.Flags{}) {
									continue
								}
								e2 := ref.Execute(s, doc, "", nil, g, nil, fl.f)
								if Compare(e2, out, CompareOpts{}) == "" {
									explained = fl.id
									break
								}
							}
							if explained != "" {
								c.Known(explained, map[string]interface{}{"declared": ft.String(), "value": fmt.Sprintf("%T(%v)", cv.v, cv.v), "observed": ref.Render(out.Data)})
							} else {
								rep("c05-unfaithful", diff, exp)
								continue
							}
						}
						// typed walk (independent of the reference coercion); enum membership is waived only under the open finding
						if dm, isMap := out.Data.(map[string]interface{}); isMap {
							if d := typedWalk(s, ft, dm[fname], fname, explained == "K-C05-enum-undeclared"); d != "" {
								rep("c05-illtyped", d, exp)
							}
							c.Count("values_type_checked", 1)
						}
						// ... and the same walk over the response AS TEXT: written by ggql's JSON writer, read by encoding/json
						// (an Int is a JSON number there, not a string that looks like one)
						if rd, isMap := out.Resp["data"].(map[string]interface{}); isMap {
							if d := c05JSONWalk(s, ft, rd[fname], fname, explained == "K-C05-enum-undeclared"); d != "" {
								rep("c05-illtyped-json", d, exp)
							}
							c.Count("values_type_checked_in_the_written_json", 1)
						}
					}
				}
			}
		}
	}
	c.MinNontriv = pairs / 2
	c.Set("type_value_pairs", pairs)
	// the same conversion far down: "within the resolve depth limit" is the limit in force when the request is resolved, so an
	// application that raises ggql.MaxResolveDepth after its root exists still gets converted values below the old limit
	defer func() { ggql.MaxResolveDepth = 100 }()
	for bi, bk := range []string{"iface", "any", "reflect"} {
		for k := 0; k < c.N(12, 60); k++ {
			r := c.Rand(900000 + bi*1000 + k)
			ti, wi := r.Intn(len(c05Types)), r.Intn(2)
			fname := fmt.Sprintf("f%d_%d", ti, wi)
			cv := cat[r.Intn(len(cat))]
			if _, isL := ref.AsList(cv.v); isL && bk != "iface" {
				continue
			}
			ggql.MaxResolveDepth = 100
			g := &model.Graph{}
			root := &model.Node{ID: 0, Type: "__root", F: map[string]interface{}{}}
			q := &model.Node{ID: 1, Type: "Query", F: map[string]interface{}{fname: cv.v}}
			q.F["obj"] = q
			q.F["objs"] = model.VList{q}
			root.F["query"] = q
			g.Root = root
			g.Nodes = []*model.Node{root, q}
			h, err := back.Build(bk, s, sdl, g)
			if err != nil {
				c.Violation("c05-schema-rejected", map[string]interface{}{"error": err.Error(), "sdl": sdl})
				return
			}
			depth := 60 + r.Intn(30)
			if k%2 == 0 {
				depth = 105 + r.Intn(60)
				ggql.MaxResolveDepth = 300
			}
			link := "obj"
			if k%4 == 3 {
				// the chain passes through a LIST of objects at every level (33-46 levels: within the default limit)
				link = "objs"
				depth = 33 + r.Intn(14)
			}
			sels := []model.Sel{&model.Field{Name: fname}}
			doc := &model.Doc{}
			frags := k%3 == 1
			if frags {
				// every selection set sits in an inline fragment and the leaf in a named one: fragments are no levels of the
				// response, a request 60-90 fields deep stays within the limit however many fragments it is written with
				doc.Frags = []*model.FragDef{{Name: "Leaf", Cond: "Query", Sels: sels}}
				sels = []model.Sel{&model.Spread{Name: "Leaf"}}
			}
			for d := 0; d < depth; d++ {
				sels = []model.Sel{&model.Field{Name: link, Sels: sels}}
				if frags {
					sels = []model.Sel{&model.Inline{Cond: []string{"Query", ""}[d%2], Sels: sels}}
				}
			}
			doc.Ops = []*model.Op{{Kind: "query", Shorthand: true, Sels: sels}}
			text := doc.Print(model.LayoutN(0))
			out := Do(h, Request{Text: text}, nil)
			exp := ref.Execute(s, doc, "", nil, g, nil, ref.Flags{})
			c.Eval(fmt.Sprintf("deep|%s|%s|%s|%d", fname, cv.name, bk, depth), true)
			c.Count("deep_chain_conversions", 1)
			if k%2 == 0 {
				c.Count("deep_chain_conversions_beyond_default_limit", 1)
			}
			if frags {
				c.Count("deep_chain_conversions_through_fragments", 1)
			}
			// (error paths under a named spread carry ggql's "fragment at L:C" segment: C06's open finding, not this property's subject)
			diff := Compare(exp, out, CompareOpts{StripFragSeg: true})
			if diff != "" && flags != (ref.Flags{}) {
				if Compare(ref.Execute(s, doc, "", nil, g, nil, flags), out, CompareOpts{StripFragSeg: true}) == "" {
					diff = ""
				}
			}
			if diff != "" {
				c.Violation("c05-deep-unfaithful", map[string]interface{}{"backend": bk, "field": fname, "depth": depth, "max_resolve_depth": ggql.MaxResolveDepth,
					"value": fmt.Sprintf("%s = %T(%v)", cv.name, cv.v, cv.v), "diag": diff})
			}
		}
	}
	ggql.MaxResolveDepth = 100
	// long lists in which many positions can not be represented: every one of them is null and has its own error (101,
	// 130, 257 failing positions; flat and as inner lists; next to positions that are fine)
	for li, total := range []int{101, 130, 257, 100} {
		for _, bk := range []string{"iface", "any", "reflect"} {
			for wi, w := range []string{"[T]", "[[T]]"} {
				ti := 0 // Int
				fname := fmt.Sprintf("f%d_%d", ti, map[string]int{"[T]": 2, "[[T]]": 4}[w])
				if s.Type("Query").Field(fname) == nil {
					continue
				}
				items := model.VList{}
				for k := 0; k < total+total/3; k++ {
					var e interface{} = "not a number"
					if k%4 == 3 {
						e = k
					}
					items = append(items, e)
				}
				var val interface{} = items
				if w == "[[T]]" {
					val = model.VList{items[:len(items)/2], model.VList{}, items[len(items)/2:]}
				}
				g := &model.Graph{}
				root := &model.Node{ID: 0, Type: "__root", F: map[string]interface{}{}}
				q := &model.Node{ID: 1, Type: "Query", F: map[string]interface{}{fname: val}}
				q.F["obj"] = q
				root.F["query"] = q
				g.Root = root
				g.Nodes = []*model.Node{root, q}
				h, err := back.Build(bk, s, sdl, g)
				if err != nil {
					continue
				}
				doc := &model.Doc{Ops: []*model.Op{{Kind: "query", Shorthand: true, Sels: []model.Sel{&model.Field{Name: fname}}}}}
				text := doc.Print(model.LayoutN(0))
				out := Do(h, Request{Text: text}, nil)
				exp := ref.Execute(s, doc, "", nil, g, nil, ref.Flags{})
				c.Eval(fmt.Sprintf("long-list|%d|%s|%s", total, bk, w), true)
				c.Count("long_lists_of_unrepresentable_leaves", 1)
				if diff := Compare(exp, out, CompareOpts{}); diff != "" {
					c.Violation("c05-long-list", map[string]interface{}{"backend": bk, "declared": w + " of Int", "failing_positions": len(exp.Errs), "diag": diff, "error_entries_observed": len(out.ErrPaths)})
				}
				_, _ = li, wi
			}
		}
	}
	c05Subscription(c, s, cat, flags)
	c05TwoGoTypes(c)
	// hostile values inside generated nested documents
	nested := c.N(800, 30000)
	for i := 0; i < nested && !c.TooMany(); i++ {
		r := c.Rand(i)
		kind := []string{"iface", "any", "reflect", "mixed-any", "mixed-reflect"}[i%5]
		refl := kind == "reflect" || kind == "mixed-reflect"
		abs := kind == "reflect" && i%2 == 0 // abstract-typed data needs type bindings (reflection only)
		ec := newExecCase(r, gen.SchemaOpts{Args: false, Abstract: abs}, gen.DocOpts{Frags: true, Aliases: true, Depth: 2 + r.Intn(3), Abstract: abs, DupKeys: i%2 == 1})
		if refl && !back.ReflectFriendly(ec.S) {
			continue
		}
		sites := c05AllLeafSites(ec.S, ec.G)
		if len(sites) == 0 {
			continue
		}
		g := cloneGraph(ec.G)
		planted := []string{}
		for m := 0; m < 1+r.Intn(4); m++ {
			site := sites[r.Intn(len(sites))]
			cv := cat[r.Intn(len(cat))]
			if _, isL := ref.AsList(cv.v); isL && kind != "iface" {
				continue // a list where a leaf is declared: see the AnyResolver note above
			}
			n2 := g.Nodes[site.node.ID]
			n2.F[site.field] = setLeaf(n2.F[site.field], site.idx, cv.v)
			planted = append(planted, fmt.Sprintf("#%d.%s%v <- %s", site.node.ID, site.field, site.idx, cv.name))
		}
		h, err := back.Build(kind, ec.S, ec.SDL, g)
		if err != nil {
			continue
		}
		out := Do(h, Request{Text: ec.Text, OpName: ec.DC.OpName, Vars: ec.DC.Vars, Entry: i}, nil)
		exp := ref.Execute(ec.S, ec.DC.Doc, ec.DC.OpName, ec.DC.Vars, g, nil, ref.Flags{})
		c.Eval(ec.Text+fmt.Sprint(planted)+kind, true)
		c.Count("nested_hostile_runs", 1)
		diff := Compare(exp, out, CompareOpts{StripFragSeg: true})
		if diff == "" {
			continue
		}
		if flags != (ref.Flags{}) {
			e2 := ref.Execute(ec.S, ec.DC.Doc, ec.DC.OpName, ec.DC.Vars, g, nil, flags)
			if Compare(e2, out, CompareOpts{StripFragSeg: true}) == "" {
				c.Count("nested_runs_explained_by_open_findings", 1)
				continue
			}
		}
		c.Violation("c05-nested", ec.replay(kind, ec.DC.OpName, map[string]interface{}{"planted": planted, "diff": diff, "expected": exp.Describe(), "observed": out.Describe()}))
	}
}

// c05AllLeafSites lists every non-null leaf position of the graph (any leaf type).
func c05AllLeafSites(s *model.Schema, g *model.Graph) []leafSite {
	var out []leafSite
	for _, n := range g.Nodes[1:] {
		td := s.Type(n.Type)
		if td == nil {
			continue
		}
		for _, f := range td.Fields {
			if !s.IsLeaf(f.Type.Base()) || f.Echo {
				continue
			}
			var walk func(v interface{}, idx []int)
			walk = func(v interface{}, idx []int) {
				switch t := v.(type) {
				case nil:
				case model.VList:
					for i, e := range t {
						walk(e, append(append([]int{}, idx...), i))
					}
				default:
					out = append(out, leafSite{node: n, field: f.Name, idx: idx, typ: f.Type.Base()})
				}
			}
			walk(n.F[f.Name], nil)
		}
	}
	return out
}

// ---------------------------------------------------------------- leaf-typed subscription fields

type c05SubRoot struct{ subs *c05Subs }

func (r *c05SubRoot) Resolve(field *ggql.Field, args map[string]interface{}) (interface{}, error) {
	if field.Name == "subscription" {
		return r.subs, nil
	}
	return nil, nil
}

type c05Subs struct{ last *c05Subscriber }

func (s *c05Subs) Resolve(field *ggql.Field, args map[string]interface{}) (interface{}, error) {
	s.last = &c05Subscriber{}
	return ggql.NewSubscription(s.last, field, args), nil
}

type c05Subscriber struct{ got []interface{} }

func (s *c05Subscriber) Send(v interface{}) error { s.got = append(s.got, v); return nil }
func (s *c05Subscriber) Match(string) bool        { return true }
func (s *c05Subscriber) Unsubscribe()             {}

// c05Subscription: what a subscriber is sent is response data as well. Subscription fields of every leaf type and wrapper
// (no selection set) receive the hostile catalogue as events: the message must be the reference conversion of the event, or
// null with AddEvent reporting an error - never the unconverted Go value.
func c05Subscription(c *run.Ctx, s *model.Schema, cat []c05Val, flags ref.Flags) int {
	s2 := *s
	sub := &model.TypeDef{Kind: model.Object, Name: "Subscription"}
	for _, f := range s.Type("Query").Fields {
		if f.Name != "obj" && f.Name != "objs" {
			sub.Fields = append(sub.Fields, &model.FieldDef{Name: f.Name, Type: f.Type})
		}
	}
	s2.Types = append(append([]*model.TypeDef{}, s.Types...), sub)
	s2.Subscription = "Subscription"
	s2.Reindex()
	sdl := s2.SDL(model.SDLOpts{})
	done := 0
	n := c.N(900, 40000)
	for i := 0; i < n && !c.TooMany(); i++ {
		r := c.Rand(950000 + i)
		ti, wi := r.Intn(len(c05Types)), r.Intn(len(c05Wrappers))
		fname := fmt.Sprintf("f%d_%d", ti, wi)
		ft := c05Wrap(c05Types[ti], c05Wrappers[wi])
		cv := cat[r.Intn(len(cat))]
		var ev interface{} = cv.v
		switch c05Wrappers[wi] {
		case "[T]":
			if r.Intn(2) == 0 {
				ev = []interface{}{cv.v, nil, cv.v}
			}
		case "[T!]":
			ev = []interface{}{cv.v}
		case "[[T]]":
			ev = []interface{}{[]interface{}{cv.v}, []interface{}{}, nil}
		}
		if _, isB := ev.([]byte); isB {
			continue // a []byte where a list is declared: a byte string or a list of small integers - the statement leaves that convention open
		}
		subs := &c05Subs{}
		root := ggql.NewRoot(&c05SubRoot{subs: subs})
		if err := root.ParseString(sdl); err != nil {
			c.Violation("c05-schema-rejected", map[string]interface{}{"error": err.Error(), "sdl": sdl})
			return done
		}
		text := "subscription { " + fname + " }"
		res := root.ResolveString(text, "", nil)
		if res["errors"] != nil || subs.last == nil {
			c.Violation("c05-subscription-rejected", map[string]interface{}{"document": text, "response": fmt.Sprint(res)})
			continue
		}
		var aerr error
		pv, _ := run.Protect(func() { _, aerr = root.AddEvent("t", ev) })
		done++
		c.Eval(fmt.Sprintf("sub|%s|%s|%d", fname, cv.name, i%3), true)
		c.Count("subscription_events_of_leaf_typed_fields", 1)
		// the expectation: the same value under a query field of that type
		g := &model.Graph{}
		gr := &model.Node{ID: 0, Type: "__root", F: map[string]interface{}{}}
		q := &model.Node{ID: 1, Type: "Query", F: map[string]interface{}{fname: toVList(ev)}}
		gr.F["query"] = q
		g.Root, g.Nodes = gr, []*model.Node{gr, q}
		doc := &model.Doc{Ops: []*model.Op{{Kind: "query", Shorthand: true, Sels: []model.Sel{&model.Field{Name: fname}}}}}
		rep := func(diag string, exp *ref.Result) {
			c.Violation("c05-subscription-event", map[string]interface{}{"declared": ft.String(), "event": fmt.Sprintf("%s = %T(%v)", cv.name, ev, ev), "subscription": text, "diag": diag,
				"message": fmt.Sprintf("%#v", subs.last.got), "add_event_error": fmt.Sprint(aerr), "expected": exp.Describe()})
		}
		exp := ref.Execute(s, doc, "", nil, g, nil, ref.Flags{})
		if pv != nil {
			rep(fmt.Sprintf("AddEvent panics: %v", pv), exp)
			continue
		}
		if len(subs.last.got) != 1 {
			rep(fmt.Sprintf("%d messages for one event", len(subs.last.got)), exp)
			continue
		}
		got := ref.Canon(subs.last.got[0])
		if gm, isM := got.(map[string]interface{}); isM {
			if inner, has := gm[fname]; has && len(gm) == 1 {
				got = inner
			}
		}
		judge := func(e *ref.Result) string {
			want, _ := e.Data.(map[string]interface{})
			if !ref.Match(want[fname], got) {
				return "message differs at " + ref.Mismatch(want[fname], got)
			}
			mustErr := false
			for _, x := range e.Errs {
				if x.Kind != "optional" {
					mustErr = true
				}
			}
			if mustErr && aerr == nil {
				return "the conversion fails (null in the message) but AddEvent reports no error"
			}
			return ""
		}
		d := judge(exp)
		if d != "" && flags != (ref.Flags{}) {
			if judge(ref.Execute(s, doc, "", nil, g, nil, flags)) == "" {
				c.Count("subscription_events_explained_by_open_findings", 1)
				continue
			}
		}
		if d != "" {
			rep(d, exp)
			continue
		}
		// shape monitor, independent of the reference
		if tw := typedWalk(s, ft, got, fname, flags.EnumUndeclared); tw != "" {
			rep("ill-typed message: "+tw, exp)
		}
	}
	return done
}

func toVList(v interface{}) interface{} {
	if l, isL := v.([]interface{}); isL {
		out := make(model.VList, len(l))
		for i, e := range l {
			out[i] = toVList(e)
		}
		return out
	}
	return v
}

// c05JSONWalk writes v with ggql.WriteJSONValue, decodes the text with encoding/json and runs the typed walk on what a
// client would see.
func c05JSONWalk(s *model.Schema, t *model.TypeRef, v interface{}, path string, enumOK bool) string {
	var b bytes.Buffer
	var werr error
	if pv, _ := run.Protect(func() { werr = ggql.WriteJSONValue(&b, v, -1) }); pv != nil || werr != nil {
		return fmt.Sprintf("%s: the value can not be written as JSON: %v %v", path, pv, werr)
	}
	dec := json.NewDecoder(bytes.NewReader(b.Bytes()))
	dec.UseNumber()
	var std interface{}
	if err := dec.Decode(&std); err != nil {
		return fmt.Sprintf("%s: the written text %s is not JSON: %v", path, clip(b.String(), 200), err)
	}
	var conv func(x interface{}) interface{}
	conv = func(x interface{}) interface{} {
		switch tv := x.(type) {
		case json.Number:
			return ref.Num(tv.String())
		case []interface{}:
			o := make([]interface{}, len(tv))
			for i, e := range tv {
				o[i] = conv(e)
			}
			return o
		}
		return x
	}
	if d := typedWalk(s, t, conv(std), path, enumOK); d != "" {
		return d + " (in the JSON text " + clip(b.String(), 120) + ")"
	}
	return ""
}
