package checks

import (
	"testing"

	"github.com/uhn/ggql/pkg/ggql"

	"verif/internal/zoo"
)

// Self-test of the harness's fault-injecting file system: without faults ParseFS must load the files.
func TestFaultyFSLoads(t *testing.T) {
	fsys := &faultyFS{files: map[string]string{"a.graphql": "type Query { a: B }", "b.graphql": "type B { x: Int }", "c.txt": "{"}, failOpen: -1, failRead: -1, failClose: -1}
	root := ggql.NewRoot(&zoo.Root{})
	if err := root.ParseFS(fsys, "*.graphql"); err != nil {
		t.Fatal(err)
	}
	if root.GetType("B") == nil {
		t.Fatal("B not loaded")
	}
	for _, k := range []string{"open", "read", "close"} {
		f2 := &faultyFS{files: fsys.files, failOpen: -1, failRead: -1, failClose: -1}
		switch k {
		case "open":
			f2.failOpen = 1
		case "read":
			f2.failRead = 0
		default:
			f2.failClose = 1
		}
		r2 := ggql.NewRoot(&zoo.Root{})
		if err := r2.ParseFS(f2, "*.graphql"); err == nil {
			t.Fatalf("fault %s not reported", k)
		}
	}
}
