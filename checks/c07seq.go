package checks

import (
	"errors"
	"fmt"
	"regexp"
	"strings"
	"sync/atomic"

	"github.com/uhn/ggql/pkg/ggql"

	"verif/internal/run"
)

type c07SRoot struct{ Query *c07SQuery }
type c07SQuery struct {
	A     int
	Item  *c07SItem
	Items []*c07SItem
}
type c07SItem struct {
	Name string
	Odd  interface{}
	Sub  *c07SItem
}

// Greet takes a required argument.
func (it *c07SItem) Greet(name string, loud bool) string {
	atomic.AddInt64(&c07GreetCalls, 1)
	return "hi " + name + it.Name
}

// c07GreetCalls counts invocations of Greet (C10 asserts that a call without the required argument never gets there).
var c07GreetCalls int64

// Boom fails on every call.
func (it *c07SItem) Boom() (int, error) { return 0, errors.New("boom failed for " + it.Name) }

var c07SKeyRe = regexp.MustCompile(`[A-Za-z_][A-Za-z_0-9]*`)

// c07Sequence: ONE root bound by reflection answers a series of requests that run into the same three failures at
// different places of differently laid out documents: a schema field the Go type has nothing for (weight), a Go method
// that returns an error (boom) and a Go value the field's type cannot carry (odd). Whatever ggql remembers about a
// failed binding or a failed resolution between requests, every response is judged against the request IT answers:
// envelope, positive locations inside the submitted text and on a line that holds the failing field's response key, and
// a path of response keys and indices only (it must not grow from request to request).
func c07Sequence(c *run.Ctx) {
	// the type definitions sit far down and far right in THEIR document: a position taken from the schema is outside most requests
	const sdl = "type Query { a: Int item: Item items: [Item] }\n\n\n\n\n\n\n\n\n\n\n\n\n\n                                        type Item { name: String weight: Int boom: Int odd: Int sub: Item\n" +
		"                                                  greet(\n                                                          name: String!,\n                                                          loud: Boolean): String }\n"
	reqs := []string{
		"{ item { weight } }",
		"{\n  a\n  item {\n    name\n    w: weight\n  }\n}",
		"{ items { name\n weight } }",
		"query Q {\n\n\n\n item { sub { weight } } }",
		"{ item { boom } }",
		"{\n a\n\n item {\n\n\n   b2: boom\n name } }",
		"{ items {\n\n boom } }",
		"{ item { odd } }",
		"{\n\n\n\n\n\n item { sub { o3: odd } } }",
		"{ items { name } a }",
		"{ item { name ...F } }\n\n\n\nfragment F on Item {\n  wf: weight\n  bf: boom }",
		"{ item { sub { sub { name } } }\n items { ow: odd } }",
		"{ item { greet } }",
		"{ a\n item {\n  g2: greet(loud: true)\n } }",
		"{ items { name greet(name: \"Bo\") } item { sub { greet } } }",
	}
	depth := map[string]int{}
	for _, t := range reqs {
		depth[t] = strings.Count(t, "{")
	}
	n := 0
	for round := 0; round < c.N(40, 600) && !c.TooMany(); round++ {
		r := c.Rand(1500000 + round)
		mk := func(name string, d int) *c07SItem {
			var it *c07SItem
			for ; d >= 0; d-- {
				it = &c07SItem{Name: fmt.Sprintf("%s%d", name, d), Odd: struct{ X int }{d}, Sub: it}
			}
			return it
		}
		q := &c07SQuery{A: 1, Item: mk("i", 3)}
		for k := 0; k < 1+r.Intn(3); k++ {
			q.Items = append(q.Items, mk(fmt.Sprintf("l%d_", k), 1))
		}
		root := ggql.NewRoot(&c07SRoot{Query: q})
		if err := root.ParseString(sdl); err != nil {
			c.Violation("c07-schema-rejected", map[string]interface{}{"error": err.Error()})
			return
		}
		var hist []string
		for k := 0; k < 3+r.Intn(5); k++ {
			text := reqs[r.Intn(len(reqs))]
			if r.Intn(3) == 0 {
				text = strings.Repeat("\n", 1+r.Intn(3)) + strings.Repeat(" ", r.Intn(4)) + text
			}
			lines := map[string]map[int]bool{}
			for li, l := range strings.Split(text, "\n") {
				for _, w := range c07SKeyRe.FindAllString(l, -1) {
					if lines[w] == nil {
						lines[w] = map[int]bool{}
					}
					lines[w][li+1] = true
				}
			}
			var resp map[string]interface{}
			pv, _ := run.Protect(func() { resp = root.ResolveString(text, "", nil) })
			hist = append(hist, text)
			n++
			c.Eval("sequence|"+strings.Join(hist, "|"), k > 0)
			c.Bucket("variant", "same-failures-in-a-series-of-requests-on-one-root")
			if pv != nil {
				c.Count("panics_left_to_C03", 1)
				break
			}
			el, _ := resp["errors"].([]interface{})
			c.Count("error_entries_checked", len(el))
			diag, _ := envelopeCheck(resp, text, lines, false, false)
			if diag == "" {
				want := strings.Contains(text, "weight") || strings.Contains(text, "boom") || strings.Contains(text, "odd") || strings.Contains(text, "greet }") || strings.Contains(text, "greet(loud")
				if want && len(el) == 0 {
					diag = "a failing field was selected and the response has no errors"
				}
				for _, e := range el {
					em, _ := e.(map[string]interface{})
					if pl, _ := em["path"].([]interface{}); len(pl) > 2*strings.Count(text, "{")+2 {
						diag = fmt.Sprintf("path %v is longer than the request is deep", pl)
					}
				}
			}
			if diag == "" {
				diag = jsonRoundTrip(resp)
			}
			if diag != "" {
				c.Violation("c07-envelope", map[string]interface{}{"variant": "series-on-one-root", "sdl": sdl, "history": hist, "document": text, "diag": diag, "response": fmt.Sprintf("%#v", resp)})
				break
			}
		}
	}
	c.Set("sequence_requests_checked", n)
}
