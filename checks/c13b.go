package checks

import (
	"fmt"
	"strings"

	"github.com/uhn/ggql/pkg/ggql"

	"verif/internal/extract"
	"verif/internal/ref"
	"verif/internal/run"
)

func c13Ref(n string) *ggql.Ref { return &ggql.Ref{Base: ggql.Base{N: n}} }

// c13OpenRefs lists the places of the root's types that still hold a *ggql.Ref instead of a type or directive of the root.
func c13OpenRefs(root *ggql.Root) (open []string) {
	var isRef func(t ggql.Type) bool
	isRef = func(t ggql.Type) bool {
		switch tt := t.(type) {
		case *ggql.Ref:
			return true
		case *ggql.List:
			return isRef(tt.Base)
		case *ggql.NonNull:
			return isRef(tt.Base)
		}
		return false
	}
	dus := func(where string, l []*ggql.DirectiveUse) {
		for _, du := range l {
			if _, r := du.Directive.(*ggql.Ref); r {
				open = append(open, where+" @"+du.Directive.Name())
			}
		}
	}
	fds := func(tn string, l []*ggql.FieldDef) {
		for _, f := range l {
			if isRef(f.Type) {
				open = append(open, tn+"."+f.Name())
			}
			dus(tn+"."+f.Name(), f.Directives())
			for _, a := range f.Args() {
				if isRef(a.Type) {
					open = append(open, tn+"."+f.Name()+"("+a.Name()+")")
				}
				dus(tn+"."+f.Name()+"("+a.Name()+")", a.Directives())
			}
		}
	}
	for _, t := range root.Types() {
		if strings.HasPrefix(t.Name(), "__") {
			continue
		}
		dus(t.Name(), t.Directives())
		switch tt := t.(type) {
		case *ggql.Object:
			fds(t.Name(), tt.Fields())
		case *ggql.Interface:
			fds(t.Name(), tt.Fields())
		case *ggql.Input:
			for _, f := range tt.Fields() {
				if isRef(f.Type) {
					open = append(open, t.Name()+"."+f.Name())
				}
				dus(t.Name()+"."+f.Name(), f.Directives())
			}
		case *ggql.Enum:
			for _, ev := range tt.Values() {
				dus(t.Name()+"."+string(ev.Value), ev.Directives)
			}
		}
	}
	return
}

// c13Builders: a schema put together in steps - a load, then members added to the loaded types through the public
// builders (AddField, AddArg, AddValue) whose types and directives are references by name like the ones the parser makes,
// then the load that brings (or does not bring) what they name. Every load re-checks the WHOLE root: the completing
// load must be accepted with every reference of the root replaced and the read-back schema passing the re-check; a load
// that leaves one of them naming nothing, or that turns one into a rule breach, must be refused naming the offender.
func c13Builders(c *run.Ctx) int {
	type flavour struct {
		name     string
		build    func(root *ggql.Root) error
		load     string
		addTypes bool   // the third step goes through AddTypes (an enum ZzColor) instead of a document
		offender string // "" = the sequence is well-formed
	}
	obj := func(root *ggql.Root, n string) *ggql.Object { o, _ := root.GetType(n).(*ggql.Object); return o }
	users := func() *ggql.FieldDef {
		fd := &ggql.FieldDef{Base: ggql.Base{N: "users"}, Type: &ggql.List{Base: &ggql.NonNull{Base: c13Ref("ZzUser")}}}
		_ = fd.AddArg(&ggql.Arg{Base: ggql.Base{N: "filter"}, Type: c13Ref("ZzFilter")})
		return fd
	}
	const first = "directive @zzOld on FIELD_DEFINITION\n\ntype Query { a: Int b: Held }\n\ninterface Node { id: ID }\n\ntype Held implements Node { id: ID }\n\ninput Box { n: Int }\n\nenum Kind { ONE TWO }"
	fls := []flavour{
		{"object-field-and-argument", func(root *ggql.Root) error { return obj(root, "Query").AddField(users()) },
			"type ZzUser implements Node { id: ID name: String }\n\ninput ZzFilter { name: String }", false, ""},
		{"object-field-argument-type-never-defined", func(root *ggql.Root) error { return obj(root, "Query").AddField(users()) },
			"type ZzUser implements Node { id: ID name: String }", false, "ZzFilter"},
		{"object-field-type-never-defined", func(root *ggql.Root) error { return obj(root, "Held").AddField(users()) },
			"input ZzFilter { name: String }", false, "ZzUser"},
		{"object-field-of-an-input-type", func(root *ggql.Root) error {
			return obj(root, "Query").AddField(&ggql.FieldDef{Base: ggql.Base{N: "zzWrong"}, Type: c13Ref("ZzFilter")})
		}, "input ZzFilter { name: String }", false, "zzWrong"},
		{"argument-of-an-object-type", func(root *ggql.Root) error {
			fd := &ggql.FieldDef{Base: ggql.Base{N: "zzF"}, Type: root.GetType("Int")}
			_ = fd.AddArg(&ggql.Arg{Base: ggql.Base{N: "zzArg"}, Type: c13Ref("ZzUser")})
			return obj(root, "Query").AddField(fd)
		}, "type ZzUser { id: ID }", false, "zzArg"},
		{"interface-field", func(root *ggql.Root) error {
			i, _ := root.GetType("Node").(*ggql.Interface)
			if err := i.AddField(&ggql.FieldDef{Base: ggql.Base{N: "owner"}, Type: c13Ref("ZzUser")}); err != nil {
				return err
			}
			return obj(root, "Held").AddField(&ggql.FieldDef{Base: ggql.Base{N: "owner"}, Type: c13Ref("ZzUser")})
		}, "type ZzUser { id: ID }", false, ""},
		{"input-field", func(root *ggql.Root) error {
			in, _ := root.GetType("Box").(*ggql.Input)
			return in.AddField(&ggql.InputField{Base: ggql.Base{N: "color"}, Type: &ggql.NonNull{Base: c13Ref("ZzColor")}})
		}, "enum ZzColor { RED }", false, ""},
		{"input-field-through-addtypes", func(root *ggql.Root) error {
			in, _ := root.GetType("Box").(*ggql.Input)
			return in.AddField(&ggql.InputField{Base: ggql.Base{N: "color"}, Type: c13Ref("ZzColor")})
		}, "", true, ""},
		{"input-field-of-an-object-type", func(root *ggql.Root) error {
			in, _ := root.GetType("Box").(*ggql.Input)
			return in.AddField(&ggql.InputField{Base: ggql.Base{N: "zzHolder"}, Type: c13Ref("ZzUser")})
		}, "type ZzUser { id: ID }", false, "zzHolder"},
		{"directive-on-added-field-never-defined", func(root *ggql.Root) error {
			fd := &ggql.FieldDef{Base: ggql.Base{N: "zzB"}, Type: root.GetType("Int")}
			fd.Dirs = []*ggql.DirectiveUse{{Directive: c13Ref("zzNowhere")}}
			return obj(root, "Query").AddField(fd)
		}, "type ZzOther { x: Int }", false, "zzNowhere"},
		{"directive-on-added-field-defined-by-the-next-load", func(root *ggql.Root) error {
			fd := &ggql.FieldDef{Base: ggql.Base{N: "zzB"}, Type: root.GetType("Int")}
			fd.Dirs = []*ggql.DirectiveUse{{Directive: c13Ref("zzLater")}, {Directive: c13Ref("zzOld")}}
			return obj(root, "Query").AddField(fd)
		}, "directive @zzLater on FIELD_DEFINITION | ENUM_VALUE", false, ""},
		{"directive-on-added-enum-value", func(root *ggql.Root) error {
			e, _ := root.GetType("Kind").(*ggql.Enum)
			return e.AddValue(&ggql.EnumValue{Value: "THREE", Directives: []*ggql.DirectiveUse{{Directive: c13Ref("zzLater")}}})
		}, "directive @zzLater on FIELD_DEFINITION | ENUM_VALUE", false, ""},
		{"directive-on-added-enum-value-never-defined", func(root *ggql.Root) error {
			e, _ := root.GetType("Kind").(*ggql.Enum)
			return e.AddValue(&ggql.EnumValue{Value: "THREE", Directives: []*ggql.DirectiveUse{{Directive: c13Ref("zzNowhere")}}})
		}, "type ZzOther { x: Int }", false, "zzNowhere"},
	}
	done := 0
	for round := 0; round < c.N(2, 12); round++ {
		for fi, fl := range fls {
			root := ggql.NewRoot(&c15Root{Query: &c15Obj{}, Mutation: &c15Obj{}, Subscription: &c15Obj{}})
			var hist []string
			if round%2 == 0 {
				if err := root.ParseString(first); err != nil {
					c.Violation("c13-wellformed-rejected", map[string]interface{}{"sdl": first, "error": err.Error()})
					return done
				}
				hist = append(hist, "load: "+first)
			} else {
				// the same first step in two loads: the types the builders touch arrived at different times
				parts := strings.SplitN(first, "\n\ninput Box", 2)
				for _, p := range []string{parts[0], "input Box" + parts[1]} {
					if err := root.ParseString(p); err != nil {
						c.Violation("c13-wellformed-rejected", map[string]interface{}{"sdl": p, "error": err.Error()})
						return done
					}
					hist = append(hist, "load: "+p)
				}
			}
			if round >= 2 {
				_ = root.ParseString("type ZzEarlier" + fmt.Sprint(round) + " { x: Int }")
				hist = append(hist, "load: one more unrelated type")
			}
			if err := fl.build(root); err != nil {
				c.Count("builder_refused", 1)
				continue
			}
			hist = append(hist, "builders: "+fl.name)
			var lerr error
			pv, _ := run.Protect(func() {
				if fl.addTypes {
					color := &ggql.Enum{Base: ggql.Base{N: "ZzColor"}}
					_ = color.AddValue(&ggql.EnumValue{Value: "RED"})
					lerr = root.AddTypes(color)
				} else {
					lerr = root.ParseString(fl.load)
				}
			})
			hist = append(hist, "load: "+fl.load)
			done++
			c.Eval(fmt.Sprintf("builders|%d|%d", round, fi), true)
			c.Bucket("rule", "builders-between-loads:"+fl.name)
			diag, kind := "", "c13-builders"
			switch {
			case pv != nil:
				diag = fmt.Sprint("panic: ", pv)
			case fl.offender == "" && lerr != nil:
				kind, diag = "c13-wellformed-later-load-rejected", lerr.Error()
			case fl.offender == "":
				if open := c13OpenRefs(root); len(open) > 0 {
					kind, diag = "c13-accepted-schema-fails-recheck", fmt.Sprint("references that name a defined type or directive were not replaced: ", open)
				} else if back, berr := extract.FromRoot(root); berr != nil {
					diag = "read back: " + berr.Error()
				} else if v := ref.CheckSchema(back); len(v) > 0 {
					kind, diag = "c13-accepted-schema-fails-recheck", fmt.Sprint(v)
				}
			case lerr == nil:
				kind, diag = "c13-mutant-accepted", fmt.Sprintf("the root is ill-formed (%s) and the load was accepted; open references: %v", fl.offender, c13OpenRefs(root))
			case !strings.Contains(lerr.Error(), fl.offender):
				kind, diag = "c13-offender-not-named", clip(lerr.Error(), 300)
			}
			if diag != "" {
				c.Violation(kind, map[string]interface{}{"rule": "builders-between-loads:" + fl.name, "history": hist, "offender": fl.offender, "diag": diag})
			}
		}
	}
	return done
}

// c13LateInvalidated: a later load can break a rule on definitions it does not mention. `extend input` gives an input
// object a required field; the default a directive declares for an argument of that type, and the argument value a
// directive use was written with, can then no longer be coerced: the load is refused naming the new field. Every load
// re-checks every directive, also those that passed before.
func c13LateInvalidated(c *run.Ctx) int {
	firsts := []string{
		"input ZzRange { low: Int high: Int = 10 }\ndirective @zzLimit(r: ZzRange = {low: 1}) on OBJECT\ntype Query { a: Int }",
		"input ZzRange { low: Int high: Int = 10 }\ndirective @zzLimit(r: ZzRange) on OBJECT\ntype Query @zzLimit(r: {low: 1}) { a: Int }",
		"input ZzRange { low: Int }\ninput ZzOuter { r: ZzRange }\ndirective @zzLimit(o: [ZzOuter!] = [{r: {low: 1}}]) on OBJECT | ENUM\ntype Query { a: Int }\nenum ZzE @zzLimit { A }",
	}
	done := 0
	for fi, first := range firsts {
		for variant := 0; variant < 3; variant++ {
			root := ggql.NewRoot(&c15Root{Query: &c15Obj{}, Mutation: &c15Obj{}, Subscription: &c15Obj{}})
			if err := root.ParseString(first); err != nil {
				c.Violation("c13-wellformed-rejected", map[string]interface{}{"sdl": first, "error": err.Error()})
				break
			}
			var hist []string
			switch variant {
			case 1:
				_ = root.ParseString("type ZzBetween { x: Int }") // an unrelated accepted load in between
				hist = append(hist, "load: type ZzBetween { x: Int }")
			case 2:
				_ = root.ResolveString(`{ __schema { directives { name args { name defaultValue } } } }`, "", nil)
				hist = append(hist, "(introspected)")
			}
			ext := "extend input ZzRange { step: Int! }"
			var err error
			pv, _ := run.Protect(func() { err = root.ParseString(ext) })
			done++
			c.Eval(fmt.Sprintf("late-invalidated|%d|%d", fi, variant), true)
			c.Bucket("rule", "late-extension:directive-argument-value-no-longer-coercible")
			switch {
			case pv != nil:
				c.Violation("c13-late-extension-panic", map[string]interface{}{"sdl": first, "history": hist, "later_load": ext, "panic": fmt.Sprint(pv)})
			case err == nil:
				c.Violation("c13-mutant-accepted", map[string]interface{}{"rule": "late-extension:directive-argument-value-no-longer-coercible", "offender": "step", "sdl": first, "history": hist, "later_load": ext,
					"diag": "the extension gives the input type a required field the directive's default / argument value does not have; it was loaded without error"})
			case !strings.Contains(err.Error(), "step"):
				c.Violation("c13-offender-not-named", map[string]interface{}{"rule": "late-extension:directive-argument-value-no-longer-coercible", "offender": "step", "later_load": ext, "diag": clip(err.Error(), 300)})
			}
		}
	}
	return done
}
