package checks

import (
	"fmt"
	"math/rand"
	"strings"
	"sync"
	"sync/atomic"

	"github.com/uhn/ggql/pkg/ggql"

	"verif/internal/model"
	"verif/internal/ref"
	"verif/internal/run"
)

func init() {
	register(&Check{ID: "C19", Level: "exploration", Run: runC19})
}

const subSDL = `
type Query { x: Int }
type Subscription { listen(topic: String): Event must(topic: String): Event! batch(topic: String): [Event!]! many(topic: String): [Event] fail(topic: String): Event ticks(topic: String): Int level(topic: String): Level! }
enum Level { LOW HIGH }
type Event { id: ID n: Int tag: String inner: Inner list: [Int] echo(x: Int, s: String, l: [Int], o: EchoIn): String }
input EchoIn { a: Int b: [Int] }
type Inner { v: Int w: String }
`

func subModel() *model.Schema {
	f := func(n, t string) *model.FieldDef { return &model.FieldDef{Name: n, Type: model.Named(t)} }
	return &model.Schema{Query: "Query", Types: []*model.TypeDef{
		{Kind: model.Object, Name: "Query", Fields: []*model.FieldDef{f("ev", "Event")}},
		{Kind: model.Object, Name: "Event", Fields: []*model.FieldDef{f("id", "ID"), f("n", "Int"), f("tag", "String"), f("inner", "Inner"), {Name: "list", Type: model.ListOf(model.Named("Int"))},
			{Name: "echo", Type: model.Named("String"), Echo: true, Args: []*model.ArgDef{{Name: "x", Type: model.Named("Int")}, {Name: "s", Type: model.Named("String")}, {Name: "l", Type: model.ListOf(model.Named("Int"))}, {Name: "o", Type: model.Named("EchoIn")}}}}},
		{Kind: model.Input, Name: "EchoIn", Inputs: []*model.ArgDef{{Name: "a", Type: model.Named("Int")}, {Name: "b", Type: model.ListOf(model.Named("Int"))}}},
		{Kind: model.Object, Name: "Inner", Fields: []*model.FieldDef{f("v", "Int"), f("w", "String")}},
	}}
}

// subEvent is the application event object (interface resolver).
type subEvent struct {
	uid  int64
	id   string
	n    int
	tag  string
	v    int
	list []interface{}
	badN bool // the Int field n holds something that is no Int: the field is null in the message and AddEvent reports it
}

func (e *subEvent) Resolve(field *ggql.Field, args map[string]interface{}) (interface{}, error) {
	switch field.Name {
	case "id":
		return e.id, nil
	case "n":
		if e.badN {
			return "not a number", nil
		}
		return e.n, nil
	case "tag":
		return e.tag, nil
	case "inner":
		return &subInner{e.v, e.tag + "-w"}, nil
	case "list":
		return e.list, nil
	case "echo":
		// what the field was called with, as the reference executor renders it
		shown, _ := ref.Canon(args).(map[string]interface{})
		if shown == nil {
			shown = map[string]interface{}{}
		}
		return ref.EchoText(field.Name, shown), nil
	}
	return nil, fmt.Errorf("no field %s", field.Name)
}

type subInner struct {
	v int
	w string
}

func (i *subInner) Resolve(field *ggql.Field, args map[string]interface{}) (interface{}, error) {
	if field.Name == "v" {
		return i.v, nil
	}
	return i.w, nil
}

func (e *subEvent) node() *model.Graph {
	g := &model.Graph{}
	root := &model.Node{ID: 0, Type: "__root", F: map[string]interface{}{}}
	q := &model.Node{ID: 1, Type: "Query", F: map[string]interface{}{}}
	in := &model.Node{ID: 3, Type: "Inner", F: map[string]interface{}{"v": e.v, "w": e.tag + "-w"}}
	ev := &model.Node{ID: 2, Type: "Event", F: map[string]interface{}{"id": e.id, "n": func() interface{} {
		if e.badN {
			return "not a number"
		}
		return e.n
	}(), "tag": e.tag, "inner": in, "list": model.VList(e.list)}}
	root.F["query"] = q
	q.F["ev"] = ev
	g.Root, g.Nodes = root, []*model.Node{root, q, ev, in}
	return g
}

// delivery is one Send observed by a subscriber.
type delivery struct {
	Sub   int
	Event int64 // unique event id recovered from the message when selected, else -1
	Msg   string
	Stamp int64
	Fail  bool
}

// subLog is the shared observation log of all subscribers of one root.
type subLog struct {
	mu         sync.Mutex
	deliveries []delivery
	cleanups   map[int][]int64 // sub -> stamps
	clock      *int64
}

// hSub is a harness subscriber.
type hSub struct {
	sid     int
	topic   string // "*" matches everything
	log     *subLog
	failOn  map[int]bool // k-th delivery (0-based) fails
	count   int32
	sels    []model.Sel
	field   string // the subscription field: listen | must (one event object per publish), batch | many (list-typed: a publish carries a slice)
	current *int64 // the event being published by the (single) sequential publisher, for attribution
	// given: what the subscription field's resolver received as its topic argument ("<none>" when it was not a string)
	given string
	// vdefs, vars: the variables the subscription request declared and the values it was made with; its selection set can
	// use them, and every event is answered with them
	vdefs []*model.VarDef
	vars  map[string]interface{}
}

// Match: events that are slices are published under ids starting with "B:" and concern the subscribers of the list-typed
// subscription fields only (and the other way round); within its kind a subscriber listens to one topic or to all.
func (s *hSub) Match(id string) bool {
	listID := strings.HasPrefix(id, "B:")
	if listID != (s.field == "batch" || s.field == "many") {
		return false
	}
	// the leaf-typed streams have id spaces of their own too: their events are plain values
	if strings.HasPrefix(id, "T:") != (s.field == "ticks") || strings.HasPrefix(id, "V:") != (s.field == "level") {
		return false
	}
	id = strings.TrimPrefix(strings.TrimPrefix(strings.TrimPrefix(id, "B:"), "T:"), "V:")
	return s.topic == "*" || s.topic == id
}

func (s *hSub) Send(value interface{}) error {
	k := int(atomic.AddInt32(&s.count, 1)) - 1
	fail := s.failOn[k]
	st := atomic.AddInt64(s.log.clock, 1)
	d := delivery{Sub: s.sid, Event: -1, Msg: ref.Render(ref.Canon(value)), Stamp: st, Fail: fail}
	if s.current != nil {
		d.Event = atomic.LoadInt64(s.current)
	}
	s.log.mu.Lock()
	s.log.deliveries = append(s.log.deliveries, d)
	s.log.mu.Unlock()
	if fail {
		return fmt.Errorf("subscriber %d refuses delivery %d", s.sid, k)
	}
	return nil
}

func (s *hSub) Unsubscribe() {
	st := atomic.AddInt64(s.log.clock, 1)
	s.log.mu.Lock()
	s.log.cleanups[s.sid] = append(s.log.cleanups[s.sid], st)
	s.log.mu.Unlock()
}

// subRootObj serves the root: subscription requests create harness subscribers.
type subRootObj struct {
	mu      sync.Mutex
	log     *subLog
	pending *hSub // configuration of the next subscriber (set by the driver before each subscribe request)
	// pendingBy: for a request that opens several streams, the subscriber prepared for each root field (by response key)
	pendingBy map[string]*hSub
	created   []*hSub
}

func (r *subRootObj) Resolve(field *ggql.Field, args map[string]interface{}) (interface{}, error) {
	switch field.Name {
	case "subscription":
		return &subSubscriptions{r}, nil
	case "query":
		return &subQuery{}, nil
	}
	return nil, nil
}

type subQuery struct{}

func (*subQuery) Resolve(field *ggql.Field, args map[string]interface{}) (interface{}, error) {
	return 1, nil
}

type subSubscriptions struct{ r *subRootObj }

func (s *subSubscriptions) Resolve(field *ggql.Field, args map[string]interface{}) (interface{}, error) {
	switch field.Name {
	case "listen", "must", "batch", "many", "ticks", "level":
	case "fail":
		return nil, fmt.Errorf("the application refuses this stream")
	default:
		return nil, fmt.Errorf("no field %s", field.Name)
	}
	s.r.mu.Lock()
	h := s.r.pending
	if by := s.r.pendingBy[field.Alias]; by != nil && field.Alias != "" {
		h = by
		delete(s.r.pendingBy, field.Alias)
	} else {
		s.r.pending = nil
	}
	if h != nil {
		s.r.created = append(s.r.created, h)
	}
	s.r.mu.Unlock()
	if h == nil {
		return nil, fmt.Errorf("harness: no subscriber prepared")
	}
	h.given = "<none>"
	if t, isS := args["topic"].(string); isS {
		h.topic = t
		h.given = t
	}
	return ggql.NewSubscription(h, field, args), nil
}

// subSelection draws a selection set over Event.
func subSelection(r *rand.Rand) []model.Sel {
	var sels []model.Sel
	names := []string{"id", "n", "tag", "list"}
	keys := map[string]bool{}
	for i, n := 0, 1+r.Intn(4); i < n; i++ {
		f := &model.Field{Name: names[r.Intn(len(names))]}
		if keys[f.Name] || r.Intn(3) == 0 {
			f.Alias = fmt.Sprintf("a%d", i)
		}
		keys[f.Key()] = true
		sels = append(sels, f)
	}
	if r.Intn(2) == 0 {
		in := &model.Field{Name: "inner", Sels: []model.Sel{&model.Field{Name: "v"}}}
		if r.Intn(2) == 0 {
			in.Sels = append(in.Sels, &model.Field{Alias: "ww", Name: "w"})
		}
		sels = append(sels, in)
	}
	if r.Intn(4) == 0 {
		sels = append(sels, &model.Field{Name: "__typename"})
	}
	return sels
}

// subSelectionWithVars adds to a selection set over Event an echo field whose argument is a variable and puts a
// @skip / @include with a variable condition on one of the selections; it returns the variable definitions and the values
// the request supplies.
func subSelectionWithVars(r *rand.Rand, sels []model.Sel) ([]model.Sel, []*model.VarDef, map[string]interface{}) {
	vars := map[string]interface{}{}
	var vdefs []*model.VarDef
	out := append([]model.Sel{}, sels...)
	x := &model.VarDef{Name: "x", Type: model.Named("Int")}
	switch r.Intn(3) {
	case 0: // default only
		x.HasDefault, x.Default = true, int64(1+r.Intn(90))
	case 1: // supplied over a default
		x.HasDefault, x.Default = true, int64(-7)
		vars["x"] = 100 + r.Intn(900)
	default:
		vars["x"] = 100 + r.Intn(900)
	}
	vdefs = append(vdefs, x)
	echo := &model.Field{Alias: "e0", Name: "echo", Args: []model.Arg{{Name: "x", Value: model.VarRef("x")}, {Name: "s", Value: "k"}}}
	switch r.Intn(3) {
	case 1:
		// the variable sits INSIDE a list and an input object literal only
		echo.Args = []model.Arg{{Name: "l", Value: []interface{}{int64(1), model.VarRef("x")}}, {Name: "o", Value: model.NewObjLit().Set("a", model.VarRef("x")).Set("b", []interface{}{model.VarRef("x")})}}
	case 2:
		echo.Args = append(echo.Args, model.Arg{Name: "o", Value: model.NewObjLit().Set("a", model.VarRef("x"))})
	}
	out = append(out, echo)
	if r.Intn(3) != 0 {
		hide := r.Intn(2) == 0
		c := &model.VarDef{Name: "c", Type: model.NonNullOf(model.Named("Boolean"))}
		if r.Intn(2) == 0 {
			c.HasDefault, c.Default = true, !hide
			vars["c"] = hide
		} else {
			vars["c"] = hide
		}
		vdefs = append(vdefs, c)
		dir := "skip"
		if r.Intn(2) == 0 {
			dir = "include"
		}
		// on a copy of one of the fields: the drawn selection set is shared with kept requests
		j := r.Intn(len(out))
		if f, isF := out[j].(*model.Field); isF {
			cp := *f
			du := []model.DirUse{{Name: dir, Args: []model.Arg{{Name: "if", Value: model.VarRef("c")}}}}
			if r.Intn(2) == 0 {
				// ... or on an inline fragment around it: the variable appears on no field at all
				cp2 := *f
				out[j] = &model.Inline{Cond: []string{"Event", ""}[r.Intn(2)], Dirs: du, Sels: []model.Sel{&cp2}}
			} else {
				cp.Dirs = du
				out[j] = &cp
			}
		}
	}
	if len(vars) == 0 {
		vars = nil
	}
	return out, vdefs, vars
}

func subRequestText(topic string, sels []model.Sel) string {
	return subRequestTextV("listen", topic, sels, 0)
}

// subRequestTextV writes the subscription request; form 1 puts the root field inside an inline fragment, form 2 inside a
// named fragment that is spread (defined after the operation), form 3 the same with the definition first.
func subRequestTextV(fieldName, topic string, sels []model.Sel, form int) string {
	var root model.Sel = &model.Field{Name: fieldName, Args: []model.Arg{{Name: "topic", Value: topic}}, Sels: sels}
	d := &model.Doc{}
	switch form {
	case 1:
		root = &model.Inline{Cond: "Subscription", Sels: []model.Sel{root}}
	case 2, 3:
		d.Frags = []*model.FragDef{{Name: "Root", Cond: "Subscription", Sels: []model.Sel{root}}}
		d.FragsFirst = form == 3
		root = &model.Spread{Name: "Root"}
	}
	d.Ops = []*model.Op{{Kind: "subscription", Name: "S", Sels: []model.Sel{root}}}
	if form == 6 && len(sels) > 0 {
		// the stream's selection sits behind a named fragment; every request calls its fragment the same (Sel), the bodies differ
		d.Frags = []*model.FragDef{{Name: "Sel", Cond: "Event", Sels: sels}}
		d.Ops[0].Sels = []model.Sel{&model.Field{Name: fieldName, Args: []model.Arg{{Name: "topic", Value: topic}}, Sels: []model.Sel{&model.Spread{Name: "Sel"}}}}
	}
	if form == 4 || form == 5 {
		// the topic comes from a variable: left to its default (4) or supplied over another default (5)
		vd := &model.VarDef{Name: "t", Type: model.Named("String"), HasDefault: true, Default: topic}
		if form == 5 {
			vd.Default = "zz-not-this-one"
		}
		d.Ops[0].Vars = []*model.VarDef{vd}
		d.Ops[0].Sels = []model.Sel{&model.Field{Name: fieldName, Args: []model.Arg{{Name: "topic", Value: model.VarRef("t")}}, Sels: sels}}
	}
	return d.Print(model.LayoutN(0))
}

// expectedMessage is the subscriber's own selection applied to the event (reference executor).
func expectedMessage(ms *model.Schema, sels []model.Sel, e *subEvent) string {
	return expectedMessageV(ms, sels, e, nil, nil)
}

func expectedMessageV(ms *model.Schema, sels []model.Sel, e *subEvent, vdefs []*model.VarDef, vars map[string]interface{}) string {
	msg, _ := expectedMessageE(ms, sels, e, vdefs, vars)
	return msg
}

// expectedMessageE also tells whether applying the selection set to the event produces an error.
func expectedMessageE(ms *model.Schema, sels []model.Sel, e *subEvent, vdefs []*model.VarDef, vars map[string]interface{}) (string, bool) {
	d := &model.Doc{Ops: []*model.Op{{Kind: "query", Shorthand: len(vdefs) == 0, Name: "Q", Vars: vdefs, Sels: []model.Sel{&model.Field{Name: "ev", Sels: sels}}}}}
	res := ref.Execute(ms, d, "", vars, e.node(), nil, ref.Flags{})
	m, _ := res.Data.(map[string]interface{})
	return ref.Render(m["ev"]), len(res.Errs) > 0
}

type subModelEntry struct {
	h        *hSub
	never    bool // made by a request that was answered with an error: never registered, never cleaned up
	live     bool
	expected int // deliveries expected so far (for fail plans)
}

func runC19(c *run.Ctx) {
	c.Rule = "sequential histories (5-60 steps) over {subscribe(selection, topic | wildcard, fail plan), publish(topic, event), unsubscribe(id)} on one root; oracle: executable registry model (ordered list of live " +
		"subscribers) checked after every step: publish's count, the global delivery log in registration order, each message equal to the subscriber's own selection applied to the event (reference executor), " +
		"failing subscribers removed and cleaned up exactly once, unsubscribed subscribers cleaned up exactly once and silent afterwards. Non-trivial = history has >=2 subscribers, a publish reaching >=2 of them and an " +
		"unsubscribe or failure; distinct by history text"
	n := c.N(3000, 80000)
	c.MinNontriv = n / 10
	ms := subModel()
	topics := []string{"a", "b", "c", "*"}
	for i := 0; i < n && !c.TooMany(); i++ {
		r := c.Rand(i)
		var clock int64
		lg := &subLog{cleanups: map[int][]int64{}, clock: &clock}
		ro := &subRootObj{log: lg}
		root := ggql.NewRoot(ro)
		if err := root.ParseString(subSDL); err != nil {
			c.Violation("c19-schema-rejected", map[string]interface{}{"error": err.Error()})
			return
		}
		var current int64 = -1
		exeCache := map[string]*ggql.Executable{}
		type keptReq struct {
			text, topic, field string
			sels               []model.Sel
			vars               map[string]interface{}
			vdefs              []*model.VarDef
		}
		var kept []keptReq
		reusedExe := 0
		var entries []*subModelEntry
		var hist []string
		steps := 5 + r.Intn(56)
		multi, removal := false, false
		var evSeq int64
		fail := func(diag string) {
			c.Violation("c19", map[string]interface{}{"history": hist, "diag": diag})
		}
		bad := false
		seenDeliveries := 0
		for st := 0; st < steps && !bad; st++ {
			switch k := r.Intn(10); {
			case k < 3 && len(entries) > 0 && r.Intn(5) == 0: // one request that opens TWO streams (two root fields, the second maybe through a fragment)
				// ggql registers the subscriptions of one request in no particular order: the two listen to different topics,
				// so no publish reaches both and the delivery order between them never matters
				tp := r.Perm(3)
				hs := []*hSub{}
				var roots []model.Sel
				for j := 0; j < 2; j++ {
					h := &hSub{sid: len(entries) + j, log: lg, failOn: map[int]bool{}, sels: subSelection(r), current: &current, field: []string{"listen", "must", "batch", "many"}[r.Intn(4)]}
					hs = append(hs, h)
					roots = append(roots, &model.Field{Alias: fmt.Sprintf("s%d", j+1), Name: h.field, Args: []model.Arg{{Name: "topic", Value: topics[tp[j]]}}, Sels: h.sels})
					c.Bucket("subscription_field", h.field)
				}
				d := &model.Doc{}
				if r.Intn(2) == 0 {
					d.Frags = []*model.FragDef{{Name: "Second", Cond: "Subscription", Sels: []model.Sel{roots[1]}}}
					roots[1] = &model.Spread{Name: "Second"}
				}
				refused := r.Intn(4) == 0
				if refused {
					// a third root field whose resolver fails: the request is answered with an error, so it subscribed nobody -
					// the stream objects the other two resolvers made are the application's to drop
					bad := &model.Field{Alias: "s3", Name: "fail", Args: []model.Arg{{Name: "topic", Value: "a"}}, Sels: []model.Sel{&model.Field{Name: "id"}}}
					k := r.Intn(len(roots) + 1)
					roots = append(roots[:k], append([]model.Sel{bad}, roots[k:]...)...)
				}
				d.Ops = []*model.Op{{Kind: "subscription", Name: "S", Sels: roots}}
				text := d.Print(model.LayoutN(0))
				ro.mu.Lock()
				ro.pendingBy = map[string]*hSub{"s1": hs[0], "s2": hs[1]}
				ro.mu.Unlock()
				hist = append(hist, fmt.Sprintf("subscribe#%d+#%d (one request, two streams) %s", hs[0].sid, hs[1].sid, strings.TrimSpace(text)))
				var res map[string]interface{}
				pv, _ := run.Protect(func() { res = root.ResolveString(text, "", nil) })
				if pv != nil {
					fail(fmt.Sprintf("subscribe panics: %v", pv))
					bad = true
					break
				}
				if refused {
					if _, has := res["errors"]; !has {
						fail("a subscription request with a failing root field returned no error")
						bad = true
						break
					}
					hist[len(hist)-1] += "  [answered with an error: nobody is subscribed]"
					// the two subscribers keep their ids but are not part of the registry model: a publish must not reach them
					entries = append(entries, &subModelEntry{h: hs[0], live: false, never: true}, &subModelEntry{h: hs[1], live: false, never: true})
					c.Count("subscription_requests_answered_with_an_error", 1)
					break
				}
				if es, has := res["errors"]; has {
					fail(fmt.Sprintf("subscription request rejected: %v", es))
					bad = true
					break
				}
				entries = append(entries, &subModelEntry{h: hs[0], live: true}, &subModelEntry{h: hs[1], live: true})
				c.Count("requests_opening_two_streams", 1)
			case k < 3 || len(entries) == 0: // subscribe
				h := &hSub{sid: len(entries), log: lg, failOn: map[int]bool{}, sels: subSelection(r), current: &current, field: "listen"}
				if r.Intn(3) == 0 {
					h.field = []string{"must", "batch", "many", "batch"}[r.Intn(4)]
				} else if r.Intn(6) == 0 {
					// a stream of plain values: the subscription field has a leaf type (Int, a non-null enum) and no selection set
					h.field = []string{"ticks", "level"}[r.Intn(2)]
					h.sels = nil
				}
				c.Bucket("subscription_field", h.field)
				topic := topics[r.Intn(len(topics))]
				if r.Intn(4) == 0 {
					for j, m := 0, 1+r.Intn(2); j < m; j++ {
						h.failOn[r.Intn(4)] = true
					}
				}
				ro.mu.Lock()
				ro.pending = h
				ro.mu.Unlock()
				form := 0
				if r.Intn(4) == 0 {
					form = 1 + r.Intn(7)
				}
				if form == 7 && len(h.sels) == 0 {
					form = 0
				}
				var reqVars map[string]interface{}
				if form == 5 {
					reqVars = map[string]interface{}{"t": topic}
				}
				text := subRequestTextV(h.field, topic, h.sels, form)
				if form == 7 {
					// the stream's own selection set uses variables of the subscription request: an argument of a field of
					// the event and the condition of a @skip / @include, each either left to its default or supplied
					h.sels, h.vdefs, reqVars = subSelectionWithVars(r, h.sels)
					h.vars = reqVars
					d := &model.Doc{Ops: []*model.Op{{Kind: "subscription", Name: "S", Vars: h.vdefs, Sels: []model.Sel{
						&model.Field{Name: h.field, Args: []model.Arg{{Name: "topic", Value: topic}}, Sels: h.sels}}}}}
					text = d.Print(model.LayoutN(0))
				}
				c.Bucket("subscribe_request_form", []string{"plain", "inline-on-Subscription", "fragment-on-Subscription", "fragment-first", "topic-variable-default", "topic-variable-supplied", "selection-behind-fragment", "selection-uses-variables"}[form])
				hist = append(hist, fmt.Sprintf("subscribe#%d topic=%s fail=%v %s", h.sid, topic, keysOfBool(h.failOn), strings.TrimSpace(text)))
				var res map[string]interface{}
				// a third of the subscription requests are made with a parsed executable that is kept and used again for the
				// next subscription with the same text (one client library, many connections)
				viaExe := r.Intn(3) == 0
				if viaExe && len(kept) > 0 && r.Intn(2) == 0 {
					// the same request as an earlier subscriber's, through the executable parsed back then
					k := kept[r.Intn(len(kept))]
					text, topic, h.sels, h.field, reqVars, h.vdefs, h.vars = k.text, k.topic, k.sels, k.field, k.vars, k.vdefs, nil
					if k.vdefs != nil {
						h.vars = k.vars
					}
					hist[len(hist)-1] = fmt.Sprintf("subscribe#%d topic=%s fail=%v %s", h.sid, topic, keysOfBool(h.failOn), strings.TrimSpace(text))
				} else if viaExe {
					kept = append(kept, keptReq{text, topic, h.field, h.sels, reqVars, h.vdefs})
				}
				pv, _ := run.Protect(func() {
					if !viaExe {
						res = root.ResolveString(text, "", copyVars(reqVars))
						return
					}
					exe := exeCache[text]
					if exe == nil {
						var perr error
						if exe, perr = root.ParseExecutableString(text); perr != nil {
							res = map[string]interface{}{"errors": perr.Error()}
							return
						}
						exeCache[text] = exe
					} else {
						reusedExe++
					}
					hist[len(hist)-1] += "  [ResolveExecutable on the kept parsed executable]"
					var rerr error
					if res, rerr = root.ResolveExecutable(exe, "", copyVars(reqVars)); rerr != nil {
						res = map[string]interface{}{"errors": rerr.Error()}
					} else if res == nil {
						res = map[string]interface{}{}
					}
				})
				if pv != nil {
					fail(fmt.Sprintf("subscribe panics: %v", pv))
					bad = true
					break
				}
				if es, has := res["errors"]; has {
					fail(fmt.Sprintf("subscription request rejected: %v", es))
					bad = true
					break
				}
				if h.given != topic {
					// the registration is what the REQUEST says (literal, variable, variable default): a subscriber registered
					// for another id than the one written would miss its events silently
					fail(fmt.Sprintf("subscriber %d: the request subscribes to topic %q, the subscription field's resolver was given %q", h.sid, topic, h.given))
					bad = true
					break
				}
				entries = append(entries, &subModelEntry{h: h, live: true})
			case k < 8: // publish
				topic := topics[r.Intn(3)]
				evSeq++
				ev := &subEvent{uid: evSeq, id: fmt.Sprintf("e%d", evSeq), n: r.Intn(100), tag: fmt.Sprintf("t%d", r.Intn(10)), v: r.Intn(9), list: []interface{}{r.Intn(5), nil, r.Intn(5)}}
				current = evSeq
				ev.badN = r.Intn(6) == 0
				var payload interface{} = ev
				evs := []*subEvent{ev}
				leafMsg := ""
				if lk := r.Intn(8); lk < 2 {
					// a publish for the leaf-typed subscription fields: the event is the value itself
					if lk == 0 {
						topic, payload, leafMsg = "T:"+topic, int(evSeq), fmt.Sprint(evSeq)
					} else {
						lv := []string{"LOW", "HIGH"}[evSeq%2]
						topic, payload, leafMsg = "V:"+topic, lv, `"`+lv+`"`
					}
					ev.badN = false
					hist = append(hist, fmt.Sprintf("publish topic=%s event=%v (a plain value)", topic, payload))
				} else if r.Intn(4) == 0 {
					// a publish for the list-typed subscription fields: the event is a slice of 0-3 event objects
					topic = "B:" + topic
					evs = nil
					var sl []interface{}
					for j, m := 0, r.Intn(4); j < m; j++ {
						e2 := &subEvent{uid: evSeq, id: fmt.Sprintf("e%d.%d", evSeq, j), n: r.Intn(100), tag: fmt.Sprintf("t%d", r.Intn(10)), v: r.Intn(9), list: []interface{}{r.Intn(5)}}
						evs = append(evs, e2)
						sl = append(sl, e2)
					}
					if sl == nil {
						sl = []interface{}{}
					}
					payload = sl
					hist = append(hist, fmt.Sprintf("publish topic=%s event=slice of %d", topic, len(sl)))
				} else if r.Intn(8) == 0 {
					// "nothing" is published: a nil, or a nil pointer of the event's Go type. Every matching subscriber gets
					// its one message (null), is counted, and fails or not as planned
					ev.badN = false
					leafMsg = "null"
					payload = nil
					if r.Intn(2) == 0 {
						payload = (*subEvent)(nil)
					}
					hist = append(hist, fmt.Sprintf("publish topic=%s event=%T(nil)", topic, payload))
					c.Count("publishes_of_a_nil_event", 1)
				} else {
					hist = append(hist, fmt.Sprintf("publish topic=%s event=%s n-is-no-Int=%v", topic, ev.id, ev.badN))
				}
				var cnt int
				var err error
				pv, _ := run.Protect(func() { cnt, err = root.AddEvent(topic, payload) })
				if pv != nil {
					fail(fmt.Sprintf("publish panics: %v", pv))
					bad = true
					break
				}
				// model
				var want []delivery
				anyFail := false
				fieldErr := false // some receiving subscriber selected the field that can not be resolved for this event
				for _, e := range entries {
					if e.live && e.h.Match(topic) {
						msg := leafMsg
						if leafMsg == "" {
							msg = expectedMessageV(ms, e.h.sels, ev, e.h.vdefs, e.h.vars)
						}
						if strings.HasPrefix(topic, "B:") {
							parts := make([]string, len(evs))
							for j, e2 := range evs {
								parts[j] = expectedMessageV(ms, e.h.sels, e2, e.h.vdefs, e.h.vars)
							}
							msg = "[" + strings.Join(parts, ",") + "]"
						}
						d := delivery{Sub: e.h.sid, Event: evSeq, Msg: msg, Fail: e.h.failOn[e.expected]}
						e.expected++
						want = append(want, d)
						if ev.badN && !strings.HasPrefix(topic, "B:") {
							// (a selection of n that a @skip / @include with a variable excludes is not resolved)
							if _, errs := expectedMessageE(ms, e.h.sels, ev, e.h.vdefs, e.h.vars); errs {
								fieldErr = true
							}
						}
						if d.Fail {
							e.live = false
							anyFail = true
							removal = true
						}
					}
				}
				if len(want) >= 2 {
					multi = true
				}
				if cnt != len(want) {
					fail(fmt.Sprintf("publish reported %d matched subscribers, expected %d", cnt, len(want)))
					bad = true
					break
				}
				if (err != nil) != (anyFail || fieldErr) {
					fail(fmt.Sprintf("publish error = %v but a failing delivery was expected = %v and a field error = %v", err, anyFail, fieldErr))
					bad = true
					break
				}
				lg.mu.Lock()
				got := append([]delivery{}, lg.deliveries[seenDeliveries:]...)
				seenDeliveries = len(lg.deliveries)
				lg.mu.Unlock()
				if len(got) != len(want) {
					fail(fmt.Sprintf("%d deliveries, expected %d", len(got), len(want)))
					bad = true
					break
				}
				for j := range want {
					if got[j].Sub != want[j].Sub {
						fail(fmt.Sprintf("delivery %d went to subscriber %d, expected %d (registration order)", j, got[j].Sub, want[j].Sub))
						bad = true
						break
					}
					if got[j].Msg != want[j].Msg {
						fail(fmt.Sprintf("subscriber %d received %s, expected %s", got[j].Sub, got[j].Msg, want[j].Msg))
						bad = true
						break
					}
				}
				c.Count("deliveries_checked", len(want))
			default: // unsubscribe
				id := topics[r.Intn(len(topics))]
				if r.Intn(4) == 0 {
					id = "B:" + id
				} else if r.Intn(6) == 0 {
					id = []string{"T:", "V:"}[r.Intn(2)] + id
				}
				hist = append(hist, "unsubscribe "+id)
				var cnt int
				pv, _ := run.Protect(func() { cnt = root.Unsubscribe(id) })
				if pv != nil {
					fail(fmt.Sprintf("unsubscribe panics: %v", pv))
					bad = true
					break
				}
				want := 0
				for _, e := range entries {
					if e.live && e.h.Match(id) {
						e.live = false
						want++
						removal = true
					}
				}
				if cnt != want {
					fail(fmt.Sprintf("unsubscribe(%s) removed %d subscribers, expected %d", id, cnt, want))
					bad = true
				}
			}
			if bad {
				break
			}
			// clean-up invariant after every step
			lg.mu.Lock()
			for _, e := range entries {
				n := len(lg.cleanups[e.h.sid])
				if e.live && n != 0 {
					fail(fmt.Sprintf("live subscriber %d was cleaned up", e.h.sid))
					bad = true
				}
				if e.never {
					if n != 0 {
						fail(fmt.Sprintf("subscriber %d of a refused request was cleaned up", e.h.sid))
						bad = true
					}
					continue
				}
				if !e.live && n != 1 {
					fail(fmt.Sprintf("removed subscriber %d cleaned up %d times, expected exactly once", e.h.sid, n))
					bad = true
				}
			}
			if len(lg.deliveries) != seenDeliveries {
				fail("deliveries outside a publish call")
				bad = true
			}
			lg.mu.Unlock()
		}
		c.Count("subscriptions_via_reused_parsed_executable", reusedExe)
		c.Eval(strings.Join(hist, "\n"), len(entries) >= 2 && multi && removal)
		c.Bucket("history_length", fmt.Sprint(steps/10*10))
		if i < 2 {
			c.Sample(map[string]interface{}{"history": hist})
		}
	}
	c19SharedSubscriber(c, "c19")
}

func keysOfBool(m map[int]bool) []int {
	var out []int
	for k := range m {
		out = append(out, k)
	}
	return out
}
