package checks

import (
	"fmt"
	"strings"

	"github.com/uhn/ggql/pkg/ggql"

	"verif/internal/back"
	"verif/internal/model"
	"verif/internal/ref"
	"verif/internal/run"
)

func init() {
	register(&Check{ID: "C09", Level: "exploration", Run: runC09})
}

func c09Schema() *model.Schema {
	s := &model.Schema{Query: "Query"}
	leaf := func(n string) *model.FieldDef { return &model.FieldDef{Name: n, Type: model.Named("Int")} }
	obj := func(n, t string) *model.FieldDef { return &model.FieldDef{Name: n, Type: model.Named(t)} }
	s.Types = []*model.TypeDef{
		{Kind: model.Object, Name: "Query", Fields: []*model.FieldDef{leaf("tgt"), leaf("sib"), obj("sub", "Leafy"), obj("down", "A"), {Name: "many", Type: model.ListOf(model.Named("B"))}}},
		{Kind: model.Object, Name: "A", Fields: []*model.FieldDef{leaf("tgt"), leaf("sib"), obj("sub", "Leafy"), obj("down", "B")}},
		{Kind: model.Object, Name: "B", Fields: []*model.FieldDef{leaf("tgt"), leaf("sib"), obj("sub", "Leafy")}},
		{Kind: model.Object, Name: "Leafy", Fields: []*model.FieldDef{leaf("inner")}},
	}
	return s
}

func c09Graph() *model.Graph {
	g := &model.Graph{}
	mk := func(t string, f map[string]interface{}) *model.Node {
		n := &model.Node{ID: len(g.Nodes), Type: t, F: f}
		g.Nodes = append(g.Nodes, n)
		return n
	}
	root := mk("__root", map[string]interface{}{})
	g.Root = root
	l := mk("Leafy", map[string]interface{}{"inner": 7})
	b2 := mk("B", map[string]interface{}{"tgt": 4, "sib": 40, "sub": l}) // (created first: the call-log monitor finds q, a, b from the end)
	b := mk("B", map[string]interface{}{"tgt": 3, "sib": 30, "sub": l})
	a := mk("A", map[string]interface{}{"tgt": 2, "sib": 20, "sub": l, "down": b})
	q := mk("Query", map[string]interface{}{"tgt": 1, "sib": 10, "sub": l, "down": a, "many": model.VList{b, b2, b}})
	root.F["query"] = q
	return g
}

var c09States = []string{"absent", "lit-true", "lit-false", "var-true", "var-false", "vardef-true", "vardef-false"}

func runC09(c *run.Ctx) {
	c.Rule = "complete table: {absent, literal true/false, variable true/false, defaulted variable true/false}^2 for (@skip,@include) x both orders x " +
		"{leaf field, composite field, inline fragment, fragment spread, __typename, __schema, __type} x depth {0,1,2} x back-ends {iface, any, reflect}, plus parse-once histories: " +
		"variable-driven conditions (required / default true / default false) resolved under every assignment in shuffled and table order on ONE parsed executable, also as two operations sharing a fragment with opposite defaults; oracle: truth table " +
		"present <=> not(skip true) and not(include false), plus resolver call log (no call for excluded selections) and the reference executor; " +
		"every case is non-trivial unless both directives are absent; distinct by (document text, variables, back-end)"
	c.Exhaustive = true
	s := c09Schema()
	sdl := s.SDL(model.SDLOpts{})
	kinds := []string{"field-leaf", "field-composite", "inline", "spread", "meta-typename", "meta-schema", "meta-type", "meta-typename-alone", "dup-leaf-first", "dup-leaf-second", "spread-twice-first", "spread-twice-second"}
	types := []string{"Query", "A", "B"}
	total := 0
	for _, bk := range []string{"iface", "any", "reflect"} {
		g := c09Graph()
		h, err := back.Build(bk, s, sdl, g)
		if err != nil {
			c.Violation("c09-schema-rejected", map[string]interface{}{"sdl": sdl, "error": err.Error()})
			return
		}
		for si, ss := range c09States {
			for ii, is := range c09States {
				for order := 0; order < 2; order++ {
					for _, kind := range kinds {
						for depth := 0; depth < 3; depth++ {
							if (kind == "meta-schema" || kind == "meta-type") && depth > 0 {
								continue // __schema and __type only exist on the query root
							}
							total++
							vars := map[string]interface{}{}
							var vdefs []*model.VarDef
							mkDir := func(name, state string) (model.DirUse, int, bool) { // dir, truth(1 true,0 false), present
								switch state {
								case "absent":
									return model.DirUse{}, -1, false
								case "lit-true":
									return model.DirUse{Name: name, Args: []model.Arg{{Name: "if", Value: true}}}, 1, true
								case "lit-false":
									return model.DirUse{Name: name, Args: []model.Arg{{Name: "if", Value: false}}}, 0, true
								}
								vn := "v_" + name
								val := state == "var-true" || state == "vardef-true"
								vd := &model.VarDef{Name: vn}
								if state == "var-true" || state == "var-false" {
									vd.Type = model.NonNullOf(model.Named("Boolean"))
									vars[vn] = val
								} else {
									vd.Type = model.Named("Boolean")
									vd.HasDefault = true
									vd.Default = val
								}
								vdefs = append(vdefs, vd)
								t := 0
								if val {
									t = 1
								}
								return model.DirUse{Name: name, Args: []model.Arg{{Name: "if", Value: model.VarRef(vn)}}}, t, true
							}
							sd, st, sp := mkDir("skip", ss)
							id, it, ip := mkDir("include", is)
							var dirs []model.DirUse
							if order == 0 {
								if sp {
									dirs = append(dirs, sd)
								}
								if ip {
									dirs = append(dirs, id)
								}
							} else {
								if ip {
									dirs = append(dirs, id)
								}
								if sp {
									dirs = append(dirs, sd)
								}
							}
							present := !(sp && st == 1) && !(ip && it == 0)
							tname := types[depth]
							doc := &model.Doc{}
							var target model.Sel
							key := "tgt"
							switch kind {
							case "field-leaf":
								target = &model.Field{Name: "tgt", Dirs: dirs}
							case "field-composite":
								key = "sub"
								target = &model.Field{Name: "sub", Dirs: dirs, Sels: []model.Sel{&model.Field{Name: "inner"}}}
							case "meta-typename", "meta-typename-alone":
								key = "__typename"
								target = &model.Field{Name: "__typename", Dirs: dirs}
							case "spread-twice-first", "spread-twice-second":
								// the same named fragment spread twice in one selection set, one spread with the directives and one bare
								doc.Frags = append(doc.Frags, &model.FragDef{Name: "F", Cond: tname, Sels: []model.Sel{&model.Field{Name: "tgt"}}})
								target = &model.Spread{Name: "F", Dirs: dirs}
								present = true
							case "dup-leaf-first", "dup-leaf-second":
								// the same leaf twice under one response key, once with the directives and once bare: the bare
								// occurrence is included whatever the directives of the other one say
								target = &model.Field{Name: "tgt", Dirs: dirs}
								present = true
							case "meta-schema":
								key = "__schema"
								target = &model.Field{Name: "__schema", Dirs: dirs, Sels: []model.Sel{&model.Field{Name: "queryType", Sels: []model.Sel{&model.Field{Name: "name"}}}}}
							case "meta-type":
								key = "__type"
								target = &model.Field{Name: "__type", Dirs: dirs, Args: []model.Arg{{Name: "name", Value: "A"}}, Sels: []model.Sel{&model.Field{Name: "name"}}}
							case "inline":
								target = &model.Inline{Cond: tname, Dirs: dirs, Sels: []model.Sel{&model.Field{Name: "tgt"}}}
							case "spread":
								doc.Frags = append(doc.Frags, &model.FragDef{Name: "F", Cond: tname, Sels: []model.Sel{&model.Field{Name: "tgt"}}})
								target = &model.Spread{Name: "F", Dirs: dirs}
							}
							sels := []model.Sel{&model.Field{Name: "sib"}, target}
							switch kind {
							case "meta-typename-alone":
								sels = []model.Sel{target} // the directive-carrying __typename is the ONLY selection of its set
							case "dup-leaf-first":
								sels = []model.Sel{&model.Field{Name: "sib"}, target, &model.Field{Name: "tgt"}}
							case "dup-leaf-second":
								sels = []model.Sel{&model.Field{Name: "tgt"}, &model.Field{Name: "sib"}, target}
							case "spread-twice-first":
								sels = []model.Sel{target, &model.Field{Name: "sib"}, &model.Spread{Name: "F"}}
							case "spread-twice-second":
								sels = []model.Sel{&model.Spread{Name: "F"}, &model.Field{Name: "sib"}, target}
							}
							for d := depth; d > 0; d-- {
								sels = []model.Sel{&model.Field{Name: "down", Sels: sels}}
							}
							op := &model.Op{Kind: "query", Name: "Q", Vars: vdefs, Sels: sels}
							doc.Ops = []*model.Op{op}
							text := doc.Print(model.LayoutN(total))
							meta := kind == "meta-schema" || kind == "meta-type" // answered by ggql's own schema objects: truth table only
							exp := ref.Execute(s, doc, "Q", vars, g, nil, ref.Flags{})
							out := Do(h, Request{Text: text, OpName: "Q", Vars: vars, Entry: total}, nil)
							c.Eval(text+fmt.Sprint(vars)+bk, sp || ip)
							c.Bucket("skip_state", ss)
							c.Bucket("include_state", is)
							c.Bucket("kind", kind)
							c.Bucket("backend", bk)
							c.Count("resolver_calls_observed", len(out.Calls))
							if total%397 == 0 {
								c.Sample(map[string]interface{}{"document": text, "vars": vars, "backend": bk, "expected_present": present})
							}
							rep := func(diag string) {
								c.Violation("c09-"+kind, map[string]interface{}{"backend": bk, "sdl": sdl, "document": text, "vars": vars, "skip": ss, "include": is,
									"order": order, "depth": depth, "expected_present": present, "diag": diag, "observed": out.Describe(), "expected": exp.Describe()})
							}
							if out.Panic != nil {
								rep("panic")
								continue
							}
							// walk to the container
							var cur interface{} = out.Data
							for d := 0; d < depth; d++ {
								m, _ := cur.(map[string]interface{})
								cur = m["down"]
							}
							m, isMap := cur.(map[string]interface{})
							if !isMap {
								rep("container object missing")
								continue
							}
							_, has := m[key]
							if has != present {
								rep(fmt.Sprintf("truth table: key %q present=%v, expected %v", key, has, present))
								continue
							}
							if _, sibHas := m["sib"]; !sibHas && kind != "meta-typename-alone" {
								rep("sibling selection lost")
								continue
							}
							if len(out.ErrPaths) > 0 {
								rep("errors on a valid request")
								continue
							}
							if bk != "reflect" && !strings.HasPrefix(kind, "meta-") && !strings.HasPrefix(kind, "dup-leaf") && !strings.HasPrefix(kind, "spread-twice") {
								called := false
								for _, cl := range out.Calls {
									if cl.Key.Field == key && cl.Key.Node == g.Nodes[len(g.Nodes)-1-depth].ID {
										called = true
									}
									if kind == "field-composite" && cl.Key.Field == "inner" && !present {
										rep("nested resolver of an excluded selection ran")
									}
								}
								if called != present {
									rep(fmt.Sprintf("call log: resolver for %q called=%v, expected %v", key, called, present))
									continue
								}
							}
							if meta {
								if present {
									want := map[string]string{"meta-schema": `{"queryType":{"name":"Query"}}`, "meta-type": `{"name":"A"}`}[kind]
									if got := ref.Render(ref.Canon(m[key])); got != want {
										rep("meta field value: " + got + ", expected " + want)
									}
								}
							} else if diff := Compare(exp, out, CompareOpts{}); diff != "" {
								rep("reference executor: " + diff)
							}
							_, _ = si, ii
							// the same conditions put on the PARSED request through the public AST types (what a gateway does that
							// hangs @include(if: $entitled) on fields before resolving): the rule is about the directive a selection
							// carries, not about how it got there
							if (sp || ip) && total%4 == 0 && (kind == "field-leaf" || kind == "field-composite" || kind == "inline" || kind == "spread" || kind == "meta-typename") {
								c09Injected(c, h, bk, kind, key, depth, doc, target, dirs, vars, exp)
							}
						}
					}
				}
			}
		}
	}
	c.Set("table_cells_per_backend", total/3)
	hist := c09Histories(c, s, sdl)
	hist += c09Subscription(c)
	hist += c09Generated(c)
	c.MinNontriv = (total + hist) * 2 / 3
}

// c09Histories: the conditions are variables, the document is parsed ONCE and resolved under every assignment of the
// variables (given true / given false / omitted so that the default decides), in several orders, and as two operations
// of one document that share a fragment but declare different defaults. Each call is judged by the truth table alone:
// inclusion must depend on the variables of that call only.
func c09Histories(c *run.Ctx, s *model.Schema, sdl string) int {
	kinds := []string{"field-leaf", "field-composite", "inline", "spread", "meta-typename", "field-leaf-in-list", "inline-in-list"}
	// a variable is either required (no default) or has a default of true/false
	type vkind struct {
		def    bool
		defVal bool
		loose  bool // declared `Boolean` with no default: a call may leave it out, send null or send something that is no Boolean
	}
	vks := []vkind{{false, false, false}, {true, true, false}, {true, false, false}, {false, false, true}}
	steps := 0
	n := 0
	for _, bk := range []string{"iface", "any", "reflect"} {
		g := c09Graph()
		h, err := back.Build(bk, s, sdl, g)
		if err != nil {
			c.Violation("c09-schema-rejected", map[string]interface{}{"sdl": sdl, "error": err.Error()})
			return 0
		}
		for _, kind := range kinds {
			for _, sk := range vks {
				for _, ik := range vks {
					for order := 0; order < 2; order++ {
						for shared := 0; shared < 2; shared++ {
							n++
							mkVD := func(name string, k vkind, flip bool) *model.VarDef {
								vd := &model.VarDef{Name: name, Type: model.NonNullOf(model.Named("Boolean"))}
								if k.def {
									vd.Type = model.Named("Boolean")
									vd.HasDefault = true
									vd.Default = k.defVal != flip
								}
								if k.loose {
									vd.Type = model.Named("Boolean")
								}
								return vd
							}
							sd := model.DirUse{Name: "skip", Args: []model.Arg{{Name: "if", Value: model.VarRef("s")}}}
							id := model.DirUse{Name: "include", Args: []model.Arg{{Name: "if", Value: model.VarRef("i")}}}
							dirs := []model.DirUse{sd, id}
							if order == 1 {
								dirs = []model.DirUse{id, sd}
							}
							doc := &model.Doc{}
							var target model.Sel
							key := "tgt"
							inList := strings.HasSuffix(kind, "-in-list")
							switch kind {
							case "field-leaf", "field-leaf-in-list":
								target = &model.Field{Name: "tgt", Dirs: dirs}
							case "field-composite":
								key = "sub"
								target = &model.Field{Name: "sub", Dirs: dirs, Sels: []model.Sel{&model.Field{Name: "inner"}}}
							case "meta-typename":
								key = "__typename"
								target = &model.Field{Name: "__typename", Dirs: dirs}
							case "inline-in-list":
								target = &model.Inline{Cond: "B", Dirs: dirs, Sels: []model.Sel{&model.Field{Name: "tgt"}}}
							case "inline":
								target = &model.Inline{Cond: "Query", Dirs: dirs, Sels: []model.Sel{&model.Field{Name: "tgt"}}}
							case "spread":
								doc.Frags = append(doc.Frags, &model.FragDef{Name: "F", Cond: "Query", Sels: []model.Sel{&model.Field{Name: "tgt"}}})
								target = &model.Spread{Name: "F", Dirs: dirs}
							}
							sels := []model.Sel{&model.Field{Name: "sib"}, target}
							if inList {
								// the directive-carrying selection is a NON-LAST direct selection of a list-typed field
								sels = []model.Sel{&model.Field{Name: "sib"}, &model.Field{Name: "many", Sels: []model.Sel{target, &model.Field{Name: "sib"}, &model.Field{Alias: "last", Name: "tgt"}}}}
							}
							ops := []string{"Q"}
							if shared == 1 {
								// the directive-carrying selection sits in a fragment shared by two operations whose defaults are opposite
								doc.Frags = append(doc.Frags, &model.FragDef{Name: "Shared", Cond: "Query", Sels: sels})
								sels = []model.Sel{&model.Spread{Name: "Shared"}}
								doc.Ops = []*model.Op{
									{Kind: "query", Name: "Q", Vars: []*model.VarDef{mkVD("s", sk, false), mkVD("i", ik, false)}, Sels: sels},
									{Kind: "query", Name: "R", Vars: []*model.VarDef{mkVD("s", sk, true), mkVD("i", ik, true)}, Sels: sels},
								}
								ops = []string{"Q", "R"}
							} else {
								doc.Ops = []*model.Op{{Kind: "query", Name: "Q", Vars: []*model.VarDef{mkVD("s", sk, false), mkVD("i", ik, false)}, Sels: sels}}
							}
							text := doc.Print(model.LayoutN(n))
							exe, perr := h.Root.ParseExecutableString(text)
							if perr != nil {
								if sk.loose || ik.loose {
									c.Count("nullable_variable_as_condition_refused_at_parse", 1)
									continue
								}
								c.Violation("c09-history", map[string]interface{}{"backend": bk, "document": text, "diag": "valid document rejected: " + perr.Error()})
								continue
							}
							if n%3 == 0 {
								// the application attaches a request context to the parsed request before it resolves it (the
								// documented way to hand per-request data to resolvers): directives stay where they are
								exe.SetContextRecursive(fmt.Sprintf("ctx-%d", n))
								c.Count("histories_with_a_context_set_on_the_parsed_request", 1)
							}
							// every assignment: 0 = given false, 1 = given true, 2 = omitted (only with a default)
							type call struct {
								op   string
								s, i int
							}
							var calls []call
							for _, op := range ops {
								for sv := 0; sv < 3; sv++ {
									for iv := 0; iv < 3; iv++ {
										if (sv == 2 && !sk.def && !sk.loose) || (iv == 2 && !ik.def && !ik.loose) {
											continue
										}
										calls = append(calls, call{op, sv, iv})
									}
								}
							}
							r := c.Rand(1000000 + n)
							seq := append([]call{}, calls...)
							r.Shuffle(len(seq), func(a, b int) { seq[a], seq[b] = seq[b], seq[a] })
							seq = append(seq, calls...) // then once more in table order: every call also follows every other
							var trace []string
							bad := false
							// every second history hands ggql ONE variable map that the caller keeps and re-uses for all calls
							keep := n%2 == 0
							shared := map[string]interface{}{}
							reloadAt := -1
							if n%4 == 1 {
								reloadAt = r.Intn(len(seq))
							}
							for ci, cl := range seq {
								if ci == reloadAt {
									// between two calls the application loads a document that declares @skip / @include itself (as
									// SDL exported from another server does): accepted or refused, the parsed request kept from
									// before still means what it meant
									decl := []string{"directive @skip(if: Boolean!) on FIELD | FRAGMENT_SPREAD | INLINE_FRAGMENT\n", "directive @include(if: Boolean!) on FIELD | FRAGMENT_SPREAD | INLINE_FRAGMENT\n"}
									lerr := h.Root.ParseString(decl[r.Intn(2)])
									trace = append(trace, fmt.Sprintf("ParseString(a document declaring a built-in directive) = %v", lerr))
									c.Count("histories_with_a_redeclaration_of_a_builtin_directive_between_calls", 1)
								}
								vars := map[string]interface{}{}
								if keep {
									for k := range shared {
										delete(shared, k)
									}
									vars = shared
								}
								truth := func(v int, k vkind, flip bool) bool {
									if v == 2 {
										return k.defVal != flip
									}
									return v == 1
								}
								flip := cl.op == "R"
								if cl.s != 2 {
									vars["s"] = cl.s == 1
								}
								if cl.i != 2 {
									vars["i"] = cl.i == 1
								}
								present := !truth(cl.s, sk, flip) && truth(cl.i, ik, flip)
								// a call that gives a condition no Boolean at all (left out, null, a string): what it answers is not
								// judged by the truth table, what it leaves behind is - by the calls that follow it
								unjudged := false
								junk := func(name string) {
									unjudged = true
									switch r.Intn(3) {
									case 0:
										vars[name] = nil
									case 1:
										vars[name] = "yes"
									}
								}
								if cl.s == 2 && sk.loose {
									junk("s")
								}
								if cl.i == 2 && ik.loose {
									junk("i")
								}
								given := fmt.Sprint(vars)
								out := Do(h, Request{Exe: exe, OpName: cl.op, Vars: vars, KeepVars: keep}, nil)
								steps++
								trace = append(trace, fmt.Sprintf("%s%s", cl.op, given))
								if unjudged {
									c.Count("calls_with_a_condition_that_is_no_boolean(unjudged)", 1)
									if out.Panic != nil {
										c.Count("panics_left_to_C03", 1)
									}
									continue
								}
								m, _ := out.Data.(map[string]interface{})
								_, has := m[key]
								_, sib := m["sib"]
								if inList {
									// every element of the list must agree with the truth table and keep its other selections
									l, _ := m["many"].([]interface{})
									has, sib = present, len(l) == 3
									for _, e := range l {
										em, _ := e.(map[string]interface{})
										if _, h := em[key]; h != present {
											has = !present
										}
										if _, s1 := em["sib"]; !s1 {
											sib = false
										}
										if _, s2 := em["last"]; !s2 {
											sib = false
										}
									}
								}
								diag := ""
								switch {
								case out.Panic != nil:
									diag = "panic"
								case m == nil:
									diag = "no data"
								case has != present:
									diag = fmt.Sprintf("truth table: key %q present=%v, expected %v", key, has, present)
								case !sib:
									diag = "sibling selection lost"
								case len(out.ErrPaths) > 0:
									diag = "errors on a valid request"
								case keep && fmt.Sprint(vars) != given:
									diag = "the caller's variable map was changed by the call: " + given + " -> " + fmt.Sprint(vars)
								}
								if diag == "" && bk != "reflect" && kind != "meta-typename" {
									called := false
									for _, k := range out.Calls {
										if k.Key.Key == key { // by response key: `last: tgt` is another selection of the same field
											called = true
										}
									}
									if called != present {
										diag = fmt.Sprintf("call log: resolver for %q called=%v, expected %v", key, called, present)
									}
								}
								if diag != "" {
									c.Violation("c09-history-"+kind, map[string]interface{}{"backend": bk, "sdl": sdl, "document": text, "history": trace, "diag": diag, "observed": out.Describe()})
									bad = true
									break
								}
							}
							c.Eval("hist"+text+bk+fmt.Sprint(r.Int63()), true)
							c.Bucket("history_kind", kind)
							if !bad && n%97 == 0 {
								c.Sample(map[string]interface{}{"document": text, "backend": bk, "history_parse_once": trace})
							}
						}
					}
				}
			}
		}
	}
	c.Set("histories_parse_once", n)
	c.Count("history_resolve_calls", steps)
	return n
}

// c09Injected parses the document WITHOUT the directives of the target selection, appends them to the parsed selection as
// ggql.DirectiveUse values and resolves the executable; the answer must be the one the written directives get.
func c09Injected(c *run.Ctx, h *back.Harness, bk, kind, key string, depth int, doc *model.Doc, target model.Sel, dirs []model.DirUse, vars map[string]interface{}, exp *ref.Result) {
	strip := func(on bool) {
		var d []model.DirUse
		if on {
			d = dirs
		}
		switch t := target.(type) {
		case *model.Field:
			t.Dirs = d
		case *model.Inline:
			t.Dirs = d
		case *model.Spread:
			t.Dirs = d
		}
	}
	strip(false)
	plain := doc.Print(model.LayoutN(0))
	strip(true)
	exe, err := h.Root.ParseExecutableString(plain)
	if err != nil {
		c.Violation("c09-injected", map[string]interface{}{"backend": bk, "document": plain, "diag": "the document without the directives does not parse: " + err.Error()})
		return
	}
	op := exe.Ops["Q"]
	if op == nil {
		return
	}
	sels := op.Sels
	for d := 0; d < depth; d++ {
		var next []ggql.Selection
		for _, sel := range sels {
			if f, isF := sel.(*ggql.Field); isF && f.Name == "down" {
				next = f.Sels
			}
		}
		sels = next
	}
	var uses []*ggql.DirectiveUse
	for _, du := range dirs {
		var v interface{}
		switch t := du.Args[0].Value.(type) {
		case model.VarRef:
			v = ggql.Var(string(t))
		default:
			v = t
		}
		uses = append(uses, &ggql.DirectiveUse{Directive: h.Root.GetType(du.Name), Args: map[string]*ggql.ArgValue{"if": {Arg: "if", Value: v}}})
	}
	found := false
	for _, sel := range sels {
		switch t := sel.(type) {
		case *ggql.Field:
			if (kind == "field-leaf" || kind == "field-composite" || kind == "meta-typename") && t.Name == key && !found {
				t.Dirs = append(t.Dirs, uses...)
				found = true
			}
		case *ggql.Inline:
			if kind == "inline" && !found {
				t.Dirs = append(t.Dirs, uses...)
				found = true
			}
		case *ggql.FragRef:
			if kind == "spread" && !found {
				t.Dirs = append(t.Dirs, uses...)
				found = true
			}
		}
	}
	if !found {
		c.Count("injection_target_not_found", 1)
		return
	}
	out := Do(h, Request{Exe: exe, OpName: "Q", Vars: vars}, nil)
	c.Count("conditions_added_to_the_parsed_request", 1)
	c.Eval("injected|"+plain+fmt.Sprint(dirs)+fmt.Sprint(vars)+bk, true)
	if diff := Compare(exp, out, CompareOpts{}); diff != "" {
		c.Violation("c09-injected-"+kind, map[string]interface{}{"backend": bk, "parsed_document": plain, "directives_added_to_the_parsed_selection": fmt.Sprint(dirs), "vars": vars,
			"diag": "differs from the answer to the same directives written in the document: " + diff, "observed": out.Describe(), "expected": exp.Describe()})
	}
}

// c09Subscription: the rule holds for the root field of a subscription operation too. The condition is a literal, a
// provided variable or a variable left to its default; when the field stays the subscriber is registered and gets the
// event, when it is excluded nobody is subscribed (and no resolver ran).
func c09Subscription(c *run.Ctx) int {
	type sc struct {
		head, dir string
		vars      map[string]interface{}
		stays     bool
	}
	cases := []sc{
		{``, `@include(if: true)`, nil, true}, {``, `@skip(if: true)`, nil, false}, {``, `@skip(if: false) @include(if: true)`, nil, true},
		{`($on: Boolean = true)`, `@include(if: $on)`, nil, true}, {`($on: Boolean = true)`, `@skip(if: $on)`, nil, false},
		{`($off: Boolean = false)`, `@skip(if: $off)`, nil, true}, {`($off: Boolean = false)`, `@include(if: $off)`, nil, false},
		{`($on: Boolean = true)`, `@include(if: $on)`, map[string]interface{}{"on": false}, false}, {`($off: Boolean = false)`, `@skip(if: $off)`, map[string]interface{}{"off": true}, false},
		{`($v: Boolean!)`, `@include(if: $v)`, map[string]interface{}{"v": true}, true}, {`($v: Boolean!)`, `@skip(if: $v)`, map[string]interface{}{"v": true}, false},
		{`($a: Boolean = false, $b: Boolean = true)`, `@skip(if: $a) @include(if: $b)`, nil, true}, {`($a: Boolean = false, $b: Boolean = true)`, `@include(if: $a) @skip(if: $b)`, nil, false},
	}
	done := 0
	for ci, cs := range cases {
		for form := 0; form < 3; form++ {
			var clock int64
			lg := &subLog{cleanups: map[int][]int64{}, clock: &clock}
			ro := &subRootObj{log: lg}
			root := ggql.NewRoot(ro)
			if err := root.ParseString(subSDL); err != nil {
				c.Violation("c09-schema-rejected", map[string]interface{}{"error": err.Error()})
				return done
			}
			var cur int64 = 1
			h := &hSub{sid: 0, log: lg, failOn: map[int]bool{}, field: "listen", current: &cur}
			ro.pending = h
			var text string
			switch form {
			case 0:
				text = "subscription S" + cs.head + " { listen(topic: \"a\") " + cs.dir + " { id n } }"
			case 1:
				text = "subscription S" + cs.head + " { ... on Subscription " + cs.dir + " { listen(topic: \"a\") { id n } } }"
			default:
				text = "subscription S" + cs.head + " { ...R " + cs.dir + " } fragment R on Subscription { listen(topic: \"a\") { id n } }"
			}
			var res map[string]interface{}
			pv, _ := run.Protect(func() { res = root.ResolveString(text, "", copyVars(cs.vars)) })
			created := len(ro.created) > 0
			cnt := 0
			if pv == nil {
				run.Protect(func() { cnt, _ = root.AddEvent("a", &subEvent{uid: 1, id: "e1", n: 5, tag: "t"}) })
			}
			done++
			c.Eval(fmt.Sprintf("subscription-root|%d|%d", ci, form), true)
			c.Bucket("kind", "subscription-root-field")
			diag := ""
			switch {
			case pv != nil:
				diag = fmt.Sprintf("panic: %v", pv)
			case cs.stays && (res["errors"] != nil || !created || cnt != 1 || len(lg.deliveries) != 1):
				diag = fmt.Sprintf("the field stays: expected a subscriber that receives the event; errors=%v resolver_ran=%v matched=%d deliveries=%d", res["errors"], created, cnt, len(lg.deliveries))
			case !cs.stays && (created || cnt != 0 || len(lg.deliveries) != 0):
				diag = fmt.Sprintf("the field is excluded: its resolver must not run and nobody is subscribed; resolver_ran=%v matched=%d deliveries=%d", created, cnt, len(lg.deliveries))
			}
			if diag != "" {
				c.Violation("c09-subscription-root", map[string]interface{}{"document": text, "vars": cs.vars, "expected_present": cs.stays, "diag": diag, "response": fmt.Sprint(res)})
			}
		}
	}
	// conditions (literal) on the selections INSIDE the event: applied every time an event is resolved for the subscriber,
	// on fields, inline fragments and fragment spreads alike
	// ... and conditions that are variables of the subscription request (left to their default, supplied, supplied over a
	// default): every event is answered with the variables the subscription was made with
	lits := []struct {
		dir   string
		stays bool
		head  string
		vars  map[string]interface{}
	}{{`@include(if: true)`, true, "", nil}, {`@skip(if: true)`, false, "", nil}, {`@skip(if: false)`, true, "", nil}, {`@include(if: false)`, false, "", nil},
		{`@skip(if: false) @include(if: true)`, true, "", nil}, {`@include(if: true) @skip(if: true)`, false, "", nil}, {`@include(if: false) @skip(if: false)`, false, "", nil},
		{`@include(if: $on)`, true, `($on: Boolean = true)`, nil}, {`@skip(if: $on)`, false, `($on: Boolean = true)`, nil},
		{`@include(if: $v)`, false, `($v: Boolean!)`, map[string]interface{}{"v": false}}, {`@skip(if: $v)`, true, `($v: Boolean!)`, map[string]interface{}{"v": false}},
		{`@include(if: $v)`, true, `($v: Boolean!)`, map[string]interface{}{"v": true}},
		{`@skip(if: $a) @include(if: $b)`, false, `($a: Boolean = false, $b: Boolean = true)`, map[string]interface{}{"a": true}},
		{`@include(if: $b) @skip(if: $a)`, true, `($a: Boolean = false, $b: Boolean = true)`, map[string]interface{}{"b": true}},
		{`@include(if: $b) @skip(if: $a)`, false, `($a: Boolean = false, $b: Boolean = true)`, map[string]interface{}{"b": false}}}
	for li, lt := range lits {
		for form := 0; form < 3; form++ {
			var clock int64
			lg := &subLog{cleanups: map[int][]int64{}, clock: &clock}
			ro := &subRootObj{log: lg}
			root := ggql.NewRoot(ro)
			if err := root.ParseString(subSDL); err != nil {
				return done
			}
			var cur int64 = 1
			ro.pending = &hSub{sid: 0, log: lg, failOn: map[int]bool{}, field: "listen", current: &cur}
			text := "subscription S" + lt.head + " { listen(topic: \"a\") { id ...F " + lt.dir + " ... on Event " + lt.dir + " { tag } n " + lt.dir + " } }\nfragment F on Event { inner { v } }"
			if form == 1 {
				text = "fragment F on Event { inner { v } }\nsubscription S" + lt.head + " { listen(topic: \"a\") { ... on Event { ...F " + lt.dir + " } id n " + lt.dir + " ... " + lt.dir + " { tag } } }"
			}
			if form == 2 {
				// the condition is written on the SPREAD only (a variable condition then appears on no field and on no inline fragment)
				text = "subscription S" + lt.head + " { listen(topic: \"a\") { id ...F " + lt.dir + " } }\nfragment F on Event { inner { v } n tag }"
			}
			var res map[string]interface{}
			pv, _ := run.Protect(func() {
				res = root.ResolveString(text, "", copyVars(lt.vars))
				for k := 0; k < 2; k++ {
					_, _ = root.AddEvent("a", &subEvent{uid: int64(k + 1), id: fmt.Sprintf("e%d", k+1), n: 5, tag: "t", v: 7})
				}
			})
			done++
			c.Eval(fmt.Sprintf("subscription-event|%d|%d", li, form), true)
			c.Bucket("kind", "subscription-event-selection")
			want := `{"id":"e1"}`
			if lt.stays {
				want = `{"id":"e1","inner":{"v":7},"n":5,"tag":"t"}`
			}
			diag := ""
			switch {
			case pv != nil:
				diag = fmt.Sprintf("panic: %v", pv)
			case res["errors"] != nil:
				diag = fmt.Sprint("subscription request rejected: ", res["errors"])
			case len(lg.deliveries) != 2:
				diag = fmt.Sprintf("%d deliveries, expected 2", len(lg.deliveries))
			case lg.deliveries[0].Msg != want || lg.deliveries[1].Msg != strings.Replace(want, "e1", "e2", 1):
				diag = fmt.Sprintf("the subscriber received %s and %s, expected %s (and the same for e2)", lg.deliveries[0].Msg, lg.deliveries[1].Msg, want)
			}
			if diag != "" {
				c.Violation("c09-subscription-root", map[string]interface{}{"document": text, "expected_present": lt.stays, "diag": diag})
			}
		}
	}
	return done
}
