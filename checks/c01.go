package checks

import (
	"fmt"
	"github.com/uhn/ggql/pkg/ggql"
	"io"
	"math/rand"

	"verif/internal/back"
	"verif/internal/gen"
	"verif/internal/model"
	"verif/internal/ref"
	"verif/internal/run"
)

func init() {
	register(&Check{ID: "C01", Level: "exploration", Run: runC01})
}

// execCase is one generated (schema, data, document, op, vars) tuple.
type execCase struct {
	S      *model.Schema
	SDL    string
	G      *model.Graph
	DC     *gen.DocCase
	Text   string
	Layout int
}

func newExecCase(r *rand.Rand, so gen.SchemaOpts, do gen.DocOpts) *execCase {
	return newExecCaseG(r, so, do, gen.GraphOpts{})
}

func newExecCaseG(r *rand.Rand, so gen.SchemaOpts, do gen.DocOpts, gopt gen.GraphOpts) *execCase {
	c := &execCase{}
	c.S = gen.ExecSchema(r, so)
	c.SDL = c.S.SDL(model.SDLOpts{})
	c.G = gen.Graph(r, c.S, gopt)
	c.DC = gen.Doc(r, c.S, do)
	c.Layout = r.Intn(model.LayoutCount)
	c.Text = c.DC.Doc.Print(model.LayoutN(c.Layout))
	return c
}

// newExecCaseS is newExecCaseG over a given schema.
func newExecCaseS(r *rand.Rand, s *model.Schema, do gen.DocOpts, gopt gen.GraphOpts) *execCase {
	c := &execCase{S: s}
	c.SDL = c.S.SDL(model.SDLOpts{})
	c.G = gen.Graph(r, c.S, gopt)
	c.DC = gen.Doc(r, c.S, do)
	c.Layout = r.Intn(model.LayoutCount)
	c.Text = c.DC.Doc.Print(model.LayoutN(c.Layout))
	return c
}

func (c *execCase) replay(kind string, opName string, extra map[string]interface{}) map[string]interface{} {
	m := map[string]interface{}{"backend": kind, "sdl": c.SDL, "document": c.Text, "op": opName, "vars": c.DC.Vars,
		"features": featKey(c.DC.Feats), "graph": describeGraph(c.G)}
	for k, v := range extra {
		m[k] = v
	}
	return m
}

func describeGraph(g *model.Graph) []string {
	var out []string
	for _, n := range g.Nodes {
		s := fmt.Sprintf("#%d %s:", n.ID, n.Type)
		for k, v := range n.F {
			s += fmt.Sprintf(" %s=%s", k, describeVal(v))
		}
		out = append(out, s)
	}
	return out
}

func describeVal(v interface{}) string {
	switch t := v.(type) {
	case nil:
		return "null"
	case *model.Node:
		return fmt.Sprintf("->#%d", t.ID)
	case model.VList:
		s := "["
		for i, e := range t {
			if i > 0 {
				s += ","
			}
			s += describeVal(e)
		}
		return s + "]"
	}
	return fmt.Sprintf("%T(%v)", v, v)
}

func runC01(c *run.Ctx) {
	defer func() { ggql.MaxResolveDepth = 100 }()
	c.Rule = "generated (schema, data graph, document, operation name, variables) tuples executed through every resolver back-end and entry point; " +
		"oracle: independent reference executor (data and error paths) + resolver call log; non-trivial = document has >=2 nesting levels or a list, and >=2 of " +
		"{alias, inline fragment, named fragment, list of list, several operations, variables, directives, args, __typename}; distinct by (document text, op, back-end)"
	n := c.N(4000, 60000)
	c.MinNontriv = n / 10
	for i := 0; i < n && !c.TooMany(); i++ {
		r := c.Rand(i)
		raiseDepth := false
		ggql.MaxResolveDepth = 100 // the default; a case may raise it below
		kind := back.Kinds[i%len(back.Kinds)]
		refl := kind == "reflect" || kind == "mixed-reflect"
		// reflection fields cannot observe arguments: no echo fields in schemas served by reflection
		ec := newExecCaseG(r, gen.SchemaOpts{Args: !refl, Mutation: true, Abstract: kind == "reflect" && i%2 == 0},
			gen.DocOpts{Frags: true, Dirs: true, Vars: true, Aliases: true, Mutation: true, Depth: 2 + r.Intn(3), DupKeys: i%3 == 0, Abstract: kind == "reflect" && i%2 == 0}, gen.GraphOpts{TypedNil: 4})
		if i%10 == 3 {
			// one field node under several concrete types: covariant interface fields, heterogeneous abstract lists
			kind = "reflect"
			refl = true
			ec = newExecCaseS(r, gen.Menagerie(r), gen.DocOpts{Frags: true, Dirs: i%20 == 3, Vars: i%20 == 3, Aliases: true, Depth: 3 + r.Intn(2), DupKeys: i%3 == 0, Abstract: true},
				gen.GraphOpts{NullProb: 5, PerType: 2 + r.Intn(2)})
			c.Bucket("doc_features", "menagerie-covariant")
		}
		if i%16 == 7 {
			// a deep chain through a non-null, self-referential field: valid and below MaxResolveDepth (100)
			depth := 40 + r.Intn(50)
			if i%32 == 7 {
				// deeper than the default limit: the application raises the package-level limit AFTER its root exists
				depth = 120 + r.Intn(60)
				raiseDepth = true
			}
			var sels []model.Sel = []model.Sel{&model.Field{Name: "hello"}, &model.Field{Name: "__typename"}}
			link := "selfReq"
			if i%64 == 23 {
				// the chain runs through a LIST of objects at every level (a typed Go slice under reflection)
				link = "selfList"
				depth = 30 + r.Intn(17)
				c.Bucket("doc_features", "deep-chain-through-lists")
			}
			for d := 0; d < depth; d++ {
				sels = []model.Sel{&model.Field{Name: link, Sels: sels}, &model.Field{Alias: "k", Name: "hello"}}
			}
			ec.DC = &gen.DocCase{Doc: &model.Doc{Ops: []*model.Op{{Kind: "query", Name: "Deep", Sels: sels}}}, Vars: map[string]interface{}{}, Feats: map[string]bool{"nested": true, "deep-chain": true, "alias": true, "__typename": true}, OpName: "Deep"}
			ec.Text = ec.DC.Doc.Print(model.LayoutN(ec.Layout))
			c.Bucket("doc_features", "deep-chain")
		}
		if refl && !back.ReflectFriendly(ec.S) {
			kind = "iface"
		}
		h, err := back.Build(kind, ec.S, ec.SDL, ec.G)
		if raiseDepth {
			ggql.MaxResolveDepth = 400
			c.Bucket("doc_features", "max-resolve-depth-raised-after-newroot")
		}
		if err != nil {
			c.Violation("schema-rejected", ec.replay(kind, "", map[string]interface{}{"error": err.Error()}))
			continue
		}
		// operation name variants
		type variant struct {
			name string
			tag  string
		}
		variants := []variant{{ec.DC.OpName, "valid"}}
		if i%4 == 0 {
			variants = append(variants, variant{"NoSuchOperation", "unknown-name"})
			if len(ec.DC.Doc.Ops) > 1 {
				variants = append(variants, variant{"", "ambiguous-empty"})
			}
		}
		for _, v := range variants {
			exp := ref.Execute(ec.S, ec.DC.Doc, v.name, ec.DC.Vars, ec.G, nil, ref.Flags{})
			out := Do(h, Request{Text: ec.Text, OpName: v.name, Vars: ec.DC.Vars, Entry: i}, nil)
			c.Count("resolver_calls_observed", len(out.Calls))
			c.Bucket("opname", v.tag)
			c.Bucket("backend", kind)
			feats := ec.DC.Feats
			cnt := 0
			for _, f := range []string{"alias", "inline-fragment", "named-fragment", "list-of-list", "multi-op", "variables", "directives", "args", "__typename", "fragment-reuse", "dup-key", "dup-key-composite", "abstract-field"} {
				if feats[f] {
					cnt++
					c.Bucket("doc_features", f)
				}
			}
			nontriv := (feats["nested"] || feats["list-of-leaves"] || feats["list-of-objects"]) && cnt >= 2
			c.Eval(ec.Text+"|"+v.name+"|"+kind, nontriv)
			if i < 2 && v.tag == "valid" {
				c.Sample(map[string]interface{}{"document": ec.Text, "op": v.name, "vars": ec.DC.Vars, "backend": kind, "expected_data": ref.Render(exp.Data)})
			}
			if diff := Compare(exp, out, CompareOpts{StripFragSeg: c.Open("K-C06-fragseg")}); diff != "" {
				c.Violation("c01-"+v.tag, ec.replay(kind, v.name, map[string]interface{}{"diff": diff, "expected": exp.Describe(), "observed": out.Describe()}))
			} else if i%4 == 1 && v.tag == "valid" {
				// the same request once more on the same root and the same long-lived data: the first answer must not have
				// consumed or rewritten anything the resolvers handed out
				out2 := Do(h, Request{Text: ec.Text, OpName: v.name, Vars: ec.DC.Vars, Entry: i + 1}, nil)
				c.Count("requests_repeated_on_same_data", 1)
				if diff := Compare(exp, out2, CompareOpts{StripFragSeg: c.Open("K-C06-fragseg")}); diff != "" {
					c.Violation("c01-second-run", ec.replay(kind, v.name, map[string]interface{}{"diff": "second run of the same request on the same data: " + diff, "expected": exp.Describe(), "observed": out2.Describe()}))
				}
			}
		}
	}
	c01ReaderFaults(c, c.N(800, 12000))
	// requests answered, the hierarchy extended by later loads (no new type), the request judged over the final schema
	stagedHierarchy(c, "c01", c.N(120, 2000))
	c01Unbound(c, c.N(150, 4000))
	petsRequests(c, "c01", c.N(200, 4000))
	c08GoDirectiveForms(c) // (shared with C08: which concrete type a value is answered as is also the shape of the response)
}

type c01CutReader struct {
	text string
	at   int
	err  error
	pos  int
}

func (r *c01CutReader) Read(p []byte) (int, error) {
	if r.pos >= r.at {
		return 0, r.err
	}
	n := copy(p, r.text[r.pos:r.at])
	r.pos += n
	return n, nil
}

// c01ReaderFaults: a request body that breaks off. The reader hands over a prefix of a document with several operations
// - cut right after a complete top-level definition, where the prefix is a well-formed document of its own - and then
// fails (io.ErrUnexpectedEOF, a closed pipe, an error of the application's own). The request was not received: it is
// answered with an error and no resolver runs, whatever the prefix would have meant.
func c01ReaderFaults(c *run.Ctx, n int) {
	for i := 0; i < n && !c.TooMany(); i++ {
		r := c.Rand(5000000 + i)
		kind := []string{"iface", "any", "reflect"}[i%3]
		refl := kind == "reflect"
		ec := newExecCaseG(r, gen.SchemaOpts{Args: !refl, Mutation: true}, gen.DocOpts{Frags: i%2 == 0, Aliases: true, Mutation: true, Depth: 2, MaxOps: 3}, gen.GraphOpts{})
		if len(ec.DC.Doc.Ops) < 2 || (refl && !back.ReflectFriendly(ec.S)) {
			continue
		}
		h, err := back.Build(kind, ec.S, ec.SDL, ec.G)
		if err != nil {
			continue
		}
		// cut points: after a closing brace at nesting depth zero (strings and comments do not occur at the top level of
		// the generated documents' brace structure in a way that matters: a wrong cut only makes the prefix malformed)
		var cuts []int
		depth := 0
		for k, ch := range ec.Text {
			switch ch {
			case '{':
				depth++
			case '}':
				depth--
				if depth == 0 && k+1 < len(ec.Text) {
					cuts = append(cuts, k+1)
				}
			}
		}
		if len(cuts) == 0 {
			continue
		}
		at := cuts[r.Intn(len(cuts))]
		ferr := []error{io.ErrUnexpectedEOF, io.ErrClosedPipe, fmt.Errorf("connection reset by peer"), io.ErrNoProgress}[r.Intn(4)]
		h.Reset(nil)
		var res map[string]interface{}
		pv, _ := run.Protect(func() {
			res = h.Root.ResolveReader(&c01CutReader{text: ec.Text, at: at, err: ferr}, "", copyVars(ec.DC.Vars))
		})
		calls := len(h.Calls)
		c.Eval(fmt.Sprintf("reader-fault|%s|%d|%v|%s", ec.Text, at, ferr, kind), true)
		c.Bucket("doc_features", "request-body-breaks-off-after-a-complete-definition")
		diag := ""
		switch {
		case pv != nil:
			diag = fmt.Sprint("panic: ", pv)
		case res == nil || res["errors"] == nil:
			diag = "the reader failed and the response reports no error"
		case calls > 0:
			diag = fmt.Sprintf("the reader failed and %d resolver(s) ran all the same", calls)
		}
		if diag != "" {
			c.Violation("c01-reader-fault", ec.replay(kind, "", map[string]interface{}{"received_prefix": ec.Text[:at], "reader_error": ferr.Error(), "diff": diag, "response": fmt.Sprint(res)}))
		}
	}
}
