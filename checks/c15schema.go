package checks

import (
	"fmt"
	"strings"

	"verif/internal/run"

	"github.com/uhn/ggql/pkg/ggql"
)

// c15SchemaOf returns the schema definition a root holds.
func c15SchemaOf(root *ggql.Root) *ggql.Schema {
	for _, t := range root.Types() {
		if s, isS := t.(*ggql.Schema); isS {
			return s
		}
	}
	return nil
}

// c15SchemaEntries: for ggql a schema definition is a list of fields: the entry of a root operation type can carry a
// description and directive uses (`"writes" mutation: Mutation @auth(role: "admin")`), through the definition and through
// `extend schema`. Oracle: the entries (name, type, description, directive uses with argument values) read through the Go
// API from the root that loaded the document and from a fresh root that loaded its printed SDL are the same, and the
// second print equals the first. Long description lines (beyond 80 and 120 columns) are among them: a printer has no
// licence to re-flow text.
func c15SchemaEntries(c *run.Ctx) {
	long := strings.Repeat("a fairly long sentence that goes on and on, ", 4) + "and ends here"
	docs := []string{
		"directive @auth(role: String = \"user\") on FIELD_DEFINITION | SCHEMA\n\"the schema\"\nschema @auth {\n  \"reads\"\n  query: Query\n  \"writes\"\n  mutation: Mutation @auth(role: \"admin\")\n}\ntype Query { a: Int }\ntype Mutation { m: Int }\n",
		"directive @auth(role: String = \"user\") on FIELD_DEFINITION | SCHEMA\nschema {\n  query: Query @auth\n  \"\"\"\n  events\n  of all kinds\n  \"\"\"\n  subscription: Sub @auth(role: \"s\")\n}\ntype Query { a: Int }\ntype Sub { s: Int }\n",
		"directive @auth(role: String = \"user\") on FIELD_DEFINITION | SCHEMA\ntype Query { a: Int }\ntype Writes { m: Int }\nextend schema {\n  \"added later\"\n  mutation: Writes @auth(role: \"w\")\n}\n",
		"\"" + long + "\"\ntype Query {\n  \"" + long + "\"\n  a(\"" + long + "\" x: Int): Int\n}\n\"" + long + " " + long + "\"\nenum E {\n  \"" + long + "\"\n  A\n}\n",
		"\"\"\"\n" + long + "\nsecond line " + long + "\n\"\"\"\ntype Query { a: Int }\n",
	}
	for di, doc := range docs {
		a, err := loadSDL(doc)
		c.Eval(fmt.Sprintf("schema-entries|%d", di), true)
		c.Count("documents_with_described_or_directed_schema_entries_or_long_description_lines", 1)
		if err != nil {
			c.Violation("c15-schema-entries", map[string]interface{}{"sdl": doc, "diag": "the document is refused: " + err.Error()})
			continue
		}
		var p1, p2 string
		var b *ggql.Root
		pv, _ := run.Protect(func() {
			p1 = a.SDL(false, true)
			var lerr error
			if b, lerr = loadSDL(p1); lerr != nil {
				err = lerr
				return
			}
			p2 = b.SDL(false, true)
		})
		explicit := c15SchemaOf(a) != nil // (an implicit schema that was extended is not among Root.Types(); its print is an explicit one)
		view := func(root *ggql.Root) string {
			var out []string
			if s := c15SchemaOf(root); s != nil && explicit {
				out = append(out, fmt.Sprintf("schema desc=%q", s.Desc))
				for _, f := range s.Fields() {
					var ds []string
					for _, du := range f.Dirs {
						role := "<unset>"
						if av := du.Args["role"]; av != nil {
							role = fmt.Sprint(av.Value)
						}
						ds = append(ds, "@"+du.Directive.Name()+"(role:"+role+")")
					}
					out = append(out, fmt.Sprintf("%s: %s desc=%q %s", f.N, f.Type.Name(), f.Desc, strings.Join(ds, " ")))
				}
			}
			for _, t := range root.Types() {
				if t.Core() || t.Name() == "" || t.Name() == "Time" {
					continue
				}
				out = append(out, fmt.Sprintf("%s desc=%q", t.Name(), t.Description()))
				if o, isO := t.(*ggql.Object); isO {
					for _, f := range o.Fields() {
						out = append(out, fmt.Sprintf("  %s desc=%q", f.N, f.Desc))
						for _, ar := range f.Args() {
							out = append(out, fmt.Sprintf("    %s desc=%q", ar.N, ar.Desc))
						}
					}
				}
				if e, isE := t.(*ggql.Enum); isE {
					for _, v := range e.Values() {
						out = append(out, fmt.Sprintf("  %s desc=%q", v.Value, v.Description))
					}
				}
			}
			return strings.Join(out, "\n")
		}
		diag := ""
		switch {
		case pv != nil:
			diag = fmt.Sprintf("panic: %v", pv)
		case err != nil:
			diag = "the printed SDL is refused by a fresh root: " + err.Error()
		case view(a) != view(b):
			diag = "the fresh root holds other schema entries / descriptions: " + firstDiffLong(view(a), view(b))
		case p1 != p2:
			diag = "the second print differs: " + firstDiffLong(p1, p2)
		}
		if diag != "" {
			c.Violation("c15-schema-entries", map[string]interface{}{"sdl": doc, "printed": p1, "diag": diag})
		}
	}
}
