package checks

import (
	"fmt"
	"sort"
	"strings"

	"github.com/uhn/ggql/pkg/ggql"

	"verif/internal/extract"
	"verif/internal/gen"
	"verif/internal/model"
	"verif/internal/ref"
	"verif/internal/run"
)

func init() {
	register(&Check{ID: "C17", Level: "exploration", Run: runC17})
}

// ---------------------------------------------------------------- application back-ends for the root data

type c17Obj struct{}

func (c17Obj) Resolve(field *ggql.Field, args map[string]interface{}) (interface{}, error) {
	return nil, nil
}

type c17IfaceRoot struct{}

func (c17IfaceRoot) Resolve(field *ggql.Field, args map[string]interface{}) (interface{}, error) {
	return c17Obj{}, nil
}

type c17Any struct{}

func (c17Any) Resolve(obj interface{}, field *ggql.Field, args map[string]interface{}) (interface{}, error) {
	if _, isRoot := obj.(*c15Root); isRoot {
		return &c15Obj{}, nil
	}
	return nil, nil
}
func (c17Any) Len(list interface{}) int { return 0 }
func (c17Any) Nth(list interface{}, i int) (interface{}, error) {
	return nil, fmt.Errorf("application data has no lists")
}

func c17Load(sdl, backend string) (*ggql.Root, error) {
	var root *ggql.Root
	switch backend {
	case "reflect":
		root = ggql.NewRoot(&c15Root{Query: &c15Obj{}, Mutation: &c15Obj{}, Subscription: &c15Obj{}})
	case "iface":
		root = ggql.NewRoot(c17IfaceRoot{})
	default:
		root = ggql.NewRoot(&c15Root{})
		root.AnyResolver = c17Any{}
	}
	var err error
	pv, _ := run.Protect(func() {
		if len(sdl)%2 == 0 {
			// the very first document the fresh root is given is one it turns down AFTER reading it (a rule breach, no syntax
			// error): it defined all three default root operation types, with fields of its own. Introspection afterwards
			// describes the accepted schema and nothing of this one
			_ = root.ParseString("type Query { staleZz: Int }\ntype Mutation { staleMutZz: Int }\ntype Subscription { staleSubZz: Int }\ntype ZzEmpty { }\n")
		}
		err = root.ParseString(sdl)
	})
	if pv != nil {
		return nil, fmt.Errorf("panic: %v", pv)
	}
	return root, err
}

// c17MinimalRequests writes, for every root field that takes an input object (at any list depth), a request whose argument
// value carries only what is required - everything else is left to the defaults, the nested ones included.
func c17MinimalRequests(ms *model.Schema) []string {
	var minimal func(t *model.TypeRef, depth int) (interface{}, bool)
	minimal = func(t *model.TypeRef, depth int) (interface{}, bool) {
		if depth > 4 {
			return nil, false
		}
		if t.NonNull {
			return minimal(t.Of, depth)
		}
		if t.List {
			e, ok := minimal(t.Of, depth+1)
			if !ok {
				return []interface{}{}, true
			}
			return []interface{}{e}, true
		}
		td := ms.Type(t.Name)
		if td == nil || td.Kind != model.Input {
			switch t.Name {
			case "Int", "Int64":
				return int64(1), true
			case "Float", "Float64":
				return 1.5, true
			case "Boolean":
				return true, true
			case "Time":
				return "2020-01-02T03:04:05Z", true
			}
			if td != nil && td.Kind == model.Enum {
				return model.Sym(td.Values[0].Name), true
			}
			return "s", true
		}
		o := model.NewObjLit()
		for _, f := range td.Inputs {
			if f.Type.NonNull && !f.HasDefault {
				v, ok := minimal(f.Type, depth+1)
				if !ok {
					return nil, false
				}
				o.Set(f.Name, v)
			}
		}
		return o, true
	}
	var out []string
	for _, rootName := range []string{ms.Query, ms.Mutation} {
		rt := ms.Type(rootName)
		if rt == nil {
			continue
		}
		op := "query"
		if rootName == ms.Mutation {
			op = "mutation"
		}
		for _, f := range rt.Fields {
			hasInput := false
			var args []string
			okAll := true
			for _, a := range f.Args {
				base := ms.Type(a.Type.Base())
				isIn := base != nil && base.Kind == model.Input
				if isIn {
					hasInput = true
				}
				if isIn || (a.Type.NonNull && !a.HasDefault) {
					v, ok := minimal(a.Type, 0)
					if !ok {
						okAll = false
						break
					}
					args = append(args, a.Name+": "+model.ValueText(v))
				}
			}
			if !hasInput || !okAll {
				continue
			}
			sel := ""
			if !ms.IsLeaf(f.Type.Base()) {
				sel = " { __typename }"
			}
			out = append(out, fmt.Sprintf("%s { %s(%s)%s }", op, f.Name, strings.Join(args, ", "), sel))
		}
	}
	return out
}

// c17LoadStaged loads the documents one after the other and asks the full introspection query (both deprecation modes)
// after each of them; with no staging it is c17Load.
func c17LoadStaged(sdl string, loads []string, backend string) (*ggql.Root, error) {
	if len(loads) == 0 {
		return c17Load(sdl, backend)
	}
	root, err := c17Load(loads[0], backend)
	if err != nil {
		return nil, err
	}
	for li, l := range loads[1:] {
		var perr error
		pv, _ := run.Protect(func() {
			_ = root.ResolveString(c17FullQuery, "Full", map[string]interface{}{"dep": true})
			_ = root.ResolveString(c17FullQuery, "Full", map[string]interface{}{"dep": false})
			// a document the root turns down between two it accepts (it names other root types and defines them, then
			// breaks off): what introspection describes afterwards is the accepted schema, nothing of this one
			switch li % 3 {
			case 0:
				_ = root.ParseString("type ZzOtherRoot { zz: Int }\nschema { query: ZzOtherRoot mutation: ZzOtherRoot }\ntype ZzBroken {")
			case 1:
				_ = root.ParseString("type ZzOtherRoot { zz: Int }\nschema { query: ZzOtherRoot }\ntype ZzBad { f: ZzNopeType }")
			}
			perr = root.ParseString(l)
		})
		if pv != nil {
			return nil, fmt.Errorf("panic: %v", pv)
		}
		if perr != nil {
			return nil, perr
		}
	}
	return root, nil
}

// ---------------------------------------------------------------- expected introspection graph

// DefaultText matches an introspection defaultValue text against the model default.
type defaultText struct {
	s *model.Schema
	t *model.TypeRef
	v interface{}
}

func (d defaultText) Match(got interface{}) bool {
	text, isS := got.(string)
	if !isS {
		return false
	}
	want, err := ref.CoerceIn(d.s, d.t, d.v)
	if err != nil {
		return false
	}
	for _, alt := range extract.DefaultAlternatives(d.s, d.t, text) {
		if have, err := ref.CoerceIn(d.s, d.t, alt); err == nil && ref.Equal(want, have) {
			return true
		}
	}
	return false
}

var emptyDesc = ref.OneOf{nil, ""}

func descVal(d string) interface{} {
	if d == "" {
		return emptyDesc
	}
	return d
}

type introBuilder struct {
	s     *model.Schema
	g     *model.Graph
	types map[string]*model.Node
}

func (b *introBuilder) node(t string) *model.Node {
	n := &model.Node{ID: len(b.g.Nodes), Type: t, F: map[string]interface{}{}}
	b.g.Nodes = append(b.g.Nodes, n)
	return n
}

func (b *introBuilder) typeNode(t *model.TypeRef) *model.Node {
	key := t.String()
	if n := b.types[key]; n != nil {
		return n
	}
	n := b.node("__Type")
	b.types[key] = n
	none := ref.OneOf{nil, []interface{}{}}
	n.F["fields"], n.F["fields#dep"], n.F["interfaces"], n.F["possibleTypes"] = nil, nil, none, none
	n.F["enumValues"], n.F["enumValues#dep"], n.F["inputFields"], n.F["ofType"] = nil, nil, nil, nil
	if t.List || t.NonNull {
		if t.List {
			n.F["kind"] = "LIST"
		} else {
			n.F["kind"] = "NON_NULL"
		}
		n.F["name"], n.F["description"] = ref.AnyLeaf{}, ref.AnyLeaf{} // the statement only requires unrolling through ofType
		n.F["ofType"] = b.typeNode(t.Of)
		return n
	}
	n.F["name"] = t.Name
	td := b.s.Type(t.Name)
	if td == nil {
		n.F["kind"] = "SCALAR"
		n.F["description"] = ref.AnyLeaf{} // built-in scalars carry ggql's own descriptions
		return n
	}
	n.F["kind"] = td.Kind.String()
	n.F["description"] = descVal(td.Desc)
	inputValues := func(args []*model.ArgDef) model.VList {
		out := model.VList{}
		for _, a := range args {
			an := b.node("__InputValue")
			an.F["name"], an.F["description"], an.F["type"] = a.Name, descVal(a.Desc), b.typeNode(a.Type)
			an.F["defaultValue"] = nil
			if a.HasDefault && a.Default != nil {
				an.F["defaultValue"] = defaultText{b.s, a.Type, a.Default}
			}
			out = append(out, an)
		}
		return out
	}
	deprecation := func(n *model.Node, dirs []model.DirUse) bool {
		dep, reason, hasReason := model.Deprecated(dirs)
		n.F["isDeprecated"] = dep
		switch {
		case !dep:
			n.F["deprecationReason"] = nil
		case hasReason:
			n.F["deprecationReason"] = reason
		default:
			n.F["deprecationReason"] = ref.OneOf{nil, "No longer supported", `"No longer supported"`}
		}
		return dep
	}
	switch td.Kind {
	case model.Object, model.Interface:
		all, live := model.VList{}, model.VList{}
		for _, f := range td.Fields {
			fn := b.node("__Field")
			fn.F["name"], fn.F["description"], fn.F["type"], fn.F["args"] = f.Name, descVal(f.Desc), b.typeNode(f.Type), inputValues(f.Args)
			all = append(all, fn)
			if !deprecation(fn, f.Dirs) {
				live = append(live, fn)
			}
		}
		n.F["fields"], n.F["fields#dep"] = live, all
		if td.Kind == model.Object {
			ifs := model.VList{}
			for _, i := range td.Interfaces {
				ifs = append(ifs, b.typeNode(model.Named(i)))
			}
			n.F["interfaces"] = ifs
		} else {
			pts := model.VUnordered{}
			for _, p := range b.s.PossibleTypes(td.Name) {
				pts = append(pts, b.typeNode(model.Named(p)))
			}
			n.F["possibleTypes"] = pts
		}
	case model.Union:
		pts := model.VUnordered{}
		for _, p := range td.Members {
			pts = append(pts, b.typeNode(model.Named(p)))
		}
		n.F["possibleTypes"] = pts
	case model.Enum:
		all, live := model.VList{}, model.VList{}
		for _, v := range td.Values {
			vn := b.node("__EnumValue")
			vn.F["name"], vn.F["description"] = v.Name, descVal(v.Desc)
			all = append(all, vn)
			if !deprecation(vn, v.Dirs) {
				live = append(live, vn)
			}
		}
		n.F["enumValues"], n.F["enumValues#dep"] = live, all
	case model.Input:
		n.F["inputFields"] = inputValues(td.Inputs)
	}
	return n
}

// c17Meta builds the introspection meta-schema (as far as generated selections use it) and the expected data graph.
func c17Meta(s *model.Schema) (*model.Schema, *model.Graph) {
	str, boolean := model.Named("String"), model.Named("Boolean")
	typ := model.Named("__Type")
	dep := func(args map[string]interface{}) string {
		if b, isB := args["includeDeprecated"].(bool); isB && b {
			return "#dep"
		}
		return ""
	}
	depArg := []*model.ArgDef{{Name: "includeDeprecated", Type: boolean, HasDefault: true, Default: false}}
	f := func(n string, t *model.TypeRef) *model.FieldDef { return &model.FieldDef{Name: n, Type: t} }
	m := &model.Schema{Query: s.Query}
	m.Types = []*model.TypeDef{
		{Kind: model.Enum, Name: "__TypeKind", Values: []*model.EnumVal{{Name: "SCALAR"}, {Name: "OBJECT"}, {Name: "INTERFACE"}, {Name: "UNION"}, {Name: "ENUM"}, {Name: "INPUT_OBJECT"}, {Name: "LIST"}, {Name: "NON_NULL"}}},
		{Kind: model.Object, Name: "__Type", Fields: []*model.FieldDef{
			f("kind", model.Named("__TypeKind")), f("name", str), f("description", str),
			{Name: "fields", Type: model.ListOf(model.Named("__Field")), Args: depArg, Variant: dep},
			f("interfaces", model.ListOf(typ)), f("possibleTypes", model.ListOf(typ)),
			{Name: "enumValues", Type: model.ListOf(model.Named("__EnumValue")), Args: depArg, Variant: dep},
			f("inputFields", model.ListOf(model.Named("__InputValue"))), f("ofType", typ)}},
		{Kind: model.Object, Name: "__Field", Fields: []*model.FieldDef{f("name", str), f("description", str), f("args", model.ListOf(model.Named("__InputValue"))), f("type", typ),
			f("isDeprecated", boolean), f("deprecationReason", str)}},
		{Kind: model.Object, Name: "__InputValue", Fields: []*model.FieldDef{f("name", str), f("description", str), f("type", typ), f("defaultValue", str)}},
		{Kind: model.Object, Name: "__EnumValue", Fields: []*model.FieldDef{f("name", str), f("description", str), f("isDeprecated", boolean), f("deprecationReason", str)}},
		{Kind: model.Object, Name: "__Schema", Fields: []*model.FieldDef{f("queryType", typ), f("mutationType", typ), f("subscriptionType", typ)}},
		{Kind: model.Object, Name: s.Query, Fields: []*model.FieldDef{f("__schema", model.Named("__Schema")),
			{Name: "__type", Type: typ, Args: []*model.ArgDef{{Name: "name", Type: model.NonNullOf(str)}},
				Variant: func(args map[string]interface{}) string { return "#" + fmt.Sprint(args["name"]) }}}},
	}
	g := &model.Graph{}
	b := &introBuilder{s: s, g: g, types: map[string]*model.Node{}}
	root := b.node("__root")
	g.Root = root
	q := b.node(s.Query)
	root.F["query"] = q
	sch := b.node("__Schema")
	q.F["__schema"] = sch
	opt := func(n string) interface{} {
		if n == "" {
			return nil
		}
		return b.typeNode(model.Named(n))
	}
	sch.F["queryType"], sch.F["mutationType"], sch.F["subscriptionType"] = opt(s.Query), opt(s.Mutation), opt(s.Subscription)
	for _, t := range s.Types {
		q.F["__type#"+t.Name] = b.typeNode(model.Named(t.Name))
	}
	for _, n := range []string{"Int", "Float", "String", "Boolean", "ID", "Int64", "Float64", "Time"} {
		q.F["__type#"+n] = b.typeNode(model.Named(n))
	}
	return m, g
}

const c17FullQuery = `query Full($dep: Boolean = true) { __schema { queryType { name } mutationType { name } subscriptionType { name }
 types { ...FullType } directives { name description locations args { ...InputValue } } } }
fragment FullType on __Type { kind name description
 fields(includeDeprecated: $dep) { name description args { ...InputValue } type { ...TypeRef } isDeprecated deprecationReason }
 inputFields { ...InputValue } interfaces { ...TypeRef } enumValues(includeDeprecated: $dep) { name description isDeprecated deprecationReason } possibleTypes { ...TypeRef } }
fragment InputValue on __InputValue { name description type { ...TypeRef } defaultValue }
fragment TypeRef on __Type { kind name ofType { kind name ofType { kind name ofType { kind name ofType { kind name ofType { kind name ofType { kind name ofType { kind name } } } } } } } }`

// pseudoSchemaSeen is set when the last c17Full run met the "schema" pseudo type.
var pseudoSchemaSeen bool

// c17Full compares the standard full introspection response with the model.
func c17Full(s *model.Schema, root *ggql.Root, dep bool) string {
	res := root.ResolveString(c17FullQuery, "Full", map[string]interface{}{"dep": dep})
	if es, has := res["errors"]; has {
		return fmt.Sprintf("full introspection query reports errors: %v", es)
	}
	data, _ := res["data"].(map[string]interface{})
	sch, _ := data["__schema"].(map[string]interface{})
	if sch == nil {
		return "no __schema in the response"
	}
	nameOf := func(k string) string {
		m, _ := sch[k].(map[string]interface{})
		n, _ := m["name"].(string)
		return n
	}
	if nameOf("queryType") != s.Query || nameOf("mutationType") != s.Mutation || nameOf("subscriptionType") != s.Subscription {
		return fmt.Sprintf("root operation types %s/%s/%s, expected %s/%s/%s", nameOf("queryType"), nameOf("mutationType"), nameOf("subscriptionType"), s.Query, s.Mutation, s.Subscription)
	}
	typeRefOf := func(v interface{}) string {
		m, _ := v.(map[string]interface{})
		return introType(m).String()
	}
	inputValues := func(where string, got interface{}, want []*model.ArgDef) string {
		gl, _ := got.([]interface{})
		if len(gl) != len(want) {
			return fmt.Sprintf("%s: %d input values, expected %d", where, len(gl), len(want))
		}
		byName := map[string]map[string]interface{}{}
		for _, e := range gl {
			em, _ := e.(map[string]interface{})
			n, _ := em["name"].(string)
			byName[n] = em
		}
		for _, a := range want {
			em := byName[a.Name]
			if em == nil {
				return fmt.Sprintf("%s: input value %s missing", where, a.Name)
			}
			if !ref.Match(descVal(a.Desc), em["description"]) {
				return fmt.Sprintf("%s.%s: description %q, expected %q", where, a.Name, em["description"], a.Desc)
			}
			if typeRefOf(em["type"]) != a.Type.String() {
				return fmt.Sprintf("%s.%s: type %s, expected %s", where, a.Name, typeRefOf(em["type"]), a.Type)
			}
			if a.HasDefault && a.Default != nil {
				if !(defaultText{s, a.Type, a.Default}).Match(em["defaultValue"]) {
					return fmt.Sprintf("%s.%s: defaultValue %v, expected %s", where, a.Name, em["defaultValue"], model.ValueText(a.Default))
				}
			} else if em["defaultValue"] != nil {
				return fmt.Sprintf("%s.%s: defaultValue %v, expected none", where, a.Name, em["defaultValue"])
			}
		}
		return ""
	}
	deprecationOK := func(where string, em map[string]interface{}, dirs []model.DirUse) string {
		d, reason, hasReason := model.Deprecated(dirs)
		if b, _ := em["isDeprecated"].(bool); b != d {
			return fmt.Sprintf("%s: isDeprecated %v, expected %v", where, em["isDeprecated"], d)
		}
		switch {
		case !d:
			if em["deprecationReason"] != nil {
				return fmt.Sprintf("%s: deprecationReason %v on a live member", where, em["deprecationReason"])
			}
		case hasReason:
			if em["deprecationReason"] != reason {
				return fmt.Sprintf("%s: deprecationReason %q, expected %q", where, em["deprecationReason"], reason)
			}
		}
		return ""
	}
	// types
	tl, _ := sch["types"].([]interface{})
	got := map[string]map[string]interface{}{}
	for _, e := range tl {
		em, _ := e.(map[string]interface{})
		n, _ := em["name"].(string)
		if _, dup := got[n]; dup {
			return "type listed twice: " + n
		}
		got[n] = em
	}
	for _, meta := range []string{"__Schema", "__Type", "__Field", "__InputValue", "__EnumValue", "__Directive", "__TypeKind", "__DirectiveLocation"} {
		if got[meta] == nil {
			return "meta type missing from types: " + meta
		}
		delete(got, meta)
	}
	for _, n := range []string{"Int", "Float", "String", "Boolean", "ID", "Int64", "Float64", "Time"} {
		if em := got[n]; em == nil || em["kind"] != "SCALAR" {
			return "built-in scalar missing or not a SCALAR: " + n
		}
		delete(got, n)
	}
	if _, has := got["schema"]; has && s.Type("schema") == nil {
		// K-C17-schema-pseudotype (checked by the caller): the schema block itself listed as a type
		delete(got, "schema")
		pseudoSchemaSeen = true
	}
	if len(got) != len(s.Types) {
		var extra []string
		for n := range got {
			if s.Type(n) == nil {
				extra = append(extra, n)
			}
		}
		return fmt.Sprintf("%d user types reported, expected %d (unexpected: %v)", len(got), len(s.Types), extra)
	}
	for _, td := range s.Types {
		em := got[td.Name]
		if em == nil {
			return "type missing: " + td.Name
		}
		if em["kind"] != td.Kind.String() {
			return fmt.Sprintf("%s: kind %v, expected %s", td.Name, em["kind"], td.Kind)
		}
		if !ref.Match(descVal(td.Desc), em["description"]) {
			return fmt.Sprintf("%s: description %q, expected %q", td.Name, em["description"], td.Desc)
		}
		names := func(v interface{}) []string {
			l, _ := v.([]interface{})
			var out []string
			for _, e := range l {
				out = append(out, typeRefOf(e))
			}
			return out
		}
		switch td.Kind {
		case model.Object, model.Interface:
			fl, _ := em["fields"].([]interface{})
			byName := map[string]map[string]interface{}{}
			for _, e := range fl {
				fm, _ := e.(map[string]interface{})
				n, _ := fm["name"].(string)
				byName[n] = fm
			}
			wantN := 0
			for _, f := range td.Fields {
				d, _, _ := model.Deprecated(f.Dirs)
				if d && !dep {
					if byName[f.Name] != nil {
						return fmt.Sprintf("%s.%s: deprecated field listed although includeDeprecated is false", td.Name, f.Name)
					}
					continue
				}
				wantN++
				fm := byName[f.Name]
				if fm == nil {
					return fmt.Sprintf("%s.%s: field missing", td.Name, f.Name)
				}
				if !ref.Match(descVal(f.Desc), fm["description"]) {
					return fmt.Sprintf("%s.%s: description %q, expected %q", td.Name, f.Name, fm["description"], f.Desc)
				}
				if typeRefOf(fm["type"]) != f.Type.String() {
					return fmt.Sprintf("%s.%s: type %s, expected %s", td.Name, f.Name, typeRefOf(fm["type"]), f.Type)
				}
				if d := inputValues(td.Name+"."+f.Name, fm["args"], f.Args); d != "" {
					return d
				}
				if d := deprecationOK(td.Name+"."+f.Name, fm, f.Dirs); d != "" {
					return d
				}
			}
			if len(fl) != wantN {
				return fmt.Sprintf("%s: %d fields listed, expected %d", td.Name, len(fl), wantN)
			}
			if td.Kind == model.Object {
				if !sameSet(names(em["interfaces"]), td.Interfaces) {
					return fmt.Sprintf("%s: interfaces %v, expected %v", td.Name, names(em["interfaces"]), td.Interfaces)
				}
			} else if !sameSet(names(em["possibleTypes"]), s.PossibleTypes(td.Name)) {
				return fmt.Sprintf("%s: possibleTypes %v, expected %v", td.Name, names(em["possibleTypes"]), s.PossibleTypes(td.Name))
			}
		case model.Union:
			if !sameSet(names(em["possibleTypes"]), td.Members) {
				return fmt.Sprintf("%s: possibleTypes %v, expected %v", td.Name, names(em["possibleTypes"]), td.Members)
			}
		case model.Enum:
			vl, _ := em["enumValues"].([]interface{})
			byName := map[string]map[string]interface{}{}
			for _, e := range vl {
				vm, _ := e.(map[string]interface{})
				n, _ := vm["name"].(string)
				byName[n] = vm
			}
			wantN := 0
			for _, v := range td.Values {
				d, _, _ := model.Deprecated(v.Dirs)
				if d && !dep {
					if byName[v.Name] != nil {
						return fmt.Sprintf("%s.%s: deprecated value listed although includeDeprecated is false", td.Name, v.Name)
					}
					continue
				}
				wantN++
				vm := byName[v.Name]
				if vm == nil {
					return fmt.Sprintf("%s.%s: enum value missing", td.Name, v.Name)
				}
				if !ref.Match(descVal(v.Desc), vm["description"]) {
					return fmt.Sprintf("%s.%s: description %q, expected %q", td.Name, v.Name, vm["description"], v.Desc)
				}
				if d := deprecationOK(td.Name+"."+v.Name, vm, v.Dirs); d != "" {
					return d
				}
			}
			if len(vl) != wantN {
				return fmt.Sprintf("%s: %d enum values listed, expected %d", td.Name, len(vl), wantN)
			}
		case model.Input:
			if d := inputValues(td.Name, em["inputFields"], td.Inputs); d != "" {
				return d
			}
		}
	}
	// directives
	dl, _ := sch["directives"].([]interface{})
	gotD := map[string]map[string]interface{}{}
	for _, e := range dl {
		dm, _ := e.(map[string]interface{})
		n, _ := dm["name"].(string)
		gotD[n] = dm
	}
	for _, core := range []string{"skip", "include", "deprecated"} {
		if gotD[core] == nil {
			return "built-in directive missing: " + core
		}
	}
	for _, d := range s.Dirs {
		dm := gotD[d.Name]
		if dm == nil {
			return "directive missing: @" + d.Name
		}
		if !ref.Match(descVal(d.Desc), dm["description"]) {
			return fmt.Sprintf("@%s: description %q, expected %q", d.Name, dm["description"], d.Desc)
		}
		var locs []string
		ll, _ := dm["locations"].([]interface{})
		for _, l := range ll {
			locs = append(locs, fmt.Sprint(l))
		}
		if !sameSet(locs, d.On) {
			return fmt.Sprintf("@%s: locations %v, expected %v", d.Name, locs, d.On)
		}
		if diag := inputValues("@"+d.Name, dm["args"], d.Args); diag != "" {
			return diag
		}
	}
	for n := range gotD {
		if s.Dir(n) == nil && n != "skip" && n != "include" && n != "deprecated" && n != "go" {
			return "unexpected directive reported: @" + n
		}
	}
	return ""
}

func sameSet(a, b []string) bool {
	if len(a) != len(b) {
		return false
	}
	m := map[string]int{}
	for _, x := range a {
		m[x]++
	}
	for _, x := range b {
		m[x]--
	}
	for _, v := range m {
		if v != 0 {
			return false
		}
	}
	return true
}

func introType(m map[string]interface{}) *model.TypeRef {
	if m == nil {
		return model.Named("<nil>")
	}
	inner, _ := m["ofType"].(map[string]interface{})
	switch m["kind"] {
	case "LIST":
		return model.ListOf(introType(inner))
	case "NON_NULL":
		return model.NonNullOf(introType(inner))
	}
	n, _ := m["name"].(string)
	return model.Named(n)
}

func runC17(c *run.Ctx) {
	defer c17BuiltinDirectiveRedefined(c)
	defer c17BuiltTypes(c)
	defer c17AcceptedMeansDescribed(c)
	c.Rule = "generated schemas (every kind, wrappers to depth 4, deprecations with and without reason on fields - also interface fields - and enum values, descriptions, defaults, directives with locations and " +
		"arguments, 1-3 root operation types, custom root names); oracle: (a) the standard full introspection query (ofType x7) with includeDeprecated true and false is compared member by member with the " +
		"model (lists keyed by name), (b) generated introspection documents (random sub-selections, aliases, fragments, includeDeprecated literal/variable/default, __type by literal and variable, unknown names) " +
		"are evaluated by the reference executor over an introspection data graph derived from the model, (c) responses must be identical for application data served by reflection, by interface resolvers and " +
		"with an AnyResolver installed. Non-trivial = schema has a deprecation, a default or a directive; distinct by (SDL, document)"
	n := c.N(350, 8000)
	c.MinNontriv = n / 10
	perSchema := c.N(4, 10)
	// object-valued defaults are Go maps: defaultValue text is only deterministic with sorted keys
	ggql.Sort = true
	defer func() { ggql.Sort = false }()
	for i := 0; i < n && !c.TooMany(); i++ {
		r := c.Rand(i)
		ms := gen.TypeSchema(r, gen.TypeOpts{NastyStrings: i%2 == 0, Directives: true, CustomRoots: true, Small: i%3 == 0})
		if i%4 == 1 {
			// an application directive that happens to have an argument called `reason` (and one called `name`), used with it
			// on fields and enum values, before or after a @deprecated use: deprecation is what @deprecated says and nothing else
			ms.Dirs = append(ms.Dirs, &model.DirDef{Name: "zzAudit", Args: []*model.ArgDef{{Name: "reason", Type: model.Named("String")}, {Name: "name", Type: model.Named("String")}},
				On: []string{"FIELD_DEFINITION", "ENUM_VALUE"}})
			use := func(k int) model.DirUse {
				return model.DirUse{Name: "zzAudit", Args: []model.Arg{{Name: "reason", Value: fmt.Sprintf("audited %d", k)}, {Name: "name", Value: "zzAuditor"}}}
			}
			put := func(dirs []model.DirUse, k int) []model.DirUse {
				switch r.Intn(3) {
				case 0:
					return append(dirs, use(k))
				case 1:
					return append([]model.DirUse{use(k)}, dirs...)
				}
				return dirs
			}
			for _, t := range ms.Types {
				for k, f := range t.Fields {
					f.Dirs = put(f.Dirs, k)
				}
				for k, ev := range t.Values {
					ev.Dirs = put(ev.Dirs, k)
				}
			}
			ms.Reindex()
			c.Bucket("steering", "directive-with-a-reason-argument-next-to-deprecated")
		}
		extSchema := ""
		if i%7 == 3 && !ms.ExplicitSchema && ms.Mutation == "Mutation" {
			// no schema definition: the mutation root has a name of its own and is attached by `extend schema`, in the same
			// document as the type it names
			if mt := ms.Type("Mutation"); mt != nil {
				mt.Name = "MutZz"
				ms.Mutation = "MutZz"
				ms.Reindex()
				extSchema = "\nextend schema {\n  mutation: MutZz\n}\n"
				c.Bucket("steering", "implicit-schema-extended-with-a-root-of-another-name")
			}
		}
		sdl := ms.SDL(model.SDLOpts{BlockDesc: i%3 == 0}) + extSchema
		if i%6 == 3 {
			// the document comes from a machine that ends its lines with CR LF (block descriptions span lines): the schema it
			// describes is the same
			sdl = strings.ReplaceAll(sdl, "\n", "\r\n")
			c.Bucket("steering", "document-with-CRLF-line-ends-and-block-descriptions")
		}
		nontriv := strings.Contains(sdl, "@deprecated") || strings.Contains(sdl, " = ") || strings.Contains(sdl, "directive @")
		roots := map[string]*ggql.Root{}
		okLoad := true
		// every third schema arrives in several successive loads (members also through extend blocks) and is
		// introspected after each load: whatever an early answer leaves behind must not show in the final one
		var loads []string
		if i%3 == 1 {
			arr := c16Arrange(c.Rand(i*7+3), ms, 4+(i/3)%2)
			loads = arr.loads
			if arr.final != nil {
				ms = arr.final // same definitions; members listed in the order the loads merge them
			}
			c.Bucket("loading", fmt.Sprintf("staged-%d-loads-introspected-between", len(loads)))
		} else {
			c.Bucket("loading", "one-document")
		}
		for _, bk := range []string{"reflect", "iface", "any"} {
			root, err := c17LoadStaged(sdl, loads, bk)
			if err != nil {
				okLoad = false
				break
			}
			if i%5 == 2 {
				// the application registers scalar implementations of its own for the scalars the documents declared AFTER
				// the load (ggql keeps the declared one and does not complain): the one schema introspection describes stays
				// the one that was loaded
				for _, t := range ms.Types {
					if t.Kind == model.Scalar {
						_ = root.AddTypes(&ggql.Scalar{Base: ggql.Base{N: t.Name}})
						c.Count("scalars_added_again_through_the_go_api_after_the_load", 1)
					}
				}
			}
			roots[bk] = root
		}
		if !okLoad {
			c.Count("generated_schema_not_accepted(left_to_C13)", 1)
			continue
		}
		c.Eval(sdl, nontriv)
		if i < 1 {
			c.Sample(map[string]interface{}{"sdl": clip(sdl, 1200)})
		}
		// ordinary application requests first (arguments of input types with fields left to their defaults, literal and
		// through variables): answering them must leave the schema exactly as it was loaded
		drift := ""
		for _, bk := range []string{"iface", "any"} {
			// the schema does not change by being used: the complete answer before the requests is the answer after them
			introBefore := ref.Render(ref.Canon(roots[bk].ResolveString(c17FullQuery, "Full", map[string]interface{}{"dep": true})["data"]))
			for k := 0; k < 3; k++ {
				dc := gen.Doc(r, ms, gen.DocOpts{Vars: k%2 == 0, Aliases: true, Depth: 2, MaxSels: 4, MaxOps: 1})
				text := dc.Doc.Print(model.LayoutN(k))
				run.Protect(func() { _ = roots[bk].ResolveString(text, dc.OpName, copyVars(dc.Vars)) })
				c.Count("application_requests_before_introspection", 1)
			}
			for _, text := range c17MinimalRequests(ms) {
				text := text
				run.Protect(func() { _ = roots[bk].ResolveString(text, "", nil) })
				c.Count("application_requests_before_introspection", 1)
			}
			introAfter := ref.Render(ref.Canon(roots[bk].ResolveString(c17FullQuery, "Full", map[string]interface{}{"dep": true})["data"]))
			c.Count("introspection_answers_compared_before_and_after_requests", 1)
			if introAfter != introBefore && drift == "" {
				drift = bk + ": " + firstDiffLong(introBefore, introAfter)
			}
		}
		if drift != "" {
			c.Violation("c17-answer-changed-by-requests", map[string]interface{}{"sdl": sdl, "diag": "the full introspection answer differs before and after ordinary application requests on the same root: " + drift})
			continue
		}
		rep := func(kind, diag string, extra map[string]interface{}) {
			m := map[string]interface{}{"sdl": sdl, "diag": diag}
			for k, v := range extra {
				m[k] = v
			}
			c.Violation(kind, m)
		}
		bad := false
		for _, bk := range []string{"reflect", "iface", "any"} {
			for _, dep := range []bool{true, false} {
				var diag string
				pseudoSchemaSeen = false
				pv, _ := run.Protect(func() { diag = c17Full(ms, roots[bk], dep) })
				if pv != nil {
					diag = fmt.Sprintf("panic: %v", pv)
				}
				c.Count("full_queries_compared", 1)
				if pseudoSchemaSeen {
					if c.Open("K-C17-schema-pseudotype") && ms.ExplicitSchema {
						c.Known("K-C17-schema-pseudotype", map[string]interface{}{"schema_block": ms.SchemaBlockSDL(model.SDLOpts{})})
					} else if diag == "" {
						diag = "a type named \"schema\" is listed although the schema defines none"
					}
				}
				if diag != "" {
					rep("c17-full", diag, map[string]interface{}{"backend": bk, "includeDeprecated": dep})
					bad = true
					break
				}
			}
			if bad {
				break
			}
		}
		if bad {
			continue
		}
		for _, bk := range []string{"reflect", "any"} {
			c.Count("nested_deprecation_walks", 1)
			if d := c17NestedDeprecation(ms, roots[bk]); d != "" {
				rep("c17-full", d, map[string]interface{}{"backend": bk})
				bad = true
				break
			}
		}
		if bad {
			continue
		}
		// generated introspection selections
		meta, g := c17Meta(ms)
		for k := 0; k < perSchema; k++ {
			dc := gen.Doc(r, meta, gen.DocOpts{Frags: true, Vars: true, Aliases: true, Dirs: k%3 == 0, Depth: 3 + r.Intn(3), MaxSels: 5, MaxOps: 2})
			// aim most __type lookups at existing names
			names := []string{"Int", "String", "Nope_zz", "skip", "deprecated"} // directive names are not type names: __type answers null
			for _, d := range ms.Dirs {
				names = append(names, d.Name)
			}
			for _, t := range ms.Types {
				names = append(names, t.Name)
			}
			if k%2 == 1 && len(ms.Types) > 0 {
				// names that are no type's name although they look like one: the word the Go API uses for the root object, and
				// the printed forms of wrapped types (what `type { name }` shows in this library): __type answers null
				tn := ms.Types[r.Intn(len(ms.Types))].Name
				names = append(names, "schema", "Schema", "query", tn+"!", "["+tn+"]", "["+tn+"!]!", "Int!", "[[Int]]", "[String!]", " "+tn, tn+" ")
			}
			for _, l := range dc.Doc.AllSelLists() {
				for _, s := range *l {
					if f, isF := s.(*model.Field); isF && f.Name == "__type" {
						for ai := range f.Args {
							if f.Args[ai].Name == "name" {
								if v, isVar := f.Args[ai].Value.(model.VarRef); isVar {
									dc.Vars[string(v)] = names[r.Intn(len(names))]
								} else {
									f.Args[ai].Value = names[r.Intn(len(names))]
								}
							}
						}
					}
				}
			}
			text := dc.Doc.Print(model.LayoutN(k))
			exp := ref.Execute(meta, dc.Doc, dc.OpName, dc.Vars, g, nil, ref.Flags{})
			var first *Outcome
			for _, bk := range []string{"reflect", "iface", "any"} {
				out := &Outcome{}
				out.Panic, out.Stack = run.Protect(func() { out.Resp = roots[bk].ResolveString(text, dc.OpName, copyVars(dc.Vars)) })
				if out.Resp != nil {
					d := out.Resp["data"]
					out.HasData = d != nil
					out.Data = ref.Canon(d)
					if es, isL := out.Resp["errors"].([]interface{}); isL {
						for _, e := range es {
							em, _ := e.(map[string]interface{})
							p, _ := em["path"].([]interface{})
							out.ErrPaths = append(out.ErrPaths, p)
							out.Msgs = append(out.Msgs, fmt.Sprint(em["message"]))
						}
					}
				}
				c.Count("generated_selections_compared", 1)
				c.Eval(sdl+text+bk, nontriv)
				if diff := Compare(exp, out, CompareOpts{StripFragSeg: true}); diff != "" {
					rep("c17-selection", diff, map[string]interface{}{"backend": bk, "document": text, "vars": dc.Vars, "op": dc.OpName, "expected": exp.Describe(), "observed": out.Describe()})
					break
				}
				if first == nil {
					first = out
				} else if !ref.Equal(first.Data, out.Data) {
					rep("c17-backend-divergence", "introspection answer depends on the application's resolver strategy", map[string]interface{}{"backend": bk, "document": text,
						"reflect": first.Describe(), bk: out.Describe()})
					break
				}
			}
		}
	}
}

// c17BuiltinDirectiveRedefined: a document that spells out one of ggql's built-in directives in its own way. ggql may
// refuse it (it does: a duplicate); if it is ever ACCEPTED, the schema introspection describes is the one of the
// document - its description, locations and defaults for that directive, and the document's default reason where a use
// of @deprecated gives none.
func c17BuiltinDirectiveRedefined(c *run.Ctx) {
	docs := []struct{ dir, desc, location, defArg, defVal string }{
		{"deprecated", "the document's own deprecated", "ARGUMENT_DEFINITION", "reason", "gone for good"},
		{"skip", "the document's own skip", "FRAGMENT_DEFINITION", "if", ""},
		{"include", "the document's own include", "QUERY", "if", ""},
	}
	for di, d := range docs {
		for _, bk := range []string{"reflect", "iface", "any"} {
			def := fmt.Sprintf("%q\ndirective @%s(%s: %s) on FIELD_DEFINITION | ENUM_VALUE | FIELD | FRAGMENT_SPREAD | INLINE_FRAGMENT | %s\n", d.desc, d.dir,
				d.defArg, map[bool]string{true: "String = " + fmt.Sprintf("%q", d.defVal), false: "Boolean!"}[d.defVal != ""], d.location)
			sdl := "type Query { a: Int old: Int @deprecated }\n" + def
			root, err := c17Load(sdl, bk)
			c.Eval(fmt.Sprintf("builtin-directive-redefined|%d|%s", di, bk), true)
			if err != nil {
				c.Count("documents_redefining_a_builtin_directive_refused", 1)
				continue
			}
			c.Count("documents_redefining_a_builtin_directive_accepted", 1)
			res := root.ResolveString(`{ __schema { directives { name description locations args { name defaultValue } } } __type(name: "Query") { fields(includeDeprecated: true) { name deprecationReason } } }`, "", nil)
			data, _ := res["data"].(map[string]interface{})
			sch, _ := data["__schema"].(map[string]interface{})
			dl, _ := sch["directives"].([]interface{})
			diag := "the accepted document's directive is not listed"
			for _, e := range dl {
				em, _ := e.(map[string]interface{})
				if em["name"] != d.dir {
					continue
				}
				diag = ""
				if em["description"] != d.desc {
					diag = fmt.Sprintf("description %q, the document says %q", em["description"], d.desc)
				}
				if !strings.Contains(fmt.Sprint(em["locations"]), d.location) {
					diag = fmt.Sprintf("locations %v lack the document's %s", em["locations"], d.location)
				}
				if d.defVal != "" && !strings.Contains(fmt.Sprint(em["args"]), d.defVal) {
					diag = fmt.Sprintf("arguments %v lack the document's default %q", em["args"], d.defVal)
				}
			}
			if diag == "" && d.dir == "deprecated" && !strings.Contains(fmt.Sprint(data["__type"]), d.defVal) {
				diag = fmt.Sprintf("deprecationReason of a bare @deprecated is not the document's default: %v", data["__type"])
			}
			if diag != "" {
				c.Violation("c17-builtin-directive-redefined", map[string]interface{}{"backend": bk, "sdl": sdl, "diag": diag, "response": fmt.Sprint(res)})
			}
		}
	}
}

// c17NestedDeprecation: one request walks the fields of a type with one includeDeprecated setting and, below each field,
// the fields of the field's type with the other setting (a type that refers to itself meets both settings in one walk).
// Every list is judged by the setting written on ITS selection.
func c17NestedDeprecation(ms *model.Schema, root *ggql.Root) string {
	names := func(t *model.TypeDef, dep bool) string {
		var out []string
		for _, f := range t.Fields {
			if d, _, _ := model.Deprecated(f.Dirs); d && !dep {
				continue
			}
			out = append(out, f.Name)
		}
		sort.Strings(out)
		return strings.Join(out, ",")
	}
	for _, t := range ms.Types {
		if t.Kind != model.Object && t.Kind != model.Interface {
			continue
		}
		for _, outer := range []bool{true, false} {
			text := fmt.Sprintf(`{ __type(name: %q) { fields(includeDeprecated: %v) { name type { kind name fields(includeDeprecated: %v) { name } } } } }`, t.Name, outer, !outer)
			var res map[string]interface{}
			if pv, _ := run.Protect(func() { res = root.ResolveString(text, "", nil) }); pv != nil {
				return fmt.Sprintf("%s: panic: %v", text, pv)
			}
			if res["errors"] != nil {
				return fmt.Sprintf("%s: errors: %v", text, res["errors"])
			}
			data, _ := ref.Canon(res["data"]).(map[string]interface{})
			tm, _ := data["__type"].(map[string]interface{})
			fl, _ := tm["fields"].([]interface{})
			var got []string
			for _, fe := range fl {
				fm, _ := fe.(map[string]interface{})
				fname, _ := fm["name"].(string)
				got = append(got, fname)
				fd := t.Field(fname)
				if fd == nil {
					return fmt.Sprintf("%s: lists a field %q the type does not have", text, fname)
				}
				ty, _ := fm["type"].(map[string]interface{})
				if fd.Type.List || fd.Type.NonNull {
					continue // a wrapper has no fields
				}
				ut := ms.Type(fd.Type.Name)
				if ut == nil || (ut.Kind != model.Object && ut.Kind != model.Interface) {
					continue
				}
				var inner []string
				il, _ := ty["fields"].([]interface{})
				for _, ie := range il {
					im, _ := ie.(map[string]interface{})
					in, _ := im["name"].(string)
					inner = append(inner, in)
				}
				sort.Strings(inner)
				if want := names(ut, !outer); strings.Join(inner, ",") != want {
					return fmt.Sprintf("%s: below field %s the fields of %s (includeDeprecated: %v) are [%s], expected [%s]", text, fname, ut.Name, !outer, strings.Join(inner, ","), want)
				}
			}
			sort.Strings(got)
			if want := names(t, outer); strings.Join(got, ",") != want {
				return fmt.Sprintf("%s: fields are [%s], expected [%s]", text, strings.Join(got, ","), want)
			}
		}
	}
	return ""
}

// c17BuiltTypes: a schema whose types were built in Go and handed to AddTypes (an interface with an implementer, a
// union, an enum, an input, a directive) is described by introspection exactly like the same schema read from a
// document - possible types of the interface and the union included.
func c17BuiltTypes(c *run.Ctx) {
	const sdl = "type Query { a: Int }\ninterface ZzNode { x: Int }\ntype ZzThing implements ZzNode { f(arg: Int): Int x: Int old: Int @deprecated(reason: \"gone\") }\nenum ZzColor { RED BLUE @deprecated(reason: \"why\") }\ninput ZzIn { n: Int }\nunion ZzU = ZzThing\ndirective @zzDir(da: Int) on FIELD\n"
	for _, bk := range []string{"reflect", "iface", "any"} {
		parsed, err := c17Load(sdl, bk)
		if err != nil {
			c.Violation("c17-full", map[string]interface{}{"sdl": sdl, "diag": "document refused: " + err.Error()})
			return
		}
		built, err := c17Load("", bk)
		if err == nil {
			err = built.AddTypes(c13BuildTypes("", "")...)
		}
		if err != nil {
			c.Violation("c17-full", map[string]interface{}{"diag": "types built in Go refused: " + err.Error()})
			return
		}
		for _, dep := range []bool{true, false} {
			var a, b string
			pv, _ := run.Protect(func() {
				a = ref.Render(sortIntro(ref.Canon(parsed.ResolveString(c17FullQuery, "Full", map[string]interface{}{"dep": dep})["data"])))
				rb := built.ResolveString(c17FullQuery, "Full", map[string]interface{}{"dep": dep})
				b = ref.Render(sortIntro(ref.Canon(rb["data"]))) + fmt.Sprint(rb["errors"])
				b = strings.TrimSuffix(b, "<nil>")
			})
			c.Eval(fmt.Sprintf("built-types|%s|%v", bk, dep), true)
			c.Count("full_queries_compared", 1)
			if pv != nil {
				c.Violation("c17-full", map[string]interface{}{"backend": bk, "diag": fmt.Sprintf("introspecting a schema built with AddTypes panics: %v", pv)})
			} else if a != b {
				c.Violation("c17-full", map[string]interface{}{"backend": bk, "sdl": sdl, "diag": "the schema built with AddTypes is described differently from the same schema read from a document: " + firstDiffLong(a, b)})
			}
		}
	}
}

// c17AcceptedMeansDescribed: whatever a root ACCEPTS is described. A definition whose name is already taken by a type of
// another kind (a scalar the root has from an earlier load, from AddTypes, or built in) is either refused or, if the load
// is accepted, the type it defines is what __type reports under that name.
func c17AcceptedMeansDescribed(c *run.Ctx) {
	cases := []struct {
		how   string
		first func(root *ggql.Root) error
		later string
		name  string
	}{
		{"scalar from an earlier document", func(root *ggql.Root) error { return root.ParseString("scalar Stamp\ntype Query { s: Stamp }") }, "type Stamp { zz: Int }", "Stamp"},
		{"scalar added with AddTypes", func(root *ggql.Root) error {
			if err := root.ParseString("type Query { a: Int }"); err != nil {
				return err
			}
			return root.AddTypes(&ggql.Scalar{Base: ggql.Base{N: "Stamp"}})
		}, "enum Stamp { A B }", "Stamp"},
		{"built-in scalar", func(root *ggql.Root) error { return root.ParseString("type Query { a: Int }") }, "type Time { zz: Int }\nextend type Query { t: Time }", "Time"},
		{"built-in scalar, one document", func(root *ggql.Root) error { return nil }, "type Query { t: Int64 }\ninput Int64 { zz: Int }", "Int64"},
		{"scalar twice (the second definition is skipped by design)", func(root *ggql.Root) error { return root.ParseString("scalar Stamp\ntype Query { s: Stamp }") }, "scalar Stamp", "Stamp"},
	}
	for ci, cs := range cases {
		for _, bk := range []string{"reflect", "any"} {
			root, err := c17Load("", bk)
			if err == nil {
				err = cs.first(root)
			}
			if err != nil {
				c.Violation("c17-full", map[string]interface{}{"diag": "first step refused: " + err.Error(), "how": cs.how})
				continue
			}
			var lerr error
			var res map[string]interface{}
			pv, _ := run.Protect(func() {
				lerr = root.ParseString(cs.later)
				res = root.ResolveString(fmt.Sprintf(`{ __type(name: %q) { kind name fields { name } enumValues { name } inputFields { name } } }`, cs.name), "", nil)
			})
			c.Eval(fmt.Sprintf("accepted-means-described|%d|%s", ci, bk), true)
			c.Count("full_queries_compared", 1)
			if pv != nil {
				c.Violation("c17-full", map[string]interface{}{"how": cs.how, "later_load": cs.later, "diag": fmt.Sprint("panic: ", pv)})
				continue
			}
			if lerr != nil || ci == len(cases)-1 {
				continue // refused (or the deliberate skip of a repeated scalar): nothing new to describe
			}
			data, _ := ref.Canon(res["data"]).(map[string]interface{})
			tm, _ := data["__type"].(map[string]interface{})
			members := 0
			for _, k := range []string{"fields", "enumValues", "inputFields"} {
				if l, isL := tm[k].([]interface{}); isL {
					members += len(l)
				}
			}
			if tm == nil || tm["kind"] == "SCALAR" || members == 0 {
				c.Violation("c17-full", map[string]interface{}{"backend": bk, "how": cs.how, "later_load": cs.later,
					"diag": fmt.Sprintf("the document was accepted but __type(name: %q) does not describe what it defines: %s", cs.name, ref.Render(tm))})
			}
		}
	}
}
