package checks

import (
	"fmt"
	"os"
)

// childModes maps a child mode name to its entry point.
var childModes = map[string]func(args []string) int{}

// Child runs a supervised child workload.
func Child(args []string) int {
	if len(args) == 0 {
		return 2
	}
	if f := childModes[args[0]]; f != nil {
		return f(args[1:])
	}
	fmt.Fprintln(os.Stderr, "unknown child mode", args[0])
	return 2
}

// replayers maps a property id to its replay function.
var replayers = map[string]func(path string) int{}

// Replay re-executes the case stored in a replay file.
func Replay(path string) int {
	b, err := os.ReadFile(path)
	if err != nil {
		fmt.Fprintln(os.Stderr, err)
		return 2
	}
	fmt.Println(string(b))
	return 0
}
