package checks

import (
	"fmt"
	"strings"

	"github.com/uhn/ggql/pkg/ggql"

	"verif/internal/extract"
	"verif/internal/gen"
	"verif/internal/model"
	"verif/internal/ref"
	"verif/internal/run"
)

func init() {
	register(&Check{ID: "C13", Level: "fault_enumeration", Run: runC13})
}

func runC13(c *run.Ctx) {
	c.Rule = "generated well-formed schemas (all kinds, nested wrappers, directive definitions and uses with arguments, interfaces satisfied covariantly / through extra optional arguments, custom root names) must load; " +
		"the schema read back through the public API must pass the harness's independent rule checker (ref.CheckSchema) and equal the generated model; then every rule of a 36-entry mutation catalogue " +
		"(undefined references, duplicates, ill-formed/reserved names, input/output position mix-ups bare and inside [[T!]], interface conformance breaches, union/empty-type rules, directive location/argument/cycle rules) " +
		"is applied at sampled applicable positions and each mutant must be refused with an error naming the offender. A mutant is non-trivial by construction; distinct by (SDL text)"
	n := c.N(200, 5000)
	reps := c.N(1, 4)
	muts := gen.SchemaMutations()
	opts := func(i int) gen.TypeOpts {
		return gen.TypeOpts{NastyStrings: i%4 == 0, Directives: true, CustomRoots: true, Small: i%2 == 0}
	}
	mutants := 0
	memberDir := c.Open("K-C13-member-diruse")
	for i := 0; i < n && !c.TooMany(); i++ {
		ms := gen.TypeSchema(c.Rand(i), opts(i))
		sdl := ms.SDL(model.SDLOpts{BlockDesc: i%3 == 0})
		if own := ref.CheckSchema(ms); len(own) > 0 {
			// the generator itself broke a rule: a harness defect, never blamed on ggql
			c.Violation("c13-generator-bug", map[string]interface{}{"sdl": sdl, "rules": own})
			continue
		}
		c.Eval(sdl, true)
		root, err := loadSDL(sdl)
		if err != nil {
			c.Violation("c13-wellformed-rejected", map[string]interface{}{"sdl": sdl, "error": err.Error()})
			continue
		}
		c.Count("wellformed_accepted", 1)
		back, err := extract.FromRoot(root)
		if err != nil {
			c.Violation("c13-readback", map[string]interface{}{"sdl": sdl, "error": err.Error()})
			continue
		}
		if v := ref.CheckSchema(back); len(v) > 0 {
			c.Violation("c13-accepted-schema-fails-recheck", map[string]interface{}{"sdl": sdl, "rules": v})
			continue
		}
		if a, b := extract.Canon(ms, extract.CanonOpts{}), extract.Canon(back, extract.CanonOpts{}); a != b {
			c.Violation("c13-accepted-schema-differs", map[string]interface{}{"sdl": sdl, "diff": firstDiff(a, b)})
			continue
		}
		c.Count("accepted_schemas_rechecked", 1)
		// a well-formed document stays well-formed when it arrives on top of an accepted schema: every load validates the whole
		// root again, so what the earlier load left behind (coerced defaults, resolved references) must pass a second time
		// (the last one mixes types the root already has with types that arrive with the document, in one union and one field list)
		oldObj := ""
		for _, t := range ms.Types {
			if t.Kind == model.Object {
				oldObj = t.Name
				break
			}
		}
		mixed := fmt.Sprintf("type ZzBird { a: Int old: %s olds: [%s!] }\n\nunion ZzAnimal = %s | ZzBird\n\nunion ZzAnimal2 = ZzBird | %s\n\ninterface ZzI { a: Int }\n\ntype ZzImpl implements ZzI { a: Int pet: ZzAnimal }", oldObj, oldObj, oldObj, oldObj)
		// types named like directives the root already has (built-in ones and one of the document's own): types and directives
		// are two name spaces
		likeDirs := "type skip { a: Int }\n\nscalar deprecated\n\nenum include { A }\n\ninput go { a: Int }\n\ntype ZzUsesThem { s: skip d: deprecated i(a: go, e: include): Int }"
		likeKinds := map[string]string{"skip": "*ggql.Object", "include": "*ggql.Enum", "go": "*ggql.Input"}
		if len(ms.Dirs) > 0 && ms.Type(ms.Dirs[0].Name) == nil && oldObj != "" {
			likeDirs += fmt.Sprintf("\n\nunion %s = skip | %s\n\nextend type ZzUsesThem { m: %s }", ms.Dirs[0].Name, oldObj, ms.Dirs[0].Name)
			likeKinds[ms.Dirs[0].Name] = "*ggql.Union"
		}
		for li, later := range []string{"type ZzLater0 { a: Int }", "input ZzLater1 { a: Int = 1, b: [ZzLater1!] }\n\nenum ZzLater2 { A B }", "scalar ZzLater3", mixed, likeDirs} {
			var lerr error
			if li == 2 {
				lerr = root.AddTypes(&ggql.Scalar{Base: ggql.Base{N: "ZzLater3"}})
			} else {
				lerr = root.ParseString(later)
			}
			c.Count("wellformed_later_loads", 1)
			if lerr != nil {
				c.Violation("c13-wellformed-later-load-rejected", map[string]interface{}{"sdl": sdl, "later_load": later, "step": li + 2, "error": lerr.Error()})
				break
			}
			if li == 4 {
				for tn, want := range likeKinds {
					if got := fmt.Sprintf("%T", root.GetType(tn)); got != want {
						c.Violation("c13-accepted-schema-differs", map[string]interface{}{"sdl": sdl, "later_load": later, "diag": fmt.Sprintf("type %s of the accepted document is a %s in the root, expected a %s", tn, got, want)})
					}
				}
				if got := fmt.Sprintf("%T", root.GetType("deprecated")); !strings.Contains(got, "calar") {
					c.Violation("c13-accepted-schema-differs", map[string]interface{}{"sdl": sdl, "later_load": later, "diag": "scalar deprecated of the accepted document is a " + got + " in the root"})
				}
				c.Count("types_named_like_directives_checked", len(likeKinds)+1)
			}
		}
		if i%5 == 0 {
			// a root is a world of its own: what one root was told about a BUILT-IN type (a directive put on String by an
			// extension) is nothing another root knows, and another root accepts the very same documents
			ext := fmt.Sprintf("directive @zzMark%d(n: Int = %d) on SCALAR\n\nextend scalar String @zzMark%d\n\nextend scalar Int @zzMark%d(n: 2)\n", i, i, i, i)
			if xerr := root.ParseString(ext); xerr != nil {
				c.Violation("c13-wellformed-later-load-rejected", map[string]interface{}{"sdl": sdl, "later_load": ext, "error": xerr.Error()})
			} else {
				other, oerr := loadSDL("type Query { a: String b: Int }")
				if oerr != nil {
					c.Violation("c13-wellformed-rejected", map[string]interface{}{"sdl": "type Query { a: String b: Int }", "error": oerr.Error(), "diag": "after another root extended String and Int"})
				} else if ob, berr := extract.FromRoot(other); berr == nil {
					if v := ref.CheckSchema(ob); len(v) > 0 {
						c.Violation("c13-accepted-schema-fails-recheck", map[string]interface{}{"sdl": "type Query { a: String b: Int }", "rules": v, "diag": "a fresh root after ANOTHER root loaded: " + ext})
					}
					for _, bn := range []string{"String", "Int"} {
						if bt, _ := other.GetType(bn).(*ggql.Scalar); bt != nil && len(bt.Dirs) > 0 {
							c.Violation("c13-root-state-shared", map[string]interface{}{"diag": fmt.Sprintf("built-in scalar %s of a fresh root carries %d directive use(s) another root loaded", bn, len(bt.Dirs)), "other_root_loaded": ext})
						}
					}
				}
				again, aerr := loadSDL(sdl)
				if aerr == nil {
					aerr = again.ParseString(ext)
				}
				if aerr != nil {
					c.Violation("c13-wellformed-rejected", map[string]interface{}{"sdl": sdl, "later_load": ext, "error": aerr.Error(), "diag": "the same two documents were accepted by another root a moment ago"})
				} else {
					// the directive is known to the root by now: a later document that uses it with an argument it does not
					// declare is as ill-formed as the same use in the directive's own document
					late := fmt.Sprintf("scalar ZzLateS%d @zzMark%d(n: 1, nopeArgZz: 2)", i, i)
					var lerr error
					run.Protect(func() { lerr = again.ParseString(late) })
					mutants++
					c.Eval(sdl+"\n"+ext+"\n"+late, true)
					c.Bucket("rule", "late-use-of-a-known-directive-with-an-undeclared-argument")
					if lerr == nil {
						c.Violation("c13-mutant-accepted", map[string]interface{}{"rule": "directive-undeclared-arg (directive loaded earlier)", "offender": "nopeArgZz", "sdl": sdl, "later_loads": []string{ext, late},
							"diag": "the use gives the directive an argument it does not declare and was loaded without error"})
					} else if !strings.Contains(lerr.Error(), "nopeArgZz") {
						c.Violation("c13-offender-not-named", map[string]interface{}{"rule": "directive-undeclared-arg (directive loaded earlier)", "offender": "nopeArgZz", "later_loads": []string{ext, late}, "diag": clip(lerr.Error(), 300)})
					}
				}
				c.Count("roots_checked_for_state_shared_with_another_root", 1)
			}
		}
		if i < 1 {
			c.Sample(map[string]interface{}{"wellformed_sdl": clip(sdl, 1200)})
		}
		// rule breaches that arrive as a LATER load on top of the accepted schema: an extend block that makes the extended
		// type, or a type the document does not even mention, ill-formed. Each must be refused, naming the offender.
		for bi, be := range badExtensions(ms) {
			if !c.Thorough() && (bi+i)%3 != 0 {
				continue
			}
			lr, lerr := loadSDL(sdl)
			if lerr != nil {
				break
			}
			var xerr error
			pv, _ := run.Protect(func() { xerr = lr.ParseString(be.text) })
			mutants++
			c.Eval(sdl+"\n"+be.text, true)
			c.Bucket("rule", "late-extension:"+be.what)
			switch {
			case pv != nil:
				c.Violation("c13-late-extension-panic", map[string]interface{}{"rule": be.what, "sdl": sdl, "later_load": be.text, "panic": fmt.Sprint(pv)})
			case xerr == nil:
				c.Violation("c13-mutant-accepted", map[string]interface{}{"rule": "late-extension:" + be.what, "offender": be.offender, "sdl": sdl, "later_load": be.text,
					"diag": "the extension makes the schema ill-formed but was loaded without error"})
			case !strings.Contains(xerr.Error(), be.offender):
				c.Violation("c13-offender-not-named", map[string]interface{}{"rule": "late-extension:" + be.what, "offender": be.offender, "sdl": sdl, "later_load": be.text, "diag": clip(xerr.Error(), 400)})
			}
		}
		for mi, m := range muts {
			for rep := 0; rep < reps; rep++ {
				mut := gen.TypeSchema(c.Rand(i), opts(i))
				r := c.Rand(i*1000 + mi*10 + rep + 7)
				offender, okm := m.Apply(r, mut)
				if !okm {
					continue
				}
				mut.Reindex()
				if v := ref.CheckSchema(mut); len(v) == 0 {
					// the mutation did not break a rule on this schema (e.g. it hit an equal type): not a test case
					c.Count("mutation_without_effect", 1)
					continue
				}
				msdl := mut.SDL(model.SDLOpts{})
				mutants++
				c.Eval(msdl, true)
				c.Bucket("rule", m.Rule)
				if mutants%200 == 1 {
					c.Sample(map[string]interface{}{"rule": m.Rule, "offender": offender, "mutant_sdl": clip(msdl, 900)})
				}
				_, err := loadSDL(msdl)
				rep2 := func(kind, diag string) {
					c.Violation(kind, map[string]interface{}{"rule": m.Rule, "offender": offender, "sdl": msdl, "diag": diag, "recheck": ref.CheckSchema(mut)})
				}
				if err == nil {
					if m.Rule == "directive-wrong-location-on-member" && memberDir && !strings.Contains(msdl, "ZZ @onlyEnumZz") && !enumValueUse(mut) {
						c.Known("K-C13-member-diruse", map[string]interface{}{"rule": m.Rule, "sdl": clip(msdl, 600)})
						continue
					}
					rep2("c13-mutant-accepted", "the ill-formed schema was loaded without error")
					continue
				}
				if !strings.Contains(err.Error(), offender) {
					rep2("c13-offender-not-named", fmt.Sprintf("error does not name %q: %s", offender, clip(err.Error(), 400)))
				}
			}
		}
	}
	mutants += c13Builders(c)
	mutants += c13BuiltNames(c)
	mutants += c13LocationMatrix(c)
	mutants += c13SecondSchemaDefinition(c)
	mutants += c13AfterRefusedExtensions(c)
	mutants += c13LateInvalidated(c)
	c.MinNontriv = (n + mutants) / 3
	c.Set("mutants_loaded", mutants)
}

// enumValueUse reports whether the misplaced directive sits on an enum value (those uses ARE validated by ggql).
func enumValueUse(s *model.Schema) bool {
	for _, t := range s.Types {
		if t.Kind == model.Enum {
			for _, v := range t.Values {
				for _, u := range v.Dirs {
					if u.Name == "onlyEnumZz" {
						return true
					}
				}
			}
		}
	}
	return false
}
