package checks

import (
	"fmt"
	"go/ast"
	"go/parser"
	"go/token"
	"os"
	"os/exec"
	"path/filepath"
	"strconv"
	"strings"

	"github.com/uhn/ggql/pkg/ggql"

	"verif/internal/extract"
	"verif/internal/gen"
	"verif/internal/model"
	"verif/internal/run"
)

func init() {
	register(&Check{ID: "C15", Level: "exploration", Run: runC15})
}

type c15Root struct {
	Query        interface{}
	Mutation     interface{}
	Subscription interface{}
}

type c15Obj struct{}

func loadSDL(sdl string) (*ggql.Root, error) {
	root := ggql.NewRoot(&c15Root{Query: &c15Obj{}, Mutation: &c15Obj{}, Subscription: &c15Obj{}})
	var err error
	pv, _ := run.Protect(func() { err = root.ParseString(sdl) })
	if pv != nil {
		return nil, fmt.Errorf("panic: %v", pv)
	}
	return root, err
}

func canonOf(root *ggql.Root, o extract.CanonOpts) (string, error) {
	var s *model.Schema
	var err error
	pv, _ := run.Protect(func() { s, err = extract.FromRoot(root) })
	if pv != nil {
		return "", fmt.Errorf("panic while reading the schema back: %v", pv)
	}
	if err != nil {
		return "", err
	}
	return extract.Canon(s, o), nil
}

func firstDiff(a, b string) string {
	la, lb := strings.Split(a, "\n"), strings.Split(b, "\n")
	for i := 0; i < len(la) || i < len(lb); i++ {
		var x, y string
		if i < len(la) {
			x = la[i]
		}
		if i < len(lb) {
			y = lb[i]
		}
		if x != y {
			return fmt.Sprintf("line %d:\n  - %s\n  + %s", i+1, clip(x, 400), clip(y, 400))
		}
	}
	return ""
}

// onlyRootsDiffer reports whether two canonical forms differ in the "roots ..." line only.
func onlyRootsDiffer(a, b string) bool {
	la, lb := strings.Split(a, "\n"), strings.Split(b, "\n")
	if len(la) != len(lb) {
		return false
	}
	diff := 0
	for i := range la {
		if la[i] != lb[i] {
			if !strings.HasPrefix(la[i], "roots ") {
				return false
			}
			diff++
		}
	}
	return diff == 1
}

func runC15(c *run.Ctx) {
	c.Rule = "generated well-formed schemas of every type kind with descriptions and string defaults containing quotes, backslashes, newlines, triple quotes, control and non-ASCII characters, numeric defaults in several " +
		"written forms, nested list/object/enum defaults, directive definitions and uses with arguments, custom root operation names; oracle: Root.SDL(false,true) and the concatenated per-type Type.SDL(true) are accepted " +
		"by a fresh root, define the same canonical schema (read back through the public API, defaults compared after coercion to their declared type) and print idempotently; the real ggqlgen binary rewrites (-w) and " +
		"embeds (-e) generated schema files and the outputs are loaded and compared the same way. Non-trivial = schema has a description or default with a character needing an escape, or a directive use; distinct by SDL text"
	n := c.N(800, 20000)
	c.MinNontriv = n / 10
	ggql.Sort = true
	defer func() { ggql.Sort = false }()
	schemaBlock := c.Open("K-C15-schema-block")
	for i := 0; i < n && !c.TooMany(); i++ {
		r := c.Rand(i)
		ms := gen.TypeSchema(r, gen.TypeOpts{NastyStrings: true, Directives: true, CustomRoots: true, Small: i%2 == 0})
		if i%4 == 1 {
			// hand-written looking descriptions: padded with blanks, with a quote inside (the comparison below is ggql with ggql)
			c.Count("padded_descriptions", gen.PadDescriptions(r, ms))
		}
		deepDefault := i%8 == 7
		if deepDefault {
			// a default that nests deeper than a query depth limit an application may set (ggql.MaxResolveDepth is a limit
			// for resolving, the printers walk values of the schema)
			var dv interface{} = model.NewObjLit().Set("n", int64(1))
			for k := 0; k < 9+r.Intn(6); k++ {
				dv = model.NewObjLit().Set("not", dv).Set("any", []interface{}{[]interface{}{int64(int64(k))}})
			}
			ms.Types = append(ms.Types, &model.TypeDef{Kind: model.Input, Name: "ZzDeep", Inputs: []*model.ArgDef{{Name: "not", Type: model.Named("ZzDeep")},
				{Name: "n", Type: model.Named("Int")}, {Name: "any", Type: model.ListOf(model.ListOf(model.Named("Int")))}}})
			if qt := ms.Type(ms.Query); qt != nil {
				qt.Fields = append(qt.Fields, &model.FieldDef{Name: "zzDeep", Type: model.Named("Int"), Args: []*model.ArgDef{{Name: "f", Type: model.Named("ZzDeep"), HasDefault: true, Default: dv}}})
			}
			ms.Reindex()
			c.Count("schemas_with_a_default_nested_deeper_than_the_lowered_resolve_depth", 1)
		}
		sdl := ms.SDL(model.SDLOpts{BlockDesc: i%3 == 0})
		nontriv := strings.ContainsAny(sdl, "\\") || strings.Contains(sdl, " @")
		c.Eval(sdl, nontriv)
		if i < 2 {
			c.Sample(map[string]interface{}{"sdl": clip(sdl, 1500)})
		}
		rep := func(kind, diag string, extra map[string]interface{}) {
			m := map[string]interface{}{"sdl": sdl, "diag": diag}
			for k, v := range extra {
				m[k] = v
			}
			c.Violation(kind, m)
		}
		var a *ggql.Root
		var err error
		if i%4 == 2 {
			// the schema printed is "a schema the root accepts" however it got there: here it arrives in several successive
			// loads (members also through extend blocks), with a type and a directive sharing a name now and then
			if i%8 == 2 && len(ms.Dirs) > 0 && ms.Type(ms.Dirs[0].Name) == nil {
				ms.Types = append(ms.Types, &model.TypeDef{Kind: model.Object, Name: ms.Dirs[0].Name, Fields: []*model.FieldDef{{Name: "a", Type: model.Named("Int")}}})
				if qt := ms.Type(ms.Query); qt != nil {
					qt.Fields = append(qt.Fields, &model.FieldDef{Name: "zzSameName", Type: model.Named(ms.Dirs[0].Name)})
				}
				ms.Reindex()
				sdl = ms.SDL(model.SDLOpts{BlockDesc: i%3 == 0})
			}
			if i%8 == 6 && !ms.ExplicitSchema && ms.Mutation == "Mutation" {
				// no schema definition; the mutation root has a name of its own and is attached by `extend schema`
				if mt := ms.Type("Mutation"); mt != nil {
					mt.Name = "MutZz"
					ms.Mutation = "MutZz"
					ms.Reindex()
					sdl = ms.SDL(model.SDLOpts{BlockDesc: i%3 == 0})
					c.Count("implicit_schemas_extended_with_a_root_of_another_name", 1)
				}
			}
			arr := c16Arrange(c.Rand(i*13+5), ms, 3+(i/4)%3)
			a = ggql.NewRoot(&c15Root{Query: &c15Obj{}, Mutation: &c15Obj{}, Subscription: &c15Obj{}})
			for _, l := range arr.loads {
				l := l
				if err == nil {
					if pv, _ := run.Protect(func() { err = a.ParseString(l) }); pv != nil {
						err = fmt.Errorf("panic: %v", pv)
					}
				}
			}
			c.Count("schemas_loaded_in_several_steps", 1)
		} else {
			a, err = loadSDL(sdl)
		}
		if err != nil {
			// acceptance of well-formed schemas is C13's subject; here it only means nothing to print
			c.Count("generated_schema_not_accepted(left_to_C13)", 1)
			continue
		}
		if i%3 == 0 {
			// "a schema the root accepts" is also what is left after the root REFUSED something: a document that is turned down
			// after its types were put in (an interface breach, an undefined reference, a duplicate at its end), whose type
			// names sort in front of the accepted ones. What is printed next is the accepted schema, nothing of this one.
			bads := []string{
				"interface AaNamed { name: String }\n\ntype AaLabel implements AaNamed { z: Int }\n\ntype AaAlbum { a: Int }\n\nscalar AaS\n\nenum AaE { X }",
				"type AaAlbum { a: Int label: AaNopeZz }\n\ninput AaIn { a: Int }\n\nunion AaU = AaAlbum",
				"type AaAlbum { a: Int }\n\nenum AaE { X }\n\ndirective @aaDir on FIELD\n\ntype AaAlbum { b: Int }",
			}
			bad := bads[r.Intn(len(bads))]
			var berr error
			if pv, _ := run.Protect(func() { berr = a.ParseString(bad) }); pv != nil || berr == nil {
				c.Count("ill_formed_later_load_not_refused(left_to_C13)", 1)
				continue
			}
			c.Count("schemas_printed_after_a_refused_load", 1)
		}
		if i%5 == 1 {
			// what a document put on the scalars every root has (they are not defined by any document) is part of the schema too
			ext := fmt.Sprintf("directive @zzOnScalar(n: Int = 1) on SCALAR\n\nextend scalar Int @zzOnScalar\n\nextend scalar Time @zzOnScalar(n: %d)\n\nextend scalar ID @zzOnScalar(n: 3)", i)
			var xerr error
			if pv, _ := run.Protect(func() { xerr = a.ParseString(ext) }); pv != nil || xerr != nil {
				c.Count("builtin_scalar_extension_not_accepted(left_to_C13)", 1)
				continue
			}
			ms.Dirs = append(ms.Dirs, &model.DirDef{Name: "zzOnScalar", Args: []*model.ArgDef{{Name: "n", Type: model.Named("Int"), HasDefault: true, Default: int64(1)}}, On: []string{"SCALAR"}})
			ms.Reindex()
			c.Count("schemas_with_extended_builtin_scalars", 1)
		}
		want := extract.Canon(ms, extract.CanonOpts{})
		ca, err := canonOf(a, extract.CanonOpts{})
		if err != nil {
			rep("c15-readback", err.Error(), nil)
			continue
		}
		if ca != want {
			// the loaded schema differs from what was written: not a printing issue; reported once for diagnosis
			c.Count("loaded_schema_differs_from_model(left_to_C17)", 1)
		}
		sameName := false
		for _, d := range ms.Dirs {
			if ms.Type(d.Name) != nil {
				sameName = true // GetType(name) answers the type; the public API has no other way to reach the directive of that name
			}
		}
		for _, mode := range []string{"root", "per-type"} {
			if mode == "per-type" && (sameName || (!ms.ExplicitSchema && ms.Mutation == "MutZz")) {
				continue // an extended implicit schema is not among the types a root lists: only Root.SDL can print it
			}
			var p1 string
			pv, _ := run.Protect(func() {
				if deepDefault {
					ggql.MaxResolveDepth = 6
					defer func() { ggql.MaxResolveDepth = 100 }()
				}
				if mode == "root" {
					p1 = a.SDL(false, true)
				} else {
					var b strings.Builder
					for _, t := range a.Types() {
						if !t.Core() && !model.IsBuiltinScalar(t.Name()) {
							b.WriteString(t.SDL(true))
							b.WriteString("\n")
						}
					}
					for _, d := range ms.Dirs {
						if dt := a.GetType(d.Name); dt != nil {
							b.WriteString(dt.SDL(true))
							b.WriteString("\n")
						}
					}
					p1 = b.String()
				}
			})
			if pv != nil {
				rep("c15-print-panic", fmt.Sprint(pv), map[string]interface{}{"mode": mode})
				continue
			}
			c.Count("prints_"+mode, 1)
			b, err := loadSDL(p1)
			if err != nil {
				rep("c15-reparse-rejected", err.Error(), map[string]interface{}{"mode": mode, "printed": p1})
				continue
			}
			cb, err := canonOf(b, extract.CanonOpts{})
			if err != nil {
				rep("c15-readback", err.Error(), map[string]interface{}{"mode": mode, "printed": p1})
				continue
			}
			if cb != ca {
				if onlyRootsDiffer(ca, cb) && ms.ExplicitSchema && schemaBlock {
					c.Known("K-C15-schema-block", map[string]interface{}{"roots_in_model": fmt.Sprintf("%s/%s/%s", ms.Query, ms.Mutation, ms.Subscription)})
				} else {
					rep("c15-schema-changed", firstDiff(ca, cb), map[string]interface{}{"mode": mode, "printed": p1})
					continue
				}
			}
			if mode == "root" {
				for _, bn := range []string{"Int", "Float", "String", "Boolean", "ID", "Int64", "Float64", "Time"} {
					if d := c15DirUsesDiff(a.GetType(bn), b.GetType(bn)); d != "" {
						rep("c15-schema-changed", "built-in scalar "+bn+" "+d, map[string]interface{}{"mode": mode, "printed": p1})
					}
				}
			}
			if mode == "root" {
				var p2 string
				run.Protect(func() { p2 = b.SDL(false, true) })
				if p2 != p1 {
					rep("c15-not-idempotent", firstDiff(p1, p2), map[string]interface{}{"mode": mode, "printed": p1})
				}
			}
		}
	}
	c15Excluded(c)
	c15SchemaEntries(c)
	c15Ggqlgen(c)
}

// c15Ggqlgen drives the real ggqlgen binary (built by ./check into bin/).
func c15Ggqlgen(c *run.Ctx) {
	bin := filepath.Join(run.VerifDir(), "bin", "ggqlgen")
	if _, err := os.Stat(bin); err != nil {
		c.Inconclusive("ggqlgen binary not built")
		return
	}
	work := filepath.Join(run.VerifDir(), ".work", fmt.Sprintf("c15-%d", os.Getpid()))
	_ = os.MkdirAll(work, 0o755)
	defer os.RemoveAll(work)
	dirs := c.Open("K-C15-ggqlgen-dirs")
	n := c.N(40, 600)
	for i := 0; i < n && !c.TooMany(); i++ {
		r := c.Rand(100000 + i)
		ms := gen.TypeSchema(r, gen.TypeOpts{NastyStrings: true, Directives: i%2 == 0, CustomRoots: false, Small: true})
		sdl := ms.SDL(model.SDLOpts{})
		a, err := loadSDL(sdl)
		if err != nil {
			continue
		}
		ca, err := canonOf(a, extract.CanonOpts{})
		if err != nil {
			continue
		}
		for _, mode := range []string{"-w", "-e"} {
			f := filepath.Join(work, fmt.Sprintf("s%d.graphql", i))
			_ = os.WriteFile(f, []byte(sdl), 0o644)
			outGo := filepath.Join(work, fmt.Sprintf("s%d_embed.go", i))
			var cmd *exec.Cmd
			if mode == "-w" {
				cmd = exec.Command(bin, "-w", f)
			} else {
				cmd = exec.Command(bin, "-e", f+":"+outGo+":Schema", f)
			}
			cmd.Dir = work
			out, err := cmd.CombinedOutput()
			c.Count("ggqlgen_runs"+mode, 1)
			c.Eval(sdl+mode, true)
			rep := func(kind, diag string, printed string) {
				c.Violation(kind, map[string]interface{}{"sdl": sdl, "mode": "ggqlgen " + mode, "diag": diag, "output": clip(string(out), 2000), "printed": printed})
			}
			if err != nil {
				if strings.Contains(string(out), "flag provided but not defined") || strings.Contains(string(out), "Usage") {
					c.Inconclusive("ggqlgen " + mode + " invocation not understood: " + clip(string(out), 200))
					return
				}
				rep("c15-ggqlgen-failed", err.Error(), "")
				continue
			}
			var printed string
			if mode == "-w" {
				b, _ := os.ReadFile(f)
				printed = string(b)
			} else {
				printed, err = goStringConstant(outGo, string(out))
				if err != nil {
					rep("c15-ggqlgen-embed-unreadable", err.Error(), "")
					continue
				}
			}
			judge := func(text string) string {
				b, err := loadSDL(text)
				if err != nil {
					return "reparse rejected: " + err.Error()
				}
				cb, err := canonOf(b, extract.CanonOpts{})
				if err != nil {
					return "readback: " + err.Error()
				}
				if cb != ca {
					return "schema changed: " + firstDiff(ca, cb)
				}
				return ""
			}
			diag := judge(printed)
			if diag == "" {
				continue
			}
			if dirs && len(ms.Dirs) > 0 && !strings.Contains(printed, "directive @") {
				// K-C15-ggqlgen-dirs predicate: the ONLY thing lost is the directive definitions: with the
				// original definitions put back in front of ggqlgen's output the schema is the original one
				var defs strings.Builder
				for _, d := range ms.Dirs {
					defs.WriteString(model.DirSDL(d, model.SDLOpts{}))
				}
				if judge(defs.String()+"\n"+printed) == "" {
					c.Known("K-C15-ggqlgen-dirs", map[string]interface{}{"mode": mode, "directive_definitions_dropped": len(ms.Dirs), "diag": clip(diag, 200)})
					continue
				}
			}
			rep("c15-ggqlgen", diag, printed)
		}
	}
}

// goStringConstant extracts the first string literal assigned in a generated Go file (or stdout).
func goStringConstant(path, stdout string) (string, error) {
	src, err := os.ReadFile(path)
	if err != nil {
		if strings.Contains(stdout, "package ") {
			src = []byte(stdout)
		} else {
			return "", err
		}
	}
	fs := token.NewFileSet()
	f, err := parser.ParseFile(fs, path, src, 0)
	if err != nil {
		return "", err
	}
	var lit string
	found := false
	ast.Inspect(f, func(n ast.Node) bool {
		if found {
			return false
		}
		if bl, isBL := n.(*ast.BasicLit); isBL && bl.Kind == token.STRING && len(bl.Value) > 20 {
			s, err := strconv.Unquote(bl.Value)
			if err == nil {
				lit, found = s, true
			}
		}
		return true
	})
	if !found {
		return "", fmt.Errorf("no string literal found in generated Go file")
	}
	return lit, nil
}

// c15DirUsesDiff compares the directive uses two roots hold for a type: the same directives in the same order, and for
// every argument both uses carry the same value (the parser fills in defaults only for directives it already knows, so
// the SET of carried arguments may differ between two roots that hold the same schema).
func c15DirUsesDiff(ta, tb ggql.Type) string {
	if ta == nil || tb == nil {
		return fmt.Sprintf("type present in the printing root: %v, in the reading root: %v", ta != nil, tb != nil)
	}
	da, db := ta.Directives(), tb.Directives()
	names := func(l []*ggql.DirectiveUse) string {
		var out []string
		for _, du := range l {
			out = append(out, "@"+du.Directive.Name())
		}
		return strings.Join(out, " ")
	}
	if names(da) != names(db) {
		return fmt.Sprintf("carries [%s] in the root that printed and [%s] in the root that read the text", names(da), names(db))
	}
	for k, du := range da {
		for an, av := range du.Args {
			if bv := db[k].Args[an]; bv != nil && fmt.Sprint(av.Value) != fmt.Sprint(bv.Value) {
				return fmt.Sprintf("@%s(%s: %v) in the root that printed, %v in the root that read the text", du.Directive.Name(), an, av.Value, bv.Value)
			}
		}
	}
	return ""
}

// c15Excluded: roots made with NewRoot's exclude option ("Time", "Int64") have no such built-in scalar; the application's
// document defines its own scalar of that name (with a description and a directive). The printed text must define it
// again for a fresh root made the same way - and on roots that do have the built-in scalar the same directive arrives by
// extension and must survive as well.
func c15Excluded(c *run.Ctx) {
	for vi, ex := range [][]string{{"Time", "Int64"}, {"Time"}, {"Int64"}, {}} {
		has := func(n string) bool {
			for _, e := range ex {
				if e == n {
					return true
				}
			}
			return false
		}
		doc := "directive @zzTag(n: Int = 1) on SCALAR\n\ntype Query {\n  t: Time\n  i: Int64\n  a(x: Time, y: [Int64!]): Int\n}\n"
		for _, n := range []string{"Time", "Int64"} {
			if has(n) {
				doc += fmt.Sprintf("\n\"my own %s\"\nscalar %s @zzTag(n: %d)\n", n, n, 2+len(n))
			} else {
				doc += fmt.Sprintf("\nextend scalar %s @zzTag(n: %d)\n", n, 2+len(n))
			}
		}
		mk := func() *ggql.Root {
			return ggql.NewRoot(&c15Root{Query: &c15Obj{}, Mutation: &c15Obj{}, Subscription: &c15Obj{}}, ex...)
		}
		a := mk()
		var err error
		if pv, _ := run.Protect(func() { err = a.ParseString(doc) }); pv != nil || err != nil {
			c.Count("generated_schema_not_accepted(left_to_C13)", 1)
			continue
		}
		var p1, p2 string
		var berr error
		b := mk()
		pv, _ := run.Protect(func() {
			p1 = a.SDL(false, true)
			berr = b.ParseString(p1)
			if berr == nil {
				p2 = b.SDL(false, true)
			}
		})
		c.Eval(fmt.Sprintf("excluded|%d", vi), true)
		c.Count("prints_root", 1)
		rep := func(kind, diag string) {
			c.Violation(kind, map[string]interface{}{"excluded_built_in_scalars": ex, "sdl": doc, "printed": p1, "diag": diag})
		}
		switch {
		case pv != nil:
			rep("c15-print-panic", fmt.Sprint(pv))
		case berr != nil:
			rep("c15-reparse-rejected", berr.Error())
		case p1 != p2:
			rep("c15-not-idempotent", firstDiff(p1, p2))
		default:
			for _, n := range []string{"Time", "Int64"} {
				ta, tb := a.GetType(n), b.GetType(n)
				if d := c15DirUsesDiff(ta, tb); d != "" {
					rep("c15-schema-changed", "scalar "+n+" "+d)
				} else if ta != nil && tb != nil && has(n) && ta.Description() != tb.Description() {
					rep("c15-schema-changed", fmt.Sprintf("scalar %s: description %q in the root that printed, %q in the root that read the text", n, ta.Description(), tb.Description()))
				}
			}
		}
	}
}
