package checks

import (
	"fmt"
	"sort"
	"strings"

	"github.com/uhn/ggql/pkg/ggql"

	"verif/internal/back"
	"verif/internal/gen"
	"verif/internal/model"
	"verif/internal/ref"
	"verif/internal/run"
	"verif/internal/zoo"
)

func init() {
	register(&Check{ID: "C11", Level: "exploration", Run: runC11})
}

func exeCanonText(exe *ggql.Executable) string {
	var parts []string
	names := make([]string, 0, len(exe.Ops))
	for n := range exe.Ops {
		names = append(names, n)
	}
	sort.Strings(names)
	for _, n := range names {
		parts = append(parts, exe.Ops[n].String())
	}
	fn := make([]string, 0, len(exe.Fragments))
	for n := range exe.Fragments {
		fn = append(fn, n)
	}
	sort.Strings(fn)
	for _, n := range fn {
		parts = append(parts, exe.Fragments[n].String())
	}
	return strings.Join(parts, "\n")
}

type exeOutcome struct {
	data  interface{}
	paths []string
	msgs  []string
	calls int
	panic interface{}
}

func resolveExe(h *back.Harness, exe *ggql.Executable, op string, vars map[string]interface{}) exeOutcome {
	return resolveExePlan(h, exe, op, vars, nil)
}

func resolveExePlan(h *back.Harness, exe *ggql.Executable, op string, vars map[string]interface{}, plan model.FaultPlan) exeOutcome {
	h.Reset(plan)
	var o exeOutcome
	var res map[string]interface{}
	var err error
	o.panic, _ = run.Protect(func() { res, err = h.Root.ResolveExecutable(exe, op, copyVars(vars)) })
	o.calls = len(h.Calls)
	if res != nil {
		o.data = ref.Canon(res["data"])
	}
	if err != nil {
		for _, e := range ggql.FormErrorsResult(err) {
			em, _ := e.(map[string]interface{})
			p, _ := em["path"].([]interface{})
			o.paths = append(o.paths, pathKey(p))
			o.msgs = append(o.msgs, fmt.Sprint(em["message"]))
		}
	}
	return o
}

func (o exeOutcome) text() string {
	return fmt.Sprintf("data=%s paths=%v msgs=%v panic=%v", ref.Render(o.data), o.paths, o.msgs, o.panic)
}

func runC11(c *run.Ctx) {
	defer c11Contexts(c)
	defer c11KeptSubscription(c)
	c.Rule = "histories: one document parsed once, then resolved 2-6 times with varying operation name and variable maps; every call is compared (data, error paths, messages) with the same call on a " +
		"freshly parsed copy, and the executable's printed form (operations and fragments, sorted) must be unchanged after every call. Documents are steered to variables inside literal objects/lists, " +
		"arguments in non-declaration order, shared fragments, input-object defaults and several operations. Non-trivial = the document uses variables or arguments; distinct by (document, history)"
	n := c.N(1600, 30000)
	c.MinNontriv = n / 10
	steps := 0
	// object literals are Go maps: print them with sorted keys so the printed form is deterministic
	ggql.Sort = true
	defer func() { ggql.Sort = false }()
	for i := 0; i < n && !c.TooMany(); i++ {
		r := c.Rand(i)
		kind := []string{"iface", "any", "mixed-any"}[i%3]
		ec := newExecCase(r, gen.SchemaOpts{Args: true, Mutation: true},
			gen.DocOpts{Frags: true, Dirs: true, Vars: true, Aliases: true, Mutation: true, Depth: 2 + r.Intn(2), MaxOps: 3})
		if i%6 == 4 {
			// a document ggql parses although it is odd: a selection set under a leaf field. Whatever ggql makes of it
			// (it ignores the set), it must make the same of it on every resolution of the parsed executable
			var leaves []*model.Field
			for _, l := range ec.DC.Doc.AllSelLists() {
				for _, sel := range *l {
					if f, isF := sel.(*model.Field); isF && len(f.Sels) == 0 && !strings.HasPrefix(f.Name, "__") {
						leaves = append(leaves, f)
					}
				}
			}
			if len(leaves) > 0 {
				leaves[r.Intn(len(leaves))].Sels = []model.Sel{&model.Field{Name: "zzInner"}}
				ec.Text = ec.DC.Doc.Print(model.LayoutN(ec.Layout))
				c.Bucket("history_length", "selection-set-under-a-leaf")
			}
		}
		h, err := back.Build(kind, ec.S, ec.SDL, ec.G)
		if err != nil {
			c.Violation("c11-schema-rejected", ec.replay(kind, "", map[string]interface{}{"error": err.Error()}))
			continue
		}
		exe, err := h.Root.ParseExecutableString(ec.Text)
		if err != nil {
			c.Violation("c11-parse", ec.replay(kind, "", map[string]interface{}{"error": err.Error()}))
			continue
		}
		printed0 := exeCanonText(exe)
		k := 2 + r.Intn(5)
		var hist []map[string]interface{}
		bad := false
		var lastCalls []back.Call
		for j := 0; j < k && !bad; j++ {
			op := ec.DC.OpName
			if len(ec.DC.Doc.Ops) > 1 {
				op = ec.DC.Doc.Ops[r.Intn(len(ec.DC.Doc.Ops))].Name
			}
			vars := ec.DC.Vars
			if j > 0 && r.Intn(4) != 0 {
				vars = gen.AltVars(r, ec.S, ec.DC)
			}
			hist = append(hist, map[string]interface{}{"op": op, "vars": vars})
			var plan model.FaultPlan
			if j > 0 && j < k-1 && r.Intn(5) == 0 && len(lastCalls) > 1 {
				// this call is cut short: a resolver (application code) panics somewhere in the middle and the caller recovers
				plan = model.FaultPlan{lastCalls[1+r.Intn(len(lastCalls)-1)].Key: model.Fault{Kind: "panic"}}
				hist[len(hist)-1]["resolver_panics"] = true
				c.Count("calls_cut_short_by_a_resolver_panic", 1)
			}
			got := resolveExePlan(h, exe, op, vars, plan)
			lastCalls = append(lastCalls[:0], h.Calls...)
			fresh, ferr := h.Root.ParseExecutableString(ec.Text)
			if ferr != nil {
				continue
			}
			want := resolveExePlan(h, fresh, op, vars, plan)
			steps++
			c.Count("calls_compared", 1)
			if got.text() != want.text() || got.calls != want.calls {
				c.Violation("c11-stale", ec.replay(kind, op, map[string]interface{}{"history": hist, "step": j,
					"reused_executable": got.text(), "fresh_parse": want.text()}))
				bad = true
			}
			if p := exeCanonText(exe); p != printed0 {
				c.Violation("c11-printed-form-changed", ec.replay(kind, op, map[string]interface{}{"history": hist, "step": j, "before": printed0, "after": p}))
				bad = true
			}
		}
		c.Eval(ec.Text+fmt.Sprint(hist), ec.DC.Feats["variables"] || ec.DC.Feats["args"])
		c.Bucket("history_length", fmt.Sprint(k))
		if i < 2 {
			c.Sample(map[string]interface{}{"document": ec.Text, "history": hist})
		}
	}
	// histories over the reflection schema with methods, including requests that are invalid (undeclared, missing or
	// mistyped arguments, unknown fields): the answer to an invalid request must be repeatable too
	m := c.N(800, 12000)
	for i := 0; i < m && !c.TooMany(); i++ {
		r := c.Rand(500000 + i)
		root, _, err := zoo.NewRoot()
		if err != nil {
			c.Violation("c11-zoo-schema", map[string]interface{}{"error": err.Error()})
			return
		}
		var text string
		if r.Intn(2) == 0 {
			text = zoo.Requests[r.Intn(len(zoo.Requests))].Text
		} else {
			text = c03ZooAdversarial[r.Intn(len(c03ZooAdversarial))]
		}
		if r.Intn(3) == 0 {
			text = "query A { name items { label(prefix: \"p\", upper: true, bogus: 1) id } }\nquery B { hello(name: \"x\") add(a: 1, b: 2) }\n" +
				"query C($n: String) { hello(name: $n) items { label(prefix: $n) } }"
		}
		exe, perr := root.ParseExecutableString(text)
		if perr != nil || exe == nil {
			continue
		}
		printed0 := exeCanonText(exe)
		var hist []map[string]interface{}
		ops := []string{""}
		for name := range exe.Ops {
			ops = append(ops, name)
		}
		sort.Strings(ops)
		for j, k := 0, 2+r.Intn(4); j < k; j++ {
			op := ops[r.Intn(len(ops))]
			vars := map[string]interface{}{}
			for _, vn := range []string{"n", "s", "a", "x"} {
				if r.Intn(2) == 0 {
					vars[vn] = []interface{}{"str", true, float64(r.Intn(5)), nil}[r.Intn(4)]
				}
			}
			hist = append(hist, map[string]interface{}{"op": op, "vars": vars})
			got := resolveZoo(root, exe, op, vars)
			fresh, ferr := root.ParseExecutableString(text)
			if ferr != nil {
				break
			}
			want := resolveZoo(root, fresh, op, vars)
			steps++
			c.Count("zoo_calls_compared", 1)
			if got != want {
				c.Violation("c11-stale", map[string]interface{}{"backend": "reflection (zoo)", "document": text, "history": hist, "step": j, "reused_executable": got, "fresh_parse": want})
				break
			}
			if p := exeCanonText(exe); p != printed0 {
				c.Violation("c11-printed-form-changed", map[string]interface{}{"backend": "reflection (zoo)", "document": text, "history": hist, "step": j, "before": printed0, "after": p})
				break
			}
		}
		c.Eval("zoo|"+text+fmt.Sprint(hist), true)
	}
	steps += c11Menagerie(c)
	steps += c11SuppliedThenOmitted(c)
	c.Set("resolve_calls_compared", steps)
}

// c11Menagerie: one fragment on an interface, spread by several operations of one document under different concrete
// types (whose fields are covariant), resolved in random order on ONE parsed executable: anything the first resolution
// leaves behind on the shared request nodes (container type, field definition) shows up as a difference from a fresh parse.
func c11Menagerie(c *run.Ctx) int {
	n := c.N(300, 6000)
	steps := 0
	for i := 0; i < n && !c.TooMany(); i++ {
		r := c.Rand(900000 + i)
		s := gen.Menagerie(r)
		sdl := s.SDL(model.SDLOpts{})
		g := gen.Graph(r, s, gen.GraphOpts{NullProb: 4, PerType: 2})
		h, err := back.Build("reflect", s, sdl, g)
		if err != nil {
			c.Violation("c11-schema-rejected", map[string]interface{}{"sdl": sdl, "error": err.Error()})
			continue
		}
		f := func(n string, sels ...model.Sel) *model.Field { return &model.Field{Name: n, Sels: sels} }
		tn := func() model.Sel { return f("__typename") }
		cond := func(t string, sels ...model.Sel) model.Sel { return &model.Inline{Cond: t, Sels: sels} }
		pieces := []model.Sel{
			f("name"), tn(),
			f("friend", tn()),
			f("friend", cond("Cat", f("lives")), cond("Dog", f("barks")), f("name")),
			f("rival", tn(), f("name")),
			f("rival", f("friend", tn())),
			f("pals", tn(), f("friend", tn())),
		}
		if s.Type("Dog").Field("tag") != nil && s.Type("Cat").Field("tag") != nil {
			pieces = append(pieces, cond("Dog", f("tag")), cond("Cat", f("tag")))
		}
		var body []model.Sel
		used := map[string]bool{}
		for _, pi := range r.Perm(len(pieces))[:2+r.Intn(3)] {
			p := pieces[pi]
			k := ""
			if pf, isF := p.(*model.Field); isF {
				k = pf.Name
				if used[k] {
					pf = &model.Field{Name: pf.Name, Alias: fmt.Sprintf("k%d", pi), Sels: pf.Sels}
					p = pf
				}
				used[k] = true
			}
			body = append(body, p)
		}
		doc := &model.Doc{Frags: []*model.FragDef{{Name: "F", Cond: "Animal", Sels: body}}}
		roots := []string{"dog", "cat", "a1", "a2", "pets", "anyPet"}
		var opNames []string
		for oi, ri := range r.Perm(len(roots))[:2+r.Intn(3)] {
			name := fmt.Sprintf("Q%d", oi)
			opNames = append(opNames, name)
			doc.Ops = append(doc.Ops, &model.Op{Kind: "query", Name: name, Sels: []model.Sel{f(roots[ri], &model.Spread{Name: "F"})}})
		}
		text := doc.Print(model.LayoutN(i))
		exe, perr := h.Root.ParseExecutableString(text)
		if perr != nil {
			c.Violation("c11-parse", map[string]interface{}{"sdl": sdl, "document": text, "error": perr.Error()})
			continue
		}
		printed0 := exeCanonText(exe)
		var hist []string
		for j, k := 0, 3+r.Intn(4); j < k; j++ {
			op := opNames[r.Intn(len(opNames))]
			hist = append(hist, op)
			got := resolveExe(h, exe, op, nil)
			fresh, ferr := h.Root.ParseExecutableString(text)
			if ferr != nil {
				break
			}
			want := resolveExe(h, fresh, op, nil)
			steps++
			c.Count("menagerie_calls_compared", 1)
			if got.text() != want.text() {
				c.Violation("c11-stale", map[string]interface{}{"backend": "reflect", "sdl": sdl, "graph": describeGraph(g), "document": text, "history": hist, "step": j,
					"reused_executable": got.text(), "fresh_parse": want.text()})
				break
			}
			if p := exeCanonText(exe); p != printed0 {
				c.Violation("c11-printed-form-changed", map[string]interface{}{"document": text, "history": hist, "before": printed0, "after": p})
				break
			}
		}
		c.Eval("menagerie|"+text+fmt.Sprint(hist), true)
		c.Bucket("history_length", "menagerie")
		if i == 0 {
			c.Sample(map[string]interface{}{"document": text, "history_ops": hist, "backend": "reflect (menagerie)"})
		}
	}
	return steps
}

func resolveZoo(root *ggql.Root, exe *ggql.Executable, op string, vars map[string]interface{}) string {
	var res map[string]interface{}
	var err error
	pv, _ := run.Protect(func() { res, err = root.ResolveExecutable(exe, op, copyVars(vars)) })
	out := fmt.Sprintf("panic=%v data=", pv)
	if res != nil {
		out += ref.Render(ref.Canon(res["data"]))
	}
	if err != nil {
		for _, e := range ggql.FormErrorsResult(err) {
			em, _ := e.(map[string]interface{})
			out += fmt.Sprintf(" |%v@%v", em["message"], em["path"])
		}
	}
	return out
}

// ---------------------------------------------------------------- operations that differ in what they supply

type c11BoxRoot struct{}

func (r *c11BoxRoot) Resolve(field *ggql.Field, args map[string]interface{}) (interface{}, error) {
	switch field.Name {
	case "query", "inner", "mutation":
		return r, nil
	case "boxes":
		return []interface{}{r, r}, nil
	}
	return fmt.Sprintf("%s%v", field.Name, ref.Render(ref.Canon(args))), nil
}

const c11BoxSDL = `type Query { box(width: Int!, tag: String): String crate(width: Int!, height: Int! = 2): String inner: Query boxes: [Query] }`

// c11SuppliedThenOmitted: one document, several operations that supply DIFFERENT subsets of the arguments of the same
// fields (one of them leaves a required argument out, which is that operation's own error). The executable is parsed once
// and the operations are resolved in random order; every answer must equal the answer the same operation gets from a
// fresh parse on a FRESH root - what one resolution supplied or omitted is nothing the next one may inherit.
func c11SuppliedThenOmitted(c *run.Ctx) int {
	// meta-fields in a fragment shared by a query and a mutation (both root types implement the fragment's interface):
	// __schema and __type belong to the query root only, whichever operation walked the fragment first
	n := c11OpsHistory(c, "meta-fields-in-a-fragment-shared-by-query-and-mutation",
		`interface Node { id: String } type Query implements Node { id: String inner: Query } type Mutation implements Node { id: String set: String }`,
		`query Q { ...F id }
mutation M { ...F set }
query Q2 { inner { ...F } }
mutation M2 { set ...G }
query Q3 { ...G }
fragment F on Node { id __typename __type(name: "Query") { name } __schema { queryType { name } } }
fragment G on Node { t: __typename ... on Node { __schema { mutationType { name } } } }`,
		[]c11Op{{"Q", nil}, {"M", nil}, {"Q2", nil}, {"M2", nil}, {"Q3", nil}})
	doc := `query Given { box(width: 3, tag: "t") inner { crate(width: 1, height: 5) } boxes { box(width: 4) } }
query Missing { box(tag: "only") inner { crate(height: 7) } boxes { box(tag: "z") } }
query Partly($w: Int) { box(width: $w) inner { crate(width: 2) } }
query Plain { inner { inner { boxes { crate(width: 9) } } } }`
	ops := []c11Op{{"Given", nil}, {"Missing", nil}, {"Partly", map[string]interface{}{"w": 6}}, {"Partly", nil}, {"Plain", nil}}
	return n + c11OpsHistory(c, "operations-supplying-different-arguments", c11BoxSDL, doc, ops)
}

type c11Op struct {
	name string
	vars map[string]interface{}
}

// c11OpsHistory: the operations of one parsed document resolved in random order on one root; every answer must equal the
// answer the same operation gets from a fresh parse on a fresh root.
func c11OpsHistory(c *run.Ctx, tag, sdl, doc string, ops []c11Op) int {
	mk := func() (*ggql.Root, *ggql.Executable, error) {
		root := ggql.NewRoot(&c11BoxRoot{})
		if err := root.ParseString(sdl); err != nil {
			return nil, nil, err
		}
		exe, err := root.ParseExecutableString(doc)
		return root, exe, err
	}
	run1 := func(root *ggql.Root, exe *ggql.Executable, op string, vars map[string]interface{}) string {
		var res map[string]interface{}
		var err error
		pv, _ := run.Protect(func() { res, err = root.ResolveExecutable(exe, op, copyVars(vars)) })
		msgs := ""
		if err != nil {
			msgs = err.Error()
		}
		return fmt.Sprintf("data=%s errors=%s panic=%v", ref.Render(ref.Canon(res["data"])), msgs, pv)
	}
	alone := make([]string, len(ops))
	for i, o := range ops {
		root, exe, err := mk()
		if err != nil {
			c.Violation("c11-parse", map[string]interface{}{"document": doc, "error": err.Error()})
			return 0
		}
		alone[i] = run1(root, exe, o.name, o.vars)
	}
	done := 0
	n := c.N(60, 1500)
	for i := 0; i < n && !c.TooMany(); i++ {
		r := c.Rand(1200000 + i)
		root, exe, err := mk()
		if err != nil {
			return done
		}
		var hist []string
		for step := 0; step < 3+r.Intn(5); step++ {
			oi := r.Intn(len(ops))
			e := exe
			if r.Intn(3) == 0 {
				// a fresh parse on the SAME root: the root itself must not remember either
				if e2, perr := root.ParseExecutableString(doc); perr == nil {
					e = e2
				}
			}
			got := run1(root, e, ops[oi].name, ops[oi].vars)
			hist = append(hist, fmt.Sprintf("%s %v", ops[oi].name, ops[oi].vars))
			done++
			c.Count("calls_compared", 1)
			if got != alone[oi] {
				c.Violation("c11-stale", map[string]interface{}{"sdl": sdl, "document": doc, "history": hist, "step": step, "after_the_history": got, "on_a_fresh_root": alone[oi]})
				break
			}
		}
		c.Eval(tag+"|"+strings.Join(hist, "|"), true)
		c.Bucket("history_length", tag)
	}
	return done
}
