package checks

import (
	"fmt"
	"math/rand"
	"os"
	"os/exec"
	"path/filepath"
	"sort"
	"strings"

	"github.com/uhn/ggql/pkg/ggql"

	"verif/internal/extract"
	"verif/internal/gen"
	"verif/internal/model"
	"verif/internal/ref"
	"verif/internal/run"
)

func init() {
	register(&Check{ID: "C16", Level: "exploration", Run: runC16})
}

// defItem is one definition of a definition set: a type, a directive or the schema block.
type defItem struct {
	name   string
	text   string   // SDL of the base definition
	exts   []string // extend blocks belonging to it (must come after it)
	late   bool     // the extend blocks may arrive in a later load (they add nothing an intermediate schema needs)
	deps   []string // names of types / "@directives" it refers to
	isType bool
	final  *model.TypeDef // the type as it stands once base and extensions are merged (members in merge order)
}

func typeDeps(t *model.TypeDef) []string {
	seen := map[string]bool{}
	add := func(n string) {
		if !model.IsBuiltinScalar(n) && n != t.Name {
			seen[n] = true
		}
	}
	dirs := func(us []model.DirUse) {
		for _, u := range us {
			if u.Name != "deprecated" && u.Name != "go" {
				seen["@"+u.Name] = true
			}
		}
	}
	dirs(t.Dirs)
	for _, f := range t.Fields {
		add(f.Type.Base())
		dirs(f.Dirs)
		for _, a := range f.Args {
			add(a.Type.Base())
			dirs(a.Dirs)
		}
	}
	for _, i := range t.Interfaces {
		add(i)
	}
	for _, m := range t.Members {
		add(m)
	}
	for _, v := range t.Values {
		dirs(v.Dirs)
	}
	for _, f := range t.Inputs {
		add(f.Type.Base())
		dirs(f.Dirs)
	}
	var out []string
	for k := range seen {
		out = append(out, k)
	}
	sort.Strings(out)
	return out
}

// splitExtend moves some members of a type into an extend block (written with a body, the form ggql reads).
func splitExtend(r *rand.Rand, s *model.Schema, t *model.TypeDef, lateOK bool) (base *model.TypeDef, ext *model.TypeDef, late bool) {
	if lateOK && t.Kind == model.Object && len(t.Interfaces) > 0 && r.Intn(2) == 0 {
		// `implements I` together with the fields only I asks for arrives as a later extension. The base must be a valid
		// type on its own and every intermediate schema valid, so this is only done when no field or argument anywhere is
		// typed by I (then nothing can rely on t being an I) and the base keeps at least one field.
		in := t.Interfaces[len(t.Interfaces)-1]
		usedAsType := false
		for _, ot := range s.Types {
			for _, f := range ot.Fields {
				if f.Type.Base() == in {
					usedAsType = true
				}
			}
		}
		if it := s.Type(in); it != nil && !usedAsType {
			var keep, move []*model.FieldDef
			for _, f := range t.Fields {
				onlyIn := it.Field(f.Name) != nil
				for _, other := range t.Interfaces[:len(t.Interfaces)-1] {
					if oi := s.Type(other); oi != nil && oi.Field(f.Name) != nil {
						onlyIn = false
					}
				}
				if onlyIn {
					move = append(move, f)
				} else {
					keep = append(keep, f)
				}
			}
			if len(keep) > 0 && len(move) > 0 {
				b, e := *t, *t
				e.Desc, e.Dirs = "", nil
				b.Interfaces, e.Interfaces = t.Interfaces[:len(t.Interfaces)-1], []string{in}
				b.Fields, e.Fields = keep, move
				return &b, &e, true
			}
		}
	}
	if lateOK && t.Kind == model.Object {
		// only own fields (not required by an implemented interface) move; the base stays a valid type on its own
		var own, req []*model.FieldDef
		for _, f := range t.Fields {
			inherited := false
			for _, in := range t.Interfaces {
				if it := s.Type(in); it != nil && it.Field(f.Name) != nil {
					inherited = true
				}
			}
			if inherited {
				req = append(req, f)
			} else {
				own = append(own, f)
			}
		}
		if len(own) >= 1 && len(req)+len(own) >= 2 && (len(req) > 0 || len(own) >= 2) {
			k := r.Intn(len(own))
			if len(req) == 0 && k == 0 {
				k = 1
			}
			b, e := *t, *t
			e.Desc, e.Dirs, e.Interfaces = "", nil, nil
			b.Fields = append(append([]*model.FieldDef{}, req...), own[:k]...)
			e.Fields = own[k:]
			if len(e.Fields) > 0 && len(b.Fields) > 0 {
				return &b, &e, true
			}
		}
		return t, nil, false
	}
	b0, e0 := splitExtendAny(r, t)
	return b0, e0, false
}

func splitExtendAny(r *rand.Rand, t *model.TypeDef) (base *model.TypeDef, ext *model.TypeDef) {
	b, e := *t, *t
	e.Desc, e.Dirs = "", nil
	e.Interfaces = nil
	switch t.Kind {
	case model.Object, model.Interface:
		if len(t.Fields) < 2 {
			return t, nil
		}
		k := 1 + r.Intn(len(t.Fields)-1)
		b.Fields, e.Fields = t.Fields[:k], t.Fields[k:]
		if t.Kind == model.Object && len(t.Interfaces) > 0 && r.Intn(2) == 0 {
			// move the last interface into the extension (all its fields must already be somewhere: they are)
			b.Interfaces, e.Interfaces = t.Interfaces[:len(t.Interfaces)-1], t.Interfaces[len(t.Interfaces)-1:]
		}
	case model.Enum:
		if len(t.Values) < 2 {
			return t, nil
		}
		k := 1 + r.Intn(len(t.Values)-1)
		b.Values, e.Values = t.Values[:k], t.Values[k:]
	case model.Input:
		if len(t.Inputs) < 2 {
			return t, nil
		}
		k := 1 + r.Intn(len(t.Inputs)-1)
		b.Inputs, e.Inputs = t.Inputs[:k], t.Inputs[k:]
	case model.Union:
		if len(t.Members) < 2 {
			return t, nil
		}
		k := 1 + r.Intn(len(t.Members)-1)
		b.Members, e.Members = t.Members[:k], t.Members[k:]
	default:
		return t, nil
	}
	if len(t.Dirs) > 0 && r.Intn(2) == 0 {
		b.Dirs, e.Dirs = nil, t.Dirs
	}
	return &b, &e
}

// c16Items builds the definition items of one arrangement; split selects which types get extend blocks.
func c16Items(r *rand.Rand, s *model.Schema, split bool, lateOK bool) []*defItem {
	o := model.SDLOpts{}
	var items []*defItem
	for _, d := range s.Dirs {
		it := &defItem{name: "@" + d.Name, text: model.DirSDL(d, o)}
		for _, a := range d.Args {
			if !model.IsBuiltinScalar(a.Type.Base()) {
				it.deps = append(it.deps, a.Type.Base())
			}
			for _, du := range a.Dirs {
				it.deps = append(it.deps, "@"+du.Name) // a directive used on the argument must be resolvable when this one arrives
			}
		}
		items = append(items, it)
	}
	for _, t := range s.Types {
		it := &defItem{name: t.Name, deps: typeDeps(t), isType: true}
		base, ext := t, (*model.TypeDef)(nil)
		if split && r.Intn(2) == 0 {
			base, ext, it.late = splitExtend(r, s, t, lateOK && r.Intn(2) == 0)
		}
		it.text = model.TypeSDL(base, o, false)
		it.final = t
		if ext != nil {
			// sometimes the extension itself arrives as two extend blocks
			e1, e2 := ext, (*model.TypeDef)(nil)
			if r.Intn(2) == 0 && len(ext.Interfaces) == 0 { // (an `implements` must arrive together with all the fields it asks for)
				a, b := *ext, *ext
				b.Interfaces, b.Dirs = nil, nil
				switch {
				case len(ext.Fields) >= 2:
					k := 1 + r.Intn(len(ext.Fields)-1)
					a.Fields, b.Fields = ext.Fields[:k], ext.Fields[k:]
					e1, e2 = &a, &b
				case len(ext.Values) >= 2:
					k := 1 + r.Intn(len(ext.Values)-1)
					a.Values, b.Values = ext.Values[:k], ext.Values[k:]
					e1, e2 = &a, &b
				case len(ext.Inputs) >= 2:
					k := 1 + r.Intn(len(ext.Inputs)-1)
					a.Inputs, b.Inputs = ext.Inputs[:k], ext.Inputs[k:]
					e1, e2 = &a, &b
				case len(ext.Members) >= 2:
					k := 1 + r.Intn(len(ext.Members)-1)
					a.Members, b.Members = ext.Members[:k], ext.Members[k:]
					e1, e2 = &a, &b
				}
			}
			// an extend block may carry a description of its own (ggql reads it); it describes the block, not the type: the
			// type's description is the one of its definition whatever the arrangement
			note := func() string {
				if r.Intn(3) == 0 {
					return fmt.Sprintf("\"what extension %d adds\"\n", r.Intn(100))
				}
				return ""
			}
			it.exts = append(it.exts, note()+model.TypeSDL(e1, o, true))
			if e2 != nil {
				it.exts = append(it.exts, note()+model.TypeSDL(e2, o, true))
			}
			m := *base
			m.Fields = append(append([]*model.FieldDef{}, base.Fields...), ext.Fields...)
			m.Interfaces = append(append([]string{}, base.Interfaces...), ext.Interfaces...)
			m.Values = append(append([]*model.EnumVal{}, base.Values...), ext.Values...)
			m.Inputs = append(append([]*model.ArgDef{}, base.Inputs...), ext.Inputs...)
			m.Members = append(append([]string{}, base.Members...), ext.Members...)
			m.Dirs = append(append([]model.DirUse{}, base.Dirs...), ext.Dirs...)
			it.final = &m
		}
		items = append(items, it)
	}
	if !s.ExplicitSchema && s.Mutation != "" && s.Mutation != "Mutation" {
		// the mutation root of an implicit schema given by an extension of the schema
		items = append(items, &defItem{name: "extend-schema", text: "extend schema {\n  mutation: " + s.Mutation + "\n}\n", deps: []string{s.Mutation, s.Query}})
	}
	if s.ExplicitSchema {
		it := &defItem{name: "schema", text: s.SchemaBlockSDL(o)}
		for _, n := range []string{s.Query, s.Mutation, s.Subscription} {
			if n != "" {
				it.deps = append(it.deps, n)
			}
		}
		if split && s.Mutation != "" && r.Intn(2) == 0 {
			cp := *s
			cp.Mutation = ""
			cp.SchemaDesc = s.SchemaDesc
			it.text = cp.SchemaBlockSDL(o)
			it.exts = append(it.exts, "extend schema {\n  mutation: "+s.Mutation+"\n}\n")
		}
		items = append(items, it)
	}
	return items
}

// arrangement is a list of successive loads (documents).
type arrangement struct {
	how   string
	loads []string
	final *model.Schema     // the definition set with every type's members in the order the arrangement merges them (nil: as given)
	files map[string]string // when set: one Root.ParseFS call over these files instead of the loads
}

// mergedSchema is s with the types replaced by the items' merged forms.
func mergedSchema(s *model.Schema, items []*defItem) *model.Schema {
	cp := *s
	cp.Types = nil
	for _, it := range items {
		if it.isType && it.final != nil {
			cp.Types = append(cp.Types, it.final)
		}
	}
	cp.Reindex()
	return &cp
}

func c16Arrange(r *rand.Rand, s *model.Schema, mode int) arrangement {
	switch mode {
	case 0: // the definition order of the model, one document
		items := c16Items(r, s, false, false)
		var b strings.Builder
		for _, it := range items {
			b.WriteString(it.text + "\n")
		}
		return arrangement{how: "original order, one document", loads: []string{b.String()}, final: nil}
	case 1: // random permutation, one document
		items := c16Items(r, s, false, false)
		r.Shuffle(len(items), func(i, j int) { items[i], items[j] = items[j], items[i] })
		var b strings.Builder
		for _, it := range items {
			b.WriteString(it.text + "\n")
		}
		return arrangement{how: "permutation, one document", loads: []string{b.String()}, final: nil}
	case 2: // members moved into extend blocks, permuted (an extend block anywhere after... ggql applies extends after all types of the document)
		items := c16Items(r, s, true, false)
		r.Shuffle(len(items), func(i, j int) { items[i], items[j] = items[j], items[i] })
		var parts []string
		for _, it := range items {
			parts = append(parts, it.text)
		}
		for _, it := range items {
			for _, e := range it.exts {
				// insert the extension at a random position
				k := r.Intn(len(parts) + 1)
				parts = append(parts[:k], append([]string{e}, parts[k:]...)...)
			}
		}
		return arrangement{how: "extend blocks, permuted, one document", loads: []string{strings.Join(parts, "\n")}, final: mergedSchema(s, items)}
	case 6: // the definitions (members also in extend blocks) spread over the files of a file system, loaded by one ParseFS call
		items := c16Items(r, s, true, false)
		nf := 2 + r.Intn(3)
		files := map[string]string{"readme.txt": "not a schema {"}
		put := func(text string) {
			fn := fmt.Sprintf("s%d.graphql", r.Intn(nf))
			files[fn] += text + "\n"
		}
		for _, it := range items {
			put(it.text)
			for _, e := range it.exts {
				put(e)
			}
		}
		// files as editors leave them: a byte order mark at the start of a file, a comment on the last line without a
		// line end after it
		for fn, text := range files {
			if fn == "readme.txt" {
				continue
			}
			if r.Intn(2) == 0 {
				text = strings.TrimRight(text, "\n") + "\n# end of " + fn
			}
			if r.Intn(2) == 0 {
				text = "\xef\xbb\xbf" + text
			}
			files[fn] = text
		}
		return arrangement{how: fmt.Sprintf("ParseFS over %d files", len(files)-1), files: files}
	case 5: // every definition in the first load, then each late extension as a load of its own (no new type arrives with it)
		items := c16Items(r, s, true, true)
		var first, later []string
		for _, it := range items {
			first = append(first, it.text)
			if !it.late {
				first = append(first, it.exts...)
			}
		}
		// the late extensions in a random order of their types; the blocks of one type keep their order (the expected
		// member order, arrangement.final, is base + first block + second block)
		for _, ii := range r.Perm(len(items)) {
			if items[ii].late {
				later = append(later, items[ii].exts...)
			}
		}
		return arrangement{how: fmt.Sprintf("%d successive loads: all definitions, then one extension per load", 1+len(later)), loads: append([]string{strings.Join(first, "\n")}, later...), final: mergedSchema(s, items)}
	default: // partition into 2-4 successive loads that keep references resolvable
		items := c16Items(r, s, mode == 4, true)
		nl := 2 + r.Intn(3)
		load := map[string]int{}
		for _, it := range items {
			load[it.name] = r.Intn(nl)
		}
		for changed := true; changed; {
			changed = false
			for _, it := range items {
				for _, d := range it.deps {
					if ld, has := load[d]; has && ld > load[it.name] {
						load[it.name] = ld
						changed = true
					}
				}
			}
			// mutual references (a type used by another one that it uses) end up in the same load by this fixpoint
			// the inverse direction: a dependency must not be later than its user; the loop above raises users only.
		}
		docs := make([][]string, nl)
		for _, it := range items {
			docs[load[it.name]] = append(docs[load[it.name]], it.text)
		}
		for _, it := range items {
			k := load[it.name] // same load as the base: ggql applies the extensions of a document after its types
			for _, e := range it.exts {
				if it.late {
					k += r.Intn(nl - k) // a second block of the same type never arrives before the first
				}
				docs[k] = append(docs[k], e)
			}
		}
		var loads []string
		for _, d := range docs {
			if len(d) == 0 {
				continue
			}
			r.Shuffle(len(d), func(i, j int) { d[i], d[j] = d[j], d[i] })
			// two extend blocks of one type keep their order (arrangement.final lists the members in that order)
			for _, it := range items {
				if len(it.exts) == 2 {
					i1, i2 := -1, -1
					for di, t := range d {
						if t == it.exts[0] {
							i1 = di
						}
						if t == it.exts[1] {
							i2 = di
						}
					}
					if i1 >= 0 && i2 >= 0 && i1 > i2 {
						d[i1], d[i2] = d[i2], d[i1]
					}
				}
			}
			loads = append(loads, strings.Join(d, "\n"))
		}
		how := fmt.Sprintf("%d successive loads", len(loads))
		if mode == 4 {
			how += " with extend blocks"
		}
		return arrangement{how: how, loads: loads, final: mergedSchema(s, items)}
	}
}

type c16Outcome struct {
	accepted bool
	err      string
	canon    string
	intro    string
	reqs     string
	ordered  string // the same arrangement loaded again must reproduce this byte for byte: printed SDL + introspection with lists in ggql's own order
}

func c16Run(a arrangement) c16Outcome {
	root := ggql.NewRoot(&c15Root{Query: &c15Obj{}, Mutation: &c15Obj{}, Subscription: &c15Obj{}})
	var out c16Outcome
	if a.files != nil {
		var err error
		pv, _ := run.Protect(func() {
			err = root.ParseFS(&faultyFS{files: a.files, failOpen: -1, failRead: -1, failClose: -1}, "*.graphql")
		})
		if pv != nil {
			out.err = fmt.Sprintf("ParseFS panics: %v", pv)
			return out
		}
		if err != nil {
			out.err = fmt.Sprintf("ParseFS: %v", err)
			return out
		}
	}
	for li, l := range a.loads {
		var err error
		pv, _ := run.Protect(func() { err = root.ParseString(l) })
		if pv != nil {
			out.err = fmt.Sprintf("load %d panics: %v", li, pv)
			return out
		}
		if err != nil {
			out.err = fmt.Sprintf("load %d: %v", li, err)
			return out
		}
	}
	c16Observe(root, &out)
	return out
}

// c16Observe reads an accepted root: canonical schema, introspection, printed text and the answers to root-level requests.
func c16Observe(root *ggql.Root, outp *c16Outcome) {
	out := c16Outcome{}
	defer func() { *outp = out }()
	out.accepted = true
	pv, _ := run.Protect(func() {
		s, err := extract.FromRoot(root)
		if err != nil {
			out.canon = "READBACK-ERROR " + err.Error()
		} else {
			out.canon = extract.Canon(s, extract.CanonOpts{FillDirDefaults: true, AsWritten: true})
		}
		res := root.ResolveString(c17FullQuery, "Full", map[string]interface{}{"dep": true})
		out.intro = ref.Render(sortIntro(ref.Canon(res["data"]))) + " errors=" + fmt.Sprint(res["errors"])
		out.ordered = root.SDL(false, true) + "\n" + ref.Render(ref.Canon(res["data"]))
		for _, q := range []string{`{ __typename }`, `mutation { __typename }`, `subscription { __typename }`, `{ __schema { queryType { name } mutationType { name } subscriptionType { name } } }`} {
			r2 := root.ResolveString(q, "", nil)
			out.reqs += q + " => " + ref.Render(ref.Canon(r2["data"])) + fmt.Sprint(r2["errors"]) + "\n"
		}
	})
	if pv != nil {
		out.canon = fmt.Sprintf("PANIC %v", pv)
	}
}

// c16GoAPI: the same definitions arriving partly as documents and partly as types built in Go (Root.AddTypes), in every
// order and split: the root operation types with the default names join the schema whichever way and whenever they come,
// and the root describes and answers the same as the root that read everything from one document.
func c16GoAPI(c *run.Ctx) {
	ref := func(n string) ggql.Type { return &ggql.Ref{Base: ggql.Base{N: n}} }
	obj := func(name, field, typ string) ggql.Type {
		o := &ggql.Object{Base: ggql.Base{N: name}}
		_ = o.AddField(&ggql.FieldDef{Base: ggql.Base{N: field}, Type: ref(typ)})
		return o
	}
	defs := []struct{ name, field, typ string }{{"Query", "a", "Int"}, {"Mutation", "b", "Thing"}, {"Subscription", "s", "Thing"}, {"Thing", "x", "Int"}}
	sdlOf := func(i int) string {
		return fmt.Sprintf("type %s {\n  %s: %s\n}\n", defs[i].name, defs[i].field, defs[i].typ)
	}
	all := ""
	for i := range defs {
		all += sdlOf(i)
	}
	refOut := c16Run(arrangement{how: "one document", loads: []string{all}})
	if !refOut.accepted {
		c.Violation("c16", map[string]interface{}{"diag": "the reference document was refused: " + refOut.err, "loads_a": []string{all}})
		return
	}
	for round := 0; round < c.N(40, 600); round++ {
		r := c.Rand(1700000 + round)
		// a random order of the four definitions, cut into one to four steps, each step a document or an AddTypes call;
		// Thing comes before the types that refer to it (a step must be loadable on its own)
		order := r.Perm(3)
		seq := []int{3}
		for _, k := range order {
			seq = append(seq, k)
		}
		if r.Intn(2) == 0 { // Query first, Thing second
			seq = []int{0, 3}
			for _, k := range order {
				if k != 0 {
					seq = append(seq, k)
				}
			}
		}
		root := ggql.NewRoot(&c15Root{Query: &c15Obj{}, Mutation: &c15Obj{}, Subscription: &c15Obj{}})
		var hist []string
		okAll := true
		for p := 0; p < len(seq) && okAll; {
			n := 1 + r.Intn(len(seq)-p)
			step := seq[p : p+n]
			p += n
			var err error
			if r.Intn(2) == 0 {
				text := ""
				for _, k := range step {
					text += sdlOf(k)
				}
				hist = append(hist, "ParseString: "+strings.ReplaceAll(text, "\n", " "))
				run.Protect(func() { err = root.ParseString(text) })
			} else {
				var ts []ggql.Type
				names := ""
				for _, k := range step {
					ts = append(ts, obj(defs[k].name, defs[k].field, defs[k].typ))
					names += defs[k].name + " "
				}
				hist = append(hist, "AddTypes: "+names)
				run.Protect(func() { err = root.AddTypes(ts...) })
			}
			if err != nil {
				c.Violation("c16", map[string]interface{}{"diag": "a well-formed step was refused: " + err.Error(), "history": hist})
				okAll = false
			}
			if okAll && r.Intn(3) == 0 {
				_ = root.ResolveString(`{ __schema { queryType { name } mutationType { name } } }`, "", nil)
				hist = append(hist, "(introspected)")
			}
		}
		if !okAll {
			continue
		}
		var out c16Outcome
		c16Observe(root, &out)
		c.Eval("go-api|"+strings.Join(hist, "|"), true)
		c.Bucket("arrangement", "documents-and-AddTypes-mixed")
		c.Count("arrangements_loaded", 1)
		diag := ""
		switch {
		case out.canon != refOut.canon:
			diag = "canonical schema differs: " + firstDiff(refOut.canon, out.canon)
		case out.intro != refOut.intro:
			diag = "introspection answer differs: " + firstDiffLong(refOut.intro, out.intro)
		case out.reqs != refOut.reqs:
			diag = "request answers differ: " + firstDiff(refOut.reqs, out.reqs)
		}
		if diag != "" {
			c.Violation("c16", map[string]interface{}{"diag": diag, "arrangement_a": "one document", "arrangement_b": "documents and AddTypes calls mixed", "loads_a": []string{all}, "history": hist})
		}
	}
}

// sortIntro sorts every list of maps that carries a "name" by that name (the spec gives these lists no order).
func sortIntro(v interface{}) interface{} { return sortIntroAt(v, "") }

// sortIntroAt: member lists (fields, args, enumValues, inputFields, interfaces, locations) follow the order of definition
// and extension and are sorted by name before comparing; the lists ggql orders itself (types, possibleTypes, directives:
// by rank and name) must come out in the same order whatever the arrangement and are left as they are.
func sortIntroAt(v interface{}, key string) interface{} {
	switch t := v.(type) {
	case map[string]interface{}:
		o := map[string]interface{}{}
		for k, e := range t {
			o[k] = sortIntroAt(e, k)
		}
		return o
	case []interface{}:
		o := make([]interface{}, len(t))
		for i, e := range t {
			o[i] = sortIntroAt(e, key)
		}
		if key == "types" || key == "possibleTypes" || key == "directives" {
			return o
		}
		named := len(o) > 0
		for _, e := range o {
			m, isM := e.(map[string]interface{})
			if !isM {
				named = false
				break
			}
			if _, has := m["name"].(string); !has {
				named = false
				break
			}
		}
		if named {
			sort.SliceStable(o, func(i, j int) bool {
				return o[i].(map[string]interface{})["name"].(string) < o[j].(map[string]interface{})["name"].(string)
			})
		} else {
			allStr := len(o) > 0
			for _, e := range o {
				if _, isS := e.(string); !isS {
					allStr = false
				}
			}
			if allStr {
				sort.SliceStable(o, func(i, j int) bool { return o[i].(string) < o[j].(string) })
			}
		}
		return o
	}
	return v
}

func runC16(c *run.Ctx) {
	c.Rule = "one generated well-formed definition set is loaded in up to 14 arrangements: model order; random permutations; members (fields, values, input fields, union members, interfaces, type directives, the mutation root) " +
		"moved into extend blocks; partitions into 2-4 successive loads that keep references resolvable, with and without extend blocks; sets are steered to directive uses before/after their definition with defaulted " +
		"arguments, a type and a directive sharing a name, root operation types arriving in later loads, explicit and extended schema blocks. Oracle: all arrangements accept or all reject; canonical schemas equal " +
		"(after filling directive-argument defaults, the normalisation the statement allows); the full introspection answer equal with name-keyed lists; a fixed request set equal. Non-trivial = the set has >= 6 definitions; distinct by SDL"
	n := c.N(200, 6000)
	c.MinNontriv = n / 10
	ggql.Sort = true
	defer func() { ggql.Sort = false }()
	open := map[string]bool{"K-C16-type-dir-same-name": c.Open("K-C16-type-dir-same-name"), "K-C16-late-root-type": c.Open("K-C16-late-root-type")}
	_ = open
	for i := 0; i < n && !c.TooMany(); i++ {
		r := c.Rand(i)
		ms := gen.TypeSchema(r, gen.TypeOpts{Directives: true, CustomRoots: i%3 == 0, Small: i%2 == 0, NastyStrings: false})
		sameName := false
		if i%5 == 0 && len(ms.Dirs) > 0 {
			// a type and a directive sharing a name
			ms.Types = append(ms.Types, &model.TypeDef{Kind: model.Object, Name: ms.Dirs[0].Name, Fields: []*model.FieldDef{{Name: "a", Type: model.Named("Int")}}})
			// ... and the type is USED as a type (the reference may be read while only the directive of that name is known)
			if qt := ms.Type(ms.Query); qt != nil {
				qt.Fields = append(qt.Fields, &model.FieldDef{Name: "zzSameName", Type: model.ListOf(model.Named(ms.Dirs[0].Name))})
			}
			ms.Reindex()
			sameName = true
		}
		if i%4 == 1 && !ms.ExplicitSchema && ms.Mutation == "Mutation" {
			// implicit schema whose mutation root has a custom name and is attached by `extend schema`
			if mt := ms.Type("Mutation"); mt != nil {
				mt.Name = "MutZz"
				ms.Mutation = "MutZz"
				ms.Reindex()
				c.Bucket("steering", "extend-implicit-schema")
			}
		}
		if i%6 == 2 {
			// names that differ only in the case of their letters are different names: a second object / enum / scalar / input
			// and a second directive spelled like an existing one in the other case
			seen := map[model.Kind]bool{}
			for _, t := range append([]*model.TypeDef{}, ms.Types...) {
				if seen[t.Kind] || t.Name == ms.Query || t.Name == ms.Mutation || t.Name == ms.Subscription || t.Kind == model.Union || t.Kind == model.Interface {
					continue
				}
				alt := strings.ToUpper(t.Name)
				if alt == t.Name {
					alt = strings.ToLower(t.Name)
				}
				if alt == t.Name || ms.Type(alt) != nil || model.IsBuiltinScalar(alt) {
					continue
				}
				cp := *t
				cp.Name = alt
				ms.Types = append(ms.Types, &cp)
				seen[t.Kind] = true
			}
			if len(ms.Dirs) > 0 {
				cp := *ms.Dirs[0]
				cp.Name = strings.ToUpper(cp.Name[:1]) + cp.Name[1:]
				dup := false
				for _, d := range ms.Dirs {
					dup = dup || d.Name == cp.Name
				}
				if !dup {
					ms.Dirs = append(ms.Dirs, &cp)
				}
			}
			ms.Reindex()
			c.Bucket("steering", "names-differing-in-case-only")
		}
		illFormed := ""
		if i%5 == 3 {
			// an ill-formed set: every arrangement must refuse it (the offending member may sit in an extension of a later load)
			muts := gen.SchemaMutations()
			mu := muts[r.Intn(len(muts))]
			if _, okm := mu.Apply(r, ms); okm {
				ms.Reindex()
				if len(ref.CheckSchema(ms)) > 0 {
					illFormed = mu.Rule
					c.Bucket("steering", "ill-formed:"+mu.Rule)
				}
			}
		}
		key := ms.SDL(model.SDLOpts{})
		c.Eval(key, len(ms.Types)+len(ms.Dirs) >= 6)
		if illFormed == "" && i%2 == 0 {
			// an extension that makes an already loaded, valid type ill-formed: refused in one document, so it must be
			// refused as a later load too
			if ext, what := c16BadExtension(r, ms); ext != "" {
				one := c16Run(arrangement{how: "one document", loads: []string{key + "\n" + ext}, final: nil})
				two := c16Run(arrangement{how: "base, then the extension", loads: []string{key, ext}, final: nil})
				c.Bucket("steering", "late-ill-formed-extension:"+what)
				c.Count("arrangements_loaded", 2)
				if one.accepted != two.accepted {
					c.Violation("c16", map[string]interface{}{"diag": fmt.Sprintf("acceptance differs for an ill-formed extension (%s): one document accepted=%v (%s), as a later load accepted=%v (%s)",
						what, one.accepted, clip(one.err, 200), two.accepted, clip(two.err, 200)), "same_name_type_and_directive": sameName, "ill_formed_rule": what,
						"arrangement_a": "one document", "arrangement_b": "base, then the extension", "loads_a": []string{key + "\n" + ext}, "loads_b": []string{key, ext}})
					continue
				}
			}
		}
		var first *c16Outcome
		var firstArr arrangement
		modes := []int{0, 1, 1, 2, 2, 3, 3, 3, 4, 4, 5, 6, 5, 6}
		for ai, mode := range modes {
			arr := c16Arrange(c.Rand(i*100+ai+1), ms, mode)
			out := c16Run(arr)
			if ai%3 == 2 && out.accepted {
				// determinism: the very same loads on another fresh root give the very same schema, member order included
				again := c16Run(arr)
				c.Count("arrangements_loaded_twice", 1)
				if again.ordered != out.ordered {
					c.Violation("c16-same-arrangement-differs", map[string]interface{}{"diag": "the same documents loaded in the same order on two fresh roots give different schemas: " + firstDiffLong(out.ordered, again.ordered),
						"arrangement_a": arr.how, "loads_a": arr.loads})
					break
				}
			}
			c.Bucket("arrangement", strings.SplitN(arr.how, ",", 2)[0])
			c.Count("arrangements_loaded", 1)
			if ai == 0 {
				first, firstArr = &out, arr
				if !out.accepted {
					c.Count("reference_arrangement_rejected", 1)
				}
				if i < 1 {
					c.Sample(map[string]interface{}{"definition_set": clip(key, 1000)})
				}
				continue
			}
			diag := ""
			switch {
			case out.accepted != first.accepted:
				diag = fmt.Sprintf("acceptance differs: %q accepted=%v (%s) but %q accepted=%v (%s)", firstArr.how, first.accepted, clip(first.err, 200), arr.how, out.accepted, clip(out.err, 200))
			case !out.accepted:
			case out.canon != first.canon:
				diag = "canonical schema differs: " + firstDiff(first.canon, out.canon)
			case out.intro != first.intro:
				diag = "introspection answer differs: " + firstDiffLong(first.intro, out.intro)
			case out.reqs != first.reqs:
				diag = "request answers differ: " + firstDiff(first.reqs, out.reqs)
			}
			if diag == "" {
				continue
			}
			c.Violation("c16", map[string]interface{}{"diag": diag, "same_name_type_and_directive": sameName, "ill_formed_rule": illFormed, "arrangement_a": firstArr.how, "arrangement_b": arr.how,
				"loads_a": firstArr.loads, "loads_b": arr.loads})
			break
		}
	}
	c16GoAPI(c)
	c16SameNameLoads(c)
	c16Ggqlgen(c)
}

// c16BadExtension writes an extend block that breaks a type-system rule on a type of the (well-formed) set.
func c16BadExtension(r *rand.Rand, s *model.Schema) (string, string) {
	all := badExtensions(s)
	if len(all) == 0 {
		return "", ""
	}
	b := all[r.Intn(len(all))]
	return b.text, b.what
}

type badExt struct{ text, what, offender string }

// badExtensions lists extend blocks each of which breaks one type-system rule on top of the well-formed set s. Some
// make the EXTENDED type ill-formed, others leave it fine and break a type that is not mentioned at all (an interface
// gaining a field its implementers lack).
func badExtensions(s *model.Schema) []badExt {
	var objs, ifaces, inputs, unions, enums []*model.TypeDef
	for _, t := range s.Types {
		switch t.Kind {
		case model.Object:
			objs = append(objs, t)
		case model.Interface:
			ifaces = append(ifaces, t)
		case model.Input:
			inputs = append(inputs, t)
		case model.Union:
			unions = append(unions, t)
		case model.Enum:
			enums = append(enums, t)
		}
	}
	var out []badExt
	for _, o := range objs {
		for _, it := range ifaces {
			if !s.Implements(o.Name, it.Name) {
				missing := ""
				for _, f := range it.Fields {
					if o.Field(f.Name) == nil {
						missing = f.Name
					}
				}
				if missing != "" {
					out = append(out, badExt{fmt.Sprintf("extend type %s implements %s { extZz: Int }", o.Name, it.Name), "implements-without-fields", missing})
				}
			}
		}
		if len(inputs) > 0 {
			out = append(out, badExt{fmt.Sprintf("extend type %s { extZz: %s }", o.Name, inputs[0].Name), "input-type-in-field-position", "extZz"})
			out = append(out, badExt{fmt.Sprintf("extend input %s { extZz: %s }", inputs[0].Name, o.Name), "output-type-in-input-field-position", "extZz"})
		}
		out = append(out, badExt{fmt.Sprintf("extend type %s { __extZz: Int }", o.Name), "reserved-field-name", "__extZz"})
		out = append(out, badExt{fmt.Sprintf("extend type %s { extZz(a: %s): Int }", o.Name, o.Name), "output-type-in-arg-position", "extZz"})
		if len(o.Fields) > 0 {
			out = append(out, badExt{fmt.Sprintf("extend type %s { %s: Int }", o.Name, o.Fields[0].Name), "duplicate-field", o.Fields[0].Name})
		}
	}
	if len(unions) > 0 && len(enums) > 0 {
		out = append(out, badExt{fmt.Sprintf("extend union %s = %s", unions[0].Name, enums[0].Name), "union-non-object-member", enums[0].Name})
	}
	for _, e := range enums {
		if len(e.Values) > 0 {
			out = append(out, badExt{fmt.Sprintf("extend enum %s { %s }", e.Name, e.Values[0].Name), "duplicate-enum-value", e.Values[0].Name})
		}
	}
	for _, it := range ifaces {
		if len(s.PossibleTypes(it.Name)) > 0 {
			// the interface stays well-formed; its implementers, which the document never mentions, no longer conform
			out = append(out, badExt{fmt.Sprintf("extend interface %s { extIfaceZz: Int }", it.Name), "interface-gains-field-implementers-lack", "extIfaceZz"})
			if len(it.Fields) > 0 {
				f := it.Fields[0]
				out = append(out, badExt{fmt.Sprintf("extend interface %s { %s: Int }", it.Name, f.Name), "duplicate-interface-field", f.Name})
			}
		}
	}
	// the same rules hold for members a document adds to ggql's own introspection types
	out = append(out,
		badExt{"extend type __Type { __secretZz: Int }", "reserved-field-name-on-builtin-type", "__secretZz"},
		badExt{"extend type __Field { extZz(__dZz: Int): String }", "reserved-argument-name-on-builtin-type", "__dZz"},
		badExt{"extend enum __TypeKind { __XZz }", "reserved-enum-value-on-builtin-enum", "__XZz"},
		badExt{"extend type __Schema { extZz: NopeTypeZz }", "undefined-type-on-builtin-type", "NopeTypeZz"},
		badExt{"extend type __InputValue { name: Int }", "duplicate-field-on-builtin-type", "name"},
	)
	return out
}

func firstDiffLong(a, b string) string {
	i := 0
	for i < len(a) && i < len(b) && a[i] == b[i] {
		i++
	}
	lo := i - 120
	if lo < 0 {
		lo = 0
	}
	hiA, hiB := i+200, i+200
	if hiA > len(a) {
		hiA = len(a)
	}
	if hiB > len(b) {
		hiB = len(b)
	}
	return fmt.Sprintf("...%s\n   vs\n...%s", a[lo:hiA], b[lo:hiB])
}

// c16Ggqlgen: the ggqlgen tool reads the schema files it is given as ONE set of definitions (release 1.2.13): stubs come
// out the same whatever the order of the files on the command line, also when a file refers to a type a later file
// defines, and also when -e / -w are given next to -s.
func c16Ggqlgen(c *run.Ctx) {
	bin := filepath.Join(run.VerifDir(), "bin", "ggqlgen")
	if _, err := os.Stat(bin); err != nil {
		c.Inconclusive("ggqlgen binary not built")
		return
	}
	work := filepath.Join(run.VerifDir(), ".work", fmt.Sprintf("c16-%d", os.Getpid()))
	_ = os.MkdirAll(work, 0o755)
	defer os.RemoveAll(work)
	files := map[string]string{
		"a.graphql": "type Query {\n  user: User\n  kinds: [Kind]\n}\n",
		"b.graphql": "type User implements Named {\n  name: String\n  friend: User\n  kind: Kind\n}\n",
		"c.graphql": "interface Named {\n  name: String\n}\n\nenum Kind {\n  ONE\n  TWO\n}\n\ninput Filter {\n  kind: Kind\n}\n",
	}
	for name, text := range files {
		_ = os.WriteFile(filepath.Join(work, name), []byte(text), 0o644)
	}
	orders := [][]string{{"a.graphql", "b.graphql", "c.graphql"}, {"c.graphql", "b.graphql", "a.graphql"}, {"b.graphql", "a.graphql", "c.graphql"}, {"b.graphql", "c.graphql", "a.graphql"}}
	listing := func(dir string) string {
		var names []string
		es, _ := os.ReadDir(dir)
		for _, e := range es {
			b, _ := os.ReadFile(filepath.Join(dir, e.Name()))
			names = append(names, fmt.Sprintf("%s(%d bytes)", e.Name(), len(b)))
		}
		sort.Strings(names)
		return strings.Join(names, " ")
	}
	for _, extra := range []string{"", "-e", "-w"} {
		first := ""
		for oi, order := range orders {
			stub := filepath.Join(work, fmt.Sprintf("stubs-%s-%d", strings.TrimPrefix(extra, "-"), oi))
			_ = os.MkdirAll(stub, 0o755)
			args := []string{"-s", stub, "-p", "stubs"}
			var paths []string
			for _, f := range order {
				// -w rewrites its file: every run works on copies of its own
				p := filepath.Join(stub, "in-"+f)
				_ = os.WriteFile(p, []byte(files[f]), 0o644)
				paths = append(paths, p)
			}
			switch extra {
			case "-e":
				args = append(args, "-e", paths[0]+":"+filepath.Join(stub, "embed.go")+":Schema")
			case "-w":
				// the file named by -w is an input file as well: it is not listed a second time
				args = append(args, "-w", paths[0])
				paths = paths[1:]
			}
			args = append(args, paths...)
			out, err := exec.Command(bin, args...).CombinedOutput()
			c.Eval(fmt.Sprintf("ggqlgen|%s|%v", extra, order), true)
			c.Bucket("arrangement", "ggqlgen-file-order")
			c.Count("arrangements_loaded", 1)
			if err != nil {
				c.Violation("c16", map[string]interface{}{"diag": fmt.Sprintf("ggqlgen -s %s with the files in the order %v failed: %v: %s", extra, order, err, clip(string(out), 400)), "files": files})
				break
			}
			for _, f := range order {
				_ = os.Remove(filepath.Join(stub, "in-"+f))
			}
			_ = os.Remove(filepath.Join(stub, "embed.go"))
			got := listing(stub)
			if oi == 0 {
				first = got
			} else if got != first {
				c.Violation("c16", map[string]interface{}{"diag": fmt.Sprintf("ggqlgen -s %s: the stubs differ with the order of the files: %v gives [%s], %v gives [%s]", extra, orders[0], first, order, got), "files": files})
				break
			}
		}
	}
}
