package checks

import (
	"fmt"
	"sort"
	"strings"

	"verif/internal/ref"
	"verif/internal/run"
	"verif/internal/zoo"

	"github.com/uhn/ggql/pkg/ggql"
)

// zooTwin serves zoo's schema with interface resolvers only: every object is the twin itself, leaf fields answer null. It
// exists for requests whose fields must not be resolved at all (an argument that can not be coerced); it counts calls.
type zooTwin struct{ calls []string }

func (z *zooTwin) Resolve(field *ggql.Field, args map[string]interface{}) (interface{}, error) {
	switch field.Name {
	case "query", "mutation":
		return z, nil
	}
	z.calls = append(z.calls, field.Name)
	return nil, nil
}

func respErrPaths(res map[string]interface{}) []string {
	var out []string
	es, _ := res["errors"].([]interface{})
	for _, e := range es {
		em, _ := e.(map[string]interface{})
		p, _ := em["path"].([]interface{})
		q, _ := stripFragSegs(p)
		out = append(out, pathKey(q))
	}
	sort.Strings(out)
	return out
}

// c02MethodArgErrors: a field served by a Go METHOD found by reflection and the same field served by an interface resolver
// answer a request whose argument can not be coerced the same way: same data, same error paths (the path of such an error
// ends with the argument's name), and neither the method nor the resolver is invoked for the field. The arguments are
// written as literals of the wrong kind, as variables of the wrong declared type and as Int values beyond 32 bits; valid
// sibling fields are answered by both.
func c02MethodArgErrors(c *run.Ctx) {
	type site struct {
		op, field, sub string
		args           []string // names; all Int unless noted
		kinds          map[string]string
		counter        string
	}
	sites := []site{
		{op: "query", field: "add", args: []string{"a", "b"}, counter: "Query.Add"},
		{op: "mutation", field: "diff", args: []string{"a", "b"}, counter: "Mutation.Minus"},
		{op: "query", field: "hello", args: []string{"name"}, kinds: map[string]string{"name": "String"}, counter: "Query.Hello"},
		{op: "query", field: "label", args: []string{"prefix", "upper"}, kinds: map[string]string{"prefix": "String", "upper": "Boolean"}},
		{op: "query", field: "pick", sub: " { id }", args: []string{"i"}},
		{op: "mutation", field: "bump", args: []string{"by"}},
		{op: "query", field: "shout", args: []string{"word", "times"}, kinds: map[string]string{"word": "String"}},
		{op: "mutation", field: "sub", args: []string{"a", "b"}},
	}
	good := map[string]string{"Int": "3", "String": `"s"`, "Boolean": "true"}
	bad := map[string][]string{
		"Int":     {`"zz"`, "true", "1.5", "2147483648", "-2147483649", "[1, 2]", "{a: 1}", "RED"},
		"String":  {"true", "[1]", "{a: 1}"},
		"Boolean": {"3", `"yes"`, "[true, false]", "1.0"},
	}
	n := c.N(400, 6000)
	for i := 0; i < n && !c.TooMany(); i++ {
		r := c.Rand(4500000 + i)
		s := sites[r.Intn(len(sites))]
		root, _, late, err := zoo.NewRootLate()
		if err == nil {
			err = late()
		}
		if err != nil {
			c.Violation("c02-zoo-schema", map[string]interface{}{"error": err.Error()})
			return
		}
		tw := &zooTwin{}
		twin := ggql.NewRoot(tw)
		if err = twin.ParseString(zoo.SDL); err != nil {
			c.Violation("c02-zoo-schema", map[string]interface{}{"error": "twin: " + err.Error()})
			return
		}
		kindOf := func(a string) string {
			if k := s.kinds[a]; k != "" {
				return k
			}
			return "Int"
		}
		victim := s.args[r.Intn(len(s.args))]
		vk := kindOf(victim)
		var parts, vdefs []string
		vars := map[string]interface{}{}
		form := "literal"
		for _, a := range s.args {
			if a != victim {
				parts = append(parts, a+": "+good[kindOf(a)])
				continue
			}
			switch r.Intn(4) {
			case 0:
				// a variable whose declared type does not fit the argument (the value fits the variable)
				form = "variable-of-another-type"
				other := map[string]string{"Int": "Boolean", "String": "Boolean", "Boolean": "Int"}[vk]
				vdefs = append(vdefs, "$v: "+other)
				vars["v"] = map[string]interface{}{"Boolean": true, "Int": 3}[other]
				parts = append(parts, a+": $v")
			case 1:
				// a variable default of the wrong kind is what the argument gets when the request leaves the variable out
				// (the variable is declared with a list type so that the default itself is acceptable)
				form = "variable-default-list"
				vdefs = append(vdefs, "$v: [Int] = [1, 2]")
				parts = append(parts, a+": $v")
			default:
				parts = append(parts, a+": "+bad[vk][r.Intn(len(bad[vk]))])
			}
		}
		r.Shuffle(len(parts), func(x, y int) { parts[x], parts[y] = parts[y], parts[x] })
		text := s.op
		if len(vdefs) > 0 {
			text += "(" + strings.Join(vdefs, ", ") + ")"
		}
		sibling := map[string]string{"query": "ok: __typename", "mutation": "ok: __typename"}[s.op]
		text += " { " + sibling + " r: " + s.field + "(" + strings.Join(parts, ", ") + ")" + s.sub + " }"
		before := int64(0)
		if s.counter != "" {
			before = zoo.CallCount(s.counter)
		}
		var a, b map[string]interface{}
		pa, _ := run.Protect(func() {
			if i%2 == 1 {
				// warm root: the method was bound by an earlier, valid request
				var gp []string
				for _, an := range s.args {
					gp = append(gp, an+": "+good[kindOf(an)])
				}
				_ = root.ResolveString(s.op+" { "+s.field+"("+strings.Join(gp, ", ")+")"+s.sub+" }", "", nil)
				if s.counter != "" {
					before = zoo.CallCount(s.counter)
				}
			}
			a = root.ResolveString(text, "", copyVars(vars))
		})
		pb, _ := run.Protect(func() { b = twin.ResolveString(text, "", copyVars(vars)) })
		c.Eval("method-argerr|"+text, true)
		c.Bucket("method_argument_error_form", form)
		c.Bucket("method_argument_error_field", s.field)
		c.Count("method_argument_errors_compared_with_interface_resolver", 1)
		diag := ""
		switch {
		case pa != nil || pb != nil:
			diag = fmt.Sprintf("panic: reflection %v / interface %v", pa, pb)
		case !ref.Equal(ref.Canon(a["data"]), ref.Canon(b["data"])):
			diag = "data differs"
		case strings.Join(respErrPaths(a), ";") != strings.Join(respErrPaths(b), ";"):
			diag = "error paths differ"
		case len(respErrPaths(b)) == 0:
			// both accepted the value: then the harness's idea of "can not be coerced" is wrong for this literal; nothing to compare
			c.Count("method_argument_accepted_by_both", 1)
		case len(tw.calls) != 0:
			diag = "the interface resolver was invoked for the field: " + fmt.Sprint(tw.calls)
		case s.counter != "" && zoo.CallCount(s.counter) != before:
			diag = "the Go method was invoked although its argument could not be coerced"
		}
		if diag != "" {
			c.Violation("c02-method-argerr", map[string]interface{}{"document": text, "vars": fmt.Sprint(vars), "diag": diag,
				"reflection_method": ref.Render(a), "interface_resolver": ref.Render(b)})
		}
	}
}

// ---- re-registration

type rrSchema struct{ Query *rrQuery }
type rrQuery struct {
	Dual  *rrDual
	Duals []*rrDual
}
type rrDual struct {
	Face  string
	Other string
}

func (d *rrDual) Fancy() string { return "fancy " + d.Face }
func (d *rrDual) Grand() string { return "grand " + d.Other }

const rrSDL = `type Query { dual: Dual duals: [Dual] }
type Dual { face: String other: String }
`

// c02Reregister: an explicit field registration is in force from the moment RegisterField accepts it, whatever the field
// was bound to before (by auto-discovery on an earlier request, or by an earlier registration; to a struct field or to a
// method, in either direction). Histories of {request, RegisterField(face -> Face | Other | Fancy() | Grand() | no such
// member)} on one root; oracle: the Go member named by the latest accepted registration (the auto-discovered struct field
// Face before any), read or called directly.
func c02Reregister(c *run.Ctx) {
	n := c.N(400, 6000)
	targets := []string{"Face", "Other", "Fancy", "Grand", "NoSuchMemberZz"}
	for i := 0; i < n && !c.TooMany(); i++ {
		r := c.Rand(4700000 + i)
		d1, d2 := &rrDual{Face: fmt.Sprintf("f%d", i), Other: "o1"}, &rrDual{Face: "g", Other: fmt.Sprintf("o%d", i)}
		root := ggql.NewRoot(&rrSchema{Query: &rrQuery{Dual: d1, Duals: []*rrDual{d2, d1}}})
		if err := root.ParseString(rrSDL); err != nil {
			c.Violation("c02-rr-schema", map[string]interface{}{"error": err.Error()})
			return
		}
		preReg := r.Intn(2) == 0
		if preReg {
			if err := root.RegisterType(&rrDual{}, "Dual"); err != nil {
				c.Violation("c02-rr-schema", map[string]interface{}{"error": err.Error()})
				return
			}
		}
		bound := "Face"
		val := func(d *rrDual) string {
			switch bound {
			case "Other":
				return d.Other
			case "Fancy":
				return d.Fancy()
			case "Grand":
				return d.Grand()
			}
			return d.Face
		}
		var hist []string
		typeKnown := preReg
		kinds := map[string]bool{}
		for step, steps := 0, 3+r.Intn(7); step < steps; step++ {
			if r.Intn(2) == 0 {
				t := targets[r.Intn(len(targets))]
				err := root.RegisterField("Dual", "face", t)
				hist = append(hist, fmt.Sprintf("RegisterField(Dual, face, %s) = %v", t, err))
				if !typeKnown {
					// no Go type is bound to Dual yet: the registration has nothing to look the member up on
					if err == nil {
						c.Violation("c02-reregister", map[string]interface{}{"history": hist, "diag": "a registration is accepted before any Go type is known for Dual"})
						break
					}
					continue
				}
				if t == "NoSuchMemberZz" {
					continue // refused or ignored, the binding in force stays
				}
				if err != nil {
					c.Violation("c02-reregister", map[string]interface{}{"history": hist, "diag": "the registration of an existing member is refused"})
					break
				}
				if (bound == "Face" || bound == "Other") != (t == "Face" || t == "Other") {
					kinds["field<->method"] = true
				}
				bound = t
				continue
			}
			text := []string{`{ dual { face other } }`, `{ duals { face } }`, `{ dual { face } duals { other face } }`}[r.Intn(3)]
			var res map[string]interface{}
			pv, _ := run.Protect(func() { res = root.ResolveString(text, "", nil) })
			typeKnown = true
			hist = append(hist, text)
			want := map[string]interface{}{}
			if strings.Contains(text, "dual {") {
				m := map[string]interface{}{"face": val(d1)}
				if strings.Contains(text, "face other") {
					m["other"] = d1.Other
				}
				want["dual"] = m
			}
			if strings.Contains(text, "duals {") {
				var l []interface{}
				for _, d := range []*rrDual{d2, d1} {
					m := map[string]interface{}{"face": val(d)}
					if strings.Contains(text, "other face") {
						m["other"] = d.Other
					}
					l = append(l, m)
				}
				want["duals"] = l
			}
			c.Count("requests_between_registrations", 1)
			if pv != nil || res["errors"] != nil || !ref.Equal(ref.Canon(res["data"]), ref.Canon(want)) {
				c.Violation("c02-reregister", map[string]interface{}{"history": hist, "diag": "the answer is not what the member registered last gives", "binding_in_force": bound,
					"expected": ref.Render(want), "response": ref.Render(res), "panic": fmt.Sprint(pv)})
				break
			}
		}
		c.Eval("reregister|"+strings.Join(hist, ";"), kinds["field<->method"])
		if kinds["field<->method"] {
			c.Count("histories_rebinding_between_struct_field_and_method", 1)
		}
	}
}
