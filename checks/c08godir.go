package checks

import (
	"fmt"
	"reflect"

	"verif/internal/ex.ample/beasts"
	"verif/internal/ref"
	"verif/internal/run"

	"github.com/uhn/ggql/pkg/ggql"
)

// c08GoDirectiveForms: the three documented spellings of @go(type:) - "<import path>.<Type>", "<package>.<Type>" and
// "<Type>" - bind a Go type whose name differs from the object type's, for types living in a package whose import path
// has dots in it (every real one does: github.com/..., gopkg.in/yaml.v2). Values of the types sit under an interface and
// under a union, on cold roots, first in the list or not; oracle: the type name and the fields of the concrete type, known
// from the Go values themselves.
func c08GoDirectiveForms(c *run.Ctx) {
	full := reflect.TypeOf(beasts.HairyOne{}).PkgPath()
	forms := func(goName string) []string {
		return []string{full + "." + goName, "beasts." + goName, goName}
	}
	n := c.N(120, 1500)
	for i := 0; i < n && !c.TooMany(); i++ {
		r := c.Rand(8300000 + i)
		yf, ef := forms("HairyOne")[i%3], forms("TallBird")[(i/3)%3]
		sdl := fmt.Sprintf(`interface Beast { name: String }
type Yak implements Beast @go(type: %q) { name: String hair: Int }
type Emu implements Beast @go(type: %q) { name: String speed: Int }
union Any = Yak | Emu
type Query { beasts: [Beast] any: [Any] beast: Beast one: Any }
`, yf, ef)
		y1, y2 := &beasts.HairyOne{Name: "yan", Hair: 7}, &beasts.HairyOne{Name: "yo", Hair: i}
		e1 := &beasts.TallBird{Name: "em", Speed: 50 + i}
		vals := []interface{}{y1, e1, y2}
		r.Shuffle(len(vals), func(a, b int) { vals[a], vals[b] = vals[b], vals[a] })
		q := &beasts.Query{Beasts: vals, Any: []interface{}{vals[2], vals[0], vals[1]}, Beast: vals[r.Intn(3)], One: vals[r.Intn(3)]}
		root := ggql.NewRoot(&beasts.Schema{Query: q})
		if i%4 == 3 {
			// the @go directives arrive LATER, through extend blocks of a second document, after the root has already
			// answered a request that met values of the (then unbound) Go types - whatever that request was answered
			first := (`interface Beast { name: String }
type Yak implements Beast { name: String hair: Int }
type Emu implements Beast { name: String speed: Int }
union Any = Yak | Emu
type Query { beasts: [Beast] any: [Any] beast: Beast one: Any }
`)
			second := fmt.Sprintf("extend type Yak @go(type: %q) { extra: Int }\nextend type Emu @go(type: %q) { extra: Int }\n", yf, ef)
			sdl = first + "# --- second document, loaded after a first request ---\n" + second
			err := root.ParseString(first)
			if err == nil {
				run.Protect(func() {
					_ = root.ResolveString(`{ beasts { __typename name } any { __typename } beast { name } }`, "", nil)
				})
				err = root.ParseString(second)
			}
			if err != nil {
				c.Violation("c08-godir-schema", map[string]interface{}{"error": err.Error(), "sdl": sdl})
				return
			}
			c.Count("roots_whose_go_directives_arrive_by_extension_after_a_first_request", 1)
		} else if err := root.ParseString(sdl); err != nil {
			c.Violation("c08-godir-schema", map[string]interface{}{"error": err.Error(), "sdl": sdl})
			return
		}
		want := func(v interface{}) interface{} {
			switch t := v.(type) {
			case *beasts.HairyOne:
				return map[string]interface{}{"__typename": "Yak", "name": t.Name, "hair": t.Hair}
			case *beasts.TallBird:
				return map[string]interface{}{"__typename": "Emu", "name": t.Name, "speed": t.Speed}
			}
			return nil
		}
		list := func(vs []interface{}) []interface{} {
			var o []interface{}
			for _, v := range vs {
				o = append(o, want(v))
			}
			return o
		}
		sel := `{ __typename ... on Yak { name hair } ... on Emu { name speed } }`
		reqs := []struct {
			text string
			exp  map[string]interface{}
		}{
			{`{ beasts ` + sel + ` }`, map[string]interface{}{"beasts": list(q.Beasts)}},
			{`{ any ` + sel + ` }`, map[string]interface{}{"any": list(q.Any)}},
			{`{ beast ` + sel + ` }`, map[string]interface{}{"beast": want(q.Beast)}},
			{`{ one ` + sel + ` }`, map[string]interface{}{"one": want(q.One)}},
		}
		// one or two requests per cold root, in varying order
		first := r.Intn(len(reqs))
		for k := 0; k < 1+i%2; k++ {
			rq := reqs[(first+k*(1+r.Intn(3)))%len(reqs)]
			var res map[string]interface{}
			pv, _ := run.Protect(func() { res = root.ResolveString(rq.text, "", nil) })
			c.Eval(fmt.Sprintf("godir|%s|%s|%s|%d", yf, ef, rq.text, k), true)
			c.Bucket("go_directive_form", []string{"import-path.Type", "package.Type", "Type"}[i%3])
			c.Count("go_directive_requests", 1)
			if pv != nil || res["errors"] != nil || !ref.Equal(ref.Canon(res["data"]), ref.Canon(rq.exp)) {
				c.Violation("c08-go-directive-form", map[string]interface{}{"sdl": sdl, "document": rq.text, "request_index_on_this_root": k,
					"expected": ref.Render(rq.exp), "response": ref.Render(res), "panic": fmt.Sprint(pv)})
				break
			}
		}
	}
}

// ---- a subscription whose abstract event type grows after the subscription was made

type gwDog struct {
	Name   string
	Tricks int
}
type gwCat struct {
	Name  string
	Lives int
}
type gwRock struct{ W int }
type gwGem struct{ C int }
type gwQuery struct{ A int }
type gwRoot struct {
	Query        *gwQuery
	Subscription *c08Subs
}

// c08SubscriptionGrowingType: a subscription field typed by an interface with ONE implementer (a union with one member) is
// subscribed to; then a later document adds a second implementer (extends the union); events of the new type are
// published. Each message reports the event's own concrete type - the subscription was made for the abstract type, not
// for whatever was its only possible type at that moment.
func c08SubscriptionGrowingType(c *run.Ctx) {
	const stage1 = `type Query { a: Int }
interface Pet { name: String }
type Dog implements Pet @go(type: "gwDog") { name: String tricks: Int }
type Rock @go(type: "gwRock") { w: Int }
union Thing = Rock
type Subscription { watch: Pet things: Thing pets: [Pet] }
`
	const stage2 = `type Cat implements Pet @go(type: "gwCat") { name: String lives: Int }
type Gem @go(type: "gwGem") { c: Int }
extend union Thing = Gem
`
	n := c.N(60, 600)
	for i := 0; i < n && !c.TooMany(); i++ {
		r := c.Rand(8400000 + i)
		subs := &c08Subs{}
		root := ggql.NewRoot(&gwRoot{Query: &gwQuery{}, Subscription: subs})
		if err := root.ParseString(stage1); err != nil {
			c.Violation("c08-grow-schema", map[string]interface{}{"error": err.Error()})
			return
		}
		field := []string{"watch", "things", "pets"}[i%3]
		sel := map[string]string{"watch": `{ __typename name ... on Dog { tricks } }`, "pets": `{ __typename name ... on Dog { tricks } }`, "things": `{ __typename ... on Rock { w } }`}[field]
		text := "subscription { " + field + " " + sel + " }"
		var hist []string
		hist = append(hist, text)
		res := root.ResolveString(text, "", nil)
		if res["errors"] != nil || subs.last == nil {
			c.Violation("c08-grow-schema", map[string]interface{}{"error": fmt.Sprint(res["errors"]), "document": text})
			return
		}
		sub := subs.last
		old := map[string]interface{}{"watch": &gwDog{Name: "rex", Tricks: i}, "pets": &gwDog{Name: "rex", Tricks: i}, "things": &gwRock{W: i}}[field]
		oldWant := map[string]interface{}{"watch": map[string]interface{}{"__typename": "Dog", "name": "rex", "tricks": i}, "things": map[string]interface{}{"__typename": "Rock", "w": i}}
		oldWant["pets"] = oldWant["watch"]
		newer := map[string]interface{}{"watch": &gwCat{Name: "tom", Lives: 9}, "pets": &gwCat{Name: "tom", Lives: 9}, "things": &gwGem{C: 3}}[field]
		newWant := map[string]interface{}{"watch": map[string]interface{}{"__typename": "Cat", "name": "tom"}, "things": map[string]interface{}{"__typename": "Gem"}}
		newWant["pets"] = newWant["watch"]
		publish := func(ev interface{}, want interface{}, what string) bool {
			if field == "pets" {
				ev, want = []interface{}{ev}, []interface{}{want}
			}
			before := len(sub.got)
			var aerr error
			pv, _ := run.Protect(func() { _, aerr = root.AddEvent("t", ev) })
			hist = append(hist, "AddEvent("+what+")")
			c.Count("events_published_around_a_schema_addition", 1)
			diag := ""
			switch {
			case pv != nil:
				diag = fmt.Sprintf("AddEvent panics: %v", pv)
			case aerr != nil:
				diag = "AddEvent error: " + aerr.Error()
			case len(sub.got) != before+1:
				diag = fmt.Sprintf("%d messages for one event", len(sub.got)-before)
			default:
				got := ref.Canon(sub.got[before])
				if gm, isM := got.(map[string]interface{}); isM {
					if inner, has := gm[field]; has && len(gm) == 1 {
						got = inner
					}
				}
				if !ref.Equal(ref.Canon(want), got) {
					diag = "message is " + ref.Render(got) + ", expected " + ref.Render(ref.Canon(want))
				}
			}
			if diag != "" {
				c.Violation("c08-subscription-growing-type", map[string]interface{}{"history": hist, "diag": diag})
				return false
			}
			return true
		}
		c.Eval(fmt.Sprintf("grow|%s|%d", field, i), true)
		if r.Intn(2) == 0 && !publish(old, oldWant[field], "a value of the only type there is so far") {
			continue
		}
		if err := root.ParseString(stage2); err != nil {
			c.Violation("c08-grow-schema", map[string]interface{}{"error": "second document: " + err.Error()})
			return
		}
		hist = append(hist, "ParseString(second document: type Cat implements Pet, extend union Thing = Gem)")
		order := r.Intn(2)
		for k := 0; k < 2; k++ {
			if (k+order)%2 == 0 {
				if !publish(newer, newWant[field], "a value of the type the second document brought") {
					break
				}
			} else if !publish(old, oldWant[field], "a value of the first type") {
				break
			}
		}
	}
}
