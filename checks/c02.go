package checks

import (
	"fmt"
	"sort"
	"strings"

	"verif/internal/back"
	"verif/internal/gen"
	"verif/internal/model"
	"verif/internal/ref"
	"verif/internal/run"
	"verif/internal/zoo"
)

func init() {
	register(&Check{ID: "C02", Level: "exploration", Run: runC02})
}

// c02Hostile returns leaf values of the wrong kind that every strategy can return.
func c02Hostile(i int) interface{} {
	vals := []interface{}{"wrong-kind", 3.75, int64(1) << 40, true, []int{1, 2}, []string{"a"}, map[string]interface{}{"k": 1}, struct{ X int }{3},
		(*int)(nil), []interface{}{1, "x"}, uint64(1) << 63, float32(2.5)}
	return vals[i%len(vals)]
}

func errPathsSorted(o *Outcome) []string {
	var out []string
	for _, p := range o.ErrPaths {
		q, _ := stripFragSegs(p) // the fragment segment is strategy independent; compare the addressed position
		out = append(out, pathKey(q))
	}
	sort.Strings(out)
	return out
}

func runC02(c *run.Ctx) {
	defer c02Methods(c)
	defer c02MethodArgErrors(c)
	defer c02Reregister(c)
	defer c02Sequences(c)
	defer c02Farm(c)
	c.Rule = "each generated tuple is served by interface resolvers, a root (any) resolver, reflection over dynamically built and registered struct types, and three per-node mixtures " +
		"(iface+any, iface+reflect, reflect-capable structs with an AnyResolver installed); oracle: pairwise equality of canonical data and of sorted error paths, plus the call log " +
		"(an object implementing Resolver must be served by it even when an AnyResolver exists; with an AnyResolver installed no object may be served by reflection). " +
		"Hostile leaf values of the wrong kind are planted so that error behaviour is compared too. Non-trivial = nested document with >=2 features; distinct by (document, data variant)"
	n := c.N(1200, 20000)
	c.MinNontriv = n / 10
	for i := 0; i < n && !c.TooMany(); i++ {
		r := c.Rand(i)
		withArgs := i%3 == 0 // argument-bearing tuples are compared among the strategies that receive arguments
		ec := newExecCaseG(r, gen.SchemaOpts{Args: withArgs, Mutation: true},
			gen.DocOpts{Frags: true, Dirs: true, Vars: true, Aliases: true, Mutation: true, Depth: 2 + r.Intn(3)}, gen.GraphOpts{TypedNil: 3})
		if i%12 == 5 {
			// a long chain that passes through a list of objects at every level: []interface{} for the interface and any
			// strategies, a typed Go slice under reflection - the depth budget must be spent alike by all of them
			depth := 30 + r.Intn(17)
			var sels []model.Sel = []model.Sel{&model.Field{Name: "hello"}}
			for d := 0; d < depth; d++ {
				sels = []model.Sel{&model.Field{Name: "selfList", Sels: sels}, &model.Field{Alias: "k", Name: "hello"}}
			}
			ec.DC = &gen.DocCase{Doc: &model.Doc{Ops: []*model.Op{{Kind: "query", Name: "Deep", Sels: sels}}}, Vars: map[string]interface{}{}, Feats: map[string]bool{"nested": true, "alias": true, "list-of-objects": true, "__typename": true}, OpName: "Deep"}
			ec.Text = ec.DC.Doc.Print(model.LayoutN(ec.Layout))
			c.Bucket("doc_features", "deep-chain-through-lists")
		}
		kinds := back.AllKinds
		if withArgs || !back.ReflectFriendly(ec.S) {
			kinds = []string{"iface", "any", "mixed-any"}
		}
		g := ec.G
		variant := "clean"
		if i%2 == 1 {
			// plant hostile leaves
			ls := c06LeafSites(ec.S, ec.G)
			if len(ls) > 0 {
				g = cloneGraph(ec.G)
				for m := 0; m < 1+r.Intn(3); m++ {
					site := ls[r.Intn(len(ls))]
					n2 := g.Nodes[site.node.ID]
					n2.F[site.field] = setLeaf(n2.F[site.field], site.idx, c02Hostile(r.Intn(100)))
				}
				variant = "hostile-leaves"
			}
		}
		feats := ec.DC.Feats
		cnt := 0
		for _, f := range []string{"alias", "inline-fragment", "named-fragment", "list-of-list", "multi-op", "variables", "directives", "args", "__typename"} {
			if feats[f] {
				cnt++
			}
		}
		c.Eval(ec.Text+"|"+variant+fmt.Sprint(i%2), feats["nested"] && cnt >= 2)
		c.Bucket("data_variant", variant)
		type res struct {
			kind string
			out  *Outcome
			h    *back.Harness
		}
		var rs []res
		for _, k := range kinds {
			h, err := back.Build(k, ec.S, ec.SDL, g)
			if err != nil {
				c.Violation("c02-schema-rejected", ec.replay(k, "", map[string]interface{}{"error": err.Error()}))
				continue
			}
			out := Do(h, Request{Text: ec.Text, OpName: ec.DC.OpName, Vars: ec.DC.Vars, Entry: i}, nil)
			rs = append(rs, res{k, out, h})
			c.Bucket("backend", k)
			c.Count("resolver_calls_observed", len(out.Calls))
			// precedence monitors
			for _, cl := range out.Calls {
				want := h.Strat(g.Nodes[cl.Key.Node])
				if want == back.Iface && cl.Strategy != back.Iface {
					c.Violation("c02-precedence", ec.replay(k, ec.DC.OpName, map[string]interface{}{"diag": fmt.Sprintf("node %d implements Resolver but was served by %s", cl.Key.Node, cl.Strategy)}))
				}
			}
			if k == "any-over-reflect" && out.Panic == nil {
				// every selected non-meta field of a struct object must have gone through the AnyResolver
				exp := ref.Execute(ec.S, ec.DC.Doc, ec.DC.OpName, ec.DC.Vars, g, nil, ref.Flags{})
				if !exp.ReqErr && len(out.Calls) < len(exp.Calls) && len(out.ErrPaths) == 0 {
					c.Violation("c02-precedence", ec.replay(k, ec.DC.OpName, map[string]interface{}{"diag": fmt.Sprintf("AnyResolver installed but only %d of %d expected invocations reached a resolver (reflection used instead?)", len(out.Calls), len(exp.Calls))}))
				}
				c.Count("any_over_reflect_runs", 1)
			}
		}
		if i < 2 && len(rs) > 0 {
			c.Sample(map[string]interface{}{"document": ec.Text, "vars": ec.DC.Vars, "variant": variant, "backends": kinds, "data": ref.Render(rs[0].out.Data)})
		}
		for j := 1; j < len(rs); j++ {
			a, b := rs[0], rs[j]
			c.Count("pairs_compared", 1)
			diag := ""
			switch {
			case (a.out.Panic != nil) != (b.out.Panic != nil):
				diag = "one strategy panics"
			case !ref.Equal(a.out.Data, b.out.Data):
				diag = "data differs"
			case strings.Join(errPathsSorted(a.out), ";") != strings.Join(errPathsSorted(b.out), ";"):
				diag = "error paths differ"
			}
			if diag != "" {
				c.Violation("c02-diverge", ec.replay(a.kind+" vs "+b.kind, ec.DC.OpName, map[string]interface{}{"diag": diag, "variant": variant,
					"graph_used": describeGraph(g), a.kind: a.out.Describe(), b.kind: b.out.Describe()}))
				break
			}
		}
	}
}

// c02Farm is the auto-discovered-binding differential: one concrete-typed schema served by named Go struct types that
// ggql has to bind by name on a cold root, registered and unregistered, purely by reflection and mixed per node with
// interface resolvers in several assignment patterns.
func c02Farm(c *run.Ctx) {
	ms := zoo.FarmModel()
	sdl := ms.SDL(model.SDLOpts{})
	n := c.N(500, 8000)
	for i := 0; i < n && !c.TooMany(); i++ {
		r := c.Rand(2000000 + i)
		g := gen.Graph(r, ms, gen.GraphOpts{PerType: 2 + i%2, TypedNil: 0})
		if i%2 == 1 {
			if ls := c06LeafSites(ms, g); len(ls) > 0 {
				site := ls[r.Intn(len(ls))]
				g.Nodes[site.node.ID].F[site.field] = setLeaf(g.Nodes[site.node.ID].F[site.field], site.idx, c02Hostile(r.Intn(100)))
			}
		}
		dc := gen.Doc(r, ms, gen.DocOpts{Frags: true, Aliases: true, Dirs: i%3 == 0, Vars: true, Depth: 3 + r.Intn(3), MaxOps: 1})
		text := dc.Doc.Print(model.LayoutN(i))
		type variant struct {
			name string
			kind string
			o    back.Opts
		}
		pat := func(k int) func(n *model.Node) back.Strategy {
			return func(n *model.Node) back.Strategy {
				if n.ID == 0 || (n.ID+k)%2 == 0 {
					return back.Reflect
				}
				return back.Iface
			}
		}
		vs := []variant{
			{"reflect-dynamic-registered", "reflect", back.Opts{TypedSlices: true}},
			{"reflect-named-auto", "reflect", back.Opts{StaticTypes: zoo.FarmTypes(), NoRegister: true, TypedSlices: true}},
			{"reflect-named-registered", "reflect", back.Opts{StaticTypes: zoo.FarmTypes(), TypedSlices: i%2 == 0}},
			{"iface", "iface", back.Opts{}},
			{"mixed-named-auto-0", "mixed-reflect", back.Opts{StaticTypes: zoo.FarmTypes(), NoRegister: true, Strat: pat(0), TypedSlices: true}},
			{"mixed-named-auto-1", "mixed-reflect", back.Opts{StaticTypes: zoo.FarmTypes(), NoRegister: true, Strat: pat(1)}},
			{"mixed-named-auto-thirds", "mixed-reflect", back.Opts{StaticTypes: zoo.FarmTypes(), NoRegister: true, Strat: func(n *model.Node) back.Strategy {
				if n.ID != 0 && n.ID%3 == 0 {
					return back.Iface
				}
				return back.Reflect
			}}},
		}
		var first *Outcome
		firstName := ""
		c.Eval("farm|"+text+fmt.Sprint(i%2), true)
		for _, v := range vs {
			h, err := back.BuildOpts(v.kind, ms, sdl, g, v.o)
			if err != nil {
				c.Violation("c02-schema-rejected", map[string]interface{}{"variant": v.name, "error": err.Error()})
				return
			}
			out := Do(h, Request{Text: text, OpName: dc.OpName, Vars: dc.Vars, Entry: i}, nil)
			c.Bucket("farm_variant", v.name)
			c.Count("farm_runs", 1)
			if first == nil {
				first, firstName = out, v.name
				continue
			}
			diag := ""
			switch {
			case (first.Panic != nil) != (out.Panic != nil):
				diag = "one variant panics"
			case !ref.Equal(first.Data, out.Data):
				diag = "data differs"
			case strings.Join(errPathsSorted(first), ";") != strings.Join(errPathsSorted(out), ";"):
				diag = "error paths differ"
			}
			if diag != "" {
				c.Violation("c02-farm-diverge", map[string]interface{}{"variants": firstName + " vs " + v.name, "diag": diag, "sdl": sdl, "document": text, "vars": dc.Vars,
					"graph": describeGraph(g), firstName: first.Describe(), v.name: out.Describe()})
				break
			}
		}
	}
}

var _ = model.Scalar

// c02Methods: reflection METHODS (by name, by @go, and bound with RegisterType/RegisterField with renamed methods and
// re-ordered parameters). The oracle is the Go method itself: it is called directly with the generated argument values and
// its answer must equal what the request answers, however the arguments are written (any order, literal / variable /
// variable default, omitted = zero value or the declared default).
func c02Methods(c *run.Ctx) {
	n := c.N(1000, 15000)
	for i := 0; i < n && !c.TooMany(); i++ {
		r := c.Rand(4000000 + i)
		root, zr, late, err := zoo.NewRootLate()
		lateReg := i%5 == 3
		if err == nil && !lateReg {
			err = late()
		}
		if err != nil {
			c.Violation("c02-zoo-schema", map[string]interface{}{"error": err.Error()})
			return
		}
		type argSpec struct {
			name string
			typ  string // Int | String | Boolean
			val  interface{}
			omit bool
		}
		ival := func() int { return []int{0, 1, -1, 7, 42, -300, 2147483647, -2147483648, r.Intn(1000)}[r.Intn(9)] }
		sval := func() string {
			return []string{"", "bob", "with space", "quote\"d", "back\\slash", "üñí", "😀", "new\nline", "tab\t"}[r.Intn(9)]
		}
		kind := r.Intn(11)
		var field, op string
		var args []argSpec
		var expect func(a map[string]interface{}) interface{}
		sub := ""
		op = "query"
		switch kind {
		case 0:
			field = "add"
			args = []argSpec{{name: "a", typ: "Int", val: ival() % 100000}, {name: "b", typ: "Int", val: ival() % 100000}}
			expect = func(a map[string]interface{}) interface{} { return zr.Query.Add(a["a"].(int), a["b"].(int)) }
		case 1:
			field, op = "diff", "mutation"
			args = []argSpec{{name: "a", typ: "Int", val: ival() % 100000}, {name: "b", typ: "Int", val: ival() % 100000}}
			expect = func(a map[string]interface{}) interface{} { return zr.Mutation.Minus(a["b"].(int), a["a"].(int)) }
		case 2:
			field = "hello"
			args = []argSpec{{name: "name", typ: "String", val: sval()}}
			expect = func(a map[string]interface{}) interface{} { return zr.Query.Hello(a["name"].(string)) }
		case 3:
			field = "label"
			args = []argSpec{{name: "prefix", typ: "String", val: sval()}, {name: "upper", typ: "Boolean", val: r.Intn(2) == 0}}
			expect = func(a map[string]interface{}) interface{} {
				return zr.Query.Label(a["prefix"].(string), a["upper"].(bool))
			}
		case 4:
			field, sub = "pick", " { id size }"
			args = []argSpec{{name: "i", typ: "Int", val: []int{0, 1, 2, -1, 5}[r.Intn(5)]}}
			expect = func(a map[string]interface{}) interface{} {
				it := zr.Query.Pick(int32(a["i"].(int)))
				if it == nil {
					return nil
				}
				return map[string]interface{}{"id": it.ID, "size": it.Size}
			}
		case 5:
			field, op = "bump", "mutation"
			args = []argSpec{{name: "by", typ: "Int", val: ival() % 100000}}
			expect = func(a map[string]interface{}) interface{} { return zr.Mutation.Bump(int32(a["by"].(int))) }
		case 6:
			field, op = "find", "mutation"
			args = []argSpec{{name: "artist", typ: "String", val: sval()}, {name: "album", typ: "String", val: sval()}, {name: "title", typ: "String", val: sval()}, {name: "year", typ: "Int", val: ival() % 3000}}
			expect = func(a map[string]interface{}) interface{} {
				return zr.Mutation.FindTrack(a["title"].(string), a["artist"].(string), a["album"].(string), a["year"].(int))
			}
		case 9:
			// arguments with non-zero defaults in the schema: what the request leaves out reaches the method as the zero value
			field = "shout"
			args = []argSpec{{name: "word", typ: "String", val: sval()}, {name: "times", typ: "Int", val: ival() % 1000}}
			expect = func(a map[string]interface{}) interface{} {
				return zr.Query.Shout(a["word"].(string), a["times"].(int))
			}
		case 10:
			// a method found although the case of all its letters differs from the field's name
			field = "url"
			expect = func(a map[string]interface{}) interface{} { return zr.Query.URL() }
		case 8:
			field, op = "sub", "mutation"
			args = []argSpec{{name: "a", typ: "Int", val: ival() % 100000}, {name: "b", typ: "Int", val: ival() % 100000}}
			expect = func(a map[string]interface{}) interface{} { return zr.Mutation.Sub(a["b"].(int), a["a"].(int)) }
		default:
			field, op = "renamed", "mutation"
			expect = func(a map[string]interface{}) interface{} { return zr.Mutation.OtherName() }
		}
		// how each argument is written
		vars := map[string]interface{}{}
		var vdefs, parts []string
		eff := map[string]interface{}{}
		lit := func(a argSpec) string {
			return model.ValueText(func() interface{} {
				if iv, isI := a.val.(int); isI {
					return int64(iv)
				}
				return a.val
			}())
		}
		for ai := range args {
			a := &args[ai]
			eff[a.name] = a.val
			required := field == "label" && a.name == "prefix"
			switch form := r.Intn(5); {
			case form == 0 && !required:
				a.omit = true
				switch a.typ {
				case "Int":
					eff[a.name] = 0
				case "String":
					eff[a.name] = ""
				default:
					eff[a.name] = false // also the declared default of label.upper
				}
			case form == 1:
				vn := "v" + a.name
				vdefs = append(vdefs, fmt.Sprintf("$%s: %s", vn, a.typ))
				if iv, isI := a.val.(int); isI {
					if r.Intn(2) == 0 {
						vars[vn] = float64(iv)
					} else {
						vars[vn] = iv
					}
				} else {
					vars[vn] = a.val
				}
				parts = append(parts, fmt.Sprintf("%s: $%s", a.name, vn))
			case form == 2:
				vn := "d" + a.name
				vdefs = append(vdefs, fmt.Sprintf("$%s: %s = %s", vn, a.typ, lit(*a)))
				parts = append(parts, fmt.Sprintf("%s: $%s", a.name, vn))
			default:
				parts = append(parts, fmt.Sprintf("%s: %s", a.name, lit(*a)))
			}
		}
		r.Shuffle(len(parts), func(x, y int) { parts[x], parts[y] = parts[y], parts[x] })
		text := op
		if len(vdefs) > 0 {
			text += "(" + strings.Join(vdefs, ", ") + ")"
		}
		text += " { r: " + field
		if len(parts) > 0 {
			text += "(" + strings.Join(parts, ", ") + ")"
		}
		text += sub + " }"
		want := ref.Canon(expect(eff))
		var res map[string]interface{}
		if lateReg {
			// the application registers its fields only after the root has answered a first request for the very field
			// (whatever that request got): from the registration on the Go name and parameter order it states are in force
			run.Protect(func() { _ = root.ResolveString(text, "", copyVars(vars)) })
			if lerr := late(); lerr != nil {
				c.Violation("c02-zoo-schema", map[string]interface{}{"error": "late registration: " + lerr.Error()})
				continue
			}
			c.Count("method_calls_after_late_registration", 1)
		}
		if op == "mutation" && i%4 == 2 {
			// a registration that is REFUSED (no such Go member) changes nothing: the earlier one stays in force
			// (whether ggql reports the bogus name is not this property's subject - it does not when the field is already
			// bound to a method; what the next request is answered is)
			_ = root.RegisterField("Mutation", field, "NoSuchGoMemberZz")
			c.Count("method_calls_after_a_bogus_registration", 1)
		}
		pv, _ := run.Protect(func() {
			if i%2 == 0 {
				res = root.ResolveString(text, "", copyVars(vars))
			} else {
				// warm root: the same field was resolved before with other arguments
				_ = root.ResolveString(op+" { "+field+sub+" }", "", nil)
				res = root.ResolveString(text, "", copyVars(vars))
			}
		})
		c.Eval("method|"+text+fmt.Sprint(vars), true)
		c.Bucket("method", field)
		c.Count("method_calls_compared_with_direct_go_call", 1)
		if i < 2 {
			c.Sample(map[string]interface{}{"document": text, "vars": fmt.Sprint(vars), "direct_go_call": ref.Render(want)})
		}
		data, _ := res["data"].(map[string]interface{})
		got := ref.Canon(data["r"])
		if pv != nil || res["errors"] != nil || !ref.Equal(got, want) {
			c.Violation("method-vs-direct-call", map[string]interface{}{"document": text, "vars": fmt.Sprintf("%#v", vars), "effective_arguments": fmt.Sprint(eff),
				"direct_go_call": ref.Render(want), "resolved": ref.Render(got), "errors": fmt.Sprint(res["errors"]), "panic": fmt.Sprint(pv)})
		}
	}
}

// c02Sequences: reflection learns its bindings from the values it meets (first use of a type, of a field, pointer or
// struct value, one Go type or two behind an object type). What a request is answered must not depend on which requests
// the root served before: every request of a random sequence on ONE root must get the answer it gets on a fresh root.
// (Not in the pool: a SECOND Go type with methods of its own behind one object type, zoo's accountBot. A field has one
// method binding; which Go type gets it is decided by the first request and reported as an error to the other - a stated
// limit of the reflection strategy, not an order the property promises to be free of.)
func c02Sequences(c *run.Ctx) {
	pool := []string{
		`{ account { id } }`,
		`{ accountVal { name } }`,
		`{ account { greeting(prefix: "x") } }`,
		`{ accountVal { greeting(prefix: "v") id } }`,
		`{ member { __typename id ... on Member { name since } } }`,
		`{ account { __typename name } member { __typename ... on Member { since } } }`,
		`{ items { id label(prefix: "p", upper: false) } }`,
		`{ items { size } }`,
		`{ firstN(n: 2) { id ghost } }`,
		`{ pick(i: 1) { label(prefix: "q", upper: true) tags } }`,
		`{ node { __typename id } nodes { __typename id ... on Item { size } } }`,
		`{ thing { __typename ... on Item { id } } things { ... on Other { note } ... on Item { kind } } }`,
		`{ strangers { __typename id } stranger { id } }`,
		`{ mixedThings { __typename ... on Item { id } ... on Other { note } } }`,
		`{ tracks { name plays } }`,
		`{ stamps count }`,
		`{ self { self { name count } } }`,
		`mutation { diff(a: 9, b: 4) renamed }`,
		`mutation { bump(by: 0) }`,
	}
	alone := make([]string, len(pool))
	for i, q := range pool {
		root, _, err := zoo.NewRoot()
		if err != nil {
			c.Violation("c02-zoo-schema", map[string]interface{}{"error": err.Error()})
			return
		}
		alone[i] = respText(root.ResolveString(q, "", nil))
	}
	n := c.N(400, 8000)
	for i := 0; i < n && !c.TooMany(); i++ {
		r := c.Rand(4500000 + i)
		root, _, err := zoo.NewRoot()
		if err != nil {
			return
		}
		perm := r.Perm(len(pool))[:3+r.Intn(4)]
		var hist []string
		for step, qi := range perm {
			var got string
			pv, _ := run.Protect(func() { got = respText(root.ResolveString(pool[qi], "", nil)) })
			hist = append(hist, pool[qi])
			c.Count("requests_in_sequences_on_one_root", 1)
			if pv != nil || got != alone[qi] {
				c.Violation("c02-sequence-dependent", map[string]interface{}{"history": hist, "step": step + 1, "request": pool[qi], "on_a_fresh_root": alone[qi], "after_the_history": got, "panic": fmt.Sprint(pv)})
				break
			}
		}
		c.Eval("seq|"+strings.Join(hist, "|"), true)
		c.Bucket("data_variant", "zoo-request-sequences")
	}
}
