package checks

import (
	"bufio"
	"bytes"
	"errors"
	"fmt"
	"io"
	"io/fs"
	"math"
	"math/rand"
	"os"
	"os/exec"
	"path/filepath"
	"regexp"
	"sort"
	"strconv"
	"strings"
	"sync/atomic"
	"syscall"
	"time"

	"github.com/uhn/ggql/pkg/ggql"

	"verif/internal/back"
	"verif/internal/gen"
	"verif/internal/model"
	"verif/internal/run"
	"verif/internal/zoo"
)

func init() {
	register(&Check{ID: "C03", Level: "exploration", Run: runC03})
	childModes["c03"] = c03Child
}

// ---------------------------------------------------------------- inputs

type c03Input struct {
	Entry   string // sdl | sdl-on-loaded | exe | resolve-gen | resolve-zoo | value | print | reader-sdl | reader-exe | writer
	Cat     string
	Text    string
	Op      string
	Vars    map[string]interface{}
	Backend string
	FaultAt int
	FaultK  int // 0 error, 1 (n>0, EOF), 2 (0,nil) once
	Seed    int64
}

var c03SDLCorpus = []string{
	zoo.SDL,
	`"""Doc""" schema { query: Q mutation: M } type Q { a(x: Int = 3, y: [String!] = ["p","q"]): A @deprecated(reason: "r") } type M { m: Int } type A { b: Int }`,
	`directive @d(a: Int = 1, b: [String!] = ["x"]) on OBJECT | FIELD_DEFINITION
type Query @d(b: ["y"]) { f: Int @d }
extend type Query { g: [Query!]! }
enum E { A B @deprecated }
input In { a: Int = 2 e: E = A l: [[Int]] = [[1],[2]] o: In2 = {x: 1} }
input In2 { x: Int }
union U = Query
interface I { f: Int }
scalar S
extend enum E { C }
extend input In { z: ID }
extend union U = Query
extend interface I { g: Int }`,
	"type Query { a: Int }\n# comment\ntype B implements I & J { x: String y(z: [Int!]! = [1, 2]): [B] }\ninterface I { x: String }\ninterface J { x: String }",
}

var c03SDLAdversarial = []string{
	`extend schema { mutation: Q }`, "type Q { a: Int }\nextend schema { mutation: Q }", "type Query { a: Int }\nextend schema { mutation: Query }", `schema { query: Q } type Q { a: Int } extend schema { query: Q }`, `extend type Nope { a: Int }`, `directive @d(b: []) on OBJECT`, `schema { query: Nope }`, `schema { }`, `schema`, `extend`, `extend extend type A { a: Int }`,
	`type A { a: A! ! }`, `type A { a(b: ): Int }`, `type A { a: Int = 3 }`, `type A implements { a: Int }`, `type A implements & { a: Int }`, `union U =`, `union U = | `, `enum E { }`, `enum E { true }`,
	`input I { a: Int = {} }`, `input I { a: I! }`, `type Query { a: Int } extend type Query { a: Int }`, `directive @a on`, `directive @a(x: Int) on OBJECT type Query @a(x: "s") { f: Int }`,
	`directive @a(x: Int = "s") on OBJECT`, `directive @a @a on OBJECT`, `directive @a on OBJECT directive @b(x: Int @a) on OBJECT`, `scalar`, `scalar S @deprecated(reason: 3)`,
	`type Query { f(a: Int = [1]): Int }`, `type Query { f: [Int }`, `type Query { f: Int] }`, `type Query { __f: Int }`, `type __Q { f: Int }`, `type 1Q { f: Int }`, `"desc" "desc2" type Q { f: Int }`,
	`""" unterminated`, `type Query { f: Int @go(type: 3) }`, `type Query @go { f: Int }`, `interface I { f: Int } type Query implements I { f: String }`, `type Query { f: Query } schema { query: Query query: Query }`,
	// input types that require each other: loops of non-null input fields, entered from a type outside the loop, from inside, through lists
	`input A { b: B! } input B { c: C! } input C { b: B! } type Query { f(a: A): Int }`, `input A { b: B! } input B { a: A! } type Query { f(a: A): Int }`,
	`input Out { a: A! } input A { b: B! } input B { c: C! } input C { d: D! } input D { b: B! } type Query { f(o: Out): Int }`, `input A { b: [B!]! } input B { a: [A!]! c: C! } input C { c: C } type Query { f(a: A): Int }`,
	`input A { a: A! }`, `input A { b: B! x: Int } input B { c: C! } input C { a: A! b: B! } type Query { f(c: C = {}): Int }`,
	`extend enum Nope { A }`, `extend union Nope = A`, `extend input Nope { a: Int }`, `extend interface Nope { a: Int }`, `extend scalar S @d`, `type Query { a: Int } extend type Query @nope { b: Int }`,
}

// c03Ladder is a cycle-free ladder of n fragments in which every fragment spreads the next one twice: linear to check
// with a memo, exponential without; the operation does not use it (resolving it would be exponential by nature).
func c03Ladder(n int, used bool) string {
	var b strings.Builder
	if used {
		b.WriteString("{ name ...L000 }\n")
	} else {
		b.WriteString("{ name }\n")
	}
	for i := 0; i < n; i++ {
		if i == n-1 {
			fmt.Fprintf(&b, "fragment L%03d on Query { count }\n", i)
		} else {
			fmt.Fprintf(&b, "fragment L%03d on Query { ...L%03d ... on Query { ...L%03d } }\n", i, i+1, i+1)
		}
	}
	return b.String()
}

func init() {
	c03ZooAdversarial = append(c03ZooAdversarial, c03Ladder(45, false), c03Ladder(64, false), c03Ladder(12, true))
}

var c03ZooAdversarial = []string{
	// variables whose default is a variable (themselves, each other): a request error, not a walk that never ends
	`query q($a: Int = $a) { add(a: $a, b: 1) }`, `query q($a: Int = $b, $b: Int = $a) { add(a: $a, b: $b) }`, `query q($n: String = $n) { hello(name: $n) items { label(prefix: $n) } }`,
	`query q($a: Int = $b, $b: Int = 2) { add(a: $a, b: 1) }`,
	// one response key selected twice with lists of different lengths behind it (arguments differ), in both orders
	`{ x: firstN(n: 1) { id } x: firstN(n: 3) { size } }`, `{ x: firstN(n: 4) { id } x: firstN(n: 1) { size } }`,
	`{ x: firstN(n: 2) { id } ... on Query { x: firstN(n: 5) { tags } } self { x: items { id } x: firstN(n: 0) { id } } }`,
	`{ x: items { id } x: things { ... on Item { size } } x: nodes { id } }`,
	// one object type served by a pointer, by a struct value and by another Go type, each with a method for the field
	`{ account { name greeting(prefix: "hi") } accountVal { name greeting(prefix: "hi") } }`,
	`{ accountVal { greeting(prefix: "a") } account { greeting(prefix: "b") } }`,
	`{ account { greeting(prefix: "a") } accountBot { id greeting(prefix: "b") } }`,
	`{ accountBot { greeting } accountVal { greeting } account { greeting } member { ... on Member { name } } }`,
	`{ items { ...F } } fragment F on Item { id ...F }`,
	`{ items { ...A } } fragment A on Item { ...B } fragment B on Item { ...A id }`,
	`{ ...Nope }`, `{ items { ...Nope id } }`,
	`fragment F on Item { id }`,
	`{ hello }`, `{ hello(name: null) }`, `{ hello(name: 3) }`, `{ hello(nme: "x") }`, `{ hello(name: "a", name: "b") }`, `{ hello(name: "a", extra: 1) }`,
	`{ add }`, `{ add(a: 1) }`, `{ add(b: 2) }`, `{ add(a: "s", b: true) }`, `{ add(a: 99999999999, b: 1) }`, `{ add(a: 1.5, b: 2) }`, `{ add(b: 2, a: 1) }`,
	`{ flag }`, `{ flag(on: 1) }`, `{ flag(on: null) }`, `{ pick }`, `{ pick(i: -1) { id } }`, `{ pick(i: 2147483648) { id } }`, `{ pick(i: $x) { id } }`,
	`{ label }`, `{ label(upper: true) }`, `{ label(prefix: null) }`, `{ items { label } }`, `{ items { label(upper: "x") } }`,
	`{ box(in: {d: [1 null]}) }`, `{ box(in: {d: [1, "x"]}) }`, `{ box(in: {d: 3}) }`, `{ box(in: null) }`, `{ box }`, `{ box(in: {inner: {inner: {d: [null]}}}) }`, `{ box(in: {d: [[1]]}) }`,
	`{ box(in: {fixed: [3, 4, 5]}) }`, `{ box(in: {fixed: [1.5]}) }`, `{ box(in: {fixed: []}) }`, `query($b: Box){ box(in: {inner: $b}) }`, `{ box(in: {inner: {fixed: [1, 2, 3, 4, 5, 6, 7, 8, 9]}}) }`,
	`{ box(in: {depth: 3}) }`, `{ box(in: {d: [1], lid: {depth: 2}}) }`, `query($b: Box){ box(in: $b) zzLate(in: $b) }`, `{ items { zzExtra } zzLate(in: {depth: 1}) }`,
	`{ box(in: {name: 3}) }`, `{ box(in: {nope: 1}) }`, `{ box(in: []) }`, `{ box(in: "s") }`, `query($b: Box){ box(in: $b) }`, `query($b: [Int]){ box(in: {d: $b}) }`, `{ box(in: {d: [99999999999]}) }`,
	`query($a:){ name }`, `query($a: Nope){ name }`, `query($a: Int = ){ name }`, `query($: Int){ name }`, `query($a: [Int){ name }`, `query($a: Int!!){ name }`,
	`query($n: String){ hello(name: $n) }`, `query($n: Int){ add(a: $n, b: $n) }`, `query($n: Boolean){ flag(on: $n) }`, `query($n: Int){ pick(i: $n) { id } }`,
	`{ thing }`, `{ thing { id } }`, `{ node }`, `{ name { x } }`, `{ items }`, `{ items { } }`, `{ }`, `{`, `}`, `{{{{`, `query`, `query Q`, `mutation { bump }`, `mutation { bump(by: 1e99) }`,
	`subscription { x }`, `{ __type }`, `{ __type(name: 3) { name } }`, `{ __type(name: $v) { name } }`, `{ __schema }`, `{ __schema { nope } }`, `{ __typename(x: 1) }`,
	`{ a: b: name }`, `{ name @skip }`, `{ name @skip(if: 3) }`, `{ name @skip(if: $nope) }`, `{ name @include(if: null) }`, `{ ... on Nope { name } }`, `{ ... on Item { id } }`,
	`{ ... @skip(if: true) { name } }`, `{ self { self { self { self { self { self { self { self { name } } } } } } } } }`,
	`{ count(x: {a: [1, {b: $c}]}) }`, `{ hello(name: """block "q" """) }`, `{ hello(name: "é😀\uZZZZ") }`, `{ hello(name: "unterminated }`, `{ ratio(x: 1e400) }`,
	`query A { name } query A { count }`, `{ name } { count }`, `fragment on Item { id } { name }`, `{ items { ... on Node { id } } }`, `{ nodes { ... on Thing { __typename } } }`,
}

var c03ValueCorpus = []string{`{a: 1, b: [true, null, "s", E, $v, 1.5e3], c: {d: {}}}`, `[1, [2, [3, []]]]`, `"str\n\té"`, `"""block"""`, `-12.5e-3`, `$var`, `SYM`, `null`, `{ "k": "v", "n": [1,2] }`}

func c03RandBytes(r *rand.Rand) string {
	n := r.Intn(120)
	b := make([]byte, n)
	alphabet := []byte("{}[]()!:=@$\"\\#,.|& \n\r\tabcdefgtypequeryonIntinputenum0123456789-+eE_\x00\x80\xbb\xbf\xef\xff")
	for i := range b {
		if r.Intn(4) == 0 {
			b[i] = byte(r.Intn(256))
		} else {
			b[i] = alphabet[r.Intn(len(alphabet))]
		}
	}
	return string(b)
}

func c03RandJSON(r *rand.Rand, depth int) interface{} {
	switch k := r.Intn(14); {
	case k == 0:
		return nil
	case k == 1:
		return r.Intn(2) == 0
	case k == 2:
		return float64(r.Intn(1000)) - 500
	case k == 3:
		return []interface{}{1e300, -1e300, math.NaN(), math.Inf(1), 5e-324, 4294967297.0}[r.Intn(6)]
	case k == 4:
		return []interface{}{int(3), int32(-1), int64(1) << 40, uint8(9), uint64(1) << 63, float32(2.5), int16(7), uint(3)}[r.Intn(8)]
	case k == 5:
		return gen.RandString(r)
	case k == 6:
		return ggql.Symbol("SMALL")
	case k == 7:
		return ggql.Var("v")
	case k == 8:
		return struct{ X int }{1}
	case k == 9:
		return []string{"a"}
	case k < 12 && depth > 0:
		n := r.Intn(4)
		l := make([]interface{}, n)
		for i := range l {
			l[i] = c03RandJSON(r, depth-1)
		}
		return l
	case depth > 0:
		m := map[string]interface{}{}
		for i, n := 0, r.Intn(4); i < n; i++ {
			m[[]string{"a", "x", "k0", "req", "name", ""}[r.Intn(6)]] = c03RandJSON(r, depth-1)
		}
		return m
	}
	return "leaf"
}

// c03Gen derives input i of batch b deterministically.
func c03Gen(seed int64, tier string, batch, i int) c03Input {
	r := rand.New(rand.NewSource(seed*1000003 + int64(batch)*7919 + int64(i)))
	in := c03Input{Seed: r.Int63()}
	mut := func(s string) string {
		for k, n := 0, 1+r.Intn(3); k < n; k++ {
			s, _ = mutateText(r, s)
		}
		return s
	}
	genSDL := func() string {
		if r.Intn(2) == 0 {
			return c03SDLCorpus[r.Intn(len(c03SDLCorpus))]
		}
		return gen.ExecSchema(r, gen.SchemaOpts{Args: true, Abstract: true, Mutation: true}).SDL(model.SDLOpts{BlockDesc: r.Intn(2) == 0})
	}
	switch c := r.Intn(20); {
	case c < 4:
		in.Entry, in.Cat, in.Text = "sdl", "sdl-mutated", mut(genSDL())
		if r.Intn(3) == 0 {
			in.Entry = "sdl-on-loaded"
		}
	case c == 4 && r.Intn(2) == 0:
		in.Entry, in.Cat, in.Text = "sdl", "sdl-adversarial", c03SDLAdversarial[r.Intn(len(c03SDLAdversarial))]
		if r.Intn(3) == 0 {
			in.Entry = "sdl-on-loaded"
		}
		if r.Intn(3) == 0 {
			in.Text = mut(in.Text)
		}
	case c == 4:
		in.Entry, in.Cat, in.Text = "sdl", "sdl-truncated", genSDL()
		in.Text = in.Text[:r.Intn(len(in.Text)+1)]
	case c == 5:
		in.Entry, in.Cat, in.Text = []string{"sdl", "exe", "value", "resolve-zoo"}[r.Intn(4)], "raw-bytes", c03RandBytes(r)
	case c < 9:
		in.Entry, in.Cat = "resolve-gen", "exe-mutated"
		in.Backend = []string{"iface", "any", "reflect"}[r.Intn(3)]
	case c < 11 || (c == 11 && r.Intn(2) == 0):
		in.Entry, in.Cat = "resolve-zoo", "zoo-adversarial"
		in.Text = c03ZooAdversarial[r.Intn(len(c03ZooAdversarial))]
		if r.Intn(3) == 0 {
			in.Text = mut(in.Text)
			in.Cat = "zoo-adversarial-mutated"
		}
		in.Vars = map[string]interface{}{}
		for _, k := range []string{"n", "a", "x", "v", "c", "b"} {
			if r.Intn(2) == 0 {
				in.Vars[k] = c03RandJSON(r, 2)
			}
		}
	case c == 11 && r.Intn(2) == 0:
		// random fragment graphs (cyclic or not): spreads in random order, through fields and inline fragments
		in.Entry, in.Cat = "resolve-zoo", "fragment-graph"
		nf := 2 + r.Intn(5)
		var b strings.Builder
		b.WriteString("{ name ...F0 self { ...F" + fmt.Sprint(r.Intn(nf)) + " } }\n")
		for fi := 0; fi < nf; fi++ {
			fmt.Fprintf(&b, "fragment F%d on Query {", fi)
			for k, m := 0, 1+r.Intn(4); k < m; k++ {
				switch r.Intn(5) {
				case 0:
					b.WriteString(" count")
				case 1:
					fmt.Fprintf(&b, " ... on Query { ...F%d }", r.Intn(nf))
				case 2:
					fmt.Fprintf(&b, " self { ...F%d name }", r.Intn(nf))
				default:
					fmt.Fprintf(&b, " ...F%d", r.Intn(nf))
				}
			}
			b.WriteString(" }\n")
		}
		in.Text = b.String()
	case c == 12:
		if r.Intn(2) == 0 {
			// reflection over abstract-typed fields whose Go values bind to no (or the wrong) GraphQL type
			in.Entry, in.Cat = "resolve-unbound", "unbound-go-values"
			in.Text = c03UnboundRequests[r.Intn(len(c03UnboundRequests))]
			if r.Intn(4) == 0 {
				in.Text = mut(in.Text)
			}
			if r.Intn(3) == 0 {
				// self- and mutually referential input types whose recursive fields carry object / list defaults
				in.Entry, in.Cat = "resolve-recursive-input", "recursive-input-defaults"
				in.Text = c03RecInputRequests[r.Intn(len(c03RecInputRequests))]
				in.Vars = map[string]interface{}{}
				for _, k := range []string{"f", "g", "n"} {
					if r.Intn(2) == 0 {
						in.Vars[k] = []interface{}{map[string]interface{}{}, map[string]interface{}{"tag": "t"}, map[string]interface{}{"and": map[string]interface{}{}}, map[string]interface{}{"any": []interface{}{map[string]interface{}{}}},
							map[string]interface{}{"peer": map[string]interface{}{"back": map[string]interface{}{}}}, nil, c03RandJSON(r, 3)}[r.Intn(7)]
					}
				}
				if r.Intn(5) == 0 {
					in.Text = mut(in.Text)
				}
			}
			break
		}
		// random directive definition graphs: directives used on the arguments of directives, acyclic, self-cyclic,
		// mutually cyclic, or merely REACHING a cycle they are not part of
		in.Entry, in.Cat = "sdl", "directive-graph"
		nd := 1 + r.Intn(5)
		var b strings.Builder
		for di := 0; di < nd; di++ {
			fmt.Fprintf(&b, "directive @d%d", di)
			if na := r.Intn(3); na > 0 {
				b.WriteString("(")
				for ai := 0; ai < na; ai++ {
					fmt.Fprintf(&b, "a%d: %s", ai, []string{"Int", "String", "[Int]", "Boolean = true"}[r.Intn(4)])
					for k, m := 0, r.Intn(3); k < m; k++ {
						fmt.Fprintf(&b, " @d%d", r.Intn(nd))
					}
					b.WriteString(" ")
				}
				b.WriteString(")")
			}
			b.WriteString(" on ARGUMENT_DEFINITION | OBJECT | FIELD_DEFINITION | ENUM_VALUE | INPUT_FIELD_DEFINITION\n")
		}
		fmt.Fprintf(&b, "type Query @d%d { f(x: Int @d%d): Int @d%d }\ninput In { v: Int @d%d }\nenum E { A @d%d }\n", r.Intn(nd), r.Intn(nd), r.Intn(nd), r.Intn(nd), r.Intn(nd))
		in.Text = b.String()
		if r.Intn(3) == 0 {
			in.Entry = "sdl-on-loaded"
		}
	case c < 14:
		in.Entry, in.Cat = "resolve-zoo", "zoo-valid-random-vars"
		rq := zoo.Requests[r.Intn(len(zoo.Requests))]
		in.Text = rq.Text
		in.Vars = map[string]interface{}{}
		for _, k := range []string{"n", "s", "b"} {
			if r.Intn(2) == 0 {
				in.Vars[k] = c03RandJSON(r, 2)
			}
		}
		if r.Intn(8) == 0 {
			var l []interface{}
			for j := r.Intn(6); j > 0; j-- {
				l = append(l, float64(j))
			}
			in.Vars["b"] = map[string]interface{}{"fixed": l, "inner": map[string]interface{}{"fixed": l}}
		}
		if r.Intn(4) == 0 {
			in.Text = mut(in.Text)
		}
	case c == 14 && r.Intn(3) == 0:
		// the less travelled entry points: Parse([]byte), ParseFS, ParseExecutable([]byte), ParseExecutableReader and ParseValue
		// with readers that fail, ParseFS with hostile patterns and file systems whose Open / Read / Close fail
		in.Entry = []string{"parse-bytes", "parse-fs", "exe-bytes", "exe-reader-fault", "value-reader-fault", "addtypes-names"}[r.Intn(6)]
		in.Cat = "alt-entry-points"
		switch in.Entry {
		case "addtypes-names":
			// a schema built in Go: names never pass the tokenizer, any string can arrive
			nb := make([]byte, r.Intn(7))
			for k := range nb {
				pool := []byte("ab_Z9-$ .@\x00\x7f\x80\xc3\xa9\xe5\x90\x8d\xff\"\n")
				nb[k] = pool[r.Intn(len(pool))]
			}
			in.Text = string(nb)
		case "parse-bytes", "parse-fs":
			in.Text = genSDL()
			if r.Intn(2) == 0 {
				in.Text = mut(in.Text)
			}
		case "exe-bytes", "exe-reader-fault":
			in.Text = zoo.Requests[r.Intn(len(zoo.Requests))].Text
			if r.Intn(2) == 0 {
				in.Text = mut(in.Text)
			}
		default:
			in.Text = mut(c03ValueCorpus[r.Intn(len(c03ValueCorpus))])
		}
		in.FaultAt, in.FaultK = r.Intn(len(in.Text)+1), r.Intn(3)
	case c == 14:
		in.Entry, in.Cat = "value", "value-mutated"
		in.Text = mut(c03ValueCorpus[r.Intn(len(c03ValueCorpus))])
	case c == 15:
		in.Entry, in.Cat, in.Text = "print", "print-after-load", genSDL()
	case c == 16:
		in.Entry, in.Cat, in.Text = "reader-sdl", "reader-fault", genSDL()
		in.FaultAt, in.FaultK = r.Intn(len(in.Text)+1), r.Intn(3)
	case c == 17:
		in.Entry, in.Cat = "reader-exe", "reader-fault"
		in.Text = zoo.Requests[r.Intn(len(zoo.Requests))].Text
		in.FaultAt, in.FaultK = r.Intn(len(in.Text)+1), r.Intn(3)
	case c == 18:
		in.Entry, in.Cat = "writer", "writer-fault"
		in.Text = genSDL()
		in.FaultAt = r.Intn(400)
	default:
		in.Entry, in.Cat = "exe", "deep-nesting"
		depth := 50 + r.Intn(500)
		if tier == "thorough" && r.Intn(10) == 0 {
			depth = 5000 + r.Intn(45000)
		}
		switch r.Intn(4) {
		case 0:
			in.Text = strings.Repeat("{ self ", depth) + "{ name }" + strings.Repeat(" }", depth)
			in.Entry = "resolve-zoo"
		case 1:
			in.Text = "{ count(x: " + strings.Repeat("[", depth) + strings.Repeat("]", depth) + ") }"
		case 2:
			in.Entry = "value"
			in.Text = strings.Repeat("{a:", depth) + "1" + strings.Repeat("}", depth)
		default:
			in.Entry = "sdl"
			in.Text = "type Query { a: " + strings.Repeat("[", depth) + "Int" + strings.Repeat("]", depth) + " }"
		}
	}
	return in
}

// ---------------------------------------------------------------- Go values that bind to nothing

const c03UnboundSDL = `type Query { pet: Pet pets: [Pet] u: U us: [U] cat: Cat grid: [[Pet]] }
interface Pet { name: String friend: Pet }
type Cat implements Pet { name: String friend: Pet lives: Int }
type Dog implements Pet { name: String friend: Pet }
union U = Cat | Dog`

type c03UCat struct {
	Name   string
	Friend interface{}
	Lives  int
}

// c03Stranger has the fields of a Pet but its Go type is bound to no GraphQL type (no name match, no @go, never registered).
type c03Stranger struct {
	Name   string
	Friend interface{}
}

type c03USchema struct{ Query *c03UQuery }

type c03UQuery struct {
	Pet  interface{}
	Pets []interface{}
	U    interface{}
	Us   []interface{}
	Cat  interface{}
	Grid [][]interface{}
}

func c03UnboundData(r *rand.Rand) *c03UQuery {
	var vals []interface{}
	stranger := &c03Stranger{Name: "stranger"}
	stranger.Friend = stranger
	cat := &c03UCat{Name: "tom", Lives: 9}
	cat.Friend = stranger
	vals = []interface{}{stranger, cat, c03Stranger{Name: "by value"}, nil, (*c03UCat)(nil), (*c03Stranger)(nil), 42, "a string", 1.5, true,
		map[string]interface{}{"name": "map"}, []interface{}{cat}, []int{1}, struct{}{}, &struct{ X int }{3}, func() {}, make(chan int), [2]int{1, 2}, &vals}
	pick := func() interface{} { return vals[r.Intn(len(vals))] }
	q := &c03UQuery{Pet: pick(), U: pick(), Cat: pick()}
	for i, n := 0, r.Intn(4); i < n; i++ {
		q.Pets = append(q.Pets, pick())
		q.Us = append(q.Us, pick())
		q.Grid = append(q.Grid, []interface{}{pick(), pick()})
	}
	return q
}

var c03UnboundRequests = []string{
	`{ pet { name } }`, `{ pet { __typename name friend { name friend { name } } } }`, `{ pets { name ... on Cat { lives } ... on Dog { name } } }`,
	`{ u { ... on Cat { name lives } ... on Dog { name } __typename } }`, `{ us { __typename ... on Pet { name friend { __typename } } } }`,
	`{ cat { name lives friend { name } } }`, `{ grid { name ...F } } fragment F on Pet { friend { name } __typename }`,
	`{ pet { ... on Cat { friend { ... on Dog { friend { name } } } } } pets { friend { friend { friend { name } } } } }`,
	`{ __typename pet { __typename } pets { __typename } u { __typename } us { __typename } cat { __typename } }`,
}

// ---------------------------------------------------------------- recursive input types with defaults

const c03RecInputSDL = `type Query { count(filter: Filter, node: Node = {name: "root"}): String list(filters: [Filter!] = [{tag: "d"}]): String }
input Filter { tag: String limit: Int = 10 and: Filter = {limit: 5} any: [Filter] = [{tag: "x"}, {}] peer: Node }
input Node { name: String = "n" back: Filter = {tag: "from node"} kids: [Node!] = [] }`

type c03RecRoot struct{ Query *c03RecQuery }
type c03RecQuery struct{}

func (q *c03RecQuery) Count(filter map[string]interface{}, node map[string]interface{}) string {
	return fmt.Sprint(len(filter), len(node))
}
func (q *c03RecQuery) List(filters []interface{}) string { return fmt.Sprint(len(filters)) }

var c03RecInputRequests = []string{
	`{ count(filter: {tag: "a"}) }`, `{ count(filter: {}) }`, `{ count }`, `{ list }`, `{ list(filters: [{}, {and: {}}]) }`,
	`query($f: Filter) { count(filter: $f) }`, `query($f: Filter = {}) { count(filter: $f) }`, `query($f: Filter = {any: [{}]}) { count(filter: $f) list(filters: [$f]) }`,
	`query($n: Node) { count(node: $n) }`, `query($g: [Filter!]) { list(filters: $g) }`, `{ count(filter: {and: {and: {and: {}}}}, node: {kids: [{kids: [{}]}]}) }`,
	`{ count(filter: {peer: {back: {peer: {}}}}) }`, `query($f: Filter, $n: Node) { count(filter: {and: $f, peer: $n}) }`,
}

// ---------------------------------------------------------------- child

type faultyReader struct {
	data []byte
	pos  int
	at   int
	kind int
	done bool
}

var errInjectedRead = errors.New("injected read fault")

func (f *faultyReader) Read(p []byte) (int, error) {
	if f.kind == 3 && f.pos >= f.at {
		return 0, errInjectedRead // a reader that has failed stays failed
	}
	if f.pos >= f.at && !f.done {
		f.done = true
		switch f.kind {
		case 0:
			return 0, errInjectedRead
		case 2:
			return 0, nil
		}
	}
	if f.pos >= len(f.data) {
		return 0, io.EOF
	}
	if len(p) == 0 {
		return 0, nil
	}
	p[0] = f.data[f.pos]
	f.pos++
	if f.kind == 1 && f.pos >= f.at && f.pos >= len(f.data) {
		return 1, io.EOF
	}
	return 1, nil
}

// faultyFS is an fs.FS over a map of files whose n-th Open, or the Read / Close of whose n-th opened file, fails.
type faultyFS struct {
	files                         map[string]string
	failOpen, failRead, failClose int
	opened                        int
}

func (f *faultyFS) Open(name string) (fs.File, error) {
	if name == "." {
		return &faultyDir{fs: f}, nil
	}
	content, has := f.files[name]
	if !has {
		return nil, &fs.PathError{Op: "open", Path: name, Err: fs.ErrNotExist}
	}
	n := f.opened
	f.opened++
	if n == f.failOpen {
		return nil, &fs.PathError{Op: "open", Path: name, Err: errInjectedRead}
	}
	return &faultyFile{name: name, data: []byte(content), failRead: n == f.failRead, failClose: n == f.failClose}, nil
}

type faultyDir struct {
	fs   *faultyFS
	done bool
}

func (d *faultyDir) Stat() (fs.FileInfo, error) { return faultyInfo{name: ".", dir: true}, nil }
func (d *faultyDir) Read([]byte) (int, error)   { return 0, io.EOF }
func (d *faultyDir) Close() error               { return nil }
func (d *faultyDir) ReadDir(n int) ([]fs.DirEntry, error) {
	if d.done {
		return nil, io.EOF
	}
	d.done = true
	var names []string
	for k := range d.fs.files {
		names = append(names, k)
	}
	sort.Strings(names)
	var out []fs.DirEntry
	for _, k := range names {
		out = append(out, fs.FileInfoToDirEntry(faultyInfo{name: k, size: int64(len(d.fs.files[k]))}))
	}
	return out, nil
}

type faultyFile struct {
	name                string
	data                []byte
	pos                 int
	failRead, failClose bool
}

func (f *faultyFile) Stat() (fs.FileInfo, error) {
	return faultyInfo{name: f.name, size: int64(len(f.data))}, nil
}
func (f *faultyFile) Read(p []byte) (int, error) {
	if f.failRead && f.pos >= len(f.data)/2 {
		return 0, errInjectedRead
	}
	if f.pos >= len(f.data) {
		return 0, io.EOF
	}
	n := copy(p, f.data[f.pos:])
	if f.failRead && f.pos+n > len(f.data)/2 {
		n = len(f.data)/2 - f.pos
		if n <= 0 {
			return 0, errInjectedRead
		}
	}
	f.pos += n
	return n, nil
}
func (f *faultyFile) Close() error {
	if f.failClose {
		return errInjectedRead
	}
	return nil
}

type faultyInfo struct {
	name string
	size int64
	dir  bool
}

func (i faultyInfo) Name() string { return i.name }
func (i faultyInfo) Size() int64  { return i.size }
func (i faultyInfo) Mode() fs.FileMode {
	if i.dir {
		return fs.ModeDir | 0o755
	}
	return 0o644
}
func (i faultyInfo) ModTime() time.Time { return time.Time{} }
func (i faultyInfo) IsDir() bool        { return i.dir }
func (i faultyInfo) Sys() interface{}   { return nil }

type faultyWriter struct {
	n  int
	at int
}

func (w *faultyWriter) Write(p []byte) (int, error) {
	if w.n+len(p) > w.at {
		return 0, errors.New("injected write fault")
	}
	w.n += len(p)
	return len(p), nil
}

type livelock struct{ steps, budget int }

var c03Steps, c03Budget int

func c03Tick() {
	c03Steps++
	if c03Budget > 0 && c03Steps > c03Budget {
		b := c03Budget
		c03Budget = 0
		panic(livelock{c03Steps, b})
	}
}

func c03SetBudget(n int) {
	c03Steps, c03Budget = 0, 64*(n+1)+4096
	c03Yields, c03YieldBudget = 0, 2000000+2000*n
}

// Loops outside the scanner: every lazy-registration site of the resolver carries a verifYield hook; one request over
// the small data graphs used here passes a few hundred of them, so millions of hits inside ONE call mean the resolver
// is going round in circles (e.g. a type lookup that is retried forever). Deterministic, like the scanner budget.
var c03Yields, c03YieldBudget int

func c03Yield(site string) {
	c03Yields++
	if c03YieldBudget > 0 && c03Yields > c03YieldBudget {
		b := c03YieldBudget
		c03YieldBudget = 0
		c03Budget = 0
		panic(livelock{c03Yields, b})
	}
}

var frameRe = regexp.MustCompile(`github\.com/uhn/ggql/pkg/ggql\.((?:\(\*?\w+\)\.)?[\w.]+)\(`)

func innermostFrame(stack string) string {
	// skip the hook frames themselves
	for _, m := range frameRe.FindAllStringSubmatch(stack, -1) {
		if strings.Contains(m[1], "verifTick") || strings.Contains(m[1], "verifYield") {
			continue
		}
		return m[1]
	}
	return "?"
}

// c03Run executes one input in-process; status is "ok", "panic|<class>|<detail>" or "livelock|<class>|<detail>".
func c03Run(in c03Input) (status string, stack string) {
	ggql.VerifTick = c03Tick
	ggql.VerifYield = c03Yield
	var pv interface{}
	pv, stack = run.Protect(func() { c03Exec(in) })
	c03Budget, c03YieldBudget = 0, 0
	if pv == nil {
		return "ok", ""
	}
	frame := innermostFrame(stack)
	if ll, isLL := pv.(livelock); isLL {
		return fmt.Sprintf("livelock|%s|%s|%d steps for %d bytes", in.Entry, frame, ll.steps, len(in.Text)), stack
	}
	msg := fmt.Sprint(pv)
	if len(msg) > 120 {
		msg = msg[:120]
	}
	return fmt.Sprintf("panic|%s|%s|%s", in.Entry, frame, msg), stack
}

func c03Exec(in c03Input) {
	r := rand.New(rand.NewSource(in.Seed))
	switch in.Entry {
	case "sdl", "sdl-on-loaded":
		root := ggql.NewRoot(&zoo.Root{})
		if in.Entry == "sdl-on-loaded" {
			_ = root.ParseString(`type Query { a: Int b(x: In): [Query] } input In { v: Int = 1 } enum E { A }`)
		}
		c03SetBudget(len(in.Text))
		err := root.ParseString(in.Text)
		c03Budget = 0
		if err == nil && len(in.Text) < 20000 {
			_ = root.SDL(true, true)
			for _, t := range root.Types() {
				_ = t.SDL(true)
				_ = t.String()
			}
			c03SetBudget(100)
			_ = root.ResolveString(`{ __schema { types { name kind fields { name args { name defaultValue } type { name } } inputFields { name defaultValue } enumValues { name } } directives { name args { name defaultValue } } } }`, "", nil)
			c03Budget = 0
		} else if err != nil {
			_ = err.Error()
			_ = ggql.FormErrorsResult(err)
		}
	case "exe":
		root, _, err := zoo.NewRoot()
		if err != nil {
			panic(err)
		}
		c03SetBudget(len(in.Text))
		exe, perr := root.ParseExecutableString(in.Text)
		c03Budget = 0
		if exe != nil && len(in.Text) < 20000 { // printing a deeply nested document is quadratic in its depth by nature (indentation)
			_ = exe.String()
		}
		if perr != nil {
			_ = ggql.FormErrorsResult(perr)
		}
	case "resolve-zoo":
		root, _, err := zoo.NewRoot()
		if err != nil {
			panic(err)
		}
		if r.Intn(4) == 0 {
			// the schema grows after the Go types were registered: fields the registered Go struct knows nothing about
			_ = root.ParseString("extend input Box { depth: Int lid: Box }\nextend type Item { zzExtra: Int }\nextend type Query { zzLate(in: Box): String }")
		}
		c03SetBudget(len(in.Text))
		res := root.ResolveString(in.Text, in.Op, in.Vars)
		c03Budget = 0
		var b bytes.Buffer
		_ = ggql.WriteJSONValue(&b, res, r.Intn(3)-1)
	case "resolve-unbound":
		var rootObj interface{} = &c03USchema{Query: c03UnboundData(r)}
		switch r.Intn(12) {
		case 0:
			rootObj = nil // a root made for its schema only (NewRoot(nil)) that is asked to resolve all the same
		case 1:
			rootObj = (*c03USchema)(nil)
		case 2:
			rootObj = &c03USchema{}
		}
		root := ggql.NewRoot(rootObj)
		if r.Intn(5) == 0 {
			// a server that starts answering before its schema has been loaded: every entry point on a root that holds nothing yet
			c03SetBudget(len(in.Text))
			_ = root.ResolveString(in.Text, in.Op, in.Vars)
			c03SetBudget(len(in.Text))
			_ = root.ResolveBytes([]byte(in.Text), "", nil)
			if exe, perr := root.ParseExecutableString(in.Text); perr == nil && exe != nil {
				_, _ = root.ResolveExecutable(exe, in.Op, in.Vars)
			}
			_ = root.ResolveString("{ __schema { types { name } queryType { name } } __typename }", "", nil)
			_ = root.ResolveString("mutation { a }", "", nil)
			_ = root.ResolveString("subscription { a }", "", nil)
			_, _ = root.AddEvent("x", 1)
			_ = root.Unsubscribe("x")
			_ = root.SDL(true, true)
			_ = root.GetType("Query")
			_ = root.RegisterField("Query", "a", "A")
			c03Budget, c03YieldBudget = 0, 0
		}
		if r.Intn(8) == 0 {
			// an application that never parses a schema document: all its types come through the Go API (built here by
			// another root that did parse them)
			tmp := ggql.NewRoot(nil)
			if err := tmp.ParseString(c03UnboundSDL); err != nil {
				panic(err)
			}
			var ts []ggql.Type
			for _, t := range tmp.Types() {
				if _, isSchema := t.(*ggql.Schema); !isSchema && !t.Core() && t.Name() != "Time" {
					ts = append(ts, t)
				}
			}
			if err := root.AddTypes(ts...); err != nil {
				panic(err)
			}
		} else if err := root.ParseString(c03UnboundSDL); err != nil {
			panic(err)
		}
		if r.Intn(2) == 0 {
			_ = root.RegisterType(&c03UCat{}, "Cat")
		}
		c03SetBudget(len(in.Text))
		res := root.ResolveString(in.Text, in.Op, in.Vars)
		if r.Intn(2) == 0 {
			// and once more: whatever the first request ran into must not be in the way of the next one
			c03SetBudget(len(in.Text))
			res = root.ResolveString(in.Text, in.Op, in.Vars)
		}
		c03Budget, c03YieldBudget = 0, 0
		var b bytes.Buffer
		_ = ggql.WriteJSONValue(&b, res, r.Intn(3)-1)
	case "resolve-recursive-input":
		root := ggql.NewRoot(&c03RecRoot{Query: &c03RecQuery{}})
		if err := root.ParseString(c03RecInputSDL); err != nil {
			panic(err)
		}
		c03SetBudget(len(in.Text))
		res := root.ResolveString(in.Text, in.Op, in.Vars)
		c03Budget, c03YieldBudget = 0, 0
		var b bytes.Buffer
		_ = ggql.WriteJSONValue(&b, res, r.Intn(3)-1)
		_ = root.SDL(false, true)
		_ = root.ResolveString(`{ __type(name: "Filter") { inputFields { name defaultValue type { name kind ofType { name } } } } }`, "", nil)
	case "resolve-gen":
		ec := newExecCaseG(r, gen.SchemaOpts{Args: in.Backend != "reflect", Mutation: true, Abstract: in.Backend == "reflect"},
			gen.DocOpts{Frags: true, Dirs: true, Vars: true, Aliases: true, Mutation: true, Abstract: in.Backend == "reflect", Depth: 2 + r.Intn(3)}, gen.GraphOpts{TypedNil: 3})
		bk := in.Backend
		if bk == "reflect" && !back.ReflectFriendly(ec.S) {
			bk = "iface"
		}
		h, err := back.Build(bk, ec.S, ec.SDL, ec.G)
		if err != nil {
			return
		}
		text := ec.Text
		for k, n := 0, 1+r.Intn(3); k < n; k++ {
			text, _ = mutateText(r, text)
		}
		vars := copyVars(ec.DC.Vars)
		if r.Intn(2) == 0 {
			for k := range vars {
				vars[k] = c03RandJSON(r, 2)
			}
		}
		c03SetBudget(len(text))
		res := h.Root.ResolveString(text, ec.DC.OpName, vars)
		c03Budget = 0
		var b bytes.Buffer
		_ = ggql.WriteJSONValue(&b, res, 0)
	case "value":
		c03SetBudget(len(in.Text))
		v, err := ggql.ParseValueString(in.Text)
		c03Budget = 0
		if err == nil && len(in.Text) < 20000 {
			var b bytes.Buffer
			_ = ggql.WriteSDLValue(&b, v, r.Intn(3)-1)
			_ = ggql.WriteJSONValue(&b, v, r.Intn(3)-1)
			_ = ggql.WriteJSONValue(&faultyWriter{at: r.Intn(20)}, v, 2)
			_ = ggql.WriteSDLValue(&faultyWriter{at: r.Intn(20)}, v, -1)
		}
	case "print":
		root := ggql.NewRoot(&zoo.Root{})
		if err := root.ParseString(in.Text); err != nil {
			return
		}
		for _, full := range []bool{true, false} {
			for _, desc := range []bool{true, false} {
				_ = root.SDL(full, desc)
			}
		}
		for _, t := range root.Types() {
			_ = t.SDL(true)
			_ = t.String()
			_ = ggql.Locate(t)
		}
	case "addtypes-names":
		root := ggql.NewRoot(&c15Root{Query: &c15Obj{}, Mutation: &c15Obj{}, Subscription: &c15Obj{}})
		if r.Intn(3) == 0 {
			_ = root.ParseString("type Query { zzFirst: Int }")
		}
		if err := root.AddTypes(c13BuildTypes(c13NamePositions[r.Intn(len(c13NamePositions))], in.Text)...); err != nil {
			// refused: the same set with a proper name, so that what follows reads types that were built in Go
			_ = root.AddTypes(c13BuildTypes("", "")...)
		}
		_ = root.SDL(false, true)
		for _, t := range root.Types() {
			_ = t.String()
		}
		_ = root.GetType(in.Text)
		_ = root.ResolveString("{ __schema { types { name fields { name args { name } } enumValues { name } inputFields { name } possibleTypes { name } interfaces { name } } directives { name args { name } } } }", "", nil)
	case "parse-bytes":
		root := ggql.NewRoot(&zoo.Root{})
		c03SetBudget(len(in.Text))
		_ = root.Parse([]byte(in.Text))
		c03Budget = 0
		_ = root.SDL(false, true)
	case "parse-fs":
		root := ggql.NewRoot(&zoo.Root{})
		// the document cut into files at random places (ParseFS joins them in map order), plus a faulty file system
		fsys := &faultyFS{files: map[string]string{}, failOpen: -1, failRead: -1, failClose: -1}
		rest := in.Text
		for fi := 0; len(rest) > 0 && fi < 4; fi++ {
			k := len(rest)
			if fi < 3 {
				k = r.Intn(len(rest) + 1)
			}
			fsys.files[fmt.Sprintf("f%d.graphql", fi)] = rest[:k]
			rest = rest[k:]
		}
		fsys.files["other.txt"] = "not graphql {"
		switch in.FaultK {
		case 0:
			fsys.failOpen = r.Intn(3)
		case 1:
			fsys.failRead = r.Intn(3)
		default:
			if r.Intn(2) == 0 {
				fsys.failClose = r.Intn(3)
			}
		}
		pats := [][]string{{"*.graphql"}, {"*"}, {"f0.graphql", "f0.graphql", "*.graphql"}, {"["}, {"**"}, {}, {"nomatch*"}, {"\\"}, {"f[0-9].graph?l"}, {"*.graphql", "[a-"}}[r.Intn(10)]
		c03SetBudget(len(in.Text) + 64)
		_ = root.ParseFS(fsys, pats...)
		c03Budget = 0
		_ = root.SDL(false, true)
	case "exe-bytes":
		root, _, err := zoo.NewRoot()
		if err != nil {
			panic(err)
		}
		c03SetBudget(len(in.Text))
		exe, _ := root.ParseExecutable([]byte(in.Text))
		c03Budget = 0
		if exe != nil {
			_ = exe.String()
			c03SetBudget(len(in.Text))
			_, _ = root.ResolveExecutable(exe, in.Op, in.Vars)
			c03Budget, c03YieldBudget = 0, 0
		}
	case "exe-reader-fault":
		root, _, err := zoo.NewRoot()
		if err != nil {
			panic(err)
		}
		c03SetBudget(len(in.Text))
		exe, _ := root.ParseExecutableReader(&faultyReader{data: []byte(in.Text), at: in.FaultAt, kind: in.FaultK})
		c03Budget = 0
		if exe != nil {
			_ = exe.String()
		}
	case "value-reader-fault":
		c03SetBudget(len(in.Text))
		v, err := ggql.ParseValue(&faultyReader{data: []byte(in.Text), at: in.FaultAt, kind: in.FaultK})
		c03Budget = 0
		if err == nil {
			var b bytes.Buffer
			_ = ggql.WriteSDLValue(&b, v, 0)
		}
	case "reader-sdl":
		root := ggql.NewRoot(&zoo.Root{})
		c03SetBudget(len(in.Text))
		_ = root.ParseReader(&faultyReader{data: []byte(in.Text), at: in.FaultAt, kind: in.FaultK})
		c03Budget = 0
		_ = root.SDL(false, true)
	case "reader-exe":
		root, _, err := zoo.NewRoot()
		if err != nil {
			panic(err)
		}
		c03SetBudget(len(in.Text))
		_ = root.ResolveReader(&faultyReader{data: []byte(in.Text), at: in.FaultAt, kind: in.FaultK}, "", nil)
		c03Budget = 0
	case "writer":
		root := ggql.NewRoot(&zoo.Root{})
		if err := root.ParseString(in.Text); err != nil {
			return
		}
		for _, t := range root.Types() {
			if w, isW := t.(interface {
				Write(w io.Writer, desc bool) error
			}); isW {
				_ = w.Write(&faultyWriter{at: in.FaultAt}, true)
			}
		}
	}
}

func c03Child(args []string) int {
	if len(args) < 6 {
		return 2
	}
	seed, _ := strconv.ParseInt(args[0], 10, 64)
	tier := args[1]
	batch, _ := strconv.Atoi(args[2])
	from, _ := strconv.Atoi(args[3])
	to, _ := strconv.Atoi(args[4])
	f, err := os.OpenFile(args[5], os.O_CREATE|os.O_WRONLY|os.O_APPEND, 0o644)
	if err != nil {
		return 2
	}
	defer f.Close()
	// keep a runaway allocation from taking the machine down: the address space of the child is capped
	_ = syscall.Setrlimit(syscall.RLIMIT_AS, &syscall.Rlimit{Cur: 6 << 30, Max: 6 << 30})
	// per-input wall-clock watchdog (a call that does not come back outside the scanner): the child says which input it
	// was and ends; the parent re-runs that input alone before anything is concluded from it
	var cur, began int64 = -1, 0
	limit := int64(20)
	if tier == "thorough" {
		limit = 90
	}
	go func() {
		for {
			time.Sleep(time.Second)
			if i, b := atomic.LoadInt64(&cur), atomic.LoadInt64(&began); i >= 0 && time.Now().Unix()-b > limit && os.Getenv("VERIF_C03_NO_INPUT_WATCHDOG") == "" {
				fmt.Fprintf(f, "T %d\n", i)
				os.Exit(4)
			}
		}
	}()
	for i := from; i < to; i++ {
		in := c03Gen(seed, tier, batch, i)
		fmt.Fprintf(f, "B %d\n", i)
		atomic.StoreInt64(&began, time.Now().Unix())
		atomic.StoreInt64(&cur, int64(i))
		status, stack := c03Run(in)
		atomic.StoreInt64(&cur, -1)
		if status != "ok" {
			fmt.Fprintf(f, "S %d %s\n", i, strings.ReplaceAll(stack, "\n", "\\n"))
		}
		fmt.Fprintf(f, "E %d %s\n", i, strings.ReplaceAll(status, "\n", " "))
	}
	fmt.Fprintf(f, "DONE\n")
	return 0
}

// ---------------------------------------------------------------- parent

func runC03(c *run.Ctx) {
	c.Rule = "inputs: structure-aware mutations and truncations of valid SDL / executable / value corpora, raw random bytes (NUL, 0x80-0xFF, BOM fragments), a catalogue of adversarial requests over a reflection schema " +
		"with methods (recursive fragments, omitted/null/mistyped/surplus arguments, malformed variable definitions, deep nesting), random variable maps of JSON shapes and native Go kinds, readers failing at every kind of " +
		"offset ((0,err), (n,EOF), (0,nil)) and failing writers; every public entry point is driven in supervised child processes. Monitors: recover() (panic), child death (fatal error / stack overflow), scanner step " +
		"budget via the verifTick hook (64*(n+1)+4096 steps for n input bytes => livelock), wall-clock watchdog with isolated re-run (no-return; inconclusive unless confirmed). An input is non-trivial when it is " +
		"not accepted unchanged (mutated, adversarial, faulted); distinct by input text + entry"
	work := filepath.Join(run.VerifDir(), ".work", fmt.Sprintf("c03-%d", os.Getpid()))
	_ = os.MkdirAll(work, 0o755)
	defer os.RemoveAll(work)
	batches := c.N(16, 64)
	per := c.N(1500, 20000)
	self, _ := os.Executable()
	type result struct {
		batch   int
		entries map[int]string
		stacks  map[int]string
		began   int
		done    bool
		out     string
		timeout bool
		lost    string
	}
	results := make(chan result, batches)
	sem := make(chan struct{}, 16)
	for b := 0; b < batches; b++ {
		go func(b int) {
			sem <- struct{}{}
			defer func() { <-sem }()
			res := result{batch: b, entries: map[int]string{}, stacks: map[int]string{}, began: -1}
			from := 0
			for from < per {
				logp := filepath.Join(work, fmt.Sprintf("b%d-%d.log", b, from))
				outp := filepath.Join(work, fmt.Sprintf("b%d-%d.out", b, from))
				of, _ := os.Create(outp)
				cmd := exec.Command(self, "child", "c03", fmt.Sprint(c.Seed), c.Tier, fmt.Sprint(b), fmt.Sprint(from), fmt.Sprint(per), logp)
				cmd.Stdout, cmd.Stderr = of, of
				cmd.Env = append(os.Environ(), "GOTRACEBACK=all")
				_ = cmd.Start()
				doneCh := make(chan error, 1)
				go func() { doneCh <- cmd.Wait() }()
				timedOut := false
				select {
				case <-doneCh:
				case <-time.After(time.Duration(c.N(120, 900)) * time.Second):
					timedOut = true
					_ = cmd.Process.Signal(os.Interrupt)
					_ = cmd.Process.Kill()
					<-doneCh
				}
				of.Close()
				last := -1
				ended := map[int]bool{}
				finished := false
				if lf, err := os.Open(logp); err == nil {
					sc := bufio.NewScanner(lf)
					sc.Buffer(make([]byte, 1<<20), 1<<26)
					for sc.Scan() {
						line := sc.Text()
						switch {
						case strings.HasPrefix(line, "B "):
							last, _ = strconv.Atoi(line[2:])
						case strings.HasPrefix(line, "S "):
							parts := strings.SplitN(line[2:], " ", 2)
							i, _ := strconv.Atoi(parts[0])
							if len(parts) == 2 {
								res.stacks[i] = strings.ReplaceAll(parts[1], "\\n", "\n")
							}
						case strings.HasPrefix(line, "E "):
							parts := strings.SplitN(line[2:], " ", 2)
							i, _ := strconv.Atoi(parts[0])
							ended[i] = true
							if len(parts) == 2 {
								res.entries[i] = parts[1]
							}
						case strings.HasPrefix(line, "T "):
							timedOut = true // the child's own per-input watchdog
						case line == "DONE":
							finished = true
						}
					}
					lf.Close()
				}
				if finished {
					break
				}
				// the child died or was killed while running input `last`
				ob, _ := os.ReadFile(outp)
				o := string(ob)
				if len(o) > 6000 {
					o = o[:3000] + "\n...\n" + o[len(o)-3000:]
				}
				if last >= 0 && !ended[last] {
					if timedOut {
						res.entries[last] = "timeout"
					} else {
						kind := "fatal"
						first := ""
						for _, l := range strings.Split(o, "\n") {
							if strings.HasPrefix(l, "fatal error:") || strings.HasPrefix(l, "runtime: goroutine stack exceeds") {
								first = l
								break
							}
						}
						res.entries[last] = kind + "|" + first
					}
					res.stacks[last] = o
					from = last + 1
				} else {
					// the child ended without finishing its batch and not inside an input: nothing of ggql's was running, the
					// harness itself failed - the inputs it did not get to were NOT executed and that must not pass silently
					res.lost = fmt.Sprintf("batch %d: the child ended after input %d without finishing and outside any input: %s", b, last, clip(o, 600))
					break
				}
			}
			results <- res
		}(b)
	}
	classes := map[string]int{}
	confirmed := map[string]bool{}
	total := 0
	for k := 0; k < batches; k++ {
		res := <-results
		if res.lost != "" {
			c.Unfinished(res.lost)
		}
		for i := 0; i < per; i++ {
			st, has := res.entries[i]
			if !has {
				continue
			}
			in := c03Gen(c.Seed, c.Tier, res.batch, i)
			total++
			nontriv := in.Cat != "print-after-load"
			c.Eval(in.Entry+"|"+in.Text+fmt.Sprint(in.Vars, in.FaultAt, in.FaultK), nontriv)
			c.Bucket("entry", in.Entry)
			c.Bucket("category", in.Cat)
			if total%4000 == 1 {
				c.Sample(map[string]interface{}{"entry": in.Entry, "category": in.Cat, "text": clip(in.Text, 300), "vars": fmt.Sprint(in.Vars), "status": st})
			}
			if st == "ok" {
				continue
			}
			parts := strings.SplitN(st, "|", 4)
			kind := parts[0]
			class := st
			if len(parts) >= 3 {
				class = strings.Join(parts[:3], "|")
			}
			if kind == "timeout" {
				// isolated re-run with a generous limit: only a confirmed no-return is a violation (one confirmation per
				// distinct input, and no more than a handful of confirmations per run)
				key := in.Entry + "|" + in.Text
				ok, seen := confirmed[key]
				if !seen && len(confirmed) < 6 {
					ok = c03Confirm(self, c, res.batch, i, work)
					confirmed[key] = ok
					seen = true
				}
				if !seen {
					c.Count("timeouts_not_re_run(confirmation_budget_used)", 1)
					continue
				}
				if ok {
					class = "no-return|" + in.Entry
				} else {
					c.Inconclusive(fmt.Sprintf("batch %d input %d hit the batch watchdog but returned when run alone", res.batch, i))
					continue
				}
			}
			if kind == "fatal" {
				class = "fatal|" + in.Entry + "|" + strings.TrimSpace(parts[len(parts)-1])
				if strings.Contains(class, "out of memory") || strings.Contains(class, "cannot allocate") {
					// the child's own address-space cap fired: a resource verdict of the harness, not a crash class
					c.Inconclusive(fmt.Sprintf("batch %d input %d (%s, %d bytes) exhausted the child's 6 GiB address-space cap", res.batch, i, in.Entry, len(in.Text)))
					continue
				}
			}
			classes[class]++
			if classes[class] > 1 {
				continue
			}
			c.Violation("c03-"+kind, map[string]interface{}{"class": class, "entry": in.Entry, "category": in.Cat, "text": in.Text, "op": in.Op, "vars": fmt.Sprintf("%#v", in.Vars),
				"backend": in.Backend, "fault_at": in.FaultAt, "fault_kind": in.FaultK, "status": st, "batch": res.batch, "index": i, "stack": clip(res.stacks[i], 5000)})
		}
	}
	c.MinNontriv = total / 8 // catalogue inputs repeat across batches; distinct counts inputs, not executions
	c.Set("failure_classes", classes)
	c.Set("inputs_executed", total)
}

func clip(s string, n int) string {
	if len(s) > n {
		return s[:n] + "…"
	}
	return s
}

// c03Confirm re-runs one input alone with a 60 s limit; true = it still does not return.
func c03Confirm(self string, c *run.Ctx, batch, i int, work string) bool {
	logp := filepath.Join(work, fmt.Sprintf("confirm-%d-%d.log", batch, i))
	cmd := exec.Command(self, "child", "c03", fmt.Sprint(c.Seed), c.Tier, fmt.Sprint(batch), fmt.Sprint(i), fmt.Sprint(i+1), logp)
	cmd.Env = append(os.Environ(), "VERIF_C03_NO_INPUT_WATCHDOG=1") // this run is the watchdog: 60 s for one input
	_ = cmd.Start()
	doneCh := make(chan error, 1)
	go func() { doneCh <- cmd.Wait() }()
	select {
	case <-doneCh:
		return false
	case <-time.After(60 * time.Second):
		_ = cmd.Process.Kill()
		<-doneCh
		return true
	}
}
