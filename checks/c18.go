package checks

import (
	"bytes"
	"encoding/json"
	"fmt"
	"io"
	"math"
	"math/rand"
	"reflect"
	"strings"
	"sync"
	"sync/atomic"
	"unicode/utf8"

	"github.com/uhn/ggql/pkg/ggql"

	"verif/internal/ref"
	"verif/internal/run"
)

func init() {
	register(&Check{ID: "C18", Level: "exploration", Run: runC18})
}

var c18Names = []string{"a", "b", "c", "abc", "_x", "A1", "zz_9", "on", "type", "query", "nul", "tru", "False", "Null", "x"}

func c18Name(r *rand.Rand) string {
	if r.Intn(4) == 0 {
		const first = "abcdefghijklmnopqrstuvwxyzABCDEFGHIJKLMNOPQRSTUVWXYZ_"
		const rest = first + "0123456789"
		n := 1 + r.Intn(6)
		b := make([]byte, n)
		b[0] = first[r.Intn(len(first))]
		for i := 1; i < n; i++ {
			b[i] = rest[r.Intn(len(rest))]
		}
		s := string(b)
		if s == "true" || s == "false" || s == "null" {
			return s + "_"
		}
		return s
	}
	return c18Names[r.Intn(len(c18Names))]
}

var c18Runes = []rune{'a', 'Z', '0', ' ', '"', '\\', '/', '\n', '\r', '\t', '\b', '\f', 0x01, 0x1f, 0x7f, 0x00e9, 0x2028, 0xfffd, 0x1F600, 0x10FFFF,
	'{', '}', '[', ']', ',', ':', '$', '#', '\'', 'u', 0x0b, 0x0e, 0x80, 0x7ff, 0x800, 0xffff}

func c18String(r *rand.Rand) string {
	switch r.Intn(12) {
	case 0:
		return ""
	case 1:
		return `"`
	case 2:
		return `\`
	case 3:
		return `""`
	case 4:
		return `A`
	case 5:
		return `"""`
	}
	n := r.Intn(10)
	var b strings.Builder
	if r.Intn(12) == 0 {
		// long strings: plain text of 40-200 bytes with characters that need an escape dropped in at any offset (a writer
		// that fills a buffer meets them at its boundaries)
		m := 40 + r.Intn(160)
		for b.Len() < m {
			if r.Intn(12) == 0 {
				b.WriteRune([]rune{0x1b, 0x01, 0x1f, '"', '\\', '\n', 0x7f, 0x2028, 0x1F600, 0xe9}[r.Intn(10)])
			} else {
				b.WriteByte(byte('a' + r.Intn(26)))
			}
		}
		return b.String()
	}
	for i := 0; i < n; i++ {
		if r.Intn(3) == 0 {
			// any valid rune (excluding NUL: ggql's scanner uses 0 as end marker; NUL is
			// written as \u0000 so it is legal too and included separately)
			var ru rune
			for {
				ru = rune(r.Intn(0x110000))
				if utf8.ValidRune(ru) {
					break
				}
			}
			b.WriteRune(ru)
		} else {
			b.WriteRune(c18Runes[r.Intn(len(c18Runes))])
		}
	}
	if r.Intn(20) == 0 {
		b.WriteRune(0)
	}
	return b.String()
}

func c18Float(r *rand.Rand) float64 {
	for {
		var f float64
		switch r.Intn(6) {
		case 0:
			f = r.NormFloat64()
		case 1:
			f = float64(r.Int63n(1000000)) + 0.5
		case 2:
			f = math.Float64frombits(r.Uint64())
		case 3:
			f = r.Float64() * math.Pow(10, float64(r.Intn(600)-300))
		case 4:
			f = []float64{0.1, -0.1, 1.5e-7, 2.5e22 + 0.0, math.SmallestNonzeroFloat64, 1.7976931348623157e308, -2.5, 1e-300, 123456789.125, 0.30000000000000004}[r.Intn(10)]
		case 5:
			f = float64(r.Intn(1<<20)) / 1024.0
		}
		if r.Intn(2) == 0 {
			f = -f
		}
		if math.IsNaN(f) || math.IsInf(f, 0) || f == math.Trunc(f) {
			continue // the stated domain is non-integral finite floats
		}
		return f
	}
}

func c18Int(r *rand.Rand) int64 {
	switch r.Intn(6) {
	case 0:
		return int64(r.Intn(10))
	case 1:
		return -int64(r.Intn(1000))
	case 2:
		return []int64{0, 1, -1, math.MaxInt32, math.MinInt32, math.MaxInt32 + 1, 1 << 53, math.MaxInt64, math.MinInt64, -(1 << 53) - 1}[r.Intn(10)]
	case 3:
		return r.Int63()
	case 4:
		return -r.Int63()
	}
	return int64(r.Intn(1 << 20))
}

// c18Value generates a value of the stated domain. feats collects feature names.
func c18Value(r *rand.Rand, depth int, feats map[string]bool) interface{} {
	k := r.Intn(12)
	if depth <= 0 && k >= 8 {
		k = r.Intn(8)
	}
	switch k {
	case 0:
		feats["null"] = true
		return nil
	case 1:
		feats["bool"] = true
		return r.Intn(2) == 0
	case 2:
		feats["int"] = true
		return c18Int(r)
	case 3:
		feats["float"] = true
		return c18Float(r)
	case 4, 5:
		feats["string"] = true
		return c18String(r)
	case 6:
		feats["symbol"] = true
		return ggql.Symbol(c18Name(r))
	case 7:
		feats["var"] = true
		return ggql.Var(c18Name(r))
	case 8, 9:
		n := r.Intn(5)
		if r.Intn(5) == 0 {
			n = 0
		}
		l := make([]interface{}, 0, n)
		for i := 0; i < n; i++ {
			l = append(l, c18Value(r, depth-1, feats))
		}
		if n == 0 {
			feats["emptylist"] = true
		} else {
			feats["list"] = true
		}
		for i := 1; i < len(l); i++ {
			if isColl(l[i]) && isColl(l[i-1]) {
				feats["adjacent-containers"] = true
			}
			if isColl(l[i]) != isColl(l[i-1]) {
				feats["scalar-next-to-container"] = true
			}
		}
		return l
	default:
		n := r.Intn(5)
		if r.Intn(5) == 0 {
			n = 0
		}
		m := map[string]interface{}{}
		for i := 0; i < n; i++ {
			k := c18Name(r)
			if r.Intn(12) == 0 {
				// legal names that are spelled like literals
				k = []string{"true", "false", "null", "on", "fragment", "query"}[r.Intn(6)]
				feats["key-spelled-like-a-keyword"] = true
			}
			m[k] = c18Value(r, depth-1, feats)
		}
		if len(m) == 0 {
			feats["emptymap"] = true
		} else {
			feats["map"] = true
		}
		return m
	}
}

func isColl(v interface{}) bool {
	switch v.(type) {
	case []interface{}, map[string]interface{}:
		return true
	}
	return false
}

// c18JSONView is the value with symbols and variables as strings, ints/floats as json.Number-comparable.
func c18JSONView(v interface{}) interface{} {
	switch t := v.(type) {
	case ggql.Symbol:
		return string(t)
	case ggql.Var:
		return "$" + string(t)
	case string:
		return perByteValid(t)
	case []interface{}:
		o := make([]interface{}, len(t))
		for i, e := range t {
			o[i] = c18JSONView(e)
		}
		return o
	case map[string]interface{}:
		o := map[string]interface{}{}
		for k, e := range t {
			o[k] = c18JSONView(e)
		}
		return o
	}
	return v
}

// c18FromStd converts an encoding/json (UseNumber) decode into int64/float64 form.
func c18FromStd(v interface{}) interface{} {
	switch t := v.(type) {
	case json.Number:
		if i, err := t.Int64(); err == nil {
			return i
		}
		f, _ := t.Float64()
		return f
	case []interface{}:
		o := make([]interface{}, len(t))
		for i, e := range t {
			o[i] = c18FromStd(e)
		}
		return o
	case map[string]interface{}:
		o := map[string]interface{}{}
		for k, e := range t {
			o[k] = c18FromStd(e)
		}
		return o
	}
	return v
}

func c18InvalidUTF8(r *rand.Rand) string {
	parts := []string{"a", "\xff", "\xc0", "é", "\xe2\x82", "\"", "\\", "\x80", "z", "\xf0\x9f\x98", "😀", "\n"}
	n := 1 + r.Intn(6)
	var b strings.Builder
	for i := 0; i < n; i++ {
		b.WriteString(parts[r.Intn(len(parts))])
	}
	return b.String()
}

// c18Scribble writes into every map of a parsed value (and into the elements of its lists); it returns how many containers it touched.
func c18Scribble(v interface{}) int {
	n := 0
	switch t := v.(type) {
	case map[string]interface{}:
		for _, e := range t {
			n += c18Scribble(e)
		}
		t["scribbledZz"] = int64(1)
		n++
	case []interface{}:
		for i, e := range t {
			n += c18Scribble(e)
			if e == nil {
				t[i] = "scribbled"
			}
		}
		n++
	}
	return n
}

func runC18(c *run.Ctx) {
	c.Rule = "seeded generator over {null,bool,int64,non-integral finite float,valid UTF-8 string,Symbol,Var,list,map with name keys}, depth<=4; " +
		"each value written by WriteSDLValue and WriteJSONValue at indent -1,0,2 with Sort on/off and read back by ParseValueString and encoding/json; " +
		"non-trivial = contains a container or a string with a character needing escape; distinct by SDL text at indent 0, Sort=true"
	n := c.N(15000, 400000)
	c.MinNontriv = n / 10
	defer func() { ggql.Sort = false }()
	type rec struct {
		Value  string `json:"value_sdl"`
		Indent int    `json:"indent"`
		Sort   bool   `json:"sort"`
		Text   string `json:"text"`
		Mode   string `json:"mode"`
		Got    string `json:"got,omitempty"`
		Err    string `json:"err,omitempty"`
	}
	defer func() { ggql.MaxResolveDepth = 100 }()
	for i := 0; i < n && !c.TooMany(); i++ {
		r := c.Rand(i)
		feats := map[string]bool{}
		var v interface{}
		// the package-level switch that limits the depth of REQUEST resolution is none of the value reader's or writer's
		// business: an application that lowers it still reads back every value it wrote
		ggql.MaxResolveDepth = 100
		if i%40 == 7 {
			ggql.MaxResolveDepth = 2 + r.Intn(3)
			feats["MaxResolveDepth-lowered-while-values-are-written-and-read"] = true
		}
		invalid := i%25 == 24
		if invalid {
			s := c18InvalidUTF8(r)
			if r.Intn(2) == 0 {
				v = s
			} else {
				v = []interface{}{s, map[string]interface{}{"k": s}}
			}
			feats["invalid-utf8"] = true
		} else if i%60 == 31 {
			// many containers in ONE value: a long list of small records, a map of many lists, a long run of empty containers,
			// a narrow value nested many levels down (what a reader counts per parse must be depth, not volume)
			m := 60 + r.Intn(240)
			switch r.Intn(4) {
			case 0:
				l := make([]interface{}, 0, m)
				for k := 0; k < m; k++ {
					l = append(l, map[string]interface{}{"id": int64(k), "tags": []interface{}{ggql.Symbol("A"), c18String(r)}})
				}
				v = l
			case 1:
				mm := map[string]interface{}{}
				for k := 0; k < m; k++ {
					mm[fmt.Sprintf("k%d", k)] = []interface{}{int64(k)}
				}
				v = mm
			case 2:
				l := make([]interface{}, 0, m)
				for k := 0; k < m; k++ {
					if k%2 == 0 {
						l = append(l, []interface{}{})
					} else {
						l = append(l, map[string]interface{}{})
					}
				}
				v = l
			default:
				var cur interface{} = c18Value(r, 1, feats)
				for k := 0; k < 20+m/2; k++ { // 50 to 170 levels
					if k%2 == 0 {
						cur = []interface{}{cur}
					} else {
						cur = map[string]interface{}{"d": cur, "n": int64(k)}
					}
				}
				v = cur
			}
			feats["many-containers-in-one-value"] = true
		} else {
			v = c18Value(r, 1+r.Intn(4), feats)
		}
		ggql.Sort = true
		var kb bytes.Buffer
		if pv, _ := run.Protect(func() { _ = ggql.WriteSDLValue(&kb, v, 0) }); pv != nil {
			c.Eval(fmt.Sprintf("panic %d", i), true)
			c.Violation("c18-sdl-write", rec{Value: fmt.Sprintf("%#v", v), Indent: 0, Sort: true, Mode: "sdl-write", Got: fmt.Sprint(pv)})
			continue
		}
		key := kb.String()
		nontriv := isColl(v) || strings.ContainsAny(key, "\\")
		c.Eval(key, nontriv)
		for f := range feats {
			c.Bucket("value_features", f)
		}
		if i < 3 {
			c.Sample(map[string]interface{}{"sdl_indent0": key})
		}
		for _, indent := range []int{-1, 0, 2} {
			for _, srt := range []bool{false, true} {
				ggql.Sort = srt
				fail := func(mode, text, got string, err error) {
					e := ""
					if err != nil {
						e = err.Error()
					}
					c.Violation("c18-"+mode, rec{Value: key, Indent: indent, Sort: srt, Text: text, Mode: mode, Got: got, Err: e})
				}
				// SDL round trip (not for invalid UTF-8: the statement only covers valid strings there)
				var sb bytes.Buffer
				var werr error
				pv, _ := run.Protect(func() { werr = ggql.WriteSDLValue(&sb, v, indent) })
				if pv != nil || werr != nil {
					fail("sdl-write", "", fmt.Sprint(pv), werr)
					continue
				}
				if !invalid {
					var back interface{}
					var perr error
					pv, _ = run.Protect(func() { back, perr = ggql.ParseValueString(sb.String()) })
					if pv != nil || perr != nil {
						fail("sdl-parse", sb.String(), fmt.Sprint(pv), perr)
					} else if !reflect.DeepEqual(normEmpty(back), normEmpty(v)) {
						fail("sdl-roundtrip", sb.String(), c18Show(back), nil)
					} else if indent == 0 && c18Scribble(back) > 0 {
						// a parsed value belongs to the caller: after the caller wrote into its containers (the empty ones
						// too), parsing the same text again must still give the original value
						var again interface{}
						pv, _ = run.Protect(func() { again, perr = ggql.ParseValueString(sb.String()) })
						c.Count("reparsed_after_caller_modified_the_first_result", 1)
						if pv != nil || perr != nil || !reflect.DeepEqual(normEmpty(again), normEmpty(v)) {
							fail("sdl-parse-after-scribble", sb.String(), c18Show(again), perr)
						}
					}
					c.Count("sdl_roundtrips", 1)
					if srt {
						// the same text read through ParseValue from a source that delivers it in pieces: one byte per Read,
						// now and then nothing at all (0, nil - "try again", not the end), the last byte together with io.EOF
						var rb interface{}
						sr := &c18StallReader{data: []byte(sb.String()), r: rand.New(rand.NewSource(int64(i)*31 + int64(indent))), eofWithLast: i%2 == 0}
						pv, _ = run.Protect(func() { rb, perr = ggql.ParseValue(sr) })
						c.Count("sdl_roundtrips_through_a_stalling_reader", 1)
						if pv != nil || perr != nil || !reflect.DeepEqual(normEmpty(rb), normEmpty(v)) {
							fail("sdl-roundtrip-stalling-reader", sb.String(), c18Show(rb)+fmt.Sprintf(" (reader stalled at offsets %v)", sr.stalled), perr)
						}
					}
				}
				// JSON
				var jb bytes.Buffer
				pv, _ = run.Protect(func() { werr = ggql.WriteJSONValue(&jb, v, indent) })
				if pv != nil || werr != nil {
					fail("json-write", "", fmt.Sprint(pv), werr)
					continue
				}
				want := c18JSONView(v)
				collapse := func(x interface{}) interface{} { return x }
				if invalid {
					// "become U+FFFD": one per byte or one per run both satisfy the statement
					collapse = collapseFFFD
				}
				dec := json.NewDecoder(bytes.NewReader(jb.Bytes()))
				dec.UseNumber()
				var std interface{}
				if err := dec.Decode(&std); err != nil {
					fail("json-invalid", jb.String(), "", err)
				} else if dec.More() {
					fail("json-trailing", jb.String(), "", nil)
				} else if !reflect.DeepEqual(collapse(normEmpty(c18FromStd(std))), collapse(normEmpty(want))) {
					fail("json-decode-differs", jb.String(), fmt.Sprintf("%#v", std), nil)
				}
				c.Count("json_std_decodes", 1)
				var back interface{}
				var perr error
				pv, _ = run.Protect(func() { back, perr = ggql.ParseValueString(jb.String()) })
				if pv != nil || perr != nil {
					fail("json-ggqlparse", jb.String(), fmt.Sprint(pv), perr)
				} else if !reflect.DeepEqual(collapse(normEmpty(back)), collapse(normEmpty(want))) {
					fail("json-ggqlparse-differs", jb.String(), c18Show(back), nil)
				}
				c.Count("json_ggql_parses", 1)
			}
		}
	}
	// the writers are functions of their arguments only: called from several goroutines at once, each on a value and a
	// buffer of its own, every goroutine still reads back exactly what it wrote
	ggql.Sort = true
	const writers = 8
	per := c.N(1500, 20000)
	var mu sync.Mutex
	var bad []rec
	var wg sync.WaitGroup
	var done int64
	for g := 0; g < writers; g++ {
		wg.Add(1)
		go func(g int) {
			defer wg.Done()
			for k := 0; k < per; k++ {
				r := c.Rand(5000000 + g*1000000 + k)
				v := c18Value(r, 1+r.Intn(3), map[string]bool{})
				if k%2 == 0 {
					v = []interface{}{c18String(r) + "é日😀", v}
				}
				var sb, jb bytes.Buffer
				var back interface{}
				var e1, e2, e3 error
				pv, _ := run.Protect(func() {
					e1 = ggql.WriteSDLValue(&sb, v, k%3-1)
					e2 = ggql.WriteJSONValue(&jb, v, k%3-1)
					back, e3 = ggql.ParseValueString(sb.String())
				})
				var std interface{}
				dec := json.NewDecoder(bytes.NewReader(jb.Bytes()))
				dec.UseNumber()
				e4 := dec.Decode(&std)
				ok := pv == nil && e1 == nil && e2 == nil && e3 == nil && e4 == nil && reflect.DeepEqual(normEmpty(back), normEmpty(v)) &&
					reflect.DeepEqual(normEmpty(c18FromStd(std)), normEmpty(c18JSONView(v)))
				atomic.AddInt64(&done, 1)
				if !ok {
					mu.Lock()
					if len(bad) < 5 {
						bad = append(bad, rec{Value: fmt.Sprintf("%#v", v), Indent: k%3 - 1, Sort: true, Text: sb.String() + "  |JSON| " + jb.String(), Mode: "concurrent-writers", Got: c18Show(back), Err: fmt.Sprint(pv, e1, e2, e3, e4)})
					}
					mu.Unlock()
					return
				}
			}
		}(g)
	}
	wg.Wait()
	c.Count("round_trips_with_8_goroutines_writing_at_once", int(done))
	for _, b := range bad {
		c.Violation("c18-concurrent-writers", b)
	}
}

// normEmpty maps empty containers to canonical empties (nil slice vs empty slice).
func normEmpty(v interface{}) interface{} {
	if ref.Cyclic(v) {
		// a parsed value that contains itself (a reader handing out one shared container): never equal to a generated value,
		// and nothing to walk
		return "<value contains itself>"
	}
	return normEmptyW(v)
}

func normEmptyW(v interface{}) interface{} {
	switch t := v.(type) {
	case []interface{}:
		o := make([]interface{}, len(t))
		for i, e := range t {
			o[i] = normEmptyW(e)
		}
		return o
	case map[string]interface{}:
		o := map[string]interface{}{}
		for k, e := range t {
			o[k] = normEmptyW(e)
		}
		return o
	}
	return v
}

// c18Show formats a parsed value for a report (a value that contains itself can not be printed).
func c18Show(v interface{}) string {
	if ref.Cyclic(v) {
		return "<value contains itself>"
	}
	return fmt.Sprintf("%#v", v)
}

// perByteValid replaces every invalid byte by U+FFFD (one per byte, as a Go range loop decodes).
func perByteValid(s string) string {
	var b strings.Builder
	for _, r := range s {
		b.WriteRune(r)
	}
	return b.String()
}

func collapseFFFD(v interface{}) interface{} {
	switch t := v.(type) {
	case string:
		for strings.Contains(t, "\uFFFD\uFFFD") {
			t = strings.ReplaceAll(t, "\uFFFD\uFFFD", "\uFFFD")
		}
		return t
	case []interface{}:
		o := make([]interface{}, len(t))
		for i, e := range t {
			o[i] = collapseFFFD(e)
		}
		return o
	case map[string]interface{}:
		o := map[string]interface{}{}
		for k, e := range t {
			o[k] = collapseFFFD(e)
		}
		return o
	}
	return v
}

// c18StallReader hands its data out one byte per Read; before about every eighth byte it first returns (0, nil) once, which
// the io.Reader contract defines as "nothing happened" (not end of input).
type c18StallReader struct {
	data        []byte
	pos         int
	r           *rand.Rand
	eofWithLast bool
	justStalled bool
	stalled     []int
}

func (s *c18StallReader) Read(p []byte) (int, error) {
	if s.pos >= len(s.data) {
		return 0, io.EOF
	}
	if len(p) == 0 {
		return 0, nil
	}
	if !s.justStalled && s.r.Intn(8) == 0 {
		s.justStalled = true
		s.stalled = append(s.stalled, s.pos)
		return 0, nil
	}
	s.justStalled = false
	p[0] = s.data[s.pos]
	s.pos++
	if s.pos == len(s.data) && s.eofWithLast {
		return 1, io.EOF
	}
	return 1, nil
}
