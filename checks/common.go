package checks

import (
	"fmt"
	"regexp"
	"sort"
	"strings"

	"github.com/uhn/ggql/pkg/ggql"

	"verif/internal/back"
	"verif/internal/model"
	"verif/internal/ref"
	"verif/internal/run"
)

// Outcome is what one request produced on the real implementation.
type Outcome struct {
	Resp     map[string]interface{}
	HasData  bool
	Data     interface{} // canonical
	ErrPaths [][]interface{}
	Msgs     []string
	Calls    []back.Call
	Panic    interface{}
	Stack    string
}

// Request is one request against a harness.
type Request struct {
	Text   string
	OpName string
	Vars   map[string]interface{}
	Entry  int // 0 ResolveString, 1 ResolveBytes, 2 ResolveReader, 3 ParseExecutable+ResolveExecutable
	// Exe, when set, is an executable parsed earlier (and possibly resolved before): the request is
	// ResolveExecutable on it, whatever Entry says. Used for parse-once / resolve-many histories.
	Exe *ggql.Executable
	// KeepVars hands the caller's own variable map to ggql (no private copy): callers re-use maps.
	KeepVars bool
}

func copyVars(v map[string]interface{}) map[string]interface{} {
	if v == nil {
		return nil
	}
	o := make(map[string]interface{}, len(v))
	for k, e := range v {
		o[k] = deepCopyVal(e)
	}
	return o
}

func deepCopyVal(v interface{}) interface{} {
	switch t := v.(type) {
	case map[string]interface{}:
		return copyVars(t)
	case []interface{}:
		o := make([]interface{}, len(t))
		for i, e := range t {
			o[i] = deepCopyVal(e)
		}
		return o
	}
	return v
}

// Do runs a request and gathers the outcome.
func Do(h *back.Harness, rq Request, plan model.FaultPlan) *Outcome {
	h.Reset(plan)
	out := &Outcome{}
	vars := copyVars(rq.Vars)
	if rq.KeepVars {
		vars = rq.Vars
	}
	out.Panic, out.Stack = run.Protect(func() {
		if rq.Exe != nil {
			res, err := h.Root.ResolveExecutable(rq.Exe, rq.OpName, vars)
			if res == nil {
				res = map[string]interface{}{"data": nil}
			}
			if err != nil {
				res["errors"] = ggql.FormErrorsResult(err)
			}
			out.Resp = res
			return
		}
		switch rq.Entry % 4 {
		case 0:
			out.Resp = h.Root.ResolveString(rq.Text, rq.OpName, vars)
		case 1:
			out.Resp = h.Root.ResolveBytes([]byte(rq.Text), rq.OpName, vars)
		case 2:
			out.Resp = h.Root.ResolveReader(strings.NewReader(rq.Text), rq.OpName, vars)
		default:
			exe, err := h.Root.ParseExecutableString(rq.Text)
			if err != nil {
				out.Resp = map[string]interface{}{"errors": ggql.FormErrorsResult(err)}
				return
			}
			res, err := h.Root.ResolveExecutable(exe, rq.OpName, vars)
			if res == nil {
				res = map[string]interface{}{"data": nil}
			}
			if err != nil {
				res["errors"] = ggql.FormErrorsResult(err)
			}
			out.Resp = res
		}
	})
	out.Calls = append([]back.Call{}, h.Calls...)
	if out.Resp != nil && out.Panic == nil && ref.Cyclic(out.Resp) {
		// a response that contains itself can not be serialised by anything (and no monitor can walk it)
		out.Panic = "the response data structure is cyclic: a map or list in it contains itself"
		out.Resp = nil
	}
	if out.Resp != nil {
		d, has := out.Resp["data"]
		out.HasData = has && d != nil
		out.Data = ref.Canon(d)
		if es, isList := out.Resp["errors"].([]interface{}); isList {
			for _, e := range es {
				em, _ := e.(map[string]interface{})
				if em == nil {
					out.ErrPaths = append(out.ErrPaths, []interface{}{fmt.Sprintf("<<non-map error %T>>", e)})
					continue
				}
				p, _ := em["path"].([]interface{})
				out.ErrPaths = append(out.ErrPaths, p)
				out.Msgs = append(out.Msgs, fmt.Sprint(em["message"]))
			}
		}
	}
	return out
}

var fragSegRe = regexp.MustCompile(`^fragment at \d+:\d+$`)

// stripFragSegs removes "fragment at L:C" segments from a path; n is how many were removed.
func stripFragSegs(p []interface{}) (out []interface{}, n int) {
	for _, e := range p {
		if s, isS := e.(string); isS && fragSegRe.MatchString(s) {
			n++
			continue
		}
		out = append(out, e)
	}
	return
}

func pathKey(p []interface{}) string {
	parts := make([]string, len(p))
	for i, e := range p {
		switch t := e.(type) {
		case string:
			parts[i] = "s:" + t
		default:
			if n, isNum := ref.NumOf(e); isNum {
				parts[i] = "i:" + string(n)
			} else {
				parts[i] = fmt.Sprintf("?%T:%v", e, e)
			}
		}
	}
	return strings.Join(parts, "/")
}

// CompareOpts tunes Compare.
type CompareOpts struct {
	StripFragSeg bool // K-C06-fragseg: ignore "fragment at L:C" segments
	IgnoreErrors bool // compare data only
}

// Compare checks an outcome against the reference; "" means equal.
func Compare(exp *ref.Result, out *Outcome, o CompareOpts) string {
	if out.Panic != nil {
		return fmt.Sprintf("panic: %v", out.Panic)
	}
	if exp.ReqErr {
		if len(out.ErrPaths) == 0 {
			return "request must be rejected but response has no errors"
		}
		if out.HasData {
			return "request must be rejected but response carries data"
		}
		if len(out.Calls) > 0 {
			return fmt.Sprintf("request must be rejected but %d resolver calls were made", len(out.Calls))
		}
		return ""
	}
	if !ref.Match(exp.Data, out.Data) {
		return "data differs at " + ref.Mismatch(exp.Data, out.Data)
	}
	if o.IgnoreErrors {
		return ""
	}
	// error paths as multisets; "arg" errors may carry a longer path (argument name)
	var want []string
	var wantArg []string
	optional := map[string]bool{}
	for _, e := range exp.Errs {
		if e.Kind == "optional" {
			optional[pathKey(e.Path)] = true
		} else if e.Kind == "arg" {
			wantArg = append(wantArg, pathKey(e.Path))
		} else {
			want = append(want, pathKey(e.Path))
		}
	}
	var got []string
	for _, p := range out.ErrPaths {
		if o.StripFragSeg {
			p, _ = stripFragSegs(p)
		}
		got = append(got, pathKey(p))
	}
	sort.Strings(want)
	sort.Strings(got)
	// remove exact matches
	rest := multisetMinus(got, want)
	missing := multisetMinus(want, got)
	if len(missing) > 0 {
		return fmt.Sprintf("missing error path(s) %v (got %v)", missing, got)
	}
	// each remaining actual error must be explained by an arg error prefix, one to one or more (several bad args)
	for _, g := range rest {
		okp := optional[g]
		for _, w := range wantArg {
			if g == w || strings.HasPrefix(g, w+"/") {
				okp = true
			}
		}
		if !okp {
			return fmt.Sprintf("unexpected error path %q (expected %v + arg %v)", g, want, wantArg)
		}
	}
	for _, w := range wantArg {
		found := false
		for _, g := range rest {
			if g == w || strings.HasPrefix(g, w+"/") {
				found = true
			}
		}
		if !found {
			return fmt.Sprintf("missing argument error at %q", w)
		}
	}
	return ""
}

func multisetMinus(a, b []string) []string {
	cnt := map[string]int{}
	for _, x := range b {
		cnt[x]++
	}
	var out []string
	for _, x := range a {
		if cnt[x] > 0 {
			cnt[x]--
			continue
		}
		out = append(out, x)
	}
	return out
}

// Describe renders an outcome for replay files.
func (o *Outcome) Describe() map[string]interface{} {
	paths := make([]string, len(o.ErrPaths))
	for i, p := range o.ErrPaths {
		paths[i] = ref.PathString(p)
	}
	m := map[string]interface{}{"data": ref.Render(o.Data), "has_data": o.HasData, "error_paths": paths, "messages": o.Msgs, "calls": len(o.Calls)}
	if o.Panic != nil {
		m["panic"] = fmt.Sprint(o.Panic)
		m["stack"] = o.Stack
	}
	return m
}

// featKey renders a feature set.
func featKey(f map[string]bool) string {
	ks := make([]string, 0, len(f))
	for k, v := range f {
		if v {
			ks = append(ks, k)
		}
	}
	sort.Strings(ks)
	return strings.Join(ks, ",")
}
