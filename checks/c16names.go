package checks

import (
	"fmt"
	"strings"

	"verif/internal/run"
)

// c16SameNameLoads: a directive and a type share a name (separate name spaces). The type arrives in the first document;
// the second document defines the directive and uses it at one of the places a directive can be used, naming nothing but
// built-in types and types loaded before - a document that needs no type reference resolved at all. The same definitions
// as one document (both orders), as two loads (both orders) and through ParseFS are all accepted and describe the same
// schema (canonical schema read back, introspection, requests).
func c16SameNameLoads(c *run.Ctx) {
	first := "type Query { audit: Audit other: Plain }\ntype Audit { who: String }\ntype Plain { p: Int }\nenum Level { LOW HIGH }\ninput Old { a: Int }\n"
	locs := "OBJECT | FIELD_DEFINITION | ARGUMENT_DEFINITION | INPUT_OBJECT | INPUT_FIELD_DEFINITION | ENUM | ENUM_VALUE | SCALAR | UNION | INTERFACE"
	uses := []struct{ what, text string }{
		{"on an object type", "type Log @Audit { msg: String }\n"},
		{"on a field", "type Log { msg: String @Audit }\n"},
		{"on a field argument", "type Log { msg(n: Int @Audit): String }\n"},
		{"on an input type", "input Fresh @Audit { a: Int }\n"},
		{"on an input field", "input Fresh { a: Int @Audit }\n"},
		{"on an enum", "enum Fresh @Audit { A B }\n"},
		{"on an enum value", "enum Fresh { A @Audit B }\n"},
		{"on a scalar", "scalar Fresh @Audit\n"},
		{"on a union of loaded types", "union Fresh @Audit = Audit | Plain\n"},
		{"on an interface", "interface Fresh @Audit { x: Int }\n"},
		{"on a type and its field, arguments given", "type Log @Audit(tag: \"t\") { msg: String @Audit(n: 3) level: Level old(o: Old): Audit }\n"},
		{"on several definitions", "type Log @Audit { msg: String @Audit }\nenum Fresh { A @Audit }\nscalar Stamp @Audit\n"},
	}
	for ui, u := range uses {
		for _, args := range []string{"", "(tag: String = \"d\", n: Int = 1)"} {
			if strings.Contains(u.text, "(tag:") && args == "" {
				continue
			}
			for _, defFirst := range []bool{true, false} {
				dir := "directive @Audit" + args + " on " + locs + "\n"
				second := dir + u.text
				if !defFirst {
					second = u.text + dir
				}
				arrs := []arrangement{
					{how: "one document, the type's document first", loads: []string{first + second}},
					{how: "one document, the directive's document first", loads: []string{second + first}},
					{how: "two loads: the type's document, then the directive's", loads: []string{first, second}},
					{how: "two loads: the directive's document, then the type's", loads: []string{second, first}},
					{how: "ParseFS of two files", files: map[string]string{"a.graphql": first, "b.graphql": second}},
				}
				if strings.Contains(u.text, "Audit |") || strings.Contains(u.text, "): Audit") {
					arrs = append(arrs[:3], arrs[4:]...) // the second document names types of the first: it can not come first
				}
				var ref0 *c16Outcome
				for ai, a := range arrs {
					out := c16Run(a)
					c.Count("same_name_arrangements_loaded", 1)
					if ai == 0 {
						o := out
						ref0 = &o
						if !out.accepted {
							c.Violation("c16-same-name", map[string]interface{}{"use": u.what, "diag": "the definitions are refused as one document: " + clip(out.err, 300), "loads_a": a.loads})
							break
						}
						continue
					}
					diag := ""
					switch {
					case out.accepted != ref0.accepted:
						diag = fmt.Sprintf("acceptance differs: %q accepted, %q refused (%s)", arrs[0].how, a.how, clip(out.err, 200))
					case out.canon != ref0.canon:
						diag = "canonical schema differs: " + firstDiff(ref0.canon, out.canon)
					case out.intro != ref0.intro:
						diag = "introspection answer differs: " + firstDiffLong(ref0.intro, out.intro)
					case out.reqs != ref0.reqs:
						diag = "request answers differ: " + firstDiff(ref0.reqs, out.reqs)
					}
					if diag != "" {
						c.Violation("c16-same-name", map[string]interface{}{"use": u.what, "diag": diag, "arrangement_a": arrs[0].how, "arrangement_b": a.how, "loads_a": arrs[0].loads, "loads_b": a.loads, "files_b": a.files})
						break
					}
				}
				c.Eval(fmt.Sprintf("same-name|%d|%s|%v", ui, args, defFirst), true)
				c.Bucket("steering", "directive-named-like-a-loaded-type:"+u.what)
			}
		}
	}
}
