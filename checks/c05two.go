package checks

import (
	"fmt"

	"verif/internal/model"
	"verif/internal/ref"
	"verif/internal/run"

	"github.com/uhn/ggql/pkg/ggql"
)

// Two Go struct types that serve ONE object type under reflection: c05TA holds the natural Go kinds of the declared
// scalars, c05TB holds other kinds under the same field names.
type c05TA struct {
	V string
	N int32
	B bool
	L int64
}
type c05TB struct {
	V int
	N string
	B float64
	L string
}
type c05TQuery struct {
	A     *c05TA
	B     *c05TB
	Items []interface{}
}
type c05TSchema struct{ Query *c05TQuery }

// c05TwoGoTypes: what a leaf is answered as is decided by the declared type and the value at hand - not by the Go type the
// field was bound through when another object of the same GraphQL type was met earlier. Histories on one root (A before
// B, B before A, both in one list); oracle: the typed walk of the response and "a null where a value was returned has an
// error at exactly that path".
func c05TwoGoTypes(c *run.Ctx) {
	const sdl = `type Query { a: T b: T items: [T] } type T { v: String n: Int b: Boolean l: Int64 }`
	ms := &model.Schema{Query: "Query", Types: []*model.TypeDef{
		{Kind: model.Object, Name: "T", Fields: []*model.FieldDef{{Name: "v", Type: model.Named("String")}, {Name: "n", Type: model.Named("Int")}, {Name: "b", Type: model.Named("Boolean")}, {Name: "l", Type: model.Named("Int64")}}},
		{Kind: model.Object, Name: "Query", Fields: []*model.FieldDef{{Name: "a", Type: model.Named("T")}, {Name: "b", Type: model.Named("T")}, {Name: "items", Type: model.ListOf(model.Named("T"))}}},
	}}
	ms.Reindex()
	reqs := []string{`{ a { v n b l } }`, `{ b { v n b l } }`, `{ items { v n b l } }`, `{ b { n } a { n } }`, `{ items { l v } }`}
	n := c.N(40, 400)
	for i := 0; i < n && !c.TooMany(); i++ {
		r := c.Rand(5600000 + i)
		a := &c05TA{V: "text", N: 5, B: true, L: 1 << 40}
		b := &c05TB{V: 7, N: "huge", B: 2.5, L: "not a number"}
		items := []interface{}{a, b, a}
		if i%2 == 1 {
			items = []interface{}{b, a}
		}
		root := ggql.NewRoot(&c05TSchema{Query: &c05TQuery{A: a, B: b, Items: items}})
		if err := root.ParseString(sdl); err != nil {
			c.Violation("c05-schema-rejected", map[string]interface{}{"error": err.Error(), "sdl": sdl})
			return
		}
		var hist []string
		for k, steps := 0, 1+r.Intn(4); k < steps; k++ {
			text := reqs[r.Intn(len(reqs))]
			hist = append(hist, text)
			var res map[string]interface{}
			pv, _ := run.Protect(func() { res = root.ResolveString(text, "", nil) })
			c.Count("requests_on_one_type_served_by_two_go_types", 1)
			diag := ""
			if pv != nil {
				diag = fmt.Sprintf("panic: %v", pv)
			} else {
				data, _ := ref.Canon(res["data"]).(map[string]interface{})
				for key, v := range data {
					fd := ms.Type("Query").Field(key)
					if d := c05WalkObj(ms, fd.Type, v, key); d != "" {
						diag = d
					}
				}
			}
			if diag != "" {
				c.Violation("c05-two-go-types", map[string]interface{}{"sdl": sdl, "history": hist, "items_order": fmt.Sprintf("%T first", items[0]), "diag": diag, "response": ref.Render(ref.Canon(res))})
				break
			}
		}
		c.Eval(fmt.Sprintf("two-go-types|%d|%v", i%2, hist), true)
	}
}

// c05WalkObj walks objects and lists of objects and hands every leaf to the typed walk.
func c05WalkObj(s *model.Schema, t *model.TypeRef, v interface{}, path string) string {
	if v == nil {
		return ""
	}
	if t.NonNull {
		return c05WalkObj(s, t.Of, v, path)
	}
	if t.List {
		l, _ := v.([]interface{})
		for i, e := range l {
			if d := c05WalkObj(s, t.Of, e, fmt.Sprintf("%s/%d", path, i)); d != "" {
				return d
			}
		}
		return ""
	}
	if td := s.Type(t.Name); td != nil && td.Kind == model.Object {
		m, isM := v.(map[string]interface{})
		if !isM {
			return path + ": not an object"
		}
		for k, e := range m {
			if fd := td.Field(k); fd != nil {
				if d := c05WalkObj(s, fd.Type, e, path+"/"+k); d != "" {
					return d
				}
			}
		}
		return ""
	}
	return typedWalk(s, t, v, path, false)
}
