package checks

import (
	"encoding/json"
	"fmt"
	"math"
	"math/rand"
	"reflect"
	"sort"
	"strings"
	"sync"
	"time"

	"github.com/uhn/ggql/pkg/ggql"

	"verif/internal/back"
	"verif/internal/gen"
	"verif/internal/model"
	"verif/internal/ref"
	"verif/internal/run"
)

func init() {
	register(&Check{ID: "C04", Level: "exploration", Run: runC04})
}

func c04Schema() (*model.Schema, []*model.TypeRef) {
	s := &model.Schema{Query: "Query"}
	s.Types = append(s.Types, &model.TypeDef{Kind: model.Enum, Name: "E", Values: []*model.EnumVal{{Name: "A"}, {Name: "B"}, {Name: "C"}}})
	s.Types = append(s.Types, &model.TypeDef{Kind: model.Scalar, Name: "Custom"})
	s.Types = append(s.Types, &model.TypeDef{Kind: model.Input, Name: "In2", Inputs: []*model.ArgDef{
		{Name: "x", Type: model.NonNullOf(model.Named("Float"))},
		{Name: "y", Type: model.ListOf(model.Named("E")), HasDefault: true, Default: []interface{}{model.Sym("A")}},
		{Name: "z", Type: model.Named("ID")},
	}})
	s.Types = append(s.Types, &model.TypeDef{Kind: model.Input, Name: "In", Inputs: []*model.ArgDef{
		{Name: "req", Type: model.NonNullOf(model.Named("Int"))},
		{Name: "opt", Type: model.Named("String")},
		{Name: "def", Type: model.Named("Int"), HasDefault: true, Default: int64(7)},
		{Name: "e", Type: model.Named("E"), HasDefault: true, Default: model.Sym("B")},
		{Name: "nested", Type: model.Named("In2")},
		{Name: "list", Type: model.ListOf(model.NonNullOf(model.Named("Int")))},
		{Name: "f64", Type: model.Named("Float64")},
		{Name: "nnd", Type: model.NonNullOf(model.Named("Int")), HasDefault: true, Default: int64(5)},
	}})
	// an input whose fields default to OBJECTS / LISTS OF OBJECTS that leave a field of the nested type to that type's own default
	s.Types = append(s.Types, &model.TypeDef{Kind: model.Input, Name: "In3", Inputs: []*model.ArgDef{
		{Name: "page", Type: model.Named("In2"), HasDefault: true, Default: model.NewObjLit().Set("x", 1.5)},
		{Name: "pages", Type: model.ListOf(model.NonNullOf(model.Named("In2"))), HasDefault: true, Default: []interface{}{model.NewObjLit().Set("x", 2.5).Set("z", "id")}},
		{Name: "n", Type: model.Named("Int")},
	}})
	bases := []string{"Int", "Float", "String", "Boolean", "ID", "Int64", "Float64", "E", "In", "In2", "Custom", "Time", "In3"}
	var types []*model.TypeRef
	for _, b := range bases {
		n := func() *model.TypeRef { return model.Named(b) }
		types = append(types, n(), model.NonNullOf(n()), model.ListOf(n()), model.ListOf(model.NonNullOf(n())), model.NonNullOf(model.ListOf(n())),
			model.ListOf(model.ListOf(n())), model.NonNullOf(model.ListOf(model.NonNullOf(model.ListOf(model.NonNullOf(n()))))))
	}
	q := &model.TypeDef{Kind: model.Object, Name: "Query"}
	for i, t := range types {
		q.Fields = append(q.Fields, &model.FieldDef{Name: fmt.Sprintf("p%d", i), Type: model.Named("String"), Echo: true, Args: []*model.ArgDef{{Name: "a", Type: t}}})
	}
	// the same probes with a NON-NULL argument that has a default: `qN(a: T! = <default>)`
	for i, t := range types {
		if t.NonNull {
			if dv := c04DefaultFor(t); dv != nil {
				q.Fields = append(q.Fields, &model.FieldDef{Name: fmt.Sprintf("q%d", i), Type: model.Named("String"), Echo: true, Args: []*model.ArgDef{{Name: "a", Type: t, HasDefault: true, Default: dv}, {Name: "other", Type: model.Named("Int")}}})
			}
		}
	}
	s.Types = append(s.Types, q)
	return s, types
}

// c04NearMiss lists, for an input type, values that are almost values of its base type (the empty string, padded text, the
// first number beyond a range, a date without a time, ...) placed at the position the wrappers of the type give the base type,
// alone and next to a valid neighbour in a list.
func c04NearMiss(t *model.TypeRef) []interface{} {
	affine := map[string][]interface{}{
		"Int":     {"", "7", int64(2147483648), int64(-2147483649), 1.0000001, true},
		"Float":   {"", "1.5", true, 1e39, -1e39},
		"Float64": {"", "1.5", true},
		"Int64":   {"", "7", 1.5, true},
		"String":  {int64(0), true, model.Sym("A")},
		"Boolean": {"", "true", int64(0), int64(1), model.Sym("TRUE")},
		"ID":      {true, 1.5},
		"E":       {"", " A", "A ", model.Sym("a"), model.Sym("AA"), int64(0), true},
		"Time":    {"", " ", "2006-01-02", "2006-01-02T15:04:05", "2006-01-02 15:04:05Z", "0", int64(0), true, model.Sym("now")},
	}
	base := affine[t.Base()]
	var good interface{}
	switch t.Base() {
	case "Int", "Int64":
		good = int64(1)
	case "Float", "Float64":
		good = 2.5
	case "String", "ID":
		good = "s"
	case "Boolean":
		good = true
	case "E":
		good = model.Sym("A")
	case "Time":
		good = "2006-01-02T15:04:05Z"
	}
	var out []interface{}
	for _, v := range base {
		var place func(t *model.TypeRef, withNeighbour bool) interface{}
		place = func(t *model.TypeRef, withNeighbour bool) interface{} {
			switch {
			case t.NonNull:
				return place(t.Of, withNeighbour)
			case t.List:
				if withNeighbour {
					return []interface{}{place(t.Of, false), c04PlaceGood(t.Of, good)}
				}
				return []interface{}{place(t.Of, false)}
			}
			return v
		}
		out = append(out, place(t, false))
		if t.List || (t.NonNull && t.Of.List) {
			out = append(out, place(t, true))
		}
	}
	return out
}

func c04PlaceGood(t *model.TypeRef, good interface{}) interface{} {
	switch {
	case t.NonNull:
		return c04PlaceGood(t.Of, good)
	case t.List:
		return []interface{}{c04PlaceGood(t.Of, good)}
	}
	return good
}

// c04DefaultFor gives a valid default literal for the non-null probe types (nil: none).
func c04DefaultFor(t *model.TypeRef) interface{} {
	in := t.Of
	if in == nil {
		return nil
	}
	if in.List {
		return []interface{}{}
	}
	switch in.Name {
	case "Int", "Int64":
		return int64(10)
	case "Float", "Float64":
		return 2.5
	case "String", "ID", "Custom":
		return "dflt"
	case "Boolean":
		return true
	case "E":
		return model.Sym("B")
	case "In":
		return model.NewObjLit().Set("req", int64(1))
	case "In2":
		return model.NewObjLit().Set("x", 1.5)
	case "In3":
		return model.NewObjLit()
	}
	return nil
}

// c04Pool are raw values (document-model literals); JSON/native forms are derived.
func c04Pool() []interface{} {
	obj := func(kv ...interface{}) *model.ObjLit {
		o := model.NewObjLit()
		for i := 0; i+1 < len(kv); i += 2 {
			o.Set(kv[i].(string), kv[i+1])
		}
		return o
	}
	return []interface{}{
		nil, true, false,
		int64(0), int64(1), int64(-1), int64(math.MaxInt32), int64(math.MaxInt32) + 1, int64(math.MinInt32), int64(math.MinInt32) - 1, int64(4294967297),
		int64(1) << 53, int64(1)<<53 + 1, int64(math.MaxInt64), int64(math.MinInt64), int64(300),
		0.5, 3.0, -2.5, 1e39, 1e300, -1e300, 5e-324, 3.4028234663852886e38, 3.5e38, 0.1, 16777217.0, 1e10,
		"abc", "3", "", "A", "2006-01-02T15:04:05Z", "not a time", "true",
		// integers as text (what Int64 takes from clients that have no 64 bit numbers): decimal, whatever the padding
		"0755", "000010", "-0012", "089", "9007199254740993", "0x1F", "1_000", "0b11", "12abc", " 7", "9223372036854775808",
		model.Sym("A"), model.Sym("C"), model.Sym("Z"),
		[]interface{}{}, []interface{}{int64(1), int64(2)}, []interface{}{int64(1), nil}, []interface{}{"x"}, []interface{}{[]interface{}{int64(1)}, []interface{}{}},
		[]interface{}{model.Sym("A"), model.Sym("Z")}, []interface{}{[]interface{}{int64(4294967297)}}, []interface{}{nil}, []interface{}{[]interface{}{nil}},
		obj("req", int64(1)), obj("req", int64(1), "bogus", int64(2)), obj(), obj("req", nil), obj("opt", "s"),
		obj("req", int64(5), "nested", obj("x", 1.5)), obj("req", int64(5), "nested", obj("y", []interface{}{model.Sym("B")})),
		obj("req", int64(1), "list", []interface{}{int64(1), nil}), obj("req", int64(4294967297)), obj("req", int64(2), "def", nil), obj("req", int64(2), "e", model.Sym("Z")),
		obj("x", 2.5), obj("x", 1e300), obj("x", int64(1), "z", int64(12)), obj("x", 1.5, "y", []interface{}{model.Sym("C"), nil}), obj("req", int64(3), "f64", 1e300),
		obj("req", int64(1), "nnd", nil), obj("req", int64(1), "nnd", int64(9)), obj("req", int64(1), "nnd", "x"), []interface{}{obj("req", int64(2), "nnd", nil)},
		obj("req", 3.0), obj("req", 3.5), obj("req", "3"), []interface{}{obj("req", int64(1)), obj()}, []interface{}{obj("x", 0.5)},
		obj("n", int64(4)), obj("page", obj("x", 0.25)), obj("pages", []interface{}{obj("x", 1.0)}), obj("page", nil), []interface{}{obj(), obj("n", int64(1))},
	}
}

// c04JSON converts a literal into the JSON-decoded Go form; ok=false when not expressible (symbols).
func c04JSON(v interface{}) (interface{}, bool) {
	switch t := v.(type) {
	case nil, bool, string, float64:
		return t, true
	case int64:
		f := float64(t)
		if int64(f) != t || math.Abs(f) > 1<<53 {
			return nil, false
		}
		return f, true
	case model.Sym:
		return nil, false
	case []interface{}:
		o := make([]interface{}, len(t))
		for i, e := range t {
			j, okj := c04JSON(e)
			if !okj {
				return nil, false
			}
			o[i] = j
		}
		return o, true
	case *model.ObjLit:
		o := map[string]interface{}{}
		for _, k := range t.Keys {
			j, okj := c04JSON(t.Vals[k])
			if !okj {
				return nil, false
			}
			o[k] = j
		}
		return o, true
	}
	return nil, false
}

// c04Native converts numbers into assorted native Go kinds (only exact conversions).
func c04Native(v interface{}, k int) (interface{}, bool) {
	switch t := v.(type) {
	case nil, bool, string:
		return t, true
	case int64:
		switch k % 7 {
		case 0:
			return int(t), true
		case 1:
			if t >= math.MinInt32 && t <= math.MaxInt32 {
				return int32(t), true
			}
			return t, true
		case 2:
			return t, true
		case 3:
			if t >= 0 && t <= 255 {
				return uint8(t), true
			}
			return int(t), true
		case 4:
			if t >= 0 {
				return uint64(t), true
			}
			return t, true
		case 5:
			if t >= 0 && t <= math.MaxUint32 {
				return uint32(t), true
			}
			return t, true
		default:
			if t >= math.MinInt16 && t <= math.MaxInt16 {
				return int16(t), true
			}
			return uint(uint64(t) & 0x7fffffffffffffff), t >= 0
		}
	case float64:
		if k%2 == 0 && float64(float32(t)) == t {
			return float32(t), true
		}
		return t, true
	case model.Sym:
		return nil, false
	case []interface{}:
		o := make([]interface{}, len(t))
		for i, e := range t {
			j, okj := c04Native(e, k+i)
			if !okj {
				return nil, false
			}
			o[i] = j
		}
		return o, true
	case *model.ObjLit:
		o := map[string]interface{}{}
		for i, key := range t.Keys {
			j, okj := c04Native(t.Vals[key], k+i)
			if !okj {
				return nil, false
			}
			o[key] = j
		}
		return o, true
	}
	return nil, false
}

// c04Conforms checks the Go value a resolver received against the declared type.
func c04Conforms(s *model.Schema, t *model.TypeRef, v interface{}, path string) string {
	if t.NonNull {
		if v == nil {
			return path + ": null in a non-null position"
		}
		return c04Conforms(s, t.Of, v, path)
	}
	if v == nil {
		return ""
	}
	if t.List {
		l, isL := v.([]interface{})
		if !isL {
			return fmt.Sprintf("%s: %T is not a list", path, v)
		}
		for i, e := range l {
			if d := c04Conforms(s, t.Of, e, fmt.Sprintf("%s[%d]", path, i)); d != "" {
				return d
			}
		}
		return ""
	}
	if td := s.Type(t.Name); td != nil {
		switch td.Kind {
		case model.Enum:
			sym, isSym := v.(ggql.Symbol)
			if !isSym {
				return fmt.Sprintf("%s: %T is not an enum Symbol", path, v)
			}
			if !td.HasValue(string(sym)) {
				return fmt.Sprintf("%s: %s is not a declared value of %s", path, sym, t.Name)
			}
		case model.Input:
			m, isM := v.(map[string]interface{})
			if !isM {
				return fmt.Sprintf("%s: %T is not an input object", path, v)
			}
			for k := range m {
				if td.InputField(k) == nil {
					return fmt.Sprintf("%s: undeclared input field %s", path, k)
				}
			}
			for _, f := range td.Inputs {
				fv, has := m[f.Name]
				if !has && f.HasDefault {
					return fmt.Sprintf("%s: default of %s not filled in", path, f.Name)
				}
				if f.Type.NonNull && (!has || fv == nil) {
					return fmt.Sprintf("%s: required field %s missing", path, f.Name)
				}
				if has {
					if d := c04Conforms(s, f.Type, fv, path+"."+f.Name); d != "" {
						return d
					}
				}
			}
		case model.Scalar:
			if _, isS := v.(string); !isS {
				return fmt.Sprintf("%s: %T for a custom scalar", path, v)
			}
		}
		return ""
	}
	bad := func(want string) string { return fmt.Sprintf("%s: %T(%v) is not %s", path, v, v, want) }
	switch t.Name {
	case "Int", "Int64":
		// the property speaks of the value (Int within 32 bits), not of the Go kind carrying it
		lo, hi := int64(math.MinInt32), int64(math.MaxInt32)
		if t.Name == "Int64" {
			lo, hi = math.MinInt64, math.MaxInt64
		}
		var i int64
		switch n := v.(type) {
		case int32:
			i = int64(n)
		case int64:
			i = n
		case int:
			i = int64(n)
		case int16:
			i = int64(n)
		case int8:
			i = int64(n)
		default:
			return bad("a signed integer")
		}
		if i < lo || i > hi {
			return bad("within the range of " + t.Name)
		}
	case "Float", "Float64":
		var f float64
		switch n := v.(type) {
		case float32:
			f = float64(n)
		case float64:
			f = n
		default:
			return bad("a float")
		}
		if math.IsNaN(f) || math.IsInf(f, 0) {
			return bad("a finite number")
		}
		if t.Name == "Float" && math.IsInf(float64(float32(f)), 0) {
			return bad("within the float32 range")
		}
	case "String", "ID":
		if _, isS := v.(string); !isS {
			return bad("a string")
		}
	case "Boolean":
		if _, isB := v.(bool); !isB {
			return bad("a bool")
		}
	case "Time":
		if _, isT := v.(time.Time); !isT {
			return bad("a time.Time")
		}
	}
	return ""
}

// c04Canon canonicalises received args so that times compare with the reference form.
func c04Canon(v interface{}) interface{} { return ref.Canon(v) }

func runC04(c *run.Ctx) {
	c.Rule = "input type expressions (12 base types x 7 wrapper shapes) x a value pool (valid values, boundaries around +-2^31, 2^32, 2^53, 2^63, float32 range, wrong kinds, nulls at every position, unknown/missing " +
		"input fields) supplied as literal, JSON-decoded variable, native Go kinds, variable default, and nested inside list/object literals mixing literals and variables; monitor on the args map the harness resolver " +
		"receives: conforms to the declared type (Go representation, defaults filled, required present, declared enum member) and equals the reference coercion; when the reference says the value cannot be coerced " +
		"the resolver must not run and the response must carry an error. Rejecting a coercible value is allowed (never demand acceptance). Non-trivial = value is not simply a valid literal of a scalar; " +
		"distinct by (type, value, form, back-end)"
	s, types := c04Schema()
	sdl := s.SDL(model.SDLOpts{})
	pool := c04Pool()
	g := &model.Graph{}
	root := &model.Node{ID: 0, Type: "__root", F: map[string]interface{}{}}
	q := &model.Node{ID: 1, Type: "Query", F: map[string]interface{}{}}
	root.F["query"] = q
	g.Root = root
	g.Nodes = []*model.Node{root, q}
	nullvar := c.Open("K-C04-nullvar")
	nestedDef := c.Open("K-C04-nested-default")
	forms := []string{"literal", "var-json", "var-native", "var-default", "nested", "var-over-default", "var-null-with-default", "var-unset"}
	total := 0
	perType := c.N(30, len(pool)+30)
	for _, bk := range []string{"iface", "any"} {
		h, err := back.Build(bk, s, sdl, g)
		if err != nil {
			c.Violation("c04-schema-rejected", map[string]interface{}{"error": err.Error(), "sdl": sdl})
			return
		}
		for ti, t := range types {
			fname := fmt.Sprintf("p%d", ti)
			fd := s.Type("Query").Field(fname)
			r := c.Rand(ti*7 + len(bk))
			near := c04NearMiss(t)
			for vi := 0; vi < perType+len(near); vi++ {
				var raw interface{}
				if vi >= perType {
					// the near misses of this very type are tried in every run, whatever the draw
					raw = near[vi-perType]
					c.Count("near_miss_values_of_the_type", 1)
				} else if vi < perType/3 {
					raw = gen.InputLiteral(r, s, t, 3) // a valid value
					if rl, isRaw := raw.(model.RawLit); isRaw {
						raw = rl.Value
					}
				} else if c.Thorough() && vi-perType/3 < len(pool) {
					raw = pool[vi-perType/3]
				} else {
					raw = pool[r.Intn(len(pool))]
				}
				for fi, form := range forms {
					if !c.Thorough() && (vi+fi)%3 != 0 && form != "literal" {
						continue
					}
					doc := &model.Doc{}
					op := &model.Op{Kind: "query", Name: "Q"}
					doc.Ops = []*model.Op{op}
					vars := map[string]interface{}{}
					var argVal interface{}
					var expVal interface{}
					var expErr error
					skip := false
					switch form {
					case "literal":
						argVal = raw
						expVal, expErr = ref.CoerceIn(s, t, raw)
					case "var-json", "var-native":
						var gv interface{}
						var okv bool
						if form == "var-json" {
							gv, okv = c04JSON(raw)
						} else {
							gv, okv = c04Native(raw, vi+ti)
						}
						if !okv {
							skip = true
							break
						}
						op.Vars = []*model.VarDef{{Name: "v", Type: t}}
						vars["v"] = gv
						argVal = model.VarRef("v")
						expVal, expErr = ref.CoerceIn(s, t, gv)
					case "var-default":
						if raw == nil {
							skip = true
							break
						}
						op.Vars = []*model.VarDef{{Name: "v", Type: t, HasDefault: true, Default: raw}}
						argVal = model.VarRef("v")
						expVal, expErr = ref.CoerceIn(s, t, raw)
					case "var-over-default":
						gv, okv := c04JSON(raw)
						def := gen.InputLiteral(r, s, t, 2)
						if !okv || def == nil {
							skip = true
							break
						}
						op.Vars = []*model.VarDef{{Name: "v", Type: t, HasDefault: true, Default: def}}
						vars["v"] = gv
						argVal = model.VarRef("v")
						expVal, expErr = ref.CoerceIn(s, t, gv)
					case "var-null-with-default":
						def := gen.InputLiteral(r, s, t, 2)
						if def == nil {
							skip = true
							break
						}
						op.Vars = []*model.VarDef{{Name: "v", Type: t, HasDefault: true, Default: def}}
						vars["v"] = nil
						argVal = model.VarRef("v")
						expVal, expErr = ref.CoerceIn(s, t, nil) // an explicit null is a supplied value
					case "var-unset":
						op.Vars = []*model.VarDef{{Name: "v", Type: t}}
						argVal = model.VarRef("v")
						if t.NonNull {
							expErr = fmt.Errorf("required variable unset")
						} else {
							expVal, expErr = nil, nil
						}
					case "nested":
						// wrap the raw value one level: element of a list literal or field of an object literal, through a variable
						inner := t.Nullable()
						if inner.List {
							gv, okv := c04JSON(raw)
							if !okv {
								skip = true
								break
							}
							op.Vars = []*model.VarDef{{Name: "v", Type: inner.Of}}
							vars["v"] = gv
							lit := gen.InputLiteral(r, s, inner.Of, 2)
							argVal = []interface{}{model.VarRef("v"), lit}
							e1, err1 := ref.CoerceIn(s, inner.Of, gv)
							e2, err2 := ref.CoerceIn(s, inner.Of, lit)
							if err1 != nil {
								expErr = err1
							} else if err2 != nil {
								expErr = err2
							} else {
								expVal = []interface{}{e1, e2}
							}
						} else if inner.Name == "In" {
							gv, okv := c04JSON(raw)
							if !okv {
								skip = true
								break
							}
							op.Vars = []*model.VarDef{{Name: "v", Type: model.NonNullOf(model.Named("Int"))}, {Name: "w", Type: model.Named("In2")}}
							vars["v"] = float64(3)
							vars["w"] = gv
							o := model.NewObjLit().Set("req", model.VarRef("v")).Set("nested", model.VarRef("w")).Set("opt", "lit")
							argVal = o
							nested, errn := ref.CoerceIn(s, model.Named("In2"), gv)
							if errn != nil {
								expErr = errn
							} else {
								expVal, expErr = ref.CoerceIn(s, t, model.NewObjLit().Set("req", int64(3)).Set("nested", ref.Coerced{V: nested}).Set("opt", "lit"))
							}
						} else {
							skip = true
						}
					}
					if skip {
						continue
					}
					op.Sels = []model.Sel{&model.Field{Name: fname, Args: []model.Arg{{Name: "a", Value: argVal}}}}
					text := doc.Print(model.LayoutN(total))
					total++
					out := Do(h, Request{Text: text, OpName: "Q", Vars: vars, Entry: total}, nil)
					key := fmt.Sprintf("%s|%s|%s|%s|%v", t, model.ValueText(raw), form, bk, vars)
					_, simple := raw.(string)
					c.Eval(key, !(form == "literal" && simple))
					c.Bucket("form", form)
					c.Bucket("base_type", t.Base())
					if total%700 == 0 {
						c.Sample(map[string]interface{}{"type": t.String(), "value": model.ValueText(raw), "form": form, "document": text, "vars": fmt.Sprint(vars), "observed": out.Describe()})
					}
					rep := func(diag string) {
						e := ""
						if expErr != nil {
							e = expErr.Error()
						}
						c.Violation("c04-"+form, map[string]interface{}{"backend": bk, "type": t.String(), "value": model.ValueText(raw), "form": form, "document": text, "vars": fmt.Sprintf("%#v", vars),
							"sdl_excerpt": model.FieldSDL(fd, model.SDLOpts{}), "diag": diag, "expected_value": ref.Render(expVal), "expected_error": e, "observed": out.Describe(),
							"received_args": fmt.Sprintf("%#v", lastArgs(out))})
					}
					if out.Panic != nil {
						rep("panic: " + fmt.Sprint(out.Panic))
						continue
					}
					// calls for the probe field
					var call *back.Call
					for i := range out.Calls {
						if out.Calls[i].Key.Field == fname {
							call = &out.Calls[i]
						}
					}
					if call == nil {
						if len(out.ErrPaths) == 0 {
							rep("resolver not invoked and no error reported")
						} else if expErr == nil {
							c.Count("rejected_although_coercible(stricter_than_spec)", 1)
						} else {
							c.Count("uncoercible_rejected", 1)
						}
						continue
					}
					c.Count("resolver_invocations_checked", 1)
					got, has := call.Raw["a"]
					if d := c04Conforms(s, t, got, "a"); d != "" && (has || t.NonNull) {
						if nestedDef && strings.Contains(d, "default of") {
							// defect model: the received value equals the coercion in which object/list defaults are taken as written
							shVal, shErr := c04ShallowModel(s, t, form, raw, vars, argVal, op.Vars)
							if shErr == nil && ref.Equal(c04Canon(got), shVal) {
								c.Known("K-C04-nested-default", map[string]interface{}{"type": t.String(), "document": text, "received": ref.Render(c04Canon(got)), "expected": ref.Render(expVal)})
								continue
							}
						}
						rep("received argument does not conform: " + d)
						continue
					}
					// the lenient reading (optional value-preserving conversions) of the same case
					if lenVal, lenErr := c04Lenient(s, t, form, raw, vars, argVal); lenErr == nil && (expErr != nil || !ref.Equal(lenVal, expVal)) {
						if ref.Equal(c04Canon(got), lenVal) {
							c.Count("accepted_optional_conversion", 1)
							continue
						}
					}
					if expErr != nil {
						if form == "var-null-with-default" && nullvar {
							c.Known("K-C04-nullvar", map[string]interface{}{"type": t.String(), "document": text})
							continue
						}
						rep("resolver invoked although the value cannot be coerced: " + expErr.Error())
						continue
					}
					if !ref.Equal(c04Canon(got), expVal) {
						if form == "var-null-with-default" && nullvar {
							// predicate: the received value equals the coerced default
							c.Known("K-C04-nullvar", map[string]interface{}{"type": t.String(), "document": text, "received": ref.Render(c04Canon(got))})
							continue
						}
						rep("received argument differs from what the client wrote")
					}
				}
			}
		}
	}
	hist := c04Histories(c, s, sdl, g, types)
	hist += c04Kennel(c)
	hist += c04OmittedAndShared(c, s, sdl, g, types)
	hist += c04Relaxed(c)
	hist += c04Unsigned(c)
	hist += c04OneVarsMap(c)
	hist += c04Registered(c)
	hist += c04MethodParams(c)
	hist += c04SharedNestedVars(c)
	hist += c04RegisteredLists(c)
	// under reflection the "resolver" is a Go method: each parameter must receive the value the client wrote for ITS argument
	// (order given by RegisterField, also when registered after a first request) - judged against the direct Go call
	c02Methods(c)
	c.MinNontriv = (total + hist) / 3
	c.Set("requests", total)
}

// c04Histories: argument literals with variables one or more levels down inside list and object literals; the document
// is parsed ONCE and resolved several times with different variable values (valid, out of range, valid again). Each
// call is judged on its own: what the resolver receives must be the coercion of the literal with THIS call's variable
// values substituted (or no invocation plus an error when that cannot be coerced).
func c04Histories(c *run.Ctx, s *model.Schema, sdl string, g *model.Graph, types []*model.TypeRef) int {
	idx := map[string]int{}
	for i, t := range types {
		idx[t.String()] = i
	}
	obj := func(kv ...interface{}) *model.ObjLit {
		o := model.NewObjLit()
		for i := 0; i+1 < len(kv); i += 2 {
			o.Set(kv[i].(string), kv[i+1])
		}
		return o
	}
	V := func(n string) model.VarRef { return model.VarRef(n) }
	nnInt, fl, str, id, in2 := model.NonNullOf(model.Named("Int")), model.NonNullOf(model.Named("Float")), model.Named("String"), model.Named("ID"), model.Named("In2")
	intN := model.Named("Int")
	type tpl struct {
		typ  string
		vars []*model.VarDef
		arg  interface{}
	}
	tpls := []tpl{
		{"[In]", []*model.VarDef{{Name: "m", Type: nnInt}}, []interface{}{obj("req", V("m"), "opt", "k")}},
		{"[In]", []*model.VarDef{{Name: "m", Type: nnInt}, {Name: "o", Type: str}}, []interface{}{obj("req", int64(1), "opt", V("o")), obj("req", V("m"), "list", []interface{}{V("m"), int64(4)})}},
		{"[[In]]", []*model.VarDef{{Name: "m", Type: nnInt}, {Name: "w", Type: in2}}, []interface{}{[]interface{}{obj("req", V("m"), "nested", V("w"))}, []interface{}{}}},
		{"In", []*model.VarDef{{Name: "x", Type: fl}, {Name: "z", Type: id}}, obj("req", int64(2), "nested", obj("x", V("x"), "z", V("z"), "y", []interface{}{model.Sym("C")}))},
		{"In!", []*model.VarDef{{Name: "m", Type: nnInt}, {Name: "n", Type: intN}}, obj("req", V("m"), "list", []interface{}{int64(1), V("m")}, "def", V("n"))},
		{"[[Int]]", []*model.VarDef{{Name: "m", Type: nnInt}, {Name: "n", Type: intN}}, []interface{}{[]interface{}{V("m"), int64(1)}, []interface{}{V("n")}, []interface{}{int64(2)}}},
		{"[[Int!]!]!", []*model.VarDef{{Name: "m", Type: nnInt}}, []interface{}{[]interface{}{int64(7), V("m")}, []interface{}{int64(2)}}},
		{"[[Float]]", []*model.VarDef{{Name: "x", Type: fl}}, []interface{}{[]interface{}{0.25}, []interface{}{V("x"), int64(3)}}},
		{"[[String]]", []*model.VarDef{{Name: "o", Type: str}}, []interface{}{[]interface{}{"lit", V("o")}}},
		{"[[ID]]", []*model.VarDef{{Name: "z", Type: id}}, []interface{}{[]interface{}{V("z")}, []interface{}{"i2"}}},
		{"[In2]", []*model.VarDef{{Name: "x", Type: fl}}, []interface{}{obj("x", 1.5), obj("x", V("x"), "y", []interface{}{model.Sym("A"), model.Sym("B")})}},
		// a literal that can never be coerced: every resolve must refuse it, not only the first
		{"[[Int]]", []*model.VarDef{{Name: "m", Type: nnInt}}, []interface{}{[]interface{}{int64(1), "two"}, []interface{}{V("m")}}},
		{"[In]", []*model.VarDef{{Name: "m", Type: nnInt}}, []interface{}{obj("req", V("m")), obj("opt", "no req")}},
	}
	pool := map[string][]interface{}{
		"m": {float64(1), float64(-7), float64(2147483647), float64(2147483648), 3.5, float64(12), int32(5), int64(6)},
		"n": {nil, float64(9), float64(-2147483649), float64(0)},
		"x": {0.5, float64(2), 1e39, -0.125, 1e300},
		"o": {"a", "b", nil, ""},
		"z": {"id-1", "id-2", nil},
		"w": {map[string]interface{}{"x": 1.5}, map[string]interface{}{"x": 2.5, "z": "zz"}, nil, map[string]interface{}{"x": 1e39}, map[string]interface{}{"z": "no x"}},
	}
	n, steps := 0, 0
	reps := c.N(12, 1200)
	for _, bk := range []string{"iface", "any"} {
		h, err := back.Build(bk, s, sdl, g)
		if err != nil {
			return 0
		}
		for ti, tp := range tpls {
			t := types[idx[tp.typ]]
			fname := fmt.Sprintf("p%d", idx[tp.typ])
			for rep := 0; rep < reps; rep++ {
				n++
				r := c.Rand(500000 + ti*1000 + rep*2 + len(bk))
				doc := &model.Doc{Ops: []*model.Op{{Kind: "query", Name: "Q", Vars: tp.vars, Sels: []model.Sel{&model.Field{Name: fname, Args: []model.Arg{{Name: "a", Value: tp.arg}}}}}}}
				text := doc.Print(model.LayoutN(n))
				exe, perr := h.Root.ParseExecutableString(text)
				if perr != nil {
					c.Violation("c04-history", map[string]interface{}{"backend": bk, "document": text, "diag": "valid document rejected: " + perr.Error()})
					break
				}
				var trace []string
				for step := 0; step < 3+r.Intn(3); step++ {
					vars := map[string]interface{}{}
					for _, vd := range tp.vars {
						vs := pool[vd.Name]
						vars[vd.Name] = vs[r.Intn(len(vs))]
					}
					// expectation for THIS call: variables are coerced by their declared type, then the literal as a whole
					var subst func(v interface{}) (interface{}, error)
					subst = func(v interface{}) (interface{}, error) {
						switch tv := v.(type) {
						case model.VarRef:
							for _, vd := range tp.vars {
								if vd.Name == string(tv) {
									cv, cerr := ref.CoerceIn(s, vd.Type, vars[vd.Name])
									if cerr != nil {
										return nil, cerr
									}
									return ref.Coerced{V: cv}, nil
								}
							}
						case []interface{}:
							o := make([]interface{}, len(tv))
							for i, e := range tv {
								var e2 error
								if o[i], e2 = subst(e); e2 != nil {
									return nil, e2
								}
							}
							return o, nil
						case *model.ObjLit:
							o := model.NewObjLit()
							for _, k := range tv.Keys {
								sv, e2 := subst(tv.Vals[k])
								if e2 != nil {
									return nil, e2
								}
								o.Set(k, sv)
							}
							return o, nil
						}
						return v, nil
					}
					var expVal interface{}
					sv, expErr := subst(tp.arg)
					if expErr == nil {
						expVal, expErr = ref.CoerceIn(s, t, sv)
					}
					out := Do(h, Request{Exe: exe, OpName: "Q", Vars: vars}, nil)
					steps++
					trace = append(trace, fmt.Sprintf("%#v", vars))
					var call *back.Call
					for i := range out.Calls {
						if out.Calls[i].Key.Field == fname {
							call = &out.Calls[i]
						}
					}
					diag := ""
					switch {
					case out.Panic != nil:
						diag = "panic: " + fmt.Sprint(out.Panic)
					case call == nil && len(out.ErrPaths) == 0:
						diag = "resolver not invoked and no error reported"
					case call == nil:
						if expErr == nil {
							c.Count("rejected_although_coercible(stricter_than_spec)", 1)
						} else {
							c.Count("uncoercible_rejected", 1)
						}
					case expErr != nil:
						diag = "resolver invoked although the value cannot be coerced: " + expErr.Error()
					default:
						got := call.Raw["a"]
						if d := c04Conforms(s, t, got, "a"); d != "" {
							diag = "received argument does not conform: " + d
						} else if !ref.Equal(c04Canon(got), expVal) {
							diag = "received argument differs from what the client wrote in this call"
						} else {
							c.Count("resolver_invocations_checked", 1)
						}
					}
					if diag != "" {
						e := ""
						if expErr != nil {
							e = expErr.Error()
						}
						c.Violation("c04-history", map[string]interface{}{"backend": bk, "type": tp.typ, "document": text, "history_vars_parse_once": trace, "diag": diag,
							"expected_value": ref.Render(expVal), "expected_error": e, "observed": out.Describe(), "received_args": fmt.Sprintf("%#v", lastArgs(out))})
						break
					}
				}
				c.Eval("hist|"+text+"|"+strings.Join(trace, ";")+bk, true)
				c.Bucket("form", "parse-once-history")
				if n%40 == 0 {
					c.Sample(map[string]interface{}{"type": tp.typ, "document": text, "history_vars_parse_once": trace, "backend": bk})
				}
			}
		}
	}
	c.Set("histories_parse_once", n)
	c.Count("history_resolve_calls", steps)
	return n
}

// c04ShallowModel is the prediction of K-C04-nested-default for one request: literal parts (and variable defaults) are
// coerced once with object/list defaults taken as written; a supplied variable value is coerced by its declared type first
// and once more when the argument is assembled, which fills one further level.
func c04ShallowModel(s *model.Schema, t *model.TypeRef, form string, raw interface{}, vars map[string]interface{}, argVal interface{}, vdefs []*model.VarDef) (interface{}, error) {
	ref.ShallowDefaults = true
	defer func() { ref.ShallowDefaults = false }()
	var firstErr error
	var subst func(v interface{}) interface{}
	subst = func(v interface{}) interface{} {
		switch tv := v.(type) {
		case model.VarRef:
			if form == "var-default" {
				return raw
			}
			for _, vd := range vdefs {
				if vd.Name == string(tv) {
					val, supplied := vars[vd.Name]
					if !supplied {
						if vd.HasDefault {
							return vd.Default
						}
						return nil
					}
					cv, err := ref.CoerceIn(s, vd.Type, val)
					if err != nil && firstErr == nil {
						firstErr = err
					}
					return ref.Coerced{V: cv}
				}
			}
			return nil
		case []interface{}:
			o := make([]interface{}, len(tv))
			for i, e := range tv {
				o[i] = subst(e)
			}
			return o
		case *model.ObjLit:
			o := model.NewObjLit()
			for _, k := range tv.Keys {
				o.Set(k, subst(tv.Vals[k]))
			}
			return o
		}
		return v
	}
	sv := subst(argVal)
	if firstErr != nil {
		return nil, firstErr
	}
	return ref.CoerceIn(s, t, sv)
}

// c04Lenient recomputes the expectation with ref.Lenient on, from the request itself
// (argument literal + variables), independent of how the strict expectation was assembled.
func c04Lenient(s *model.Schema, t *model.TypeRef, form string, raw interface{}, vars map[string]interface{}, argVal interface{}) (interface{}, error) {
	ref.Lenient = true
	defer func() { ref.Lenient = false }()
	var subst func(v interface{}) interface{}
	subst = func(v interface{}) interface{} {
		switch tv := v.(type) {
		case model.VarRef:
			if form == "var-default" {
				return raw
			}
			return vars[string(tv)]
		case []interface{}:
			o := make([]interface{}, len(tv))
			for i, e := range tv {
				o[i] = subst(e)
			}
			return o
		case *model.ObjLit:
			o := model.NewObjLit()
			for _, k := range tv.Keys {
				o.Set(k, subst(tv.Vals[k]))
			}
			return o
		}
		return v
	}
	if form == "var-unset" {
		return nil, fmt.Errorf("n/a")
	}
	return ref.CoerceIn(s, t, subst(argVal))
}

func lastArgs(o *Outcome) interface{} {
	if len(o.Calls) == 0 {
		return nil
	}
	return o.Calls[len(o.Calls)-1].Raw
}

var _ = rand.Int

// ---------------------------------------------------------------- implementers with different arguments

const c04KennelSDL = `interface KNamed { name: String }
type KCat implements KNamed { name(limit: Int, tag: String = "t"): String lives: Int }
type KDog implements KNamed { name: String barks(loud: Boolean!): Int }
type KEel implements KNamed { name(limit: Int, deep: Boolean): String }
union KAny = KCat | KDog | KEel
type Query { pets: [KNamed] anys: [KAny] }`

// kennelLog records what each resolver received.
type kennelLog struct {
	calls []string
	bad   []string
}

// KCat, KDog and KEel are bound to the object types of the same name; they implement ggql.Resolver, so they SEE their arguments.
type KCat struct{ log *kennelLog }
type KDog struct{ log *kennelLog }
type KEel struct{ log *kennelLog }

func kennelResolve(log *kennelLog, typ string, declared map[string][]string, field *ggql.Field, args map[string]interface{}) (interface{}, error) {
	log.calls = append(log.calls, fmt.Sprintf("%s.%s%v", typ, field.Name, args))
	for a, v := range args {
		ok := false
		for _, d := range declared[field.Name] {
			if d == a {
				ok = true
			}
		}
		if !ok {
			log.bad = append(log.bad, fmt.Sprintf("%s.%s received the undeclared argument %s=%#v", typ, field.Name, a, v))
		}
		if a == "limit" && v != nil {
			if _, isI := v.(int32); !isI {
				log.bad = append(log.bad, fmt.Sprintf("%s.%s received limit=%#v, not an Int", typ, field.Name, v))
			}
		}
	}
	if typ == "KDog" && field.Name == "barks" && args["loud"] == nil {
		log.bad = append(log.bad, "KDog.barks invoked without its required argument loud")
	}
	switch field.Name {
	case "name":
		return typ, nil
	case "lives", "barks":
		return 7, nil
	}
	return nil, nil
}

func (o *KCat) Resolve(field *ggql.Field, args map[string]interface{}) (interface{}, error) {
	return kennelResolve(o.log, "KCat", map[string][]string{"name": {"limit", "tag"}}, field, args)
}
func (o *KDog) Resolve(field *ggql.Field, args map[string]interface{}) (interface{}, error) {
	return kennelResolve(o.log, "KDog", map[string][]string{"barks": {"loud"}}, field, args)
}
func (o *KEel) Resolve(field *ggql.Field, args map[string]interface{}) (interface{}, error) {
	return kennelResolve(o.log, "KEel", map[string][]string{"name": {"limit", "deep"}}, field, args)
}

type kennelQuery struct {
	Pets []interface{}
	Anys []interface{}
}
type kennelRoot struct{ Query *kennelQuery }

// c04Kennel: ONE request field is resolved on objects of several object types whose field definitions declare different
// arguments (heterogeneous interface / union lists, in every order, also on a parsed executable used again after the
// data changed). Whatever the order, no resolver may receive an argument its own type does not declare, or be invoked
// without one it requires; when that cannot be honoured there must be an error.
func c04Kennel(c *run.Ctx) int {
	n := c.N(400, 40000)
	reqs := []string{
		`{ pets { name(limit: 3) } }`, `{ pets { name(limit: 3, tag: "x") } }`, `{ pets { name } }`, `{ anys { ... on KNamed { name(limit: 2) } } }`,
		`{ pets { ...F } } fragment F on KNamed { name(limit: 1) }`, `query($l: Int = 4) { pets { name(limit: $l) } anys { ... on KCat { name(limit: $l) } ... on KEel { name(limit: $l) } } }`,
		`{ pets { name(tag: "only") } }`, `{ pets { name(deep: true, limit: 5) } }`, `{ anys { ... on KDog { barks } } }`, `query($b: Boolean) { anys { ... on KDog { barks(loud: $b) } } }`, `{ anys { ... on KDog { barks(loud: true) } ... on KCat { lives } } pets { name(limit: 9) } }`,
	}
	done := 0
	for i := 0; i < n && !c.TooMany(); i++ {
		r := c.Rand(800000 + i)
		log := &kennelLog{}
		mk := func() interface{} {
			switch r.Intn(3) {
			case 0:
				return &KCat{log}
			case 1:
				return &KDog{log}
			}
			return &KEel{log}
		}
		q := &kennelQuery{}
		for k, m := 0, 2+r.Intn(3); k < m; k++ {
			q.Pets = append(q.Pets, mk())
			q.Anys = append(q.Anys, mk())
		}
		root := ggql.NewRoot(&kennelRoot{Query: q})
		if err := root.ParseString(c04KennelSDL); err != nil {
			c.Violation("c04-kennel-schema", map[string]interface{}{"error": err.Error()})
			return done
		}
		text := reqs[r.Intn(len(reqs))]
		exe, perr := root.ParseExecutableString(text)
		if perr != nil {
			c.Violation("c04-kennel-parse", map[string]interface{}{"document": text, "error": perr.Error()})
			continue
		}
		var trace []string
		for step := 0; step < 2+r.Intn(2); step++ {
			if step > 0 {
				// the data changes between two uses of the parsed request: other types come first now
				r.Shuffle(len(q.Pets), func(a, b int) { q.Pets[a], q.Pets[b] = q.Pets[b], q.Pets[a] })
				r.Shuffle(len(q.Anys), func(a, b int) { q.Anys[a], q.Anys[b] = q.Anys[b], q.Anys[a] })
			}
			order := ""
			for _, p := range q.Pets {
				order += fmt.Sprintf("%T ", p)
			}
			trace = append(trace, strings.ReplaceAll(order, "*checks.", ""))
			log.calls, log.bad = nil, nil
			var res map[string]interface{}
			var rerr error
			pv, _ := run.Protect(func() { res, rerr = root.ResolveExecutable(exe, "", nil) })
			done++
			c.Eval(fmt.Sprintf("kennel|%s|%v", text, trace), true)
			c.Bucket("form", "implementers-with-different-arguments")
			c.Count("kennel_resolver_invocations_checked", len(log.calls))
			if pv != nil || len(log.bad) > 0 {
				c.Violation("c04-kennel", map[string]interface{}{"sdl": c04KennelSDL, "document": text, "pets_order_per_step": trace, "diag": fmt.Sprint(pv, log.bad),
					"resolver_calls": log.calls, "data": fmt.Sprint(res["data"]), "errors": fmt.Sprint(rerr)})
				break
			}
		}
		if i == 0 {
			c.Sample(map[string]interface{}{"document": text, "pets_order_per_step": trace, "resolver_calls": log.calls})
		}
	}
	return done
}

// c04OmittedAndShared: (a) a non-null argument that has a default is omitted: the resolver must get the default (coerced) or
// the request must fail - never run without the argument; (b) ONE variable feeds two arguments of different types in one
// request (in both orders): each resolver receives the coercion of the variable's value to ITS argument type, untouched by
// what the other position made of it.
func c04OmittedAndShared(c *run.Ctx, s *model.Schema, sdl string, g *model.Graph, types []*model.TypeRef) int {
	idx := map[string]int{}
	for i, t := range types {
		idx[t.String()] = i
	}
	n := 0
	for _, bk := range []string{"iface", "any"} {
		h, err := back.Build(bk, s, sdl, g)
		if err != nil {
			return n
		}
		// (a)
		for i, t := range types {
			fd := s.Type("Query").Field(fmt.Sprintf("q%d", i))
			if fd == nil {
				continue
			}
			for _, text := range []string{fmt.Sprintf("{ q%d }", i), fmt.Sprintf("{ q%d(other: 3) }", i), fmt.Sprintf("query($o: Int) { q%d(other: $o) }", i)} {
				out := Do(h, Request{Text: text, Entry: n}, nil)
				n++
				c.Eval("omitted|"+text+bk, true)
				c.Bucket("form", "omitted-non-null-argument-with-default")
				var call *back.Call
				for k := range out.Calls {
					if out.Calls[k].Key.Field == fd.Name {
						call = &out.Calls[k]
					}
				}
				diag := ""
				switch {
				case out.Panic != nil:
					diag = "panic: " + fmt.Sprint(out.Panic)
				case call == nil && len(out.ErrPaths) == 0:
					diag = "resolver not invoked and no error reported"
				case call != nil:
					want, _ := ref.CoerceIn(s, t, fd.Args[0].Default)
					if got, has := call.Raw["a"]; !has || got == nil {
						diag = "resolver invoked WITHOUT its non-null argument (neither the default nor an error)"
					} else if !ref.Equal(c04Canon(got), want) {
						diag = "resolver received " + ref.Render(c04Canon(got)) + " for the omitted argument, its default is " + ref.Render(want)
					}
				}
				if diag != "" {
					c.Violation("c04-omitted-default", map[string]interface{}{"backend": bk, "field": model.FieldSDL(fd, model.SDLOpts{}), "document": text, "diag": diag, "observed": out.Describe()})
				}
			}
		}
		// (b)
		pairs := []struct {
			vtype  string
			val    interface{}
			ta, tb string
		}{
			{"Float64", 0.1, "Float", "Float64"}, {"Float64", 1234567.891, "Float", "Float64"}, {"Float64!", 0.30000000000000004, "Float", "Float64!"},
			{"ID", "007", "ID", "String"}, {"String", "0012", "ID", "String"}, {"Int", float64(7), "Int", "Int64"}, {"Int64", int64(2147483647), "Int64", "Int"},
			{"[Float64]", []interface{}{0.1, 0.2}, "[Float]", "[Float64]"},
		}
		for _, pr := range pairs {
			ia, oka := idx[pr.ta]
			ib, okb := idx[pr.tb]
			if !oka || !okb {
				continue
			}
			for order := 0; order < 2; order++ {
				fa, fb := fmt.Sprintf("p%d", ia), fmt.Sprintf("p%d", ib)
				text := fmt.Sprintf("query($v: %s) { a: %s(a: $v) b: %s(a: $v) }", pr.vtype, fa, fb)
				if order == 1 {
					text = fmt.Sprintf("query($v: %s) { b: %s(a: $v) a: %s(a: $v) }", pr.vtype, fb, fa)
				}
				vars := map[string]interface{}{"v": pr.val}
				out := Do(h, Request{Text: text, Vars: vars, Entry: n}, nil)
				n++
				c.Eval("shared|"+text+bk, true)
				c.Bucket("form", "one-variable-two-argument-types")
				for _, pos := range []struct{ key, tname string }{{"a", pr.ta}, {"b", pr.tb}} {
					t := types[idx[pos.tname]]
					want, werr := ref.CoerceIn(s, t, pr.val)
					var call *back.Call
					for k := range out.Calls {
						if out.Calls[k].Key.Key == pos.key {
							call = &out.Calls[k]
						}
					}
					diag := ""
					switch {
					case out.Panic != nil:
						diag = "panic: " + fmt.Sprint(out.Panic)
					case call == nil && len(out.ErrPaths) == 0:
						diag = "resolver for " + pos.key + " not invoked and no error reported"
					case call != nil && werr == nil && !ref.Equal(c04Canon(call.Raw["a"]), want):
						ref.Lenient = true
						lw, lerr := ref.CoerceIn(s, t, pr.val)
						ref.Lenient = false
						if lerr != nil || !ref.Equal(c04Canon(call.Raw["a"]), lw) {
							diag = fmt.Sprintf("resolver for %s (argument type %s) received %s, the variable's value coerced to that type is %s", pos.key, pos.tname, ref.Render(c04Canon(call.Raw["a"])), ref.Render(want))
						}
					}
					if diag != "" {
						c.Violation("c04-shared-variable", map[string]interface{}{"backend": bk, "document": text, "vars": fmt.Sprintf("%#v", vars), "diag": diag, "observed": out.Describe()})
						break
					}
				}
			}
		}
	}
	return n
}

// ---------------------------------------------------------------- the Relaxed switch

const c04RelaxedSDL = `
enum Kind { SMALL LARGE }
input Crate { k: Kind ks: [Kind!] = [SMALL] in: Crate }
type Query { e(k: Kind): String n(k: Kind!): String l(ks: [Kind]): String ll(kss: [[Kind!]]): String b(box: Crate): String }
`

type c04RelaxedRoot struct {
	mu    sync.Mutex
	calls []map[string]interface{}
}

func (r *c04RelaxedRoot) Resolve(field *ggql.Field, args map[string]interface{}) (interface{}, error) {
	if field.Name == "query" {
		return r, nil
	}
	r.mu.Lock()
	cp, _ := deepCopyAny(args).(map[string]interface{})
	r.calls = append(r.calls, cp)
	r.mu.Unlock()
	return "ok", nil
}

func deepCopyAny(v interface{}) interface{} {
	switch t := v.(type) {
	case map[string]interface{}:
		o := make(map[string]interface{}, len(t))
		for k, e := range t {
			o[k] = deepCopyAny(e)
		}
		return o
	case []interface{}:
		o := make([]interface{}, len(t))
		for i, e := range t {
			o[i] = deepCopyAny(e)
		}
		return o
	}
	return v
}

// c04EnumLeaves walks a received argument value along the shape {Kind | [Kind] | [[Kind]] | Crate} and returns the
// values standing at enum positions.
func c04EnumLeaves(v interface{}, out *[]interface{}) {
	switch t := v.(type) {
	case nil:
	case []interface{}:
		for _, e := range t {
			c04EnumLeaves(e, out)
		}
	case map[string]interface{}:
		for _, k := range []string{"k", "ks", "in"} {
			if e, has := t[k]; has {
				c04EnumLeaves(e, out)
			}
		}
	default:
		*out = append(*out, v)
	}
}

// c04Relaxed: ggql.Relaxed is the documented switch that lets JSON clients (which have no enum symbols) supply enum values
// as strings. The statement does not change with it: an enum value handed to a resolver is a declared member and the one
// the client wrote; anything else is an error and the resolver does not run. Every case runs with the switch off and on.
func c04Relaxed(c *run.Ctx) int {
	defer func() { ggql.Relaxed = false }()
	open := c.Open("K-C04-relaxed-enum-member")
	type rcase struct {
		text string
		vars map[string]interface{}
		want []string // the members the client wrote, in order; nil: not coercible (no member written at some enum position)
	}
	j := func(s string) map[string]interface{} {
		var m map[string]interface{}
		_ = json.Unmarshal([]byte(s), &m)
		return m
	}
	cases := []rcase{
		{`query($v: Kind){ e(k: $v) }`, j(`{"v":"SMALL"}`), []string{"SMALL"}},
		{`query($v: Kind){ e(k: $v) }`, j(`{"v":"LARGE"}`), []string{"LARGE"}},
		{`query($v: Kind){ e(k: $v) }`, j(`{"v":"MEDIUM"}`), nil},
		{`query($v: Kind){ e(k: $v) }`, j(`{"v":"small"}`), nil},
		{`query($v: Kind){ e(k: $v) }`, j(`{"v":""}`), nil},
		{`query($v: Kind){ e(k: $v) }`, j(`{"v":"SMALL "}`), nil},
		{`query($v: Kind){ e(k: $v) }`, j(`{"v":1}`), nil},
		{`query($v: Kind){ e(k: $v) }`, j(`{"v":true}`), nil},
		{`query($v: Kind){ e(k: $v) }`, j(`{"v":["SMALL"]}`), nil},
		{`query($v: Kind!){ n(k: $v) }`, j(`{"v":"LARGE"}`), []string{"LARGE"}},
		{`query($v: Kind!){ n(k: $v) }`, j(`{"v":"Kind"}`), nil},
		{`query($v: [Kind]){ l(ks: $v) }`, j(`{"v":["SMALL","LARGE",null,"SMALL"]}`), []string{"SMALL", "LARGE", "SMALL"}},
		{`query($v: [Kind]){ l(ks: $v) }`, j(`{"v":["SMALL","NOPE"]}`), nil},
		{`query($v: [Kind]){ l(ks: $v) }`, j(`{"v":[]}`), []string{}},
		{`query($v: [[Kind!]]){ ll(kss: $v) }`, j(`{"v":[["LARGE"],[],["SMALL","LARGE"]]}`), []string{"LARGE", "SMALL", "LARGE"}},
		{`query($v: [[Kind!]]){ ll(kss: $v) }`, j(`{"v":[["LARGE"],["__typename"]]}`), nil},
		{`query($b: Crate){ b(box: $b) }`, j(`{"b":{"k":"LARGE"}}`), []string{"LARGE", "SMALL"}},
		{`query($b: Crate){ b(box: $b) }`, j(`{"b":{"k":"NOPE"}}`), nil},
		{`query($b: Crate){ b(box: $b) }`, j(`{"b":{"ks":["LARGE","LARGE"],"in":{"k":"SMALL","ks":[]}}}`), []string{"LARGE", "LARGE", "SMALL"}},
		{`query($b: Crate){ b(box: $b) }`, j(`{"b":{"in":{"in":{"ks":["LARGE","nope"]}}}}`), nil},
		{`query($k: Kind){ b(box: {k: $k, ks: [LARGE]}) }`, j(`{"k":"SMALL"}`), []string{"SMALL", "LARGE"}},
		{`query($k: Kind){ b(box: {k: $k, ks: [LARGE]}) }`, j(`{"k":"Small"}`), nil},
		{`{ e(k: "SMALL") }`, nil, []string{"SMALL"}},
		{`{ e(k: "NOPE") }`, nil, nil},
		{`{ l(ks: [SMALL, "LARGE"]) }`, nil, []string{"SMALL", "LARGE"}},
		{`{ l(ks: [SMALL, "large"]) }`, nil, nil},
		{`{ b(box: {k: LARGE, in: {k: "HUGE"}}) }`, nil, nil},
		{`query($v: Kind = "LARGE"){ e(k: $v) }`, nil, []string{"LARGE"}},
		{`query($v: Kind = "NOPE"){ e(k: $v) }`, nil, nil},
	}
	done := 0
	for _, relaxed := range []bool{false, true} {
		for ci, rc := range cases {
			for entry := 0; entry < 2; entry++ {
				ggql.Relaxed = relaxed
				ro := &c04RelaxedRoot{}
				root := ggql.NewRoot(ro)
				if err := root.ParseString(c04RelaxedSDL); err != nil {
					c.Violation("c04-schema-rejected", map[string]interface{}{"error": err.Error()})
					return done
				}
				var res map[string]interface{}
				pv, _ := run.Protect(func() {
					if entry == 0 {
						res = root.ResolveString(rc.text, "", copyVars(rc.vars))
					} else {
						res = root.ResolveBytes([]byte(rc.text), "", copyVars(rc.vars))
					}
				})
				ggql.Relaxed = false
				done++
				c.Eval(fmt.Sprintf("relaxed=%v|%d|%d", relaxed, ci, entry), true)
				c.Bucket("relaxed_switch", fmt.Sprint(relaxed))
				rep := func(diag string) {
					c.Violation("c04-relaxed", map[string]interface{}{"Relaxed": relaxed, "sdl": c04RelaxedSDL, "document": rc.text, "vars": rc.vars, "diag": diag,
						"received": fmt.Sprintf("%#v", ro.calls), "response": fmt.Sprint(res)})
				}
				if pv != nil {
					rep(fmt.Sprintf("panic: %v", pv))
					continue
				}
				_, hasErr := res["errors"]
				if len(ro.calls) == 0 {
					if !hasErr {
						rep("the resolver did not run and no error was reported")
					}
					c.Count("relaxed_cases_refused", 1)
					continue // refusing is always allowed
				}
				c.Count("relaxed_cases_resolver_ran", 1)
				var leaves []interface{}
				for _, a := range ro.calls[0] {
					c04EnumLeaves(a, &leaves)
				}
				var got []string
				foreign := ""
				for _, l := range leaves {
					name := ""
					switch t := l.(type) {
					case ggql.Symbol:
						name = string(t)
					case string:
						name = t
					default:
						foreign = fmt.Sprintf("%T(%v) at an enum position", l, l)
					}
					if name != "SMALL" && name != "LARGE" && foreign == "" {
						foreign = fmt.Sprintf("%q is not a member of Kind", name)
					}
					got = append(got, name)
				}
				switch {
				case foreign != "" && relaxed && open && rc.want == nil:
					// the open finding: with the switch on any string passes for a member
					c.Known("K-C04-relaxed-enum-member", map[string]interface{}{"document": rc.text, "vars": rc.vars, "received": fmt.Sprintf("%v", ro.calls[0])})
				case foreign != "":
					rep("the resolver received " + foreign)
				case rc.want == nil:
					rep("the value can not be coerced (an enum position holds no declared member) but the resolver ran")
				default:
					// members only: they must be the ones the client wrote (as a multiset: map order is not defined)
					a, b := append([]string{}, got...), append([]string{}, rc.want...)
					sort.Strings(a)
					sort.Strings(b)
					if strings.Join(a, ",") != strings.Join(b, ",") {
						rep(fmt.Sprintf("enum members received %v, the client wrote %v", got, rc.want))
					}
				}
			}
		}
	}
	return done
}

// c04Unsigned: variable maps built by Go code (not decoded from JSON) carry unsigned kinds; the values no int64 literal can
// express - 2^63 and up, among them the ones that wrap to small negative numbers when converted carelessly - are not Ints
// and not Int64s: the request fails for that variable and the resolver does not run.
func c04Unsigned(c *run.Ctx) int {
	const sdl = `input UBox { n: Int m: Int64 } type Query { i(v: Int): String n(v: Int!): String l(v: [Int!]): String i64(v: Int64): String b(box: UBox): String }`
	vals := []interface{}{uint64(math.MaxUint64), uint64(math.MaxUint64 - 5), uint64(math.MaxUint64 - math.MaxInt32), uint64(math.MaxUint64-math.MaxInt32) - 1,
		uint64(1) << 63, uint64(1)<<63 + 1, uint(math.MaxUint64), uint64(1) << 32, uint64(math.MaxUint32), uint32(math.MaxUint32), uint(1) << 31}
	reqs := []struct {
		text string
		wrap func(v interface{}) interface{}
		i64  bool
	}{
		{`query($v: Int){ i(v: $v) }`, func(v interface{}) interface{} { return v }, false},
		{`query($v: Int!){ n(v: $v) }`, func(v interface{}) interface{} { return v }, false},
		{`query($v: [Int!]){ l(v: $v) }`, func(v interface{}) interface{} { return []interface{}{1, v} }, false},
		{`query($v: Int64){ i64(v: $v) }`, func(v interface{}) interface{} { return v }, true},
		{`query($v: UBox){ b(box: $v) }`, func(v interface{}) interface{} { return map[string]interface{}{"n": v} }, false},
		{`query($v: UBox){ b(box: $v) }`, func(v interface{}) interface{} { return map[string]interface{}{"m": v} }, true},
		{`query($v: Int){ b(box: {n: $v}) }`, func(v interface{}) interface{} { return v }, false},
	}
	done := 0
	for ri, rq := range reqs {
		for vi, v := range vals {
			u := reflect.ValueOf(v).Uint()
			fits := (rq.i64 && u <= math.MaxInt64) || (!rq.i64 && u <= math.MaxInt32)
			ro := &c04RelaxedRoot{}
			root := ggql.NewRoot(ro)
			if err := root.ParseString(sdl); err != nil {
				c.Violation("c04-schema-rejected", map[string]interface{}{"error": err.Error()})
				return done
			}
			var res map[string]interface{}
			pv, _ := run.Protect(func() { res = root.ResolveString(rq.text, "", map[string]interface{}{"v": rq.wrap(v)}) })
			done++
			c.Eval(fmt.Sprintf("unsigned|%d|%d", ri, vi), true)
			c.Bucket("form", "var-native-unsigned")
			diag := ""
			switch {
			case pv != nil:
				diag = fmt.Sprintf("panic: %v", pv)
			case len(ro.calls) == 0 && res["errors"] == nil:
				diag = "the resolver did not run and no error was reported"
			case len(ro.calls) > 0 && !fits:
				diag = fmt.Sprintf("%T(%d) is no %s, but the resolver ran and received %#v", v, u, map[bool]string{true: "Int64", false: "Int"}[rq.i64], ro.calls[0])
			case len(ro.calls) > 0:
				// it fits: what arrived must be that number
				var leaves []interface{}
				for _, a := range ro.calls[0] {
					c04EnumLeaves(map[string]interface{}{"k": a}, &leaves)
					if m, isM := a.(map[string]interface{}); isM {
						for _, e := range m {
							leaves = append(leaves, e)
						}
					}
				}
				ok := false
				for _, l := range leaves {
					if rv := reflect.ValueOf(l); rv.IsValid() && rv.CanInt() && rv.Int() == int64(u) {
						ok = true
					}
				}
				if !ok {
					diag = fmt.Sprintf("%T(%d) fits, but the resolver received %#v", v, u, ro.calls[0])
				}
			}
			if diag != "" {
				c.Violation("c04-unsigned", map[string]interface{}{"sdl": sdl, "document": rq.text, "variable": fmt.Sprintf("%T(%d)", v, u), "diag": diag, "response": fmt.Sprint(res)})
			}
		}
	}
	return done
}

// c04OneVarsMap: a caller that keeps ONE variables map and hands it to several requests (a batch layer). What a request
// leaves unprovided is decided by that request's own defaults - not by what an earlier request's defaults were.
func c04OneVarsMap(c *run.Ctx) int {
	const sdl = `type Query { f(a: Int): String n(a: Int!): String g(s: String = "schema default"): String }`
	steps := []struct {
		text string
		want string // rendered args of the single call; "" = must be refused
	}{
		{`query($limit: Int = 5){ f(a: $limit) }`, `{"a":5}`},
		{`query($limit: Int = 10){ f(a: $limit) }`, `{"a":10}`},
		{`query($limit: Int){ f(a: $limit) }`, `{"a":null}|{}`},
		{`query($limit: Int!){ n(a: $limit) }`, ""},
		{`query($s: String = "first"){ g(s: $s) }`, `{"s":"first"}`},
		{`query($s: String){ g(s: $s) }`, `{"s":null}|{}|{"s":"schema default"}`},
		{`query($limit: Int = 7, $s: String = "second"){ f(a: $limit) }`, `{"a":7}`},
	}
	done := 0
	for round := 0; round < c.N(20, 300); round++ {
		r := c.Rand(1300000 + round)
		ro := &c04RelaxedRoot{}
		root := ggql.NewRoot(ro)
		if err := root.ParseString(sdl); err != nil {
			c.Violation("c04-schema-rejected", map[string]interface{}{"error": err.Error()})
			return done
		}
		shared := map[string]interface{}{} // the caller's one map: it never provides anything
		var hist []string
		for k := 0; k < 3+r.Intn(5); k++ {
			st := steps[r.Intn(len(steps))]
			ro.calls = nil
			var res map[string]interface{}
			pv, _ := run.Protect(func() { res = root.ResolveString(st.text, "", shared) })
			hist = append(hist, st.text)
			done++
			c.Count("requests_sharing_one_variables_map", 1)
			got := ""
			if len(ro.calls) > 0 {
				got = ref.Render(ref.Canon(ro.calls[0]))
			}
			ok := pv == nil
			if st.want == "" {
				ok = ok && len(ro.calls) == 0 && res["errors"] != nil
			} else {
				ok = ok && len(ro.calls) == 1 && strings.Contains("|"+st.want+"|", "|"+got+"|")
			}
			if !ok {
				c.Violation("c04-one-variables-map", map[string]interface{}{"sdl": sdl, "history": hist, "resolver_received": got, "expected": st.want, "response": fmt.Sprint(res), "panic": fmt.Sprint(pv)})
				break
			}
		}
		c.Eval("one-vars-map|"+strings.Join(hist, "|"), true)
	}
	return done
}
