package checks

import (
	"fmt"
	"strings"

	"github.com/uhn/ggql/pkg/ggql"

	"verif/internal/run"
)

var c13NamePositions = []string{"object", "object-field", "field-argument", "interface", "interface-field", "enum", "enum-value", "input", "input-field", "union", "directive", "directive-argument"}

// c13BuildTypes makes a small set of types in Go; the name at position pos is bad (pos "": everything is well-formed).
func c13BuildTypes(pos, bad string) []ggql.Type {
	ref := func(n string) ggql.Type { return &ggql.Ref{Base: ggql.Base{N: n}} }
	nm := func(p, good string) string {
		if p == pos {
			return bad
		}
		return good
	}
	q := &ggql.Object{Base: ggql.Base{N: "Query"}}
	_ = q.AddField(&ggql.FieldDef{Base: ggql.Base{N: "a"}, Type: ref("Int")})
	iface := &ggql.Interface{Base: ggql.Base{N: nm("interface", "ZzNode")}}
	_ = iface.AddField(&ggql.FieldDef{Base: ggql.Base{N: nm("interface-field", "x")}, Type: ref("Int")})
	o := &ggql.Object{Base: ggql.Base{N: nm("object", "ZzThing")}, Interfaces: []ggql.Type{iface}}
	f := &ggql.FieldDef{Base: ggql.Base{N: nm("object-field", "f")}, Type: ref("Int")}
	_ = f.AddArg(&ggql.Arg{Base: ggql.Base{N: nm("field-argument", "arg")}, Type: ref("Int")})
	_ = o.AddField(f)
	_ = o.AddField(&ggql.FieldDef{Base: ggql.Base{N: nm("interface-field", "x")}, Type: ref("Int")})
	// deprecated members, said the way the parser says it: a use of the directive by name
	dep := func(reason string) []*ggql.DirectiveUse {
		du := &ggql.DirectiveUse{Directive: ref("deprecated")}
		if reason != "" {
			du.Args = map[string]*ggql.ArgValue{"reason": {Arg: "reason", Value: reason}}
		}
		return []*ggql.DirectiveUse{du}
	}
	old := &ggql.FieldDef{Base: ggql.Base{N: "old"}, Type: ref("Int")}
	old.Dirs = dep("gone")
	_ = o.AddField(old)
	e := &ggql.Enum{Base: ggql.Base{N: nm("enum", "ZzColor")}}
	_ = e.AddValue(&ggql.EnumValue{Value: ggql.Symbol(nm("enum-value", "RED"))})
	_ = e.AddValue(&ggql.EnumValue{Value: "BLUE", Directives: dep("why")})
	in := &ggql.Input{Base: ggql.Base{N: nm("input", "ZzIn")}}
	_ = in.AddField(&ggql.InputField{Base: ggql.Base{N: nm("input-field", "n")}, Type: ref("Int")})
	u := &ggql.Union{Base: ggql.Base{N: nm("union", "ZzU")}, Members: []ggql.Type{o}}
	d := &ggql.Directive{Base: ggql.Base{N: nm("directive", "zzDir")}, On: []ggql.Location{ggql.LocField}}
	_ = d.AddArg(&ggql.Arg{Base: ggql.Base{N: nm("directive-argument", "da")}, Type: ref("Int")})
	return []ggql.Type{q, iface, o, e, in, u, d}
}

// c13BuiltNames: the name rules hold for schemas built from types too (Root.AddTypes with types made in Go: AddField,
// AddArg, AddValue) - a route on which names never pass the tokenizer, so any string can arrive. One small well-formed
// set of types; each of the name positions in turn gets a name that is no GraphQL name (bad first character, bad
// character inside, at the end, blank, reserved prefix, leading digit, characters beyond Latin-1, bytes that are not
// UTF-8): the load must be refused naming the offender, and the well-formed set itself must be accepted.
func c13BuiltNames(c *run.Ctx) int {
	bads := []string{"-name", "$name", ".name", "@name", " name", "-", "#", "na-me", "na me", "name-", "name!", "9name", "__name", "né", "na\x00me", "\xffname", "名前", "nаme", "name "}
	// every single-byte character that is no letter, digit or underscore, in the middle of a name (the ones sitting between
	// the letter ranges of ASCII - [ \\ ] ^ and the back quote - and DEL among them), and every digit in front
	for b := 0; b < 256; b++ {
		ch := byte(b)
		letter := ch == '_' || ('a' <= ch && ch <= 'z') || ('A' <= ch && ch <= 'Z')
		digit := '0' <= ch && ch <= '9'
		if !letter && !digit {
			bads = append(bads, "na"+string([]byte{ch})+"me")
		}
		if digit {
			bads = append(bads, string([]byte{ch})+"name")
		}
	}
	done := 0
	root := ggql.NewRoot(nil)
	var gerr error
	if pv, _ := run.Protect(func() { gerr = root.AddTypes(c13BuildTypes("", "")...) }); pv != nil || gerr != nil {
		c.Violation("c13-wellformed-rejected", map[string]interface{}{"diag": "the well-formed set of built types was refused", "error": fmt.Sprint(pv, gerr)})
		return 0
	}
	for _, pos := range c13NamePositions {
		for _, bad := range bads {
			root := ggql.NewRoot(nil)
			var err error
			pv, _ := run.Protect(func() { err = root.AddTypes(c13BuildTypes(pos, bad)...) })
			done++
			c.Eval(fmt.Sprintf("built-name|%s|%q", pos, bad), true)
			c.Bucket("rule", "built-types:ill-formed-name-of-"+pos)
			switch {
			case pv != nil:
				c.Violation("c13-built-types-panic", map[string]interface{}{"position": pos, "name": bad, "panic": fmt.Sprint(pv)})
			case err == nil:
				c.Violation("c13-mutant-accepted", map[string]interface{}{"rule": "built-types:ill-formed-name-of-" + pos, "offender": bad,
					"diag": fmt.Sprintf("AddTypes accepted a set of types in which the %s is named %q", pos, bad)})
			case strings.TrimSpace(bad) != "" && !strings.Contains(err.Error(), strings.ToValidUTF8(bad, "")) && !strings.Contains(err.Error(), bad):
				c.Violation("c13-offender-not-named", map[string]interface{}{"rule": "built-types:ill-formed-name-of-" + pos, "offender": bad, "diag": clip(err.Error(), 300)})
			}
		}
	}
	return done
}
