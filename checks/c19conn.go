package checks

import (
	"fmt"
	"strings"

	"github.com/uhn/ggql/pkg/ggql"

	"verif/internal/ref"
	"verif/internal/run"
)

// c19Conn is ONE Subscriber value behind several subscriptions (a connection that sent several subscription requests).
type c19Conn struct {
	id       string
	sent     []string
	cleanups int
	refuse   string // a message containing this text is refused (a frame too large, a closed stream ...)
}

func (k *c19Conn) Match(id string) bool { return id == k.id || id == "all" }
func (k *c19Conn) Send(v interface{}) error {
	m := ref.Render(ref.Canon(v))
	if k.refuse != "" && strings.Contains(m, k.refuse) {
		return fmt.Errorf("connection %s can not carry %s", k.id, m)
	}
	k.sent = append(k.sent, m)
	return nil
}
func (k *c19Conn) Unsubscribe() { k.cleanups++ }

type c19ConnRoot struct {
	next *c19Conn
	// reuse: the resolver keeps the Subscription it made for a connection and hands the same object out again when that
	// connection subscribes again (a server that keeps one subscription per client)
	reuse bool
	kept  map[*c19Conn]*ggql.Subscription
}

func (r *c19ConnRoot) Resolve(field *ggql.Field, args map[string]interface{}) (interface{}, error) {
	switch field.Name {
	case "subscription":
		return r, nil
	case "listen", "must":
		if r.reuse {
			if s := r.kept[r.next]; s != nil {
				return s, nil
			}
			s := ggql.NewSubscription(r.next, field, args)
			r.kept[r.next] = s
			return s, nil
		}
		return ggql.NewSubscription(r.next, field, args), nil
	}
	return 1, nil
}

// c19SharedSubscriber: what the registry holds are subscriptions, not connections. One Subscriber value that backs two
// subscriptions (two requests of one connection, with different selections) and a second connection with one. A delivery
// that fails removes THAT subscription and calls the clean-up once; the connection's other subscription and the other
// connection keep receiving, counts say so, and a later Unsubscribe removes exactly what is left.
func c19SharedSubscriber(c *run.Ctx, kind string) int {
	done := 0
	for round := 0; round < c.N(20, 300); round++ {
		r := c.Rand(1800000 + round)
		ro := &c19ConnRoot{}
		root := ggql.NewRoot(ro)
		if err := root.ParseString(subSDL); err != nil {
			c.Violation(kind, map[string]interface{}{"diag": "schema rejected: " + err.Error()})
			return done
		}
		c1 := &c19Conn{id: "c1", refuse: `"tag":"big`}
		c2 := &c19Conn{id: "c2"}
		var hist []string
		sub := func(k *c19Conn, text string) bool {
			ro.next = k
			res := root.ResolveString(text, "", nil)
			hist = append(hist, k.id+" subscribes "+text)
			if res["errors"] != nil {
				c.Violation(kind, map[string]interface{}{"history": hist, "diag": fmt.Sprint("subscription request rejected: ", res["errors"])})
				return false
			}
			return true
		}
		// c1: one stream selecting id, one selecting tag (the one that will fail); c2: one stream. Registration order varies.
		reqs := []struct {
			k    *c19Conn
			text string
		}{{c1, `subscription { listen(topic: "c1") { id } }`}, {c1, `subscription { must(topic: "c1") { id tag } }`}, {c2, `subscription { listen(topic: "c2") { id n } }`}}
		r.Shuffle(len(reqs), func(a, b int) { reqs[a], reqs[b] = reqs[b], reqs[a] })
		ok := true
		for _, q := range reqs {
			ok = ok && sub(q.k, q.text)
		}
		if !ok {
			continue
		}
		fail := func(diag string) {
			c.Violation(kind, map[string]interface{}{"history": hist, "diag": diag, "c1_received": c1.sent, "c2_received": c2.sent, "c1_cleanups": c1.cleanups, "c2_cleanups": c2.cleanups})
		}
		pub := func(topic string, ev *subEvent, wantCnt int, wantErr bool) bool {
			cnt, err := root.AddEvent(topic, ev)
			hist = append(hist, fmt.Sprintf("publish %s %s tag=%s -> %d %v", topic, ev.id, ev.tag, cnt, err != nil))
			if cnt != wantCnt || (err != nil) != wantErr {
				fail(fmt.Sprintf("publish on %s reported %d matched (error %v), expected %d (error %v)", topic, cnt, err != nil, wantCnt, wantErr))
				return false
			}
			return true
		}
		done++
		c.Eval(fmt.Sprintf("shared-subscriber|%d|%v", round, hist), true)
		c.Bucket("subscription_field", "one-subscriber-behind-two-subscriptions")
		e1 := &subEvent{uid: 1, id: "e1", n: 1, tag: "small"}
		e2 := &subEvent{uid: 2, id: "e2", n: 2, tag: "big payload"}
		e3 := &subEvent{uid: 3, id: "e3", n: 3, tag: "small again"}
		if !pub("all", e1, 3, false) {
			continue
		}
		if !pub("all", e2, 3, true) { // the tag stream of c1 fails: it is removed, clean-up once
			continue
		}
		if c1.cleanups != 1 || c2.cleanups != 0 {
			fail(fmt.Sprintf("after one failed delivery on one of c1's two subscriptions: clean-ups c1=%d c2=%d, expected 1 and 0", c1.cleanups, c2.cleanups))
			continue
		}
		if !pub("all", e3, 2, false) { // c1's id stream and c2 are still there
			continue
		}
		want1 := []string{`{"id":"e1"}`, `{"id":"e1","tag":"small"}`, `{"id":"e2"}`, `{"id":"e3"}`}
		got1 := append([]string{}, c1.sent...)
		if len(got1) != len(want1) {
			fail(fmt.Sprintf("c1 received %v, expected (in some order per event) %v", got1, want1))
			continue
		}
		for _, w := range want1 {
			found := false
			for _, g := range got1 {
				found = found || g == w
			}
			if !found {
				fail(fmt.Sprintf("c1 did not receive %s (received %v)", w, got1))
				ok = false
				break
			}
		}
		if !ok {
			continue
		}
		if len(c2.sent) != 3 {
			fail(fmt.Sprintf("c2 received %d messages, expected 3", len(c2.sent)))
			continue
		}
		if n := root.Unsubscribe("c1"); n != 1 || c1.cleanups != 2 {
			hist = append(hist, "unsubscribe c1")
			fail(fmt.Sprintf("Unsubscribe(c1) removed %d (clean-ups now %d): one subscription of c1 was left, expected 1 removed and 2 clean-ups in all", n, c1.cleanups))
			continue
		}
		c.Count("deliveries_checked", len(c1.sent)+len(c2.sent))
	}
	// a Subscription object that is registered, dropped after a failed delivery and registered again (the resolver keeps
	// one per connection): after the second request returned, events reach it again
	for round := 0; round < c.N(6, 60); round++ {
		ro := &c19ConnRoot{reuse: true, kept: map[*c19Conn]*ggql.Subscription{}}
		root := ggql.NewRoot(ro)
		if err := root.ParseString(subSDL); err != nil {
			return done
		}
		k := &c19Conn{id: "c3", refuse: `"tag":"big`}
		other := &c19Conn{id: "c4"}
		var hist []string
		step := func(what string, ok bool, diag string) bool {
			hist = append(hist, what)
			if !ok {
				c.Violation(kind, map[string]interface{}{"history": hist, "diag": diag, "c3_received": k.sent, "c3_cleanups": k.cleanups})
			}
			return ok
		}
		sub := func(conn *c19Conn) bool {
			ro.next = conn
			res := root.ResolveString(`subscription { listen(topic: "x") { id tag } }`, "", nil)
			return step(conn.id+" subscribes", res["errors"] == nil, fmt.Sprint("subscription request rejected: ", res["errors"]))
		}
		done++
		c.Eval(fmt.Sprintf("resubscribed-subscription|%d", round), true)
		c.Bucket("subscription_field", "the-same-Subscription-object-registered-again")
		if !sub(k) || (round%2 == 1 && !sub(other)) {
			continue
		}
		n := 1 + round%2
		cnt, err := root.AddEvent("all", &subEvent{uid: 1, id: "e1", tag: "big one"})
		if !step("publish e1 (c3 can not carry it)", cnt == n && err != nil && k.cleanups == 1, fmt.Sprintf("matched %d (expected %d), error %v, clean-ups of c3 %d (expected 1)", cnt, n, err != nil, k.cleanups)) {
			continue
		}
		cnt, _ = root.AddEvent("all", &subEvent{uid: 2, id: "e2", tag: "small"})
		if !step("publish e2", cnt == n-1 && len(k.sent) == 0, fmt.Sprintf("matched %d (expected %d: c3 was dropped), c3 received %v", cnt, n-1, k.sent)) {
			continue
		}
		if !sub(k) {
			continue
		}
		cnt, err = root.AddEvent("all", &subEvent{uid: 3, id: "e3", tag: "small"})
		if !step("publish e3", cnt == n && err == nil && len(k.sent) == 1 && k.sent[0] == `{"id":"e3","tag":"small"}`,
			fmt.Sprintf("after c3 subscribed again: matched %d (expected %d), error %v, c3 received %v (expected e3)", cnt, n, err != nil, k.sent)) {
			continue
		}
		rem := root.Unsubscribe("c3")
		step("unsubscribe c3", rem == 1 && k.cleanups == 2, fmt.Sprintf("Unsubscribe(c3) removed %d (expected 1), clean-ups of c3 now %d (expected 2)", rem, k.cleanups))
	}
	return done
}

var _ = run.Protect
