package checks

import (
	"bytes"
	"encoding/json"
	"fmt"
	"math"
	"math/rand"
	"os"
	"regexp"
	"strings"

	"github.com/uhn/ggql/pkg/ggql"

	"verif/internal/back"
	"verif/internal/gen"
	"verif/internal/model"
	"verif/internal/ref"
	"verif/internal/run"
)

func init() {
	register(&Check{ID: "C07", Level: "exploration", Run: runC07})
}

// fieldLines collects, per response key, the lines on which a field token with that key is printed.
func fieldLines(d *model.Doc) map[string]map[int]bool {
	out := map[string]map[int]bool{}
	add := func(k string, l int) {
		if out[k] == nil {
			out[k] = map[int]bool{}
		}
		out[k][l] = true
	}
	for _, l := range d.AllSelLists() {
		for _, s := range *l {
			if f, isF := s.(*model.Field); isF {
				add(f.Key(), f.Line)
				add(f.Key(), f.NameLine)
			}
		}
	}
	return out
}

// envelopeCheck is the C07 monitor over one response. text is the submitted document.
// lines: known field token lines per key (nil when the document is not harness-printed).
func envelopeCheck(resp map[string]interface{}, text string, lines map[string]map[int]bool, preExec bool, lookahead bool) (diag string, known bool) {
	if resp == nil {
		return "nil response", false
	}
	for k := range resp {
		if k != "data" && k != "errors" {
			return "unexpected top-level key " + k, false
		}
	}
	_, hasData := resp["data"]
	ev, hasErrs := resp["errors"]
	if !hasData && !hasErrs {
		return "response has neither data nor errors", false
	}
	if preExec && hasData && resp["data"] != nil {
		return "request rejected before execution carries non-null data", false
	}
	docLines := strings.Split(strings.ReplaceAll(text, "\r\n", "\n"), "\n")
	crlf := 0
	if strings.Contains(text, "\r\n") {
		crlf = 1 // the CR and the LF are bytes of the line too
	}
	if hasErrs {
		el, isL := ev.([]interface{})
		if !isL || len(el) == 0 {
			return fmt.Sprintf("errors is not a non-empty list (%T, len %d)", ev, len(el)), false
		}
		for _, e := range el {
			em, isM := e.(map[string]interface{})
			if !isM {
				return fmt.Sprintf("error entry is a %T", e), false
			}
			for k := range em {
				switch k {
				case "message", "path", "locations", "extensions":
				default:
					return "unexpected key in error entry: " + k, false
				}
			}
			msg, isS := em["message"].(string)
			if !isS || msg == "" {
				return "error without a non-empty string message", false
			}
			var lastKey string
			if pv, has := em["path"]; has {
				pl, isPL := pv.([]interface{})
				if !isPL {
					return fmt.Sprintf("path is a %T", pv), false
				}
				for _, seg := range pl {
					switch t := seg.(type) {
					case string:
						if !fragSegRe.MatchString(t) {
							lastKey = t
						}
					case int:
						if t < 0 {
							return "negative list index in path", false
						}
					default:
						return fmt.Sprintf("path element of type %T", seg), false
					}
				}
			}
			if lv, has := em["locations"]; has {
				ll, isLL := lv.([]interface{})
				if !isLL || len(ll) == 0 {
					return "locations is not a non-empty list", false
				}
				for _, lo := range ll {
					lm, isLM := lo.(map[string]interface{})
					if !isLM {
						return "location is not a map", false
					}
					line, okl := lm["line"].(int)
					col, okc := lm["column"].(int)
					if !okl || !okc {
						return fmt.Sprintf("location line/column are %T/%T", lm["line"], lm["column"]), false
					}
					bad := ""
					switch {
					case line < 1 || col < 1:
						bad = fmt.Sprintf("location %d:%d is not positive", line, col)
					case line > len(docLines):
						bad = fmt.Sprintf("location line %d beyond the document (%d lines)", line, len(docLines))
					case col > len(docLines[line-1])+1+crlf:
						bad = fmt.Sprintf("location %d:%d beyond the end of its line (%d chars)", line, col, len(docLines[line-1]))
					}
					if bad == "" && lines != nil && lastKey != "" {
						if set := lines[lastKey]; set != nil && !set[line] {
							bad = fmt.Sprintf("location line %d is not a line of a field with key %q (lines %v)", line, lastKey, keysOf(set))
						}
					}
					if bad != "" {
						if lookahead && c07LookaheadExplains(msg, line, col, docLines) {
							if os.Getenv("VERIF_C07_MSGS") != "" {
								fmt.Fprintf(os.Stderr, "LOOKAHEAD-MSG %s\n", c07MsgShape(msg))
							}
							return bad, true
						}
						return bad, false
					}
				}
			}
		}
	}
	return "", false
}

var shapeIdentRe = regexp.MustCompile(`'[^']*'|"[^"]*"|\$?[A-Za-z_][A-Za-z0-9_]*[0-9_][A-Za-z0-9_]*|[0-9]+`)

// c07MsgShape reduces an error message to its template (quoted parts, generated identifiers and numbers blanked).
func c07MsgShape(msg string) string { return shapeIdentRe.ReplaceAllString(msg, "#") }

var c07ArgNameMsgRe = regexp.MustCompile(`^validation: \S+ is not an argument to \S+$`)

var c07DupOpMsgRe = regexp.MustCompile(`^parse error: duplicate '\S*' operation`)

var quotedTokenRe = regexp.MustCompile(`'([A-Za-z0-9_]+)'`)

// c07LookaheadExplains is the K-C07-lookahead defect model: parse-time locations are computed as
// "scanner column minus k" (k = token length or a small constant) AFTER the look-ahead byte was
// consumed; when the token is the last thing on its line that byte is the newline, the scanner is at
// (next line, column 1) and the subtraction yields a column <= 0 on line L >= 2, never further left
// than the length of the previous line.
func c07LookaheadExplains(msg string, line, col int, docLines []string) bool {
	if line < 2 || line-2 >= len(docLines) || col > 0 {
		return false
	}
	// the finding is identified by its call sites: the scanner's own "parse error" sites and the argument-name check,
	// the only ones that report a position taken after the look-ahead. Any other message with such a position is new.
	if !strings.HasPrefix(msg, "parse error: ") && !c07ArgNameMsgRe.MatchString(msg) {
		return false
	}
	// ... except the parse errors that are located at a NODE whose position was taken when the node started (an operation):
	// those sites are right on the unchanged tree and not part of the finding
	if c07DupOpMsgRe.MatchString(msg) {
		return false
	}
	prev := strings.TrimRight(docLines[line-2], "\r")
	if -col > len(prev) {
		return false
	}
	if m := quotedTokenRe.FindStringSubmatch(msg); m != nil && strings.HasSuffix(prev, m[1]) {
		return col == 1-len(m[1])
	}
	return true
}

func minI(a, b int) int {
	if a < b {
		return a
	}
	return b
}

func keysOf(m map[int]bool) []int {
	var out []int
	for k := range m {
		out = append(out, k)
	}
	return out
}

// jsonRoundTrip serialises v with ggql's JSON writer in the three indent modes and decodes it with encoding/json.
var jsonFailSeq int64

func jsonRoundTrip(v interface{}) string {
	for _, indent := range []int{-1, 0, 2} {
		for _, srt := range []bool{false, true} {
			ggql.Sort = srt
			if indent == 0 {
				// a client that went away: the previous write failed part-way; the next response must be whole and alone
				jsonFailSeq++
				run.Protect(func() { _ = ggql.WriteJSONValue(&faultyWriter{at: int(jsonFailSeq % 37)}, v, indent) })
			}
			var b bytes.Buffer
			var werr error
			pv, _ := run.Protect(func() { werr = ggql.WriteJSONValue(&b, v, indent) })
			ggql.Sort = false
			if pv != nil {
				return fmt.Sprintf("WriteJSONValue panics (indent %d): %v", indent, pv)
			}
			if werr != nil {
				return fmt.Sprintf("WriteJSONValue error (indent %d): %v", indent, werr)
			}
			dec := json.NewDecoder(bytes.NewReader(b.Bytes()))
			dec.UseNumber()
			var back interface{}
			if err := dec.Decode(&back); err != nil {
				return fmt.Sprintf("standard JSON parser rejects the text (indent %d): %v: %.200s", indent, err, b.String())
			}
			if dec.More() {
				return fmt.Sprintf("trailing data after the JSON value (indent %d)", indent)
			}
			if d := jsonSame(stdView(v), numView(back), ""); d != "" {
				return fmt.Sprintf("JSON text decodes to a different structure (indent %d) at %s", indent, d)
			}
		}
	}
	return ""
}

// jsonSame compares an original response value with its decoded JSON text. A float32 is compared
// as a float32 (its shortest decimal text identifies it uniquely; widening the text to float64 is representation).
func jsonSame(orig, dec interface{}, path string) string {
	switch o := orig.(type) {
	case map[string]interface{}:
		d, isM := dec.(map[string]interface{})
		if !isM || len(d) != len(o) {
			return path + ": object mismatch"
		}
		for k, ov := range o {
			dv, has := d[k]
			if !has {
				return path + "/" + k + ": key lost"
			}
			if r := jsonSame(ov, dv, path+"/"+k); r != "" {
				return r
			}
		}
		return ""
	case []interface{}:
		d, isL := dec.([]interface{})
		if !isL || len(d) != len(o) {
			return path + ": list mismatch"
		}
		for i := range o {
			if r := jsonSame(o[i], d[i], fmt.Sprintf("%s/%d", path, i)); r != "" {
				return r
			}
		}
		return ""
	case float32:
		switch n := dec.(type) {
		case float64:
			if float32(n) == o {
				return ""
			}
		case int64:
			if float32(n) == o {
				return ""
			}
		}
		return fmt.Sprintf("%s: float32 %v decoded as %v", path, o, dec)
	}
	if so, isS := orig.(string); isS {
		orig = perByteValid(so) // bytes that are not valid UTF-8 become U+FFFD (C18)
	}
	if !ref.Equal(ref.Canon(orig), ref.Canon(dec)) {
		return fmt.Sprintf("%s: %s decoded as %s", path, ref.Render(ref.Canon(orig)), ref.Render(ref.Canon(dec)))
	}
	return ""
}

// stdView maps the Go values of a response to what JSON can carry (errors' int paths stay numbers).
func stdView(v interface{}) interface{} {
	switch t := v.(type) {
	case map[string]interface{}:
		o := map[string]interface{}{}
		for k, e := range t {
			o[k] = stdView(e)
		}
		return o
	case []interface{}:
		o := make([]interface{}, len(t))
		for i, e := range t {
			o[i] = stdView(e)
		}
		return o
	case ggql.Symbol:
		return string(t)
	}
	return v
}

func numView(v interface{}) interface{} {
	switch t := v.(type) {
	case json.Number:
		if i, err := t.Int64(); err == nil {
			return i
		}
		f, _ := t.Float64()
		return f
	case map[string]interface{}:
		o := map[string]interface{}{}
		for k, e := range t {
			o[k] = numView(e)
		}
		return o
	case []interface{}:
		o := make([]interface{}, len(t))
		for i, e := range t {
			o[i] = numView(e)
		}
		return o
	}
	return v
}

// mutateText applies one textual corruption.
func mutateText(r *rand.Rand, s string) (string, string) {
	if len(s) == 0 {
		return "{", "empty"
	}
	junk := []string{"{", "}", "(", ")", "$", "@", ":", "!", "\"", "...", "#", "[", "]", "=", "|", "&", "\x00", "\xff", "é", "on", "fragment", "query", ",", "\n", "\\", "1e", "-", "."}
	i := r.Intn(len(s))
	switch r.Intn(6) {
	case 0:
		return s[:i], "truncate"
	case 1:
		return s[:i] + junk[r.Intn(len(junk))] + s[i:], "insert"
	case 2:
		j := i + 1 + r.Intn(4)
		if j > len(s) {
			j = len(s)
		}
		return s[:i] + s[j:], "delete"
	case 3:
		j := r.Intn(len(s))
		if i > j {
			i, j = j, i
		}
		return s[:i] + s[j:] + s[i:j], "rotate"
	case 4:
		return s[:i] + s[i:] + s[i:], "duplicate-tail"
	default:
		b := []byte(s)
		b[i] = junk[r.Intn(len(junk))][0]
		return string(b), "replace-byte"
	}
}

type c07Blob string
type c07Text []byte
type c07Stringer struct{ S string }

func (s c07Stringer) String() string { return s.S }

// c07HostileKinds: Go values of named and composite kinds whose default formatting contains quotes, backslashes, line
// breaks and control characters.
func c07HostileKinds() []interface{} {
	nasty := "say \"hi\" to c:\\temp\nnext\tline \x01 end"
	return []interface{}{c07Blob(nasty), c07Text(nasty), c07Stringer{nasty}, &c07Stringer{nasty}, struct{ S string }{nasty}, map[string]interface{}{"k\"ey": nasty},
		[]byte(nasty), ggql.Symbol("A\"B\\"), fmt.Errorf("%s", nasty), []string{nasty}, map[string]string{nasty: nasty}, [2]string{nasty, "\""}, complex(1, 2), 'x', uintptr(7)}
}

func runC07(c *run.Ctx) {
	c.Rule = "request mix (valid tuples, tuples with injected resolver failures and uncoercible leaves, unknown fields/arguments, unknown operation names, bad variable maps, textually corrupted documents) " +
		"each printed in one of 12 layouts (single line, one selection per line, one token per line, CRLF, comments, commas, BOM, tabs); monitors on every response: envelope rules, location-in-document and " +
		"location-on-the-field's-line, pre-execution rejections carry no data, and the JSON writer's output at indent -1/0/2 with Sort on/off is accepted by encoding/json and decodes to the same structure. " +
		"A response is non-trivial when it carries errors or nested data; distinct by (document text, variant)"
	n := c.N(1200, 25000)
	c.MinNontriv = n / 2
	lookahead := c.Open("K-C07-lookahead")
	responses := 0
	for i := 0; i < n && !c.TooMany(); i++ {
		r := c.Rand(i)
		kind := []string{"iface", "any", "mixed-any", "reflect"}[i%4]
		refl := kind == "reflect"
		ec := newExecCaseG(r, gen.SchemaOpts{Args: !refl, Mutation: true},
			gen.DocOpts{Frags: true, Dirs: true, Vars: true, Aliases: true, Mutation: true, Depth: 2 + r.Intn(3)}, gen.GraphOpts{TypedNil: 2})
		if refl && !back.ReflectFriendly(ec.S) {
			continue
		}
		g := ec.G
		// plant an uncoercible leaf sometimes
		if i%3 == 0 {
			if ls := c06LeafSites(ec.S, ec.G); len(ls) > 0 {
				g = cloneGraph(ec.G)
				site := ls[r.Intn(len(ls))]
				bad, _ := c06BadLeaf(site.typ)
				if (site.typ == "Float" || site.typ == "Float64") && r.Intn(2) == 0 {
					// values no JSON number can carry, as Go floats and spelled as strings
					bad = []interface{}{"NaN", "Inf", "+Inf", "-infinity", math.NaN(), math.Inf(-1), float32(math.Inf(1))}[r.Intn(7)]
				}
				n2 := g.Nodes[site.node.ID]
				n2.F[site.field] = setLeaf(n2.F[site.field], site.idx, bad)
			}
		}
		if i%3 == 1 {
			// leaves of ANY type (custom scalars, strings, ids, enums too) holding Go values of kinds the writer has no case
			// for, full of characters JSON escapes: whatever ggql makes of them, the response still has to be JSON
			if ls := c05AllLeafSites(ec.S, ec.G); len(ls) > 0 {
				g = cloneGraph(ec.G)
				var custom []leafSite
				for _, l := range ls {
					if l.typ == "Custom" {
						custom = append(custom, l)
					}
				}
				for m := 0; m < 1+r.Intn(3); m++ {
					site := ls[r.Intn(len(ls))]
					if m == 0 && len(custom) > 0 {
						// (a scalar the application declares has no coercion rules of ggql's own: the most permissive position)
						site = custom[r.Intn(len(custom))]
					}
					hv := c07HostileKinds()
					n2 := g.Nodes[site.node.ID]
					n2.F[site.field] = setLeaf(n2.F[site.field], site.idx, hv[r.Intn(len(hv))])
					c.Bucket("unexpected_go_kind_planted_at_leaf_of_type", site.typ)
				}
				c.Count("graphs_with_leaves_of_unexpected_go_kinds", 1)
			}
		}
		h, err := back.Build(kind, ec.S, ec.SDL, g)
		if err != nil {
			continue
		}
		lay := model.LayoutN(i)
		text := ec.DC.Doc.Print(lay)
		lines := fieldLines(ec.DC.Doc)
		type variant struct {
			tag     string
			text    string
			op      string
			vars    map[string]interface{}
			plan    model.FaultPlan
			lines   map[string]map[int]bool
			preExec bool
		}
		vs := []variant{{tag: "valid", text: text, op: ec.DC.OpName, vars: ec.DC.Vars, lines: lines}}
		// resolver failures
		clean := Do(h, Request{Text: text, OpName: ec.DC.OpName, Vars: ec.DC.Vars}, nil)
		if len(clean.Calls) > 1 {
			plan := model.FaultPlan{}
			for j := 0; j < 1+r.Intn(3); j++ {
				cl := clean.Calls[r.Intn(len(clean.Calls))]
				plan[cl.Key] = model.Fault{Kind: []string{"error", "group", "gerror"}[r.Intn(3)], N: 2}
			}
			vs = append(vs, variant{tag: "resolver-failures", text: text, op: ec.DC.OpName, vars: ec.DC.Vars, plan: plan, lines: lines})
		}
		vs = append(vs, variant{tag: "unknown-op", text: text, op: "NoSuchOp", vars: ec.DC.Vars, lines: lines, preExec: true})
		// bad variables
		if len(ec.DC.Vars) > 0 {
			bv := copyVars(ec.DC.Vars)
			for k := range bv {
				bv[k] = []interface{}{map[string]interface{}{"x": "wrong"}, 1e300, "s"}[r.Intn(3)]
				break
			}
			vs = append(vs, variant{tag: "bad-variables", text: text, op: ec.DC.OpName, vars: bv, lines: lines})
		}
		// unknown field / argument via the model (positions stay known)
		{
			ec2 := newExecCaseG(c.Rand(i), gen.SchemaOpts{Args: !refl, Mutation: true},
				gen.DocOpts{Frags: true, Dirs: true, Vars: true, Aliases: true, Mutation: true, Depth: 2 + c.Rand(i).Intn(3)}, gen.GraphOpts{TypedNil: 2})
			_ = ec2
			pos := typedPositions(ec.S, ec.DC.Doc)
			if len(pos) > 0 {
				sp := pos[r.Intn(len(pos))]
				if f, isF := (*sp.list)[sp.idx].(*model.Field); isF && f.Name != "__typename" {
					save := *f
					f.Name = "nope_zz"
					f.Args = nil
					f.Sels = nil
					t2 := ec.DC.Doc.Print(lay)
					vs = append(vs, variant{tag: "unknown-field", text: t2, op: ec.DC.OpName, vars: ec.DC.Vars, lines: fieldLines(ec.DC.Doc)})
					*f = save
					ec.DC.Doc.Print(lay) // restore positions
				}
			}
		}
		// two operations of one name: the error is located at the second operation (its name may end its line)
		if len(ec.DC.Doc.Ops) > 0 && !ec.DC.Doc.Ops[0].Shorthand && ec.DC.Doc.Ops[0].Name != "" {
			cp := *ec.DC.Doc.Ops[0]
			ec.DC.Doc.Ops = append(ec.DC.Doc.Ops, &cp)
			t2 := ec.DC.Doc.Print(lay)
			vs = append(vs, variant{tag: "duplicate-operation", text: t2, op: ec.DC.OpName, vars: ec.DC.Vars, preExec: true})
			ec.DC.Doc.Ops = ec.DC.Doc.Ops[:len(ec.DC.Doc.Ops)-1]
			ec.DC.Doc.Print(lay)
		}
		// a spread of a fragment that is not defined (its name may be the last thing on its line)
		for _, l := range ec.DC.Doc.AllSelLists() {
			done := false
			for _, sel := range *l {
				if sp, isSp := sel.(*model.Spread); isSp {
					save := sp.Name
					sp.Name = "NopeFragZz"
					t2 := ec.DC.Doc.Print(lay)
					vs = append(vs, variant{tag: "undefined-spread", text: t2, op: ec.DC.OpName, vars: ec.DC.Vars})
					sp.Name = save
					ec.DC.Doc.Print(lay)
					done = true
					break
				}
			}
			if done {
				break
			}
		}
		// resolver errors that come from ggql's own parsers and carry a position in ANOTHER text
		if len(clean.Calls) > 1 {
			plan := model.FaultPlan{}
			cl := clean.Calls[1+r.Intn(len(clean.Calls)-1)]
			plan[cl.Key] = model.Fault{Kind: "foreign", N: r.Intn(3)}
			vs = append(vs, variant{tag: "resolver-error-with-foreign-position", text: text, op: ec.DC.OpName, vars: ec.DC.Vars, plan: plan, lines: lines})
		}
		// the same requests once more with blank lines and indentation in front: every position moves with the text (a server
		// that remembered the previous document must not answer with ITS positions)
		for _, v0 := range append([]variant{}, vs...) {
			if v0.tag != "unknown-field" && v0.tag != "resolver-failures" && v0.tag != "bad-variables" && v0.tag != "duplicate-operation" {
				continue
			}
			sh := v0
			sh.tag += "-shifted-down"
			nl := "\n"
			if lay.CRLF {
				nl = "\r\n"
			}
			sh.text = nl + " " + nl + nl + v0.text
			if v0.lines != nil {
				sh.lines = map[string]map[int]bool{}
				for k, ls := range v0.lines {
					sh.lines[k] = map[int]bool{}
					for l := range ls {
						sh.lines[k][l+3] = true
					}
				}
			}
			vs = append(vs, v0, sh) // the original right before its shifted copy
		}
		// corrupted text
		for m := 0; m < 2; m++ {
			mt, how := mutateText(r, text)
			vs = append(vs, variant{tag: "corrupt-" + how, text: mt, op: ec.DC.OpName, vars: ec.DC.Vars})
		}
		for _, v := range vs {
			out := Do(h, Request{Text: v.text, OpName: v.op, Vars: v.vars, Entry: i}, v.plan)
			responses++
			nontriv := len(out.ErrPaths) > 0 || ec.DC.Feats["nested"]
			c.Eval(v.text+"|"+v.tag+fmt.Sprint(v.plan), nontriv)
			c.Bucket("variant", v.tag)
			c.Bucket("layout", fmt.Sprintf("%+v", lay))
			c.Count("error_entries_checked", len(out.ErrPaths))
			if responses%400 == 1 {
				c.Sample(map[string]interface{}{"variant": v.tag, "document": v.text, "response": out.Describe()})
			}
			rep := func(kindV, diag string) {
				c.Violation(kindV, map[string]interface{}{"backend": kind, "variant": v.tag, "layout": fmt.Sprintf("%+v", lay), "sdl": ec.SDL, "document": v.text, "op": v.op,
					"vars": fmt.Sprintf("%#v", v.vars), "fault": fmt.Sprint(v.plan), "diag": diag, "response": fmt.Sprintf("%#v", out.Resp), "observed": out.Describe()})
			}
			if out.Panic != nil {
				// crashes are C03's subject; C07 needs a response to judge
				c.Count("panics_left_to_C03", 1)
				continue
			}
			ln := v.lines
			if lay.BOM {
				ln = nil // the BOM bytes shift columns on line 1; line attribution is checked in the other layouts
			}
			if diag, known := envelopeCheck(out.Resp, v.text, ln, v.preExec, lookahead); diag != "" {
				if known {
					c.Known("K-C07-lookahead", map[string]interface{}{"document": v.text, "diag": diag})
				} else {
					rep("c07-envelope", diag)
					continue
				}
			}
			if diag := jsonRoundTrip(out.Resp); diag != "" {
				rep("c07-json", diag)
			}
			c.Count("json_round_trips", 6)
		}
	}
	c.Set("responses_checked", responses)
	c07UnionNoMember(c)
	c07Sequence(c)
}

// ---------------------------------------------------------------- a value under a union that is no member

type c07URoot struct{ Query *c07UQuery }
type c07UQuery struct {
	A    int
	U    interface{}
	Us   []interface{}
	Aa   *c07UAa
	Deep *c07UQuery
}
type c07UAa struct{ X int }
type c07UStranger struct{ X int }

// c07UnionNoMember: the schema sits far down in its own document (line 13 and below); the requests are one to four lines
// long. A Go value that is no member of the union makes ggql report an error: like every error of a response it has to be
// located in the REQUEST.
func c07UnionNoMember(c *run.Ctx) {
	sdl := "\n\n\n\n\ntype Query { a: Int u: U us: [U] aa: Aa deep: Query }\n\n\n\n\n\n\n                     type Aa { x: Int }\n   type Bb { x: Int }\nunion U = Aa | Bb\n"
	open := c.Open("K-C07-union-member-location")
	reqs := []string{
		"{ u { ... on Aa { x } } }",
		"{ a\n  u { __typename } }",
		"{\n deep {\n  us { ... on Bb { x } }\n }\n}",
		"query Q { deep { deep { u { ... on Aa { x } } a } } }",
		"{ aa { x } us { __typename } }",
	}
	for ri, text := range reqs {
		for variant := 0; variant < 2; variant++ {
			q := &c07UQuery{A: 1, U: &c07UStranger{X: 1}, Us: []interface{}{&c07UStranger{X: 2}, &c07UAa{X: 3}}, Aa: &c07UAa{X: 4}}
			q.Deep = q
			root := ggql.NewRoot(&c07URoot{Query: q})
			if err := root.ParseString(sdl); err != nil {
				c.Violation("c07-schema-rejected", map[string]interface{}{"error": err.Error()})
				return
			}
			if variant == 1 {
				_ = root.ResolveString("{ aa { x } }", "", nil) // Aa already bound to its Go type
			}
			var resp map[string]interface{}
			pv, _ := run.Protect(func() { resp = root.ResolveString(text, "", nil) })
			c.Eval(fmt.Sprintf("union-no-member|%d|%d", ri, variant), true)
			c.Bucket("variant", "value-that-is-no-member-of-the-union")
			if pv != nil {
				c.Count("panics_left_to_C03", 1)
				continue
			}
			c.Count("error_entries_checked", 1)
			diag, _ := envelopeCheck(resp, text, nil, false, false)
			if diag == "" {
				if d := jsonRoundTrip(resp); d != "" {
					c.Violation("c07-json", map[string]interface{}{"document": text, "diag": d})
				}
				continue
			}
			// the open finding: the error is the one metaCheck makes, located where the MEMBER TYPE is defined in the schema document
			explained := false
			if open {
				el, _ := resp["errors"].([]interface{})
				explained = len(el) > 0
				for _, e := range el {
					em, _ := e.(map[string]interface{})
					msg, _ := em["message"].(string)
					ll, _ := em["locations"].([]interface{})
					if !strings.Contains(msg, "failed to determine union member") || len(ll) != 1 {
						explained = false
						continue
					}
					lm, _ := ll[0].(map[string]interface{})
					line, col := fmt.Sprint(lm["line"]), fmt.Sprint(lm["column"])
					if !((line == "13" && col == "27" && strings.Contains(msg, "member Aa ")) || (line == "14" && col == "9" && strings.Contains(msg, "member Bb "))) {
						explained = false
					}
				}
			}
			if explained {
				c.Known("K-C07-union-member-location", map[string]interface{}{"document": text, "diag": diag})
				continue
			}
			c.Violation("c07-envelope", map[string]interface{}{"variant": "value-that-is-no-member-of-the-union", "sdl": sdl, "document": text, "diag": diag, "response": fmt.Sprintf("%#v", resp)})
		}
	}
}
