package checks

import (
	"fmt"
	"math"
	"math/big"
	"strconv"
	"strings"

	"verif/internal/ref"
	"verif/internal/run"

	"github.com/uhn/ggql/pkg/ggql"
)

// mpQuery: reflected methods whose Go parameter type is not the natural Go type of the argument's GraphQL type (an int
// for a Float, a float64 for an Int64, narrower integers, unsigned integers). Each answers with an exact rendering of what
// it received.
type mpSchema struct{ Query *mpQuery }
type mpQuery struct{}

func mpShow(v interface{}) string {
	switch t := v.(type) {
	case float32:
		return "got " + strconv.FormatFloat(float64(t), 'x', -1, 64) // exact
	case float64:
		return "got " + strconv.FormatFloat(t, 'x', -1, 64)
	}
	return fmt.Sprintf("got %d", v)
}

func (q *mpQuery) IntOfFloat(x int) string       { return mpShow(x) }
func (q *mpQuery) I64OfFloat64(x int64) string   { return mpShow(x) }
func (q *mpQuery) F64OfInt64(x float64) string   { return mpShow(x) }
func (q *mpQuery) F32OfInt(x float32) string     { return mpShow(x) }
func (q *mpQuery) F32OfFloat(x float32) string   { return mpShow(x) }
func (q *mpQuery) I8OfInt(x int8) string         { return mpShow(x) }
func (q *mpQuery) U8OfInt(x uint8) string        { return mpShow(x) }
func (q *mpQuery) U64OfInt64(x uint64) string    { return mpShow(x) }
func (q *mpQuery) I32OfFloat(x int32) string     { return mpShow(x) }
func (q *mpQuery) I16OfInt64(x int16) string     { return mpShow(x) }
func (q *mpQuery) UOfFloat64(x uint) string      { return mpShow(x) }
func (q *mpQuery) F64OfInt(x float64) string     { return mpShow(x) }
func (q *mpQuery) Two(a int16, b float64) string { return mpShow(a) + " and " + mpShow(b) }

const mpSDL = `type Query {
  intOfFloat(x: Float): String
  i64OfFloat64(x: Float64): String
  f64OfInt64(x: Int64): String
  f32OfInt(x: Int): String
  f32OfFloat(x: Float): String
  i8OfInt(x: Int): String
  u8OfInt(x: Int): String
  u64OfInt64(x: Int64): String
  i32OfFloat(x: Float): String
  i16OfInt64(x: Int64): String
  uOfFloat64(x: Float64): String
  f64OfInt(x: Int): String
  two(a: Int, b: Int64): String
}
`

// c04MethodParams: a method found by reflection receives an argument converted to its Go parameter type. The value it
// receives must be exactly the number the client wrote; a number the parameter type can not hold (a fraction for an
// integer parameter, an integer beyond 2^53 for a float64 or beyond 2^24 for a float32, a negative number for an unsigned
// one, a number out of the range of a narrow one) must end in an error with the method not invoked, never in a silently
// rounded, truncated or wrapped value. Oracle: exact arithmetic (math/big) on the written text against what the method
// reports it got.
func c04MethodParams(c *run.Ctx) int {
	type site struct{ field, gql string }
	sites := []site{{"intOfFloat", "Float"}, {"i64OfFloat64", "Float64"}, {"f64OfInt64", "Int64"}, {"f32OfInt", "Int"}, {"f32OfFloat", "Float"},
		{"i8OfInt", "Int"}, {"u8OfInt", "Int"}, {"u64OfInt64", "Int64"}, {"i32OfFloat", "Float"}, {"i16OfInt64", "Int64"}, {"uOfFloat64", "Float64"}, {"f64OfInt", "Int"}}
	ints := []string{"0", "1", "-1", "7", "127", "128", "-128", "-129", "255", "256", "32767", "32768", "-32769", "16777216", "16777217", "-16777217", "33554433", "2147483647", "-2147483648"}
	int64s := append(append([]string{}, ints...), "4294967296", "9007199254740992", "9007199254740993", "-9007199254740993", "9007199254740995", "1152921504606846977", "9223372036854775807", "-9223372036854775808", "9223372036854775806")
	floats := []string{"0.0", "1.0", "2.0", "-3.0", "1.5", "-0.75", "0.1", "1e3", "1.0e10", "2.5e1", "2147483647.0", "2147483648.0", "-2147483649.0", "4294967296.5", "1e19", "-1e19", "9.2233720368547758e18", "1e300", "0.000001", "16777217.0", "127.0", "128.0", "255.0", "-1.0", "3.0000000001", "1e-320"}
	n := c.N(600, 12000)
	nontriv := 0
	for i := 0; i < n && !c.TooMany(); i++ {
		r := c.Rand(4900000 + i)
		root := ggql.NewRoot(&mpSchema{Query: &mpQuery{}})
		if err := root.ParseString(mpSDL); err != nil {
			c.Violation("c04-mp-schema", map[string]interface{}{"error": err.Error()})
			return nontriv
		}
		s := sites[r.Intn(len(sites))]
		var txt string
		switch s.gql {
		case "Int":
			txt = ints[r.Intn(len(ints))]
		case "Int64":
			txt = int64s[r.Intn(len(int64s))]
		default:
			if r.Intn(4) == 0 {
				txt = int64s[r.Intn(len(ints))] // an integer literal for a Float position
			} else {
				txt = floats[r.Intn(len(floats))]
			}
		}
		written, _, perr := big.ParseFloat(txt, 10, 2000, big.ToNearestEven)
		if perr != nil {
			continue
		}
		mustRefuse := false
		if s.gql == "Float" {
			// ggql's Float is a 32 bit float (Float64 is the 64 bit one): the number a Float position denotes is the written
			// one rounded to float32, and a number beyond the float32 range is no Float at all
			f32, _ := written.Float32()
			if math.IsInf(float64(f32), 0) {
				mustRefuse = true
			} else {
				written = new(big.Float).SetPrec(2000).SetFloat64(float64(f32))
			}
		} else if s.gql == "Float64" {
			// a decimal text denotes the nearest 64 bit float
			f64, _ := written.Float64()
			if math.IsInf(f64, 0) {
				mustRefuse = true
			} else {
				written = new(big.Float).SetPrec(2000).SetFloat64(f64)
			}
		}
		text := fmt.Sprintf(`{ r: %s(x: %s) }`, s.field, txt)
		var vars map[string]interface{}
		form := "literal"
		switch r.Intn(3) {
		case 1:
			form = "variable-default"
			text = fmt.Sprintf(`query Q($v: %s = %s) { r: %s(x: $v) }`, s.gql, txt, s.field)
		case 2:
			// supplied as the Go value a JSON decoder (float64) or an application (int64) would hand over, when that value
			// is exactly the written number
			f, acc := written.Float64()
			if acc == big.Exact {
				form = "variable-float64"
				vars = map[string]interface{}{"v": f}
			} else if iv, iacc := written.Int64(); iacc == big.Exact {
				form = "variable-int64"
				vars = map[string]interface{}{"v": iv}
			}
			if vars != nil {
				text = fmt.Sprintf(`query Q($v: %s) { r: %s(x: $v) }`, s.gql, s.field)
			}
		}
		if i%5 == 4 {
			// warm: the method was bound by an earlier request
			_ = root.ResolveString(fmt.Sprintf(`{ %s(x: 1) }`, s.field), "", nil)
		}
		var res map[string]interface{}
		pv, _ := run.Protect(func() { res = root.ResolveString(text, "", copyVars(vars)) })
		c.Eval("method-param|"+s.field+"|"+txt+"|"+form, true)
		nontriv++
		c.Bucket("method_parameter_site", s.field)
		data, _ := res["data"].(map[string]interface{})
		got, called := data["r"].(string)
		diag := ""
		switch {
		case pv != nil:
			diag = fmt.Sprintf("panic: %v", pv)
		case called:
			c.Count("method_parameter_values_delivered", 1)
			rec, _, gerr := big.ParseFloat(strings.TrimPrefix(got, "got "), 0, 2000, big.ToNearestEven)
			if gerr != nil {
				diag = "harness: can not read " + got
			} else if mustRefuse {
				diag = "the method was invoked for a number beyond the range of a Float"
			} else if rec.Cmp(written) != 0 {
				diag = "the method received a number that is not the one the client wrote"
			}
		default:
			c.Count("method_parameter_values_refused", 1)
			if res["errors"] == nil {
				diag = "the field is null without an error"
			}
		}
		if diag != "" {
			c.Violation("c04-method-parameter", map[string]interface{}{"document": text, "vars": fmt.Sprintf("%#v", vars), "written": txt, "method_reports": got, "diag": diag,
				"response": fmt.Sprint(res)})
		}
	}
	return nontriv
}

// c04SharedNestedVars: the caller keeps ONE variables map whose values are lists and objects and hands it to several
// requests that declare the same variable with different types ([Float], [Float64], [Int64], an input object). Every
// request gets the values the caller wrote: its answer is the one the same request gets with a fresh copy of the
// variables on a fresh root, and the caller's map (values and Go types, at any depth) is what it was before the call.
type c04EchoRoot struct{}

func (r *c04EchoRoot) Resolve(field *ggql.Field, args map[string]interface{}) (interface{}, error) {
	if field.Name == "query" {
		return r, nil
	}
	return ref.Render(ref.Canon(args)), nil // what the resolver received, exactly
}

func c04SharedNestedVars(c *run.Ctx) int {
	const sdl = `type Query { fl(l: [Float]): String fd(l: [Float64]): String fi(l: [Int64]): String fll(l: [[Float]]): String fo(o: In): String fos(o: [In]): String }
input In { x: Float y: [Float64] z: Int = 3 w: [Float] }
`
	mk := func() map[string]interface{} {
		return map[string]interface{}{
			"l":  []interface{}{0.1, 2.5, 16777217.0, 3},
			"ll": []interface{}{[]interface{}{0.1}, []interface{}{0.7, 1}},
			"o":  map[string]interface{}{"x": 0.1, "y": []interface{}{0.1, 0.3}, "w": []interface{}{0.1}},
			"os": []interface{}{map[string]interface{}{"y": []interface{}{0.1}}, map[string]interface{}{"x": 0.3, "w": []interface{}{0.7}}},
		}
	}
	steps := []string{
		`query($l: [Float]){ fl(l: $l) }`, `query($l: [Float64]){ fd(l: $l) }`, `query($l: [Int64]){ fi(l: $l) }`,
		`query($ll: [[Float]]){ fll(l: $ll) }`, `query($o: In){ fo(o: $o) }`, `query($os: [In]){ fos(o: $os) }`,
		`query($o: In, $l: [Float64]){ fo(o: $o) fd(l: $l) }`, `query($l: [Float] = [0.5]){ fl(l: $l) }`,
	}
	done := 0
	for round := 0; round < c.N(40, 600); round++ {
		r := c.Rand(1400000 + round)
		root := ggql.NewRoot(&c04EchoRoot{})
		if err := root.ParseString(sdl); err != nil {
			c.Violation("c04-schema-rejected", map[string]interface{}{"error": err.Error()})
			return done
		}
		shared := mk()
		before := fmt.Sprintf("%#v", shared)
		var hist []string
		for k := 0; k < 2+r.Intn(5); k++ {
			text := steps[r.Intn(len(steps))]
			var res, exp map[string]interface{}
			pv, _ := run.Protect(func() { res = root.ResolveString(text, "", shared) })
			fresh := ggql.NewRoot(&c04EchoRoot{})
			_ = fresh.ParseString(sdl)
			pe, _ := run.Protect(func() { exp = fresh.ResolveString(text, "", mk()) })
			hist = append(hist, text)
			done++
			c.Count("requests_sharing_nested_variable_values", 1)
			diag := ""
			switch {
			case pv != nil || pe != nil:
				diag = fmt.Sprintf("panic: %v / %v", pv, pe)
			case ref.Render(ref.Canon(res)) != ref.Render(ref.Canon(exp)):
				diag = "the answer differs from the one the request gets with a fresh copy of the same variables"
			case fmt.Sprintf("%#v", shared) != before:
				diag = "the caller's variables were changed by the call"
			}
			if diag != "" {
				c.Violation("c04-shared-nested-variables", map[string]interface{}{"sdl": sdl, "history": hist, "diag": diag, "response": ref.Render(ref.Canon(res)), "with_fresh_variables": ref.Render(ref.Canon(exp)),
					"variables_before": before, "variables_after": fmt.Sprintf("%#v", shared)})
				break
			}
		}
		c.Eval("shared-nested-vars|"+strings.Join(hist, "|"), true)
	}
	return done
}

// c04Box is the Go struct an application registers for the input type Box: its list members are slices of plain Go
// kinds, which have no room for a null element.
type c04Box struct {
	Nums  []int
	Words []string
	Grid  [][]int
}

type c04BoxRoot struct{ got []*c04Box }

func (r *c04BoxRoot) Resolve(field *ggql.Field, args map[string]interface{}) (interface{}, error) {
	if field.Name == "query" {
		return r, nil
	}
	b, _ := args["b"].(*c04Box)
	r.got = append(r.got, b)
	return fmt.Sprintf("%+v", b), nil
}

// c04RegisteredLists: an input type bound to a Go struct (RegisterType) whose list members are []int / []string / [][]int.
// A null element the client wrote can not be held by such a slice: the request is refused for that field and the resolver
// does not run - a zero (0, "") in its place would be a silently altered value. Lists without nulls arrive as written.
func c04RegisteredLists(c *run.Ctx) int {
	const sdl = `input Box { nums: [Int] words: [String] grid: [[Int]] } type Query { f(b: Box): String }`
	type rq struct {
		text    string
		vars    map[string]interface{}
		hasNull bool
		want    string
	}
	reqs := []rq{
		{`{ f(b: {nums: [1, 2, 3]}) }`, nil, false, "&{Nums:[1 2 3] Words:[] Grid:[]}"},
		{`{ f(b: {nums: [1, null, 3]}) }`, nil, true, ""},
		{`{ f(b: {words: ["a", null]}) }`, nil, true, ""},
		{`{ f(b: {grid: [[1, null], [2]]}) }`, nil, true, ""},
		{`{ f(b: {grid: [[1], [2, 3]]}) }`, nil, false, "&{Nums:[] Words:[] Grid:[[1] [2 3]]}"},
		{`query($b: Box){ f(b: $b) }`, map[string]interface{}{"b": map[string]interface{}{"nums": []interface{}{1, nil}}}, true, ""},
		{`query($b: Box){ f(b: $b) }`, map[string]interface{}{"b": map[string]interface{}{"words": []interface{}{"x", "y"}}}, false, "&{Nums:[] Words:[x y] Grid:[]}"},
		{`query($n: Int){ f(b: {nums: [4, $n]}) }`, map[string]interface{}{"n": nil}, true, ""},
		{`query($n: Int){ f(b: {nums: [4, $n]}) }`, nil, true, ""},
		{`query($n: Int = 5){ f(b: {nums: [4, $n]}) }`, nil, false, "&{Nums:[4 5] Words:[] Grid:[]}"},
		{`query($w: [String] = ["d", null]){ f(b: {words: $w}) }`, nil, true, ""},
	}
	done := 0
	for round := 0; round < c.N(10, 100); round++ {
		r := c.Rand(1500000 + round)
		ro := &c04BoxRoot{}
		root := ggql.NewRoot(ro)
		if err := root.ParseString(sdl); err != nil {
			c.Violation("c04-schema-rejected", map[string]interface{}{"error": err.Error()})
			return done
		}
		if err := root.RegisterType(&c04Box{}, "Box"); err != nil {
			c.Violation("c04-schema-rejected", map[string]interface{}{"error": "RegisterType: " + err.Error()})
			return done
		}
		var hist []string
		for k := 0; k < 4+r.Intn(6); k++ {
			q := reqs[r.Intn(len(reqs))]
			ro.got = nil
			var res map[string]interface{}
			pv, _ := run.Protect(func() { res = root.ResolveString(q.text, "", copyVars(q.vars)) })
			hist = append(hist, q.text+" "+fmt.Sprint(q.vars))
			done++
			c.Eval("registered-lists|"+q.text+fmt.Sprint(q.vars), true)
			c.Count("requests_with_lists_bound_to_go_slices", 1)
			diag := ""
			data, _ := res["data"].(map[string]interface{})
			switch {
			case pv != nil:
				diag = fmt.Sprintf("panic: %v", pv)
			case q.hasNull && (len(ro.got) != 0 || res["errors"] == nil):
				diag = fmt.Sprintf("a null list element was written: the resolver ran %d time(s) and received %v, errors = %v", len(ro.got), data["f"], res["errors"])
			case !q.hasNull && res["errors"] == nil && strings.ReplaceAll(fmt.Sprint(data["f"]), "[]", "[]") != q.want:
				diag = fmt.Sprintf("the resolver received %v, the client wrote %s", data["f"], q.want)
			}
			if diag != "" {
				c.Violation("c04-registered-lists", map[string]interface{}{"sdl": sdl, "history": hist, "diag": diag, "response": fmt.Sprint(res)})
				break
			}
		}
	}
	return done
}
