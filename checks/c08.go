package checks

import (
	"fmt"
	"math/rand"
	"strings"

	"github.com/uhn/ggql/pkg/ggql"

	"verif/internal/back"
	"verif/internal/gen"
	"verif/internal/model"
	"verif/internal/ref"
	"verif/internal/run"
	"verif/internal/zoo"
)

func init() {
	register(&Check{ID: "C08", Level: "exploration", Run: runC08})
}

func runC08(c *run.Ctx) {
	c.Rule = "generated type hierarchies (objects implementing 0-2 interfaces, unions of 1-3 members, abstract-typed fields and lists mixing concrete types) served by reflection over " +
		"struct types registered with RegisterType; documents with inline and named fragments conditioned on object, interface, union and unrelated types at any depth; " +
		"oracle: reference executor with spec fragment applicability on the concrete type and __typename = concrete type; non-trivial = the document selects through an abstract-typed field " +
		"or uses an abstract/other-type condition; distinct by (schema, document)"
	n := c.N(3000, 50000)
	c.MinNontriv = n / 10
	flagsOpen := ref.Flags{StaticAbstract: c.Open("K-C08-iface-static"), CondIdentity: c.Open("K-C08-cond-identity")}
	for i := 0; i < n && !c.TooMany(); i++ {
		r := c.Rand(i)
		gopt := gen.GraphOpts{}
		if i%3 == 1 {
			// several applying fragments select the same key with different sub-selections (their contributions are merged),
			// over data in which lists may begin with a null
			gopt = gen.GraphOpts{NullProb: 20, TypedNil: 5}
		}
		ec := newExecCaseG(r, gen.SchemaOpts{Abstract: true},
			gen.DocOpts{Frags: true, Dirs: i%4 == 0, Vars: true, Aliases: true, Abstract: true, Depth: 2 + r.Intn(3), DupKeys: i%3 == 1}, gopt)
		if !back.ReflectFriendly(ec.S) {
			continue
		}
		kind := "reflect"
		h, err := back.Build(kind, ec.S, ec.SDL, ec.G)
		if err != nil {
			c.Violation("c08-schema-rejected", ec.replay(kind, "", map[string]interface{}{"error": err.Error()}))
			continue
		}
		feats := ec.DC.Feats
		nontriv := feats["abstract-field"] || feats["cond-abstract"] || feats["cond-other-type"]
		c.Eval(ec.SDL+ec.Text, nontriv)
		for _, f := range []string{"abstract-field", "cond-abstract", "cond-other-type", "named-fragment", "inline-fragment", "__typename", "list-of-objects"} {
			if feats[f] {
				c.Bucket("doc_features", f)
			}
		}
		exp := ref.Execute(ec.S, ec.DC.Doc, ec.DC.OpName, ec.DC.Vars, ec.G, nil, ref.Flags{})
		out := Do(h, Request{Text: ec.Text, OpName: ec.DC.OpName, Vars: ec.DC.Vars, Entry: i}, nil)
		if i < 2 {
			c.Sample(map[string]interface{}{"sdl": ec.SDL, "document": ec.Text, "expected_data": ref.Render(exp.Data)})
		}
		diff := Compare(exp, out, CompareOpts{StripFragSeg: true})
		if diff == "" {
			if i%3 == 0 {
				// more requests on the SAME root and data: what one request taught ggql about the Go types (objects of one
				// object type may come in two Go types, under object-typed and under abstract-typed fields) must not change
				// what the next one - or the first one, asked again - is answered
				steps := []*gen.DocCase{}
				for k := 0; k < 2; k++ {
					steps = append(steps, gen.Doc(r, ec.S, gen.DocOpts{Frags: true, Aliases: true, Abstract: true, Depth: 2 + r.Intn(3), MaxOps: 1}))
				}
				steps = append(steps, ec.DC)
				for si, dc := range steps {
					text := dc.Doc.Print(model.LayoutN(i + si))
					e2 := ref.Execute(ec.S, dc.Doc, dc.OpName, dc.Vars, ec.G, nil, ref.Flags{})
					o2 := Do(h, Request{Text: text, OpName: dc.OpName, Vars: dc.Vars, Entry: i + si}, nil)
					c.Count("further_requests_on_a_warm_root", 1)
					if d2 := Compare(e2, o2, CompareOpts{StripFragSeg: true}); d2 != "" {
						c.Violation("c08-history", ec.replay(kind, dc.OpName, map[string]interface{}{"step": si + 2, "first_request": ec.Text, "document": text, "diff": d2, "expected": e2.Describe(), "observed": o2.Describe()}))
						break
					}
				}
			}
			continue
		}
		// open findings: the whole response must equal the defect model's prediction
		explained := ""
		if flagsOpen.StaticAbstract || flagsOpen.CondIdentity {
			for _, fl := range []ref.Flags{{StaticAbstract: flagsOpen.StaticAbstract}, {CondIdentity: flagsOpen.CondIdentity}, flagsOpen} {
				if fl == (ref.Flags{}) {
					continue
				}
				e2 := ref.Execute(ec.S, ec.DC.Doc, ec.DC.OpName, ec.DC.Vars, ec.G, nil, fl)
				if Compare(e2, out, CompareOpts{StripFragSeg: true}) == "" {
					if fl.StaticAbstract {
						explained = "K-C08-iface-static"
					} else {
						explained = "K-C08-cond-identity"
					}
					break
				}
			}
		}
		if explained != "" {
			c.Known(explained, map[string]interface{}{"document": ec.Text, "observed": ref.Render(out.Data), "expected": ref.Render(exp.Data)})
			continue
		}
		c.Violation("c08", ec.replay(kind, ec.DC.OpName, map[string]interface{}{"diff": diff, "expected": exp.Describe(), "observed": out.Describe()}))
	}
	// binding by the @go directive and by name only (no RegisterType), on cold roots, suffix-related Go type names,
	// heterogeneous lists whose first element varies, one or several documents per root
	petsRequests(c, "c08", c.N(1200, 20000))
	c08Staged(c)
	c08Subscription(c)
	c08BuiltInterface(c)
	c08RegisteredResolvers(c)
	c08GoDirectiveForms(c)
	c08SubscriptionGrowingType(c)
}

// petsRequests: binding by the @go directive and by name only (no RegisterType) on cold roots of named Go struct types,
// heterogeneous lists whose first element varies, one or several generated documents per root. Shared with C01 (the
// response shape is the same question); pfx names the violation kinds.
func petsRequests(c *run.Ctx, pfx string, m int) {
	for i := 0; i < m && !c.TooMany(); i++ {
		r := c.Rand(1000000 + i)
		root, ms, g, err := zoo.NewPetsRoot(i)
		if err != nil {
			c.Violation(pfx+"-schema-rejected", map[string]interface{}{"error": err.Error()})
			return
		}
		for k := 0; k < 1+i%3; k++ {
			dc := gen.Doc(r, ms, gen.DocOpts{Frags: true, Aliases: true, Abstract: true, Depth: 2 + r.Intn(3), MaxOps: 1, DupKeys: (i+k)%2 == 0})
			if k == i%3 && i%2 == 1 {
				// one response key naming DIFFERENT fields of the same type behind type conditions that exclude each other:
				// a valid request (only one of them can apply to a value), each value answers with its own field
				dc = petsSharedAlias(r)
				c.Count("documents_sharing_an_alias_across_exclusive_type_conditions", 1)
			}
			text := dc.Doc.Print(model.LayoutN(i + k))
			exp := ref.Execute(ms, dc.Doc, dc.OpName, dc.Vars, g, nil, ref.Flags{})
			out := &Outcome{}
			out.Panic, out.Stack = run.Protect(func() { out.Resp = root.ResolveString(text, dc.OpName, copyVars(dc.Vars)) })
			if out.Resp != nil {
				d := out.Resp["data"]
				out.HasData = d != nil
				out.Data = ref.Canon(d)
				if es, isL := out.Resp["errors"].([]interface{}); isL {
					for _, e := range es {
						em, _ := e.(map[string]interface{})
						p, _ := em["path"].([]interface{})
						out.ErrPaths = append(out.ErrPaths, p)
						out.Msgs = append(out.Msgs, fmt.Sprint(em["message"]))
					}
				}
			}
			c.Eval("pets|"+text+fmt.Sprint(i%4, k), true)
			c.Count("static_binding_documents", 1)
			if diff := Compare(exp, out, CompareOpts{StripFragSeg: true}); diff != "" {
				c.Violation(pfx+"-static-binding", map[string]interface{}{"sdl": ms.SDL(model.SDLOpts{}), "data_variant": i % 4, "document_index_on_this_root": k, "document": text,
					"diff": diff, "expected": exp.Describe(), "observed": out.Describe()})
				break
			}
		}
	}
}

// petsSharedAlias writes { <pets field> { ... on Lion { label: roar } ... on Cat { label: name num: lives } ... on Hound { num: pack } } }
// in varying arrangement (inline fragments or named fragments, two to four conditions, an alias or the plain name of one of
// the fields as the shared key).
func petsSharedAlias(r *rand.Rand) *gen.DocCase {
	strF := map[string][]string{"Lion": {"roar", "name"}, "Cat": {"name"}, "Dog": {"name"}, "Hound": {"name"}}
	numF := map[string]string{"Cat": "lives", "Hound": "pack"}
	types := []string{"Lion", "Cat", "Dog", "Hound"}
	r.Shuffle(len(types), func(a, b int) { types[a], types[b] = types[b], types[a] })
	types = types[:2+r.Intn(3)]
	key := []string{"label", "roar", "name"}[r.Intn(3)]
	d := &model.Doc{}
	var sels []model.Sel
	for ti, t := range types {
		fs := strF[t]
		f := &model.Field{Alias: key, Name: fs[r.Intn(len(fs))]}
		if f.Alias == f.Name {
			f.Alias = ""
		}
		in := []model.Sel{f}
		if nf := numF[t]; nf != "" {
			in = append(in, &model.Field{Alias: "num", Name: nf})
		}
		if r.Intn(3) == 0 {
			in = append(in, &model.Field{Name: "__typename"})
		}
		if r.Intn(3) == 0 {
			fn := fmt.Sprintf("F%d", ti)
			d.Frags = append(d.Frags, &model.FragDef{Name: fn, Cond: t, Sels: in})
			sels = append(sels, &model.Spread{Name: fn})
		} else {
			sels = append(sels, &model.Inline{Cond: t, Sels: in})
		}
	}
	top := []string{"pets", "animals", "pet", "animal", "me", "withMe", "typed"}[r.Intn(7)]
	d.Ops = []*model.Op{{Kind: "query", Shorthand: true, Sels: []model.Sel{&model.Field{Name: top, Sels: sels}}}}
	return &gen.DocCase{Doc: d, Feats: map[string]bool{}}
}

// ---------------------------------------------------------------- events of abstract-typed subscription fields

type c08Sub struct{ got []interface{} }

func (s *c08Sub) Match(id string) bool { return true }
func (s *c08Sub) Send(v interface{}) error {
	s.got = append(s.got, v)
	return nil
}
func (s *c08Sub) Unsubscribe() {}

type c08SubRoot struct {
	Query        *zoo.PetQuery
	Subscription *c08Subs
}

type c08Subs struct{ last *c08Sub }

func (s *c08Subs) Resolve(field *ggql.Field, args map[string]interface{}) (interface{}, error) {
	s.last = &c08Sub{}
	return ggql.NewSubscription(s.last, field, args), nil
}

// c08Subscription: a subscription field typed by an interface or a union; the events published are objects of Go types
// bound (by @go / by name) to different object types. Each message must be the subscriber's selection applied to the
// event resolved as ITS concrete type.
func c08Subscription(c *run.Ctx) {
	n := c.N(400, 8000)
	for i := 0; i < n && !c.TooMany(); i++ {
		r := c.Rand(5000000 + i)
		ms := zoo.PetsModelV(i)
		pr, g := zoo.PetsData(i)
		ms.Types = append(ms.Types, &model.TypeDef{Kind: model.Object, Name: "Subscription", Fields: []*model.FieldDef{
			{Name: "watch", Type: model.Named("Pet")}, {Name: "watchAny", Type: model.Named("Animal")}, {Name: "watchDog", Type: model.Named("Dog")}}})
		ms.Subscription = "Subscription"
		ms.Reindex()
		subs := &c08Subs{}
		root := ggql.NewRoot(&c08SubRoot{Query: pr.Query, Subscription: subs})
		if err := root.ParseString(ms.SDL(model.SDLOpts{})); err != nil {
			c.Violation("c08-schema-rejected", map[string]interface{}{"error": err.Error()})
			return
		}
		if err := root.RegisterType(&zoo.PetHound{}, "Hound"); err != nil {
			c.Violation("c08-schema-rejected", map[string]interface{}{"error": err.Error()})
			return
		}
		fname := []string{"watch", "watchAny", "watch", "watchAny", "watchDog"}[r.Intn(5)]
		st := ms.Type("Subscription").Field(fname).Type.Name
		// a selection for a value of static type st, generated over the model with the subscription field as only root selection
		tmp := gen.Doc(r, &model.Schema{Types: append([]*model.TypeDef{{Kind: model.Object, Name: "Query", Fields: []*model.FieldDef{{Name: "ev", Type: model.Named(st)}}}}, withoutQuery(ms.Types)...), Query: "Query"},
			gen.DocOpts{Frags: false, Aliases: true, Abstract: true, Depth: 3, MaxOps: 1, MaxSels: 5})
		var sels []model.Sel
		for _, sel := range tmp.Doc.Ops[0].Sels {
			if f, isF := sel.(*model.Field); isF && f.Name == "ev" {
				sels = f.Sels
			}
		}
		if len(sels) == 0 {
			sels = []model.Sel{&model.Field{Name: "__typename"}, &model.Inline{Cond: "Dog", Sels: []model.Sel{&model.Field{Name: "tricks"}}}, &model.Inline{Cond: "Cat", Sels: []model.Sel{&model.Field{Name: "lives"}}}}
		}
		sub := &model.Doc{Ops: []*model.Op{{Kind: "subscription", Name: "S", Sels: []model.Sel{&model.Field{Name: fname, Sels: sels}}}}}
		text := sub.Print(model.LayoutN(i))
		res := root.ResolveString(text, "", nil)
		if es, has := res["errors"]; has || subs.last == nil {
			c.Violation("c08-subscription-rejected", map[string]interface{}{"document": text, "errors": fmt.Sprint(es)})
			continue
		}
		// the events: every pet object of the data set (query root's pets list holds pointers of all three Go types)
		q, _ := g.Root.F["query"].(*model.Node)
		evNodes, _ := q.F["pets"].(model.VList)
		for ei, ev := range pr.Query.Pets {
			en, _ := evNodes[ei].(*model.Node)
			if fname == "watchDog" && en.Type != "Dog" {
				continue
			}
			before := len(subs.last.got)
			var aerr error
			pv, _ := run.Protect(func() { _, aerr = root.AddEvent("t", ev) })
			c.Eval(fmt.Sprintf("sub|%s|%d|%d", text, i%16, ei), true)
			c.Count("subscription_events_checked", 1)
			c.Bucket("doc_features", "abstract-subscription-event")
			// expected: the selection applied to the event node as the value of a field of static type st
			wrap := &model.Graph{}
			wrap.Nodes = append(wrap.Nodes, g.Nodes...)
			wq := &model.Node{ID: len(wrap.Nodes), Type: "Query", F: map[string]interface{}{"ev": en}}
			wr := &model.Node{ID: len(wrap.Nodes) + 1, Type: "__root", F: map[string]interface{}{"query": wq}}
			wrap.Nodes = append(wrap.Nodes, wq, wr)
			wrap.Root = wr
			ws := &model.Schema{Types: append([]*model.TypeDef{{Kind: model.Object, Name: "Query", Fields: []*model.FieldDef{{Name: "ev", Type: model.Named(st)}}}}, withoutQuery(ms.Types)...), Query: "Query"}
			wd := &model.Doc{Ops: []*model.Op{{Kind: "query", Name: "Q", Sels: []model.Sel{&model.Field{Name: "ev", Sels: sels}}}}}
			exp := ref.Execute(ws, wd, "Q", nil, wrap, nil, ref.Flags{})
			want, _ := exp.Data.(map[string]interface{})
			diag := ""
			switch {
			case pv != nil:
				diag = fmt.Sprintf("AddEvent panics: %v", pv)
			case aerr != nil:
				diag = "AddEvent error: " + aerr.Error()
			case len(subs.last.got) != before+1:
				diag = fmt.Sprintf("%d messages delivered for one event", len(subs.last.got)-before)
			default:
				got := ref.Canon(subs.last.got[before])
				if gm, isM := got.(map[string]interface{}); isM {
					if inner, has := gm[fname]; has && len(gm) == 1 {
						got = inner // messages may be wrapped in the field's response key
					}
				}
				if !ref.Match(want["ev"], got) {
					diag = "message differs at " + ref.Mismatch(want["ev"], got)
				}
			}
			if diag != "" {
				c.Violation("c08-subscription-event", map[string]interface{}{"sdl": ms.SDL(model.SDLOpts{}), "subscription": text, "event_type": en.Type, "diag": diag, "expected": ref.Render(want["ev"])})
				break
			}
		}
	}
}

func withoutQuery(ts []*model.TypeDef) []*model.TypeDef {
	var out []*model.TypeDef
	for _, t := range ts {
		if t.Name != "Query" && t.Name != "Subscription" {
			out = append(out, t)
		}
	}
	return out
}

// c08Staged: the type hierarchy GROWS between requests. A root is loaded with a schema in which one object type does not
// yet implement the interface (nor belong to the union); requests are resolved (whatever they answer) so that everything
// ggql derives lazily from the hierarchy exists; then `extend type X implements Animal` and `extend union Pet = X` arrive
// as loads of their own (no new type comes with them), and the request is judged against the reference over the final schema.
func c08Staged(c *run.Ctx) { stagedHierarchy(c, "c08", c.N(400, 8000)) }

// stagedHierarchy is shared with C01 (the response shape of the final request is the same question asked of the same
// history); pfx names the violation kinds.
func stagedHierarchy(c *run.Ctx, pfx string, n int) {
	for i := 0; i < n && !c.TooMany(); i++ {
		r := c.Rand(3000000 + i)
		full := gen.Menagerie(r)
		for _, t := range full.Types {
			if t.Kind == model.Object {
				if f := t.Field("rival"); f != nil {
					f.Type = model.Named("Animal") // no field may depend on the late implementer already being an Animal
				}
			}
		}
		impls := full.PossibleTypes("Animal")
		x := impls[r.Intn(len(impls))]
		stage1 := *full
		stage1.Types = nil
		for _, t := range full.Types {
			cp := *t
			if t.Name == x {
				cp.Interfaces = nil
			}
			if t.Kind == model.Union {
				cp.Members = nil
				for _, m := range t.Members {
					if m != x {
						cp.Members = append(cp.Members, m)
					}
				}
			}
			stage1.Types = append(stage1.Types, &cp)
		}
		stage1.Reindex()
		o := model.SDLOpts{}
		exts := []string{
			model.TypeSDL(&model.TypeDef{Kind: model.Object, Name: x, Interfaces: []string{"Animal"}}, o, true),
			model.TypeSDL(&model.TypeDef{Kind: model.Union, Name: "Pet", Members: []string{x}}, o, true),
		}
		if r.Intn(2) == 0 {
			exts[0], exts[1] = exts[1], exts[0]
		}
		g := gen.Graph(r, full, gen.GraphOpts{NullProb: 4, PerType: 2})
		sdl1 := stage1.SDL(o)
		h, err := back.BuildOpts("reflect", full, sdl1, g, back.Opts{TypedSlices: true})
		if err != nil {
			c.Violation(pfx+"-schema-rejected", map[string]interface{}{"sdl": sdl1, "error": err.Error()})
			continue
		}
		dc := gen.Doc(r, full, gen.DocOpts{Frags: true, Aliases: true, Abstract: true, Depth: 3 + r.Intn(2), MaxOps: 1})
		text := dc.Doc.Print(model.LayoutN(i))
		warm := func() {
			run.Protect(func() { _ = h.Root.ResolveString(text, dc.OpName, copyVars(dc.Vars)) })
			run.Protect(func() {
				_ = h.Root.ResolveString(`{ pets { __typename name friend { __typename } } anyPet { __typename } a1 { __typename } a2 { __typename } grid { __typename } __type(name: "Animal") { possibleTypes { name } } }`, "", nil)
			})
		}
		warm()
		okLoads := true
		for _, e := range exts {
			var lerr error
			pv, _ := run.Protect(func() { lerr = h.Root.ParseString(e) })
			if pv != nil || lerr != nil {
				c.Violation(pfx+"-staged-extension-rejected", map[string]interface{}{"sdl": sdl1, "later_load": e, "error": fmt.Sprint(pv, lerr)})
				okLoads = false
				break
			}
			warm()
		}
		if !okLoads {
			continue
		}
		exp := ref.Execute(full, dc.Doc, dc.OpName, dc.Vars, g, nil, ref.Flags{})
		out := Do(h, Request{Text: text, OpName: dc.OpName, Vars: dc.Vars, Entry: i}, nil)
		c.Eval("staged|"+sdl1+text, true)
		c.Count("staged_hierarchy_documents", 1)
		c.Bucket("doc_features", "hierarchy-extended-between-requests")
		if i == 0 {
			c.Sample(map[string]interface{}{"first_load": clip(sdl1, 600), "later_loads": exts, "document": text})
		}
		if diff := Compare(exp, out, CompareOpts{StripFragSeg: true}); diff != "" {
			c.Violation(pfx+"-staged-hierarchy", map[string]interface{}{"first_load": sdl1, "later_loads": exts, "late_implementer": x, "graph": describeGraph(g), "document": text,
				"diff": diff, "expected": exp.Describe(), "observed": out.Describe()})
		}
	}
}

// ---------------------------------------------------------------- an interface built in Go

// C08BThing and C08BOther are bound to the object types of the same names by name.
type C08BThing struct {
	ID   string
	Size int
}
type C08BOther struct {
	ID   string
	Name string
}
type c08BQuery struct {
	Node  interface{}
	Nodes []interface{}
}
type c08BRoot struct{ Query *c08BQuery }

// c08BuiltInterface: the interface is a *ggql.Interface made in Go and handed to AddTypes (before or after the document
// that defines its implementers), the object types come from a document and are bound by name. Values behind the
// interface-typed fields are resolved as their concrete types all the same.
func c08BuiltInterface(c *run.Ctx) {
	const sdl = "type Query { node: ZzNode nodes: [ZzNode] }\ntype C08BThing implements ZzNode { id: ID size: Int }\ntype C08BOther implements ZzNode { id: ID name: String }\n"
	const text = `{ node { __typename id ... on C08BThing { size } ... on C08BOther { name } } nodes { __typename ... on C08BOther { name } ... on ZzNode { id } } }`
	const want = `{"node":{"__typename":"C08BThing","id":"t1","size":3},"nodes":[{"__typename":"C08BOther","id":"o1","name":"n1"},{"__typename":"C08BThing","id":"t2"},null]}`
	var shared *ggql.Interface
	for variant := 0; variant < 6; variant++ {
		q := &c08BQuery{Node: &C08BThing{ID: "t1", Size: 3}, Nodes: []interface{}{&C08BOther{ID: "o1", Name: "n1"}, &C08BThing{ID: "t2", Size: 4}, nil}}
		root := ggql.NewRoot(&c08BRoot{Query: q})
		mk := func() *ggql.Interface {
			i := &ggql.Interface{Base: ggql.Base{N: "ZzNode"}}
			_ = i.AddField(&ggql.FieldDef{Base: ggql.Base{N: "id"}, Type: &ggql.Ref{Base: ggql.Base{N: "ID"}}})
			return i
		}
		if variant >= 4 {
			// types built once, a root per tenant: the SAME interface value was adopted by another root before (which has
			// implementers of its own and has answered requests); this root resolves against ITS object types
			if shared == nil {
				shared = mk()
				other := ggql.NewRoot(&c08BRoot{Query: &c08BQuery{Node: &C08BOther{ID: "x", Name: "y"}}})
				if err := other.AddTypes(shared); err == nil {
					_ = other.ParseString("type Query { node: ZzNode nodes: [ZzNode] }\ntype C08BOther implements ZzNode { id: ID name: String }\ntype ZzOnlyThere implements ZzNode { id: ID }\n")
					_ = other.ResolveString(`{ node { __typename id } __type(name: "ZzNode") { possibleTypes { name } } }`, "", nil)
				}
			}
			keep := mk
			_ = keep
			mk = func() *ggql.Interface { return shared }
		}
		var err error
		how := ""
		switch variant {
		case 0, 1, 4, 5:
			how = "AddTypes(interface), then the document"
			if variant >= 4 {
				how = "AddTypes(an interface value another root adopted before), then the document"
			}
			if err = root.AddTypes(mk()); err == nil {
				err = root.ParseString(sdl)
			}
		default:
			how = "the document's objects without `implements`, AddTypes(interface), then extend ... implements"
			if err = root.ParseString(strings.ReplaceAll(strings.ReplaceAll(sdl, " implements ZzNode", ""), "ZzNode", "Int")); err == nil {
				if err = root.AddTypes(mk()); err == nil {
					err = root.ParseString("extend type C08BThing implements ZzNode { zzA: Int }\nextend type C08BOther implements ZzNode { zzB: Int }\nextend type Query { zn: ZzNode zns: [ZzNode] }")
				}
			}
		}
		if err != nil {
			c.Violation("c08-schema-rejected", map[string]interface{}{"how": how, "error": err.Error()})
			continue
		}
		req, exp := text, want
		if variant == 2 || variant == 3 {
			continue // the fields node/nodes are Int-typed in this arrangement: only the loading is exercised
		}
		if variant == 1 || variant == 5 {
			_ = root.ResolveString(`{ __type(name: "ZzNode") { possibleTypes { name } } }`, "", nil)
		}
		var res map[string]interface{}
		pv, _ := run.Protect(func() { res = root.ResolveString(req, "", nil) })
		c.Eval(fmt.Sprintf("built-interface|%d", variant), true)
		c.Count("static_binding_documents", 1)
		got := ref.Render(ref.Canon(res["data"]))
		if pv != nil || res["errors"] != nil || got != exp {
			c.Violation("c08-static-binding", map[string]interface{}{"how": how, "sdl": sdl, "document": req, "diff": fmt.Sprintf("panic=%v errors=%v", pv, res["errors"]), "expected": exp, "observed": got})
		}
	}
}

// ---------------------------------------------------------------- Resolver objects of registered Go types

type c08RDog struct{ name string }
type c08RCat struct{ name string }
type c08RQuery struct{}

// c08RHen is a Resolver object that is no struct: a named map type (a document store's record).
type c08RHen map[string]interface{}

func (h c08RHen) Resolve(f *ggql.Field, _ map[string]interface{}) (interface{}, error) {
	return h[f.Name], nil
}

func (d *c08RDog) Resolve(f *ggql.Field, _ map[string]interface{}) (interface{}, error) {
	if f.Name == "barks" {
		return 3, nil
	}
	return d.name, nil
}
func (k *c08RCat) Resolve(f *ggql.Field, _ map[string]interface{}) (interface{}, error) {
	if f.Name == "lives" {
		return 9, nil
	}
	return k.name, nil
}
func (q *c08RQuery) Resolve(f *ggql.Field, _ map[string]interface{}) (interface{}, error) {
	switch f.Name {
	case "query":
		return q, nil
	case "pet", "must":
		return &c08RDog{"rex"}, nil
	case "friend":
		return &c08RCat{"tom"}, nil
	case "hen":
		return c08RHen{"name": "henrietta", "eggs": 4}, nil
	case "flock":
		return []interface{}{c08RHen{"name": "h1", "eggs": 1}, &c08RDog{"shep"}}, nil
	}
	return []interface{}{&c08RCat{"kit"}, &c08RDog{"fido"}, nil, &c08RCat{"tom"}}, nil
}

// c08RegisteredResolvers: a mixed graph - the objects resolve their own fields (ggql.Resolver) and their Go types are
// registered for their object types. Behind interface- and union-typed fields they are resolved as their concrete types:
// __typename, fragments on the concrete type, on the interface and on the union.
func c08RegisteredResolvers(c *run.Ctx) {
	const sdl = "type Query { pet: Pet must: Pet! pets: [Pet] friend: Friend friends: [Friend!] hen: Pet flock: [Pet] }\ninterface Pet { name: String }\nunion Friend = Dog | Cat\ntype Dog implements Pet { name: String barks: Int }\ntype Cat implements Pet { name: String lives: Int }\ntype Hen implements Pet { name: String eggs: Int }\n"
	cases := []struct{ text, want string }{
		{`{ pet { __typename name ... on Dog { barks } ... on Cat { lives } } }`, `{"pet":{"__typename":"Dog","barks":3,"name":"rex"}}`},
		{`{ must { ... on Dog { n: name } ... on Friend { __typename } } }`, `{"must":{"__typename":"Dog","n":"rex"}}`},
		{`{ pets { __typename ... on Cat { lives } ...D } } fragment D on Dog { barks name }`,
			`{"pets":[{"__typename":"Cat","lives":9},{"__typename":"Dog","barks":3,"name":"fido"},null,{"__typename":"Cat","lives":9}]}`},
		{`{ friend { __typename ... on Pet { name } ... on Cat { lives } } }`, `{"friend":{"__typename":"Cat","lives":9,"name":"tom"}}`},
		{`{ friends { ... on Dog { barks } ... on Cat { name } } }`, `{"friends":[{"name":"kit"},{"barks":3},null,{"name":"tom"}]}`},
		{`{ hen { __typename name ... on Hen { eggs } ... on Dog { barks } } }`, `{"hen":{"__typename":"Hen","eggs":4,"name":"henrietta"}}`},
		{`{ flock { __typename ... on Hen { eggs } ... on Dog { barks } ... on Pet { name } } }`, `{"flock":[{"__typename":"Hen","eggs":1,"name":"h1"},{"__typename":"Dog","barks":3,"name":"shep"}]}`},
	}
	for round := 0; round < 3; round++ {
		root := ggql.NewRoot(&c08RQuery{})
		err := root.ParseString(sdl)
		if err == nil {
			err = root.RegisterType(&c08RDog{}, "Dog")
		}
		if err == nil {
			err = root.RegisterType(&c08RCat{}, "Cat")
		}
		if err == nil {
			err = root.RegisterType(c08RHen{}, "Hen")
		}
		if err != nil {
			c.Violation("c08-schema-rejected", map[string]interface{}{"sdl": sdl, "error": err.Error()})
			return
		}
		for k := range cases {
			cs := cases[(k+round)%len(cases)]
			var res map[string]interface{}
			pv, _ := run.Protect(func() { res = root.ResolveString(cs.text, "", nil) })
			c.Eval(fmt.Sprintf("registered-resolvers|%d|%s", round, cs.text), true)
			c.Count("static_binding_documents", 1)
			got := ref.Render(ref.Canon(res["data"]))
			if pv != nil || got != cs.want {
				c.Violation("c08-static-binding", map[string]interface{}{"how": "Resolver objects whose Go types are registered (RegisterType)", "sdl": sdl, "document": cs.text,
					"diff": fmt.Sprintf("panic=%v errors=%v", pv, res["errors"]), "expected": cs.want, "observed": got})
			}
		}
	}
}
