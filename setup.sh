#!/bin/bash
# Offline setup: build the harness binaries once (warm the Go build cache).
set -e
cd "$(dirname "$0")"
export GOFLAGS=-mod=mod GOPROXY=off GOSUMDB=off GOTOOLCHAIN=local
mkdir -p bin evidence
[ -f go.sum ] || cp /repo/go.sum go.sum 2>/dev/null || true
go build -tags verif -o bin/vf ./cmd/vf
go build -race -tags verif -o bin/vf.race ./cmd/vf
echo setup ok
