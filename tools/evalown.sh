#!/bin/bash
# usage: evalown.sh "<variants>" <props...>  -- like evalround.sh, but each seed is run against the check of its own property only
vars="$1"; shift
for p in "$@"; do
  ( for v in $vars; do python3 /verif/tools/seedeval.py $p $v --checks $p > /tmp/seedeval_${p}_$v.log 2>&1; echo "$p-$v: $(grep -E 'DETECTED BY|NOT CONFIRMED|Error|assert' /tmp/seedeval_${p}_$v.log | tail -1)"; done ) &
  while [ $(jobs -r | wc -l) -ge 8 ]; do sleep 2; done
done
wait
