import sys,subprocess,os
import json
spec=json.load(open(sys.argv[1])); seed=spec['seed']
wt='/tmp/wt/port-'+seed
subprocess.run(f'git -C /repo worktree remove --force {wt}; git -C /repo worktree add -q --detach {wt} HEAD',shell=True)
for e in spec['edits']:
    p=f"{wt}/{e['path']}"
    s=open(p).read()
    assert s.count(e['old'])==1, ('anchor count', s.count(e['old']), e['old'][:60])
    open(p,'w').write(s.replace(e['old'],e['new']))
env=dict(os.environ,GOFLAGS='-mod=mod',GOPROXY='off',GOSUMDB='off',GOTOOLCHAIN='local')
def sh(c): 
    r=subprocess.run(c,shell=True,cwd=wt,env=env,capture_output=True,text=True); return (r.stdout+r.stderr).strip().split('\n')[-1]
diff=subprocess.run('git diff HEAD -- pkg cmd',shell=True,cwd=wt,capture_output=True,text=True).stdout
subprocess.run(f'cp /verif/seeded/{seed}/demo_test.go pkg/ggql/zz_seed_demo_test.go',shell=True,cwd=wt)
a=sh('go test -vet=off -count=1 -run TestSeedDemo ./pkg/ggql')
os.remove(f'{wt}/pkg/ggql/zz_seed_demo_test.go')
b=sh(f'BASELINE_PKGS="./cmd/... ./pkg/..." /verif/tools/baseline.sh {wt}')
subprocess.run('git checkout -q -- .',shell=True,cwd=wt)
subprocess.run(f'cp /verif/seeded/{seed}/demo_test.go pkg/ggql/zz_seed_demo_test.go',shell=True,cwd=wt)
c=sh('go test -vet=off -count=1 -run TestSeedDemo ./pkg/ggql')
print(seed,'patched:',a,'| suite:',b,'| pristine:',c)
if a.startswith('FAIL') and c.startswith('ok') and 'passed now: 238' in b:
    open(f'/verif/seeded/{seed}/patch.diff','w').write(diff); print('  stored')
subprocess.run(f'git -C /repo worktree remove --force {wt}',shell=True)
