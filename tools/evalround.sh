#!/bin/bash
# usage: evalround.sh "<variants>" <props...>
vars="$1"; shift
for p in "$@"; do
  ( for v in $vars; do python3 /verif/tools/seedeval.py $p $v > /tmp/seedeval_${p}_$v.log 2>&1; echo "$p-$v: $(grep -E 'DETECTED BY|NOT CONFIRMED|Error|assert' /tmp/seedeval_${p}_$v.log | tail -1)"; done ) &
  while [ $(jobs -r | wc -l) -ge 6 ]; do sleep 2; done
done
wait
