#!/usr/bin/env python3
"""seedeval.py <PROP> <variant> [--checks C01,C02,...]
1. confirms the seeded change in its scratch worktree /tmp/wt/<PROP> (demo passes pristine, fails patched, pinned suite still passes patched),
2. runs the listed quick checks (default: all registered) from a scratch copy of /verif against the patched scratch worktree,
3. stores /verif/seeded/<PROP>-<variant>/{patch.diff,demo_test.go,meta.json}."""
import json, os, subprocess, sys, shutil, re, time
prop, var = sys.argv[1], sys.argv[2]
checks = None
if '--checks' in sys.argv:
    checks = sys.argv[sys.argv.index('--checks')+1].split(',')
SRC = os.environ.get('VERIF_SRC', '/verif')
wt = f'/tmp/wt/{prop}'
sd = f'{wt}/seed/{var}'
env = dict(os.environ, GOFLAGS='-mod=mod', GOPROXY='off', GOSUMDB='off', GOTOOLCHAIN='local')
def sh(cmd, cwd=None, timeout=1800):
    p = subprocess.run(cmd, shell=True, cwd=cwd, env=env, capture_output=True, text=True, timeout=timeout)
    return p.returncode, p.stdout + p.stderr
patch = f'{sd}/patch.diff'
demo = f'{sd}/demo_test.go'
meta = {'property': prop, 'variant': var, 'ran': []}
assert os.path.exists(patch) and os.path.exists(demo), 'seed files missing'
readme = open(f'{sd}/README.md').read() if os.path.exists(f'{sd}/README.md') else ''
# 1. confirm in the scratch worktree
sh('git checkout -- . && rm -f pkg/ggql/zz_seed_demo_test.go', wt)
race = '-race' if re.search(r'needs? -race|requires? -race|with -race is required', readme) and 'not required' not in readme.lower() and "does not need" not in readme.lower() and "do not need" not in readme.lower() and "neither" not in readme.lower() else ''
shutil.copy(demo, f'{wt}/pkg/ggql/zz_seed_demo_test.go')
rc0, out0 = sh(f'go test -vet=off -count=1 {race} -run TestSeedDemo ./pkg/ggql', wt)
rca, outa = sh(f'git apply {patch}', wt)
rc1, out1 = sh(f'go test -vet=off -count=1 {race} -run TestSeedDemo ./pkg/ggql', wt)
os.remove(f'{wt}/pkg/ggql/zz_seed_demo_test.go')
rcb, outb = sh('BASELINE_PKGS="./cmd/... ./pkg/..." /verif/tools/baseline.sh ' + wt, wt)
sh('git checkout -- .', wt)
meta['confirmed'] = {'demo_passes_pristine': rc0 == 0, 'patch_applies': rca == 0, 'demo_fails_patched': rc1 != 0, 'pinned_suite_passes_patched': rcb == 0, 'race_flag': race}
print('confirm:', meta['confirmed'])
if not (rc0 == 0 and rca == 0 and rc1 != 0 and rcb == 0):
    print(out0[-800:], outa[-400:], out1[-800:], outb[-800:])
    print('NOT CONFIRMED'); sys.exit(1)
# 2. run the checks against the patched scratch worktree: a scratch copy of /verif whose go.mod points at it (VERIF_REPO),
#    so /repo itself stays untouched and several evaluations can run side by side
rc, out = sh(f'git apply {patch}', wt)
assert rc == 0, out
vc = f'/tmp/sv/{prop}-{var}'
sh(f'rm -rf {vc}; mkdir -p /tmp/sv; rsync -a --exclude bin --exclude .work --exclude replays --exclude .git {SRC}/ {vc}/')
try:
    if checks is None:
        m = json.load(open('/verif/MANIFEST.json'))
        checks = [c['property_id'] for c in m['checks']]
    results = {}
    e2 = dict(env, VERIF_REPO=wt)
    for c in checks:
        t0 = time.time()
        p = subprocess.run(f'timeout -k 5 900 ./check {c} quick', shell=True, cwd=vc, env=e2, capture_output=True, text=True, timeout=3600)
        rc, out = p.returncode, p.stdout + p.stderr
        viol = [l for l in out.split('\n') if l.startswith('VIOLATION')]
        kinds = sorted(set(re.findall(r'kind="([^"]+)"', '\n'.join(viol))))
        results[c] = {'exit': rc, 'violations': len(viol), 'kinds': kinds[:6], 'wall_s': round(time.time()-t0, 1)}
        print(c, results[c], flush=True)
    meta['checks_with_patch_applied'] = results
finally:
    sh('git checkout -- .', wt)
    sh(f'rm -rf {vc}')
meta['detected_by'] = sorted(c for c, r in meta['checks_with_patch_applied'].items() if r['exit'] == 1)
# 3. store
dst = f'/verif/seeded/{prop}-{var}'
os.makedirs(dst, exist_ok=True)
shutil.copy(patch, dst + '/patch.diff'); shutil.copy(demo, dst + '/demo_test.go')
if readme: open(dst + '/README.md', 'w').write(readme)
meta['needs_to_manifest'] = ''
m = re.search(r'(?is)(needs?[^\n]*manifest.*?)(\n#|\n\n\n|\Z)', readme)
meta['ran'] = ['scratch worktree: demo on pristine (pass), git apply, demo on patched (fail), tools/baseline.sh on patched (238/238)',
               'scratch worktree with the patch applied + scratch copy of /verif pointed at it (VERIF_REPO): ./check <ID> quick for ' + ','.join(checks)]
json.dump(meta, open(dst + '/meta.json', 'w'), indent=1)
print('DETECTED BY:', meta['detected_by'])
