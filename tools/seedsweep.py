#!/usr/bin/env python3
"""seedsweep.py [--seeds C01-a,C04-b|all] [--checks C01,C02|own|all] [--jobs N] [--tier quick] [--no-store]
Re-evaluates stored seeded changes (/verif/seeded/<id>/patch.diff) against the checks as they are now.
Each seed gets its own scratch copy of /repo (git worktree under /tmp/sw) with the patch applied and its own
scratch copy of /verif (under /tmp/sv) whose go.mod points there (VERIF_REPO), so /repo itself is never touched,
several seeds run in parallel and nothing disturbs checks running in /verif. Scratch copies are removed afterwards.
'own' = only the check of the property the seed was written for."""
import json, os, subprocess, sys, shutil, re, time, glob
from concurrent.futures import ThreadPoolExecutor
args = sys.argv[1:]
def opt(name, default):
    if name in args:
        return args[args.index(name) + 1]
    return default
seeds = opt('--seeds', 'all')
checks_opt = opt('--checks', 'all')
jobs = int(opt('--jobs', '4'))
SRC = opt('--src', '/verif')  # where the checks are copied from (a committed snapshot keeps a long sweep independent of edits)
tier = opt('--tier', 'quick')
store = '--no-store' not in args
env = dict(os.environ, GOFLAGS='-mod=mod', GOPROXY='off', GOSUMDB='off', GOTOOLCHAIN='local')
all_checks = [c['property_id'] for c in json.load(open('/verif/MANIFEST.json'))['checks']]
if seeds == 'all':
    seeds = sorted(os.path.basename(d.rstrip('/')) for d in glob.glob('/verif/seeded/*/'))
else:
    seeds = seeds.split(',')
head = subprocess.run('git -C /verif rev-parse --short HEAD', shell=True, capture_output=True, text=True).stdout.strip()
def sh(cmd, cwd=None, timeout=3600, e=None):
    p = subprocess.run(cmd, shell=True, cwd=cwd, env=e or env, capture_output=True, text=True, timeout=timeout)
    return p.returncode, p.stdout + p.stderr
def one(seed):
    prop = seed.split('-')[0]
    wt, vc = f'/tmp/sw/{seed}', f'/tmp/sv/{seed}'
    sh(f'git -C /repo worktree remove --force {wt}; rm -rf {wt} {vc}')
    os.makedirs('/tmp/sw', exist_ok=True); os.makedirs('/tmp/sv', exist_ok=True)
    try:
        rc, out = sh(f'git -C /repo worktree add -q --detach {wt} HEAD')
        if rc != 0:
            return seed, {'error': out}
        rc, out = sh(f'git apply /verif/seeded/{seed}/patch.diff', wt)
        if rc != 0:
            return seed, {'error': 'patch does not apply: ' + out}
        sh(f'rsync -a --exclude bin --exclude .work --exclude replays --exclude .git {SRC}/ {vc}/')
        cs = all_checks if checks_opt == 'all' else ([prop] if checks_opt == 'own' else checks_opt.split(','))
        e = dict(env, VERIF_REPO=wt)
        res = {}
        for c in cs:
            t0 = time.time()
            rc, out = sh(f'timeout -k 5 900 ./check {c} {tier}', vc, e=e)  # a change that hangs a check with no watchdog of its own: rc 124, not a dead sweep
            viol = [l for l in out.split('\n') if l.startswith('VIOLATION')]
            kinds = sorted(set(re.findall(r'kind="([^"]+)"', '\n'.join(viol))))
            res[c] = {'exit': rc, 'violations': len(viol), 'kinds': kinds[:6], 'wall_s': round(time.time() - t0, 1)}
            if rc not in (0, 1):
                res[c]['tail'] = out[-300:]
        return seed, res
    finally:
        sh(f'git -C /repo worktree remove --force {wt}; rm -rf {wt} {vc}')
t0 = time.time()
with ThreadPoolExecutor(jobs) as ex:
    for seed, res in ex.map(one, seeds):
        if 'error' in res:
            print(seed, 'ERROR', res['error'][:300]); continue
        det = sorted(c for c, r in res.items() if r['exit'] == 1)
        own = seed.split('-')[0]
        print(f"{seed}: detected_by={det} own={'yes' if own in det else ('no' if own in res else '-')} "
              + ' '.join(f"{c}:rc{r['exit']}" for c, r in res.items() if r['exit'] not in (0, 1)), flush=True)
        if store:
            mp = f'/verif/seeded/{seed}/meta.json'
            m = json.load(open(mp))
            m.setdefault('checks_with_patch_applied', {}).update(res)
            m['detected_by'] = sorted(c for c, r in m['checks_with_patch_applied'].items() if r['exit'] == 1)
            m['last_sweep'] = {'verif_commit': head, 'tier': tier, 'checks': sorted(res)}
            json.dump(m, open(mp, 'w'), indent=1)
print('sweep wall %.0fs' % (time.time() - t0))
