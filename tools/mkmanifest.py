#!/usr/bin/env python3
"""Regenerates /verif/MANIFEST.json from tools/manifest_table.json (one row per property)."""
import json, os, sys
here = os.path.dirname(os.path.abspath(__file__))
root = os.path.dirname(here)
tab = json.load(open(os.path.join(here, "manifest_table.json")))
props = [json.loads(l)["id"] for l in open(os.path.join(root, "properties.jsonl")) if l.strip()]
checks, na = [], []
for pid in props:
    row = tab["checks"].get(pid)
    if row is None or row.get("not_applicable"):
        na.append({"property_id": pid, "reason": (row or {}).get("not_applicable", "check not built yet (work in progress); not claimed")})
        continue
    checks.append({
        "property_id": pid,
        "quick_cmd": f"./check {pid} quick",
        "thorough_cmd": f"./check {pid} thorough",
        "evidence_file": f"/verif/evidence/{pid}.json",
        "replay_cmd_template": "./check --replay {path}",
        "engine": row.get("engine", "vf"),
        "level_claimed": {"category": row["level"], "text": row["text"], "design_ref": row.get("design_ref", f"DESIGN.md §4 {pid}")},
        "level_note": row["note"],
        "technique": row["technique"],
    })
m = {
    "version": 1,
    "setup_cmd": tab["setup_cmd"],
    "hooks": tab["hooks"],
    "engines": tab["engines"],
    "checks": checks,
    "notes": tab["notes"],
    "not_applicable": na,
}
json.dump(m, open(os.path.join(root, "MANIFEST.json"), "w"), indent=1)
print("checks:", len(checks), "not_applicable:", len(na))
