#!/usr/bin/env python3
"""Prints the seeded-change table (markdown) from /verif/seeded/*/meta.json."""
import json, glob, os
rows = []
summ = json.load(open('/verif/tools/seed_summaries.json'))
for d in sorted(glob.glob('/verif/seeded/*/')):
    m = json.load(open(d + 'meta.json'))
    name = os.path.basename(d.rstrip('/'))
    readme = open(d + 'README.md').read() if os.path.exists(d + 'README.md') else ''
    what = m.get('summary') or '; needs: '.join(summ.get(name, ['']))
    ran = m.get('checks_with_patch_applied', {})
    det = m.get('detected_by', [])
    missed = [c for c, r in ran.items() if r['exit'] != 1]
    kinds = []
    for c in det:
        kinds += ran[c]['kinds'][:2]
    rows.append((name, m['property'], what, ', '.join(det) or 'none', ', '.join(sorted(set(kinds)))[:90], ', '.join(missed)))
print('| seeded change | breaks | what it is | caught by (quick tier) | violation kinds | also run, silent |')
print('|---|---|---|---|---|---|')
for r in rows:
    print('| ' + ' | '.join(r) + ' |')
