#!/usr/bin/env python3
import json,glob,sys
pat=sys.argv[1] if len(sys.argv)>1 else 'C01'
lim=int(sys.argv[2]) if len(sys.argv)>2 else 10
for f in sorted(glob.glob(f'/verif/replays/{pat}-*.json'))[:lim]:
    d=json.load(open(f)); c=d['case']
    print('=====',f,d['kind'], c.get('backend'), c.get('diff'))
    print(c.get('document','')[:1500])
    print('vars',c.get('vars'),'op',repr(c.get('op')))
    if 'sdl' in c and len(sys.argv)>3: print(c['sdl'])
    print('EXP',c.get('expected'))
    o=c.get('observed') or {}
    print('OBS',{k:v for k,v in o.items() if k!='stack'})
    if 'stack' in o: print(o['stack'][:2500])
    for k in c:
        if k not in ('document','vars','op','sdl','expected','observed','backend','diff','graph','features'): print(k,':',c[k])
