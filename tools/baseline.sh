#!/bin/bash
# Runs the pinned suite (hooks OFF) on /repo (or $1) and reports stable_pass tests that did not pass.
export GOFLAGS=-mod=mod GOPROXY=off GOSUMDB=off GOTOOLCHAIN=local
D="${1:-/repo}"
OUT=$(mktemp /root/.cache/baseline_run.XXXXXX.json)
export OUT
trap 'rm -f "$OUT"' EXIT
cd "$D" && go test -json -vet=off -count=1 -timeout 25m ${BASELINE_PKGS:-./...} 2>&1 > "$OUT"
python3 - <<'PY'
import json, os
base=json.load(open('/root/.vp/BASELINE.json'))
want=set(base['stable_pass'])
passed=set()
for l in open(os.environ['OUT']):
    try: e=json.loads(l)
    except: continue
    if e.get('Action')=='pass' and e.get('Test'):
        passed.add(e['Package']+'::'+e['Test'])
missing=sorted(want-passed)
print("stable_pass:",len(want),"passed now:",len(want&passed))
for m in missing: print("NOT PASSING:",m)
import sys; sys.exit(1 if missing else 0)
PY
