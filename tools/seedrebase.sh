#!/bin/bash
# seedrebase.sh <seed>...  — re-creates a stored seed patch on /repo's current HEAD (git apply --3way in a scratch worktree),
# re-checks the demonstration (fails patched / passes pristine) and the pinned suite, and rewrites seeded/<seed>/patch.diff.
export GOFLAGS=-mod=mod GOPROXY=off GOSUMDB=off GOTOOLCHAIN=local
for n in "$@"; do
  wt=/tmp/wt/rebase-$n
  git -C /repo worktree remove --force $wt 2>/dev/null
  git -C /repo worktree add -q --detach $wt HEAD || continue
  cd $wt
  if git apply --check /verif/seeded/$n/patch.diff 2>/dev/null; then echo "$n: applies as is"; git apply /verif/seeded/$n/patch.diff;
  elif git apply --3way /verif/seeded/$n/patch.diff >/dev/null 2>&1 && ! git diff --name-only --diff-filter=U | grep -q .; then echo "$n: 3-way ok"; git reset -q;
  else echo "$n: CONFLICT"; git diff --name-only --diff-filter=U; cd /; git -C /repo worktree remove --force $wt; continue; fi
  git diff HEAD -- pkg cmd > /tmp/rebased-$n.diff
  cp /verif/seeded/$n/demo_test.go pkg/ggql/zz_seed_demo_test.go
  berr=$(go build ./... 2>&1 | head -3); [ -n "$berr" ] && echo "   BUILD: $berr"
  p=$(go test -vet=off -count=1 -run TestSeedDemo ./pkg/ggql 2>&1 | tail -1)
  rm pkg/ggql/zz_seed_demo_test.go
  s=$(BASELINE_PKGS="./cmd/... ./pkg/..." /verif/tools/baseline.sh $wt | tail -1)
  git checkout -q -- . ; cp /verif/seeded/$n/demo_test.go pkg/ggql/zz_seed_demo_test.go
  q=$(go test -vet=off -count=1 -run TestSeedDemo ./pkg/ggql 2>&1 | tail -1)
  echo "   patched: $p | pristine: $q | suite: $s"
  # stored only when it builds, the demonstration fails patched / passes pristine, and the pinned suite passes with it
  if [ -z "$berr" ]; then case "$s" in *NOT*) echo "   NOT stored (suite)";; *) case "$p" in FAIL*) case "$q" in ok*) cp /tmp/rebased-$n.diff /verif/seeded/$n/patch.diff; echo "   stored";; esac;; esac;; esac; else echo "   NOT stored (build)"; fi
  cd /; git -C /repo worktree remove --force $wt
done
