// vf is the single CLI of the verification harness.
//
//	vf check <ID> [--tier quick|thorough]
//	vf child <mode> ...           (internal: supervised child processes)
//	vf replay <file>
package main

import (
	"encoding/json"
	"fmt"
	"os"
	"os/exec"
	"path/filepath"
	"strconv"

	"verif/checks"
	"verif/internal/run"
)

func main() {
	if len(os.Args) < 2 {
		usage()
	}
	switch os.Args[1] {
	case "check":
		if len(os.Args) < 3 {
			usage()
		}
		id := os.Args[2]
		tier := os.Getenv("VERIF_TIER")
		for i := 3; i < len(os.Args); i++ {
			switch os.Args[i] {
			case "--tier":
				if i+1 < len(os.Args) {
					tier = os.Args[i+1]
					i++
				}
			case "quick", "thorough":
				tier = os.Args[i]
			}
		}
		if tier != "thorough" {
			tier = "quick"
		}
		ck := checks.All[id]
		if ck == nil {
			fmt.Fprintf(os.Stderr, "unknown check %s\n", id)
			os.Exit(2)
		}
		c := run.New(id, tier, ck.Level)
		if n := shards(id, tier, ck.Race); n > 1 {
			os.Exit(runSharded(c, id, n))
		}
		ck.Run(c)
		os.Exit(c.Finish())
	case "child":
		os.Exit(checks.Child(os.Args[2:]))
	case "replay":
		if len(os.Args) < 3 {
			usage()
		}
		os.Exit(checks.Replay(os.Args[2]))
	case "list":
		for id, ck := range checks.All {
			fmt.Println(id, ck.Level, ck.Race)
		}
	default:
		usage()
	}
}

// shards says in how many parallel processes (one derived seed each) the thorough tier of a check runs. Checks that
// already supervise their own child processes (C03, C12, C20) and the seed-independent exhaustive table (C09) are not sharded.
func shards(id, tier string, race bool) int {
	if tier != "thorough" || race || id == "C03" || id == "C09" || os.Getenv("VERIF_PARTIAL") != "" {
		return 1
	}
	n := 12
	if v, err := strconv.Atoi(os.Getenv("VERIF_SHARDS")); err == nil && v >= 1 {
		n = v
	}
	return n
}

func runSharded(c *run.Ctx, id string, n int) int {
	self, err := os.Executable()
	if err != nil {
		fmt.Fprintln(os.Stderr, err)
		return 2
	}
	dir := filepath.Join(run.VerifDir(), ".work", fmt.Sprintf("shards-%s-%d", id, os.Getpid()))
	_ = os.MkdirAll(dir, 0o755)
	defer os.RemoveAll(dir)
	type res struct {
		k    int
		code int
		err  error
	}
	ch := make(chan res, n)
	for k := 0; k < n; k++ {
		go func(k int) {
			seed := c.Seed
			if k > 0 {
				seed = c.Seed*1000 + int64(k)
			}
			cmd := exec.Command(self, "check", id, "--tier", "thorough")
			cmd.Env = append(os.Environ(), fmt.Sprintf("VERIF_SEED=%d", seed), "VERIF_PARTIAL="+filepath.Join(dir, fmt.Sprintf("part-%d.json", k)))
			cmd.Stdout = os.Stdout
			cmd.Stderr = os.Stderr
			err := cmd.Run()
			code := 0
			if ee, isExit := err.(*exec.ExitError); isExit {
				code = ee.ExitCode()
				err = nil
			}
			ch <- res{k, code, err}
		}(k)
	}
	broken := 0
	for i := 0; i < n; i++ {
		r := <-ch
		if r.err != nil || (r.code != 0 && r.code != 1) {
			fmt.Fprintf(os.Stderr, "shard %d of %s ended abnormally: code %d %v\n", r.k, id, r.code, r.err)
			broken++
		}
	}
	var parts []run.Partial
	for k := 0; k < n; k++ {
		b, err := os.ReadFile(filepath.Join(dir, fmt.Sprintf("part-%d.json", k)))
		if err != nil {
			continue
		}
		var p run.Partial
		if json.Unmarshal(b, &p) == nil {
			parts = append(parts, p)
		}
	}
	c.Merge(parts)
	code := c.Finish()
	if broken > 0 && code == 0 {
		fmt.Printf("INCONCLUSIVE property=%s reason=%d of %d shard processes ended abnormally\n", id, broken, n)
		return 2
	}
	return code
}

func usage() {
	fmt.Fprintln(os.Stderr, "usage: vf check <ID> [--tier quick|thorough] | vf replay <file> | vf child ...")
	os.Exit(2)
}
