// vf is the single CLI of the verification harness.
//
//	vf check <ID> [--tier quick|thorough]
//	vf child <mode> ...           (internal: supervised child processes)
//	vf replay <file>
package main

import (
	"fmt"
	"os"

	"verif/checks"
	"verif/internal/run"
)

func main() {
	if len(os.Args) < 2 {
		usage()
	}
	switch os.Args[1] {
	case "check":
		if len(os.Args) < 3 {
			usage()
		}
		id := os.Args[2]
		tier := os.Getenv("VERIF_TIER")
		for i := 3; i < len(os.Args); i++ {
			switch os.Args[i] {
			case "--tier":
				if i+1 < len(os.Args) {
					tier = os.Args[i+1]
					i++
				}
			case "quick", "thorough":
				tier = os.Args[i]
			}
		}
		if tier != "thorough" {
			tier = "quick"
		}
		ck := checks.All[id]
		if ck == nil {
			fmt.Fprintf(os.Stderr, "unknown check %s\n", id)
			os.Exit(2)
		}
		c := run.New(id, tier, ck.Level)
		ck.Run(c)
		os.Exit(c.Finish())
	case "child":
		os.Exit(checks.Child(os.Args[2:]))
	case "replay":
		if len(os.Args) < 3 {
			usage()
		}
		os.Exit(checks.Replay(os.Args[2]))
	case "list":
		for id, ck := range checks.All {
			fmt.Println(id, ck.Level, ck.Race)
		}
	default:
		usage()
	}
}

func usage() {
	fmt.Fprintln(os.Stderr, "usage: vf check <ID> [--tier quick|thorough] | vf replay <file> | vf child ...")
	os.Exit(2)
}
