// Package run holds the case loop bookkeeping shared by every check: seeds,
// evidence, known-finding classification, replay files and exit codes.
package run

import (
	"crypto/sha1"
	"encoding/hex"
	"encoding/json"
	"fmt"
	"math/rand"
	"os"
	"path/filepath"
	"sort"
	"strconv"
	"sync"
	"time"
)

// VerifDir is the root of the verification tree (the directory holding
// MANIFEST.json). It is taken from VERIF_DIR or defaults to /verif.
func VerifDir() string {
	if d := os.Getenv("VERIF_DIR"); d != "" {
		return d
	}
	return "/verif"
}

// Finding is one entry of known_findings.json.
type Finding struct {
	ID        string      `json:"id"`
	Property  string      `json:"property"`
	Status    string      `json:"status"` // open | fixed
	Predicate string      `json:"predicate,omitempty"`
	What      string      `json:"what"`
	Witness   interface{} `json:"witness,omitempty"`
	Why       string      `json:"why_not_fixed,omitempty"`
	Commit    string      `json:"commit,omitempty"`
	Line      string      `json:"line,omitempty"`
}

type findingsFile struct {
	Findings []Finding `json:"findings"`
}

// Violation is one unexplained failure.
type Violation struct {
	Kind   string
	Replay string
}

type knownHit struct {
	f     Finding
	n     int
	first string
}

// Ctx collects everything one run of one check observes.
type Ctx struct {
	ID    string
	Tier  string
	Seed  int64
	Level string
	Rule  string

	mu         sync.Mutex
	start      time.Time
	evals      int
	distinct   map[string]struct{}
	samples    []interface{}
	extra      map[string]interface{}
	counters   map[string]int
	buckets    map[string]map[string]int
	violations []Violation
	known      map[string]*knownHit
	findings   map[string]Finding
	inconcl    []string
	unfinished int
	assume     []string
	Exhaustive bool
	MinNontriv int // floor of conclusive non-trivial cases for this tier
	MaxSamples int
	maxViol    int
}

// New creates the context for one check run.
func New(id, tier, level string) *Ctx {
	seed := int64(1)
	if s := os.Getenv("VERIF_SEED"); s != "" {
		if v, err := strconv.ParseInt(s, 10, 64); err == nil {
			seed = v
		}
	}
	c := &Ctx{ID: id, Tier: tier, Seed: seed, Level: level, start: time.Now(),
		distinct: map[string]struct{}{}, extra: map[string]interface{}{}, counters: map[string]int{},
		buckets: map[string]map[string]int{}, known: map[string]*knownHit{}, findings: map[string]Finding{},
		MinNontriv: 2, MaxSamples: 4, maxViol: 25}
	b, err := os.ReadFile(filepath.Join(VerifDir(), "known_findings.json"))
	if err == nil {
		var ff findingsFile
		if json.Unmarshal(b, &ff) == nil {
			for _, f := range ff.Findings {
				if f.Property == id && f.Status == "open" {
					c.findings[f.ID] = f
				}
			}
		}
	}
	return c
}

// Thorough reports whether the thorough tier was requested.
func (c *Ctx) Thorough() bool { return c.Tier == "thorough" }

// N picks the case count for the tier.
func (c *Ctx) N(quick, thorough int) int {
	if c.Thorough() {
		return thorough
	}
	return quick
}

// Rand returns the PRNG of case i: a function of (seed, check id, i) only, so a
// case replays without running its predecessors.
func (c *Ctx) Rand(i int) *rand.Rand {
	h := sha1.Sum([]byte(fmt.Sprintf("%s/%d/%d", c.ID, c.Seed, i)))
	var s int64
	for k := 0; k < 8; k++ {
		s = s<<8 | int64(h[k])
	}
	return rand.New(rand.NewSource(s))
}

// Open reports whether the finding id is listed as an open known finding for
// this property. Predicates of findings that are not listed are never consulted.
func (c *Ctx) Open(id string) bool {
	_, ok := c.findings[id]
	return ok
}

// Eval records one evaluated case. key identifies the case for distinctness;
// nontrivial says whether it satisfies the per-property rule.
func (c *Ctx) Eval(key string, nontrivial bool) {
	c.mu.Lock()
	defer c.mu.Unlock()
	c.evals++
	if nontrivial {
		h := sha1.Sum([]byte(key))
		c.distinct[string(h[:8])] = struct{}{}
	}
}

// Sample keeps a literal case for the evidence file (bounded).
func (c *Ctx) Sample(s interface{}) {
	c.mu.Lock()
	defer c.mu.Unlock()
	if len(c.samples) < c.MaxSamples {
		c.samples = append(c.samples, s)
	}
}

// Count adds to a named observation counter.
func (c *Ctx) Count(name string, n int) {
	c.mu.Lock()
	c.counters[name] += n
	c.mu.Unlock()
}

// Bucket counts a feature bucket hit.
func (c *Ctx) Bucket(group, name string) {
	c.mu.Lock()
	m := c.buckets[group]
	if m == nil {
		m = map[string]int{}
		c.buckets[group] = m
	}
	m[name]++
	c.mu.Unlock()
}

// Set stores an extra coverage key.
func (c *Ctx) Set(k string, v interface{}) {
	c.mu.Lock()
	c.extra[k] = v
	c.mu.Unlock()
}

// Assume records an assumption for the evidence file.
func (c *Ctx) Assume(s string) { c.assume = append(c.assume, s) }

// Inconclusive records a case the monitors could not decide.
func (c *Ctx) Inconclusive(what string) {
	c.mu.Lock()
	if len(c.inconcl) < 50 {
		c.inconcl = append(c.inconcl, what)
	}
	c.counters["inconclusive"]++
	c.mu.Unlock()
}

// Unfinished records that a part of the planned workload did not run at all (a harness failure, not an observation
// about ggql): the run as a whole is inconclusive (exit 2) unless it found a violation.
func (c *Ctx) Unfinished(what string) {
	c.Inconclusive(what)
	c.mu.Lock()
	c.unfinished++
	c.mu.Unlock()
}

// Violations returns how many unexplained violations were recorded.
func (c *Ctx) Violations() int {
	c.mu.Lock()
	defer c.mu.Unlock()
	return len(c.violations)
}

// TooMany says the run has seen enough violations to stop exploring.
func (c *Ctx) TooMany() bool { return c.Violations() >= c.maxViol }

func (c *Ctx) writeReplay(kind string, replay interface{}) string {
	dir := filepath.Join(VerifDir(), "replays")
	_ = os.MkdirAll(dir, 0o755)
	b, _ := json.MarshalIndent(map[string]interface{}{
		"property": c.ID, "seed": c.Seed, "tier": c.Tier, "kind": kind, "case": replay,
	}, "", " ")
	h := sha1.Sum(b)
	p := filepath.Join(dir, fmt.Sprintf("%s-%s.json", c.ID, hex.EncodeToString(h[:6])))
	_ = os.WriteFile(p, b, 0o644)
	return p
}

// Violation records an unexplained violation with a replay file.
func (c *Ctx) Violation(kind string, replay interface{}) {
	c.mu.Lock()
	defer c.mu.Unlock()
	if len(c.violations) >= c.maxViol {
		c.counters["violations_not_listed"]++
		return
	}
	p := c.writeReplay(kind, replay)
	c.violations = append(c.violations, Violation{Kind: kind, Replay: p})
	fmt.Printf("VIOLATION property=%s replay=%s kind=%q\n", c.ID, p, kind)
}

// Known records a failure explained by the open known finding id. If id is
// not listed as open this is a programming error and is reported as violation.
func (c *Ctx) Known(id string, witness interface{}) {
	c.mu.Lock()
	f, ok := c.findings[id]
	if !ok {
		c.mu.Unlock()
		c.Violation("unlisted-finding:"+id, witness)
		return
	}
	defer c.mu.Unlock()
	k := c.known[id]
	if k == nil {
		b, _ := json.Marshal(witness)
		s := string(b)
		if len(s) > 300 {
			s = s[:300] + "…"
		}
		k = &knownHit{f: f, first: s}
		c.known[id] = k
	}
	k.n++
}

// Finish writes the evidence file, prints KNOWN-FINDING lines and returns the
// exit code: 0 held, 1 violated, 2 inconclusive (insufficient observation).
func (c *Ctx) Finish() int {
	if p := os.Getenv("VERIF_PARTIAL"); p != "" {
		return c.finishPartial(p)
	}
	c.mu.Lock()
	defer c.mu.Unlock()
	return c.finishLocked()
}

// Partial is what one shard of a sharded run hands to the parent.
type Partial struct {
	Seed       int64                     `json:"seed"`
	Evals      int                       `json:"evals"`
	Distinct   []string                  `json:"distinct"`
	Samples    []interface{}             `json:"samples"`
	Extra      map[string]interface{}    `json:"extra"`
	Counters   map[string]int            `json:"counters"`
	Buckets    map[string]map[string]int `json:"buckets"`
	Violations []Violation               `json:"violations"`
	Known      map[string]PartialKnown   `json:"known"`
	Inconcl    []string                  `json:"inconclusive"`
	Assume     []string                  `json:"assume"`
	MinNontriv int                       `json:"min_nontriv"`
	Exhaustive bool                      `json:"exhaustive"`
	Rule       string                    `json:"rule"`
	WallS      float64                   `json:"wall_s"`
}

// PartialKnown is one known-finding tally of a shard.
type PartialKnown struct {
	N     int    `json:"n"`
	First string `json:"first"`
}

func (c *Ctx) finishPartial(path string) int {
	c.mu.Lock()
	defer c.mu.Unlock()
	p := Partial{Seed: c.Seed, Evals: c.evals, Samples: c.samples, Extra: c.extra, Counters: c.counters, Buckets: c.buckets, Violations: c.violations,
		Known: map[string]PartialKnown{}, Inconcl: c.inconcl, Assume: c.assume, MinNontriv: c.MinNontriv, Exhaustive: c.Exhaustive, Rule: c.Rule, WallS: time.Since(c.start).Seconds()}
	for h := range c.distinct {
		p.Distinct = append(p.Distinct, hex.EncodeToString([]byte(h)))
	}
	for id, k := range c.known {
		p.Known[id] = PartialKnown{N: k.n, First: k.first}
	}
	b, _ := json.Marshal(p)
	if err := os.WriteFile(path, b, 0o644); err != nil {
		fmt.Fprintln(os.Stderr, "partial write failed:", err)
		return 2
	}
	if len(c.violations) > 0 {
		return 1
	}
	return 0
}

// Merge folds the partial results of the shards into c (the parent's context) so that Finish reports the whole run.
func (c *Ctx) Merge(parts []Partial) {
	c.mu.Lock()
	defer c.mu.Unlock()
	c.MinNontriv = 0
	var seeds []int64
	for _, p := range parts {
		seeds = append(seeds, p.Seed)
		c.evals += p.Evals
		for _, h := range p.Distinct {
			if b, err := hex.DecodeString(h); err == nil {
				c.distinct[string(b)] = struct{}{}
			}
		}
		for _, s := range p.Samples {
			if len(c.samples) < c.MaxSamples+2 {
				c.samples = append(c.samples, s)
			}
		}
		for k, v := range p.Extra {
			if f, isNum := v.(float64); isNum {
				if prev, had := c.extra[k].(float64); had {
					c.extra[k] = prev + f
				} else {
					c.extra[k] = f
				}
			} else if _, had := c.extra[k]; !had {
				c.extra[k] = v
			}
		}
		for k, v := range p.Counters {
			c.counters[k] += v
		}
		for g, m := range p.Buckets {
			if c.buckets[g] == nil {
				c.buckets[g] = map[string]int{}
			}
			for k, v := range m {
				c.buckets[g][k] += v
			}
		}
		c.violations = append(c.violations, p.Violations...)
		for id, k := range p.Known {
			f, ok := c.findings[id]
			if !ok {
				continue
			}
			if c.known[id] == nil {
				c.known[id] = &knownHit{f: f, first: k.First}
			}
			c.known[id].n += k.N
		}
		for _, s := range p.Inconcl {
			if len(c.inconcl) < 50 {
				c.inconcl = append(c.inconcl, s)
			}
		}
		for _, a := range p.Assume {
			dup := false
			for _, x := range c.assume {
				if x == a {
					dup = true
				}
			}
			if !dup {
				c.assume = append(c.assume, a)
			}
		}
		if p.MinNontriv > c.MinNontriv {
			// the floor guards against a run that observed (almost) nothing; parts of some case lists do not depend on the
			// seed, so the union of the shards need not grow with their number: the largest shard floor is the floor
			c.MinNontriv = p.MinNontriv
		}
		c.Exhaustive = c.Exhaustive || p.Exhaustive
		if c.Rule == "" {
			c.Rule = p.Rule
		}
	}
	c.extra["shards"] = len(parts)
	c.extra["shard_seeds"] = seeds
	c.extra["sharding"] = "the thorough tier runs the check's case list once per shard seed in parallel processes; counts are summed over shards (numeric extras too), distinct cases are the union of the shards' case hashes"
}

func (c *Ctx) finishLocked() int {
	cov := map[string]interface{}{}
	for k, v := range c.extra {
		cov[k] = v
	}
	cov["evaluations"] = c.evals
	cov["distinct_nontrivial"] = len(c.distinct)
	cov["rule"] = c.Rule
	if len(c.samples) == 0 {
		c.samples = []interface{}{}
	}
	cov["samples"] = c.samples
	if c.Exhaustive {
		cov["exhaustive"] = true
	}
	if len(c.counters) > 0 {
		cov["observed"] = c.counters
	}
	if len(c.buckets) > 0 {
		cov["feature_buckets"] = c.buckets
	}
	if len(c.inconcl) > 0 {
		cov["inconclusive_cases"] = c.inconcl
	}
	kf := map[string]int{}
	ids := make([]string, 0, len(c.known))
	for id := range c.known {
		ids = append(ids, id)
	}
	sort.Strings(ids)
	for _, id := range ids {
		k := c.known[id]
		kf[id] = k.n
		fmt.Printf("KNOWN-FINDING: property=%s %s %s (%d cases, first=%s)\n", c.ID, id, k.f.What, k.n, k.first)
	}
	if len(kf) > 0 {
		cov["known_finding_hits"] = kf
	}
	open := []string{}
	for id := range c.findings {
		open = append(open, id)
	}
	sort.Strings(open)
	cov["open_findings_consulted"] = open
	ev := map[string]interface{}{
		"property_id": c.ID, "tier": c.Tier, "seed": c.Seed, "level": c.Level,
		"coverage": cov, "wall_s": time.Since(c.start).Seconds(), "violations": len(c.violations) + c.counters["violations_not_listed"],
		"assumptions": append([]string{}, c.assume...),
	}
	code := 0
	verdict := "held"
	if len(c.violations) > 0 {
		code = 1
		verdict = "violated"
	} else if c.unfinished > 0 {
		code = 2
		verdict = "inconclusive"
		fmt.Printf("INCONCLUSIVE property=%s reason=%d part(s) of the planned workload did not run (see inconclusive_cases in the evidence)\n", c.ID, c.unfinished)
	} else if len(c.distinct) < c.MinNontriv {
		code = 2
		verdict = "inconclusive"
		fmt.Printf("INCONCLUSIVE property=%s reason=insufficient observation (%d distinct non-trivial cases, floor %d)\n",
			c.ID, len(c.distinct), c.MinNontriv)
	}
	cov["verdict"] = verdict
	b, _ := json.MarshalIndent(ev, "", " ")
	dir := filepath.Join(VerifDir(), "evidence")
	_ = os.MkdirAll(dir, 0o755)
	if err := os.WriteFile(filepath.Join(dir, c.ID+".json"), append(b, '\n'), 0o644); err != nil {
		fmt.Fprintln(os.Stderr, "evidence write failed:", err)
		if code == 0 {
			code = 2
		}
	}
	fmt.Printf("%s %s tier=%s seed=%d evaluations=%d distinct_nontrivial=%d violations=%d wall=%.1fs\n",
		c.ID, verdict, c.Tier, c.Seed, c.evals, len(c.distinct), len(c.violations), time.Since(c.start).Seconds())
	return code
}

// Protect runs f and converts a panic into a returned value.
func Protect(f func()) (pv interface{}, stack string) {
	defer func() {
		if r := recover(); r != nil {
			pv = r
			stack = string(debugStack())
		}
	}()
	f()
	return nil, ""
}
