package run

import "runtime/debug"

func debugStack() []byte { return debug.Stack() }
