// Package model is the harness-owned description of schemas, documents and
// data. Expectations are derived from these structures, never from ggql's
// parsers or printers.
package model

import (
	"fmt"
	"sort"
	"strings"
)

// Kind of a named type.
type Kind int

const (
	Scalar Kind = iota
	Object
	Interface
	Union
	Enum
	Input
)

func (k Kind) String() string {
	return [...]string{"SCALAR", "OBJECT", "INTERFACE", "UNION", "ENUM", "INPUT_OBJECT"}[k]
}

// TypeRef is a type expression: Name, [Of] or Of!.
type TypeRef struct {
	Name    string // named type when Of == nil
	Of      *TypeRef
	List    bool
	NonNull bool
}

func Named(n string) *TypeRef       { return &TypeRef{Name: n} }
func ListOf(t *TypeRef) *TypeRef    { return &TypeRef{Of: t, List: true} }
func NonNullOf(t *TypeRef) *TypeRef { return &TypeRef{Of: t, NonNull: true} }

func (t *TypeRef) String() string {
	switch {
	case t == nil:
		return "<nil>"
	case t.List:
		return "[" + t.Of.String() + "]"
	case t.NonNull:
		return t.Of.String() + "!"
	}
	return t.Name
}

// Base returns the innermost named type.
func (t *TypeRef) Base() string {
	for t.Of != nil {
		t = t.Of
	}
	return t.Name
}

// Nullable strips one non-null wrapper.
func (t *TypeRef) Nullable() *TypeRef {
	if t.NonNull {
		return t.Of
	}
	return t
}

// Sym is an enum symbol literal; VarRef a variable reference.
type Sym string
type VarRef string

// ObjLit is an object literal with the order the harness wrote it in.
type ObjLit struct {
	Keys []string
	Vals map[string]interface{}
}

func NewObjLit() *ObjLit { return &ObjLit{Vals: map[string]interface{}{}} }
func (o *ObjLit) Set(k string, v interface{}) *ObjLit {
	if _, ok := o.Vals[k]; !ok {
		o.Keys = append(o.Keys, k)
	}
	o.Vals[k] = v
	return o
}

// DirUse is an applied directive.
type DirUse struct {
	Name string
	Args []Arg
}

// Arg is a name: value pair in a document or directive use.
type Arg struct {
	Name  string
	Value interface{} // nil, bool, int64, float64, string, Sym, VarRef, []interface{}, *ObjLit, RawLit
}

// RawLit is literal text printed verbatim (numeric forms like 1e3, 0.50).
type RawLit struct {
	Text  string
	Value interface{}
}

// ArgDef is an argument or input field definition.
type ArgDef struct {
	Name       string
	Desc       string
	Type       *TypeRef
	HasDefault bool
	Default    interface{}
	Dirs       []DirUse
}

// FieldDef is an output field definition.
type FieldDef struct {
	Name string
	Desc string
	Type *TypeRef
	Args []*ArgDef
	Dirs []DirUse
	// Echo marks a harness field whose resolver returns a rendering of the
	// arguments it received (so argument handling shows up in data).
	Echo bool
	// Variant, when set, maps the coerced arguments to a suffix of the data key
	// the reference reads (node.F[name+suffix]): argument dependent values.
	Variant func(args map[string]interface{}) string
}

func (f *FieldDef) Arg(n string) *ArgDef {
	for _, a := range f.Args {
		if a.Name == n {
			return a
		}
	}
	return nil
}

// Deprecated reports the @deprecated state and reason.
func Deprecated(dirs []DirUse) (bool, string, bool) {
	for _, d := range dirs {
		if d.Name == "deprecated" {
			for _, a := range d.Args {
				if a.Name == "reason" {
					if s, ok := a.Value.(string); ok {
						return true, s, true
					}
				}
			}
			return true, "", false
		}
	}
	return false, "", false
}

// EnumVal is one enum value.
type EnumVal struct {
	Name string
	Desc string
	Dirs []DirUse
}

// TypeDef is a named type definition.
type TypeDef struct {
	Kind       Kind
	Name       string
	Desc       string
	Fields     []*FieldDef // Object, Interface
	Interfaces []string    // Object
	Members    []string    // Union
	Values     []*EnumVal  // Enum
	Inputs     []*ArgDef   // Input
	Dirs       []DirUse
	// GoAs (harness only, not printed): under the reflection back-ends this object type is served by the Go type of
	// the named other object type (one Go type behind two object types).
	GoAs string
}

func (t *TypeDef) Field(n string) *FieldDef {
	for _, f := range t.Fields {
		if f.Name == n {
			return f
		}
	}
	return nil
}

func (t *TypeDef) InputField(n string) *ArgDef {
	for _, f := range t.Inputs {
		if f.Name == n {
			return f
		}
	}
	return nil
}

func (t *TypeDef) HasValue(n string) bool {
	for _, v := range t.Values {
		if v.Name == n {
			return true
		}
	}
	return false
}

// DirDef is a directive definition.
type DirDef struct {
	Name string
	Desc string
	Args []*ArgDef
	On   []string
}

// Schema is a whole schema.
type Schema struct {
	Types []*TypeDef
	Dirs  []*DirDef
	// Root operation type names; empty means absent.
	Query, Mutation, Subscription string
	// ExplicitSchema says a schema { } block is printed.
	ExplicitSchema bool
	SchemaDesc     string
	byName         map[string]*TypeDef
}

var builtinScalars = map[string]bool{"Int": true, "Float": true, "String": true, "Boolean": true, "ID": true,
	"Int64": true, "Float64": true, "Time": true}

// IsBuiltinScalar reports whether n is one of ggql's built-in scalars.
func IsBuiltinScalar(n string) bool { return builtinScalars[n] }

// Type looks up a named type (user-defined only).
func (s *Schema) Type(n string) *TypeDef {
	if s.byName == nil || len(s.byName) != len(s.Types) {
		s.byName = map[string]*TypeDef{}
		for _, t := range s.Types {
			s.byName[t.Name] = t
		}
	}
	return s.byName[n]
}

// Reindex must be called after Types is modified in place.
func (s *Schema) Reindex() { s.byName = nil }

// KindOf gives the kind of a named type including built-in scalars.
func (s *Schema) KindOf(n string) (Kind, bool) {
	if builtinScalars[n] {
		return Scalar, true
	}
	if t := s.Type(n); t != nil {
		return t.Kind, true
	}
	return 0, false
}

// IsLeaf says the named type is a scalar or enum.
func (s *Schema) IsLeaf(n string) bool {
	k, ok := s.KindOf(n)
	return ok && (k == Scalar || k == Enum)
}

// Implements reports whether object type obj implements interface or is member of union abs.
func (s *Schema) Implements(obj, abs string) bool {
	o := s.Type(obj)
	a := s.Type(abs)
	if o == nil || a == nil {
		return false
	}
	switch a.Kind {
	case Interface:
		for _, i := range o.Interfaces {
			if i == abs {
				return true
			}
		}
	case Union:
		for _, m := range a.Members {
			if m == obj {
				return true
			}
		}
	}
	return false
}

// PossibleTypes lists the object types of an abstract type (sorted).
func (s *Schema) PossibleTypes(abs string) []string {
	var out []string
	for _, t := range s.Types {
		if t.Kind == Object && s.Implements(t.Name, abs) {
			out = append(out, t.Name)
		}
	}
	sort.Strings(out)
	return out
}

// Dir finds a directive definition.
func (s *Schema) Dir(n string) *DirDef {
	for _, d := range s.Dirs {
		if d.Name == n {
			return d
		}
	}
	return nil
}

// ---------------------------------------------------------------- SDL printing

// SDLOpts selects the layout of printed SDL.
type SDLOpts struct {
	BlockDesc bool // use """ """ descriptions
	Compact   bool
}

// QuoteString renders a GraphQL string literal.
func QuoteString(s string) string {
	var b strings.Builder
	b.WriteByte('"')
	for _, r := range s {
		switch r {
		case '"':
			b.WriteString(`\"`)
		case '\\':
			b.WriteString(`\\`)
		case '\n':
			b.WriteString(`\n`)
		case '\r':
			b.WriteString(`\r`)
		case '\t':
			b.WriteString(`\t`)
		case '\b':
			b.WriteString(`\b`)
		case '\f':
			b.WriteString(`\f`)
		default:
			if r < 0x20 {
				fmt.Fprintf(&b, `\u%04x`, r)
			} else {
				b.WriteRune(r)
			}
		}
	}
	b.WriteByte('"')
	return b.String()
}

// ValueText renders a literal value in GraphQL syntax.
func ValueText(v interface{}) string {
	switch t := v.(type) {
	case nil:
		return "null"
	case bool:
		if t {
			return "true"
		}
		return "false"
	case int:
		return fmt.Sprint(t)
	case int64:
		return fmt.Sprint(t)
	case float64:
		s := fmt.Sprintf("%v", t)
		if !strings.ContainsAny(s, ".eE") {
			s += ".0"
		}
		return s
	case string:
		return QuoteString(t)
	case Sym:
		return string(t)
	case VarRef:
		return "$" + string(t)
	case RawLit:
		return t.Text
	case []interface{}:
		parts := make([]string, len(t))
		for i, e := range t {
			parts[i] = ValueText(e)
		}
		return "[" + strings.Join(parts, ", ") + "]"
	case *ObjLit:
		parts := make([]string, 0, len(t.Keys))
		for _, k := range t.Keys {
			parts = append(parts, k+": "+ValueText(t.Vals[k]))
		}
		return "{" + strings.Join(parts, ", ") + "}"
	}
	return fmt.Sprintf("%v", v)
}

func dirsText(ds []DirUse) string {
	var b strings.Builder
	for _, d := range ds {
		b.WriteString(" @" + d.Name)
		if len(d.Args) > 0 {
			b.WriteByte('(')
			for i, a := range d.Args {
				if i > 0 {
					b.WriteString(", ")
				}
				b.WriteString(a.Name + ": " + ValueText(a.Value))
			}
			b.WriteByte(')')
		}
	}
	return b.String()
}

func descText(ind, d string, block bool) string {
	if d == "" {
		return ""
	}
	if block && !strings.Contains(d, `"""`) && !strings.Contains(d, `\`) {
		return ind + `"""` + "\n" + ind + strings.ReplaceAll(d, "\n", "\n"+ind) + "\n" + ind + `"""` + "\n"
	}
	return ind + QuoteString(d) + "\n"
}

func argDefsText(args []*ArgDef, o SDLOpts) string {
	if len(args) == 0 {
		return ""
	}
	parts := make([]string, len(args))
	for i, a := range args {
		s := ""
		if a.Desc != "" {
			s = QuoteString(a.Desc) + " "
		}
		s += a.Name + ": " + a.Type.String()
		if a.HasDefault {
			s += " = " + ValueText(a.Default)
		}
		s += dirsText(a.Dirs)
		parts[i] = s
	}
	return "(" + strings.Join(parts, ", ") + ")"
}

// FieldSDL prints one field definition line (no trailing newline).
func FieldSDL(f *FieldDef, o SDLOpts) string {
	return f.Name + argDefsText(f.Args, o) + ": " + f.Type.String() + dirsText(f.Dirs)
}

// TypeSDL prints one type definition; extend selects the `extend` form.
func TypeSDL(t *TypeDef, o SDLOpts, extend bool) string {
	var b strings.Builder
	if !extend {
		b.WriteString(descText("", t.Desc, o.BlockDesc))
	} else {
		b.WriteString("extend ")
	}
	switch t.Kind {
	case Scalar:
		b.WriteString("scalar " + t.Name + dirsText(t.Dirs) + "\n")
	case Object, Interface:
		if t.Kind == Object {
			b.WriteString("type " + t.Name)
			if len(t.Interfaces) > 0 {
				b.WriteString(" implements " + strings.Join(t.Interfaces, " & "))
			}
		} else {
			b.WriteString("interface " + t.Name)
		}
		b.WriteString(dirsText(t.Dirs) + " {\n")
		for _, f := range t.Fields {
			b.WriteString(descText("  ", f.Desc, o.BlockDesc))
			b.WriteString("  " + FieldSDL(f, o) + "\n")
		}
		b.WriteString("}\n")
	case Union:
		b.WriteString("union " + t.Name + dirsText(t.Dirs) + " = " + strings.Join(t.Members, " | ") + "\n")
	case Enum:
		b.WriteString("enum " + t.Name + dirsText(t.Dirs) + " {\n")
		for _, v := range t.Values {
			b.WriteString(descText("  ", v.Desc, o.BlockDesc))
			b.WriteString("  " + v.Name + dirsText(v.Dirs) + "\n")
		}
		b.WriteString("}\n")
	case Input:
		b.WriteString("input " + t.Name + dirsText(t.Dirs) + " {\n")
		for _, f := range t.Inputs {
			b.WriteString(descText("  ", f.Desc, o.BlockDesc))
			s := "  " + f.Name + ": " + f.Type.String()
			if f.HasDefault {
				s += " = " + ValueText(f.Default)
			}
			b.WriteString(s + dirsText(f.Dirs) + "\n")
		}
		b.WriteString("}\n")
	}
	return b.String()
}

// DirSDL prints a directive definition.
func DirSDL(d *DirDef, o SDLOpts) string {
	return descText("", d.Desc, o.BlockDesc) + "directive @" + d.Name + argDefsText(d.Args, o) + " on " + strings.Join(d.On, " | ") + "\n"
}

// SchemaBlockSDL prints the schema { } block.
func (s *Schema) SchemaBlockSDL(o SDLOpts) string {
	var b strings.Builder
	b.WriteString(descText("", s.SchemaDesc, o.BlockDesc))
	b.WriteString("schema {\n")
	if s.Query != "" {
		b.WriteString("  query: " + s.Query + "\n")
	}
	if s.Mutation != "" {
		b.WriteString("  mutation: " + s.Mutation + "\n")
	}
	if s.Subscription != "" {
		b.WriteString("  subscription: " + s.Subscription + "\n")
	}
	b.WriteString("}\n")
	return b.String()
}

// SDL prints the whole schema in definition order.
func (s *Schema) SDL(o SDLOpts) string {
	var b strings.Builder
	if s.ExplicitSchema {
		b.WriteString(s.SchemaBlockSDL(o))
		b.WriteString("\n")
	}
	for _, d := range s.Dirs {
		b.WriteString(DirSDL(d, o))
		b.WriteString("\n")
	}
	for _, t := range s.Types {
		b.WriteString(TypeSDL(t, o, false))
		b.WriteString("\n")
	}
	return b.String()
}
