package model

// Node is one object of the neutral data graph.
type Node struct {
	ID   int
	Type string
	// F maps a field name to its value: nil (null), *Node, VList, or any other
	// Go value (a leaf as the resolver returns it).
	F map[string]interface{}
}

// VList is a list value of the data graph.
type VList []interface{}

// Graph is a data graph with its root (the query root object).
type Graph struct {
	Root  *Node
	Nodes []*Node
}

// CallKey identifies one resolver invocation independent of strategy: the
// n-th (Occ) call for (node, field name, response key).
type CallKey struct {
	Node  int
	Field string
	Key   string
	Occ   int
}

// Fault describes how an invocation fails.
type Fault struct {
	Kind string // "error" plain error; "group" ggql.Errors of N members; "gerror" *ggql.Error with extensions; "sentinel" one shared *ggql.Error instance; "foreign" an error of ggql's own parser for another text (N: 0 bare, 1 wrapped, 2 in a group); "nth" list accessor failure at element N
	N    int
}

// FaultPlan maps invocations to faults.
type FaultPlan map[CallKey]Fault

// TypedNil is a null object written the Go way: a typed nil pointer of the
// strategy's object type (the reference treats it as null).
type TypedNil struct{ Type string }

// VUnordered is a list value whose order the statement leaves open: the reference
// completes it like a list and compares it as a multiset.
type VUnordered VList
