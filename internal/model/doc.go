package model

import (
	"strings"
)

// Sel is a selection: *Field, *Inline or *Spread.
type Sel interface{ isSel() }

// Field selection.
type Field struct {
	Alias string
	Name  string
	Args  []Arg
	Dirs  []DirUse
	Sels  []Sel
	// Pos is filled by the printer: 1-based line/column of the first token (alias or name).
	Line, Col int
	// NameLine/NameCol: position of the field name token (differs from Line/Col with an alias).
	NameLine, NameCol int
	// ID is a unique number of this node within the document (assigned by the generator).
	ID int
}

// Inline fragment. Cond == "" means no type condition.
type Inline struct {
	Cond      string
	Dirs      []DirUse
	Sels      []Sel
	Line, Col int
}

// Spread of a named fragment.
type Spread struct {
	Name      string
	Dirs      []DirUse
	Line, Col int // of the "..." token
	NameLine  int
	NameCol   int
}

func (*Field) isSel()  {}
func (*Inline) isSel() {}
func (*Spread) isSel() {}

// Key is the response key.
func (f *Field) Key() string {
	if f.Alias != "" {
		return f.Alias
	}
	return f.Name
}

// VarDef is a variable definition.
type VarDef struct {
	Name       string
	Type       *TypeRef
	HasDefault bool
	Default    interface{}
}

// Op is an operation.
type Op struct {
	Kind      string // query | mutation | subscription
	Name      string
	Shorthand bool // anonymous `{ ... }` form
	Vars      []*VarDef
	Dirs      []DirUse
	Sels      []Sel
	Line, Col int
}

// FragDef is a named fragment definition.
type FragDef struct {
	Name string
	Cond string
	Dirs []DirUse
	Sels []Sel
}

// Doc is an executable document; Order interleaves ops and fragments ("o0","f1",...).
type Doc struct {
	Ops   []*Op
	Frags []*FragDef
	// FragsFirst prints fragment definitions before the operations.
	FragsFirst bool
}

func (d *Doc) Frag(n string) *FragDef {
	for _, f := range d.Frags {
		if f.Name == n {
			return f
		}
	}
	return nil
}

// Layout selects how a document is printed.
type Layout struct {
	Mode     int  // 0 single line, 1 one selection per line (indented), 2 one token per line
	CRLF     bool // line ends are \r\n
	Commas   bool // commas between selections and arguments
	Comments bool // sprinkle comments (forces newlines after them)
	BOM      bool
	Tabs     bool
}

// LayoutCount is the number of distinct layouts LayoutN produces.
const LayoutCount = 12

// LayoutN enumerates a fixed catalogue of layouts.
func LayoutN(i int) Layout {
	i = ((i % LayoutCount) + LayoutCount) % LayoutCount
	switch i {
	case 0:
		return Layout{Mode: 0}
	case 1:
		return Layout{Mode: 1}
	case 2:
		return Layout{Mode: 2}
	case 3:
		return Layout{Mode: 1, CRLF: true}
	case 4:
		return Layout{Mode: 0, Commas: true}
	case 5:
		return Layout{Mode: 1, Comments: true}
	case 6:
		return Layout{Mode: 1, Commas: true, Tabs: true}
	case 7:
		return Layout{Mode: 2, CRLF: true, Commas: true}
	case 8:
		return Layout{Mode: 0, BOM: true}
	case 9:
		return Layout{Mode: 2, Comments: true}
	case 10:
		return Layout{Mode: 1, BOM: true, CRLF: true, Comments: true}
	default:
		return Layout{Mode: 1, Tabs: true}
	}
}

type printer struct {
	b         strings.Builder
	lay       Layout
	line, col int
	depth     int
	n         int
}

func (p *printer) raw(s string) {
	for i := 0; i < len(s); i++ {
		c := s[i]
		p.b.WriteByte(c)
		if c == '\n' {
			p.line++
			p.col = 1
		} else {
			p.col++
		}
	}
}

func (p *printer) nl() {
	if p.lay.CRLF {
		p.raw("\r\n")
	} else {
		p.raw("\n")
	}
}

// sep separates two tokens: a space in single-line mode, a newline (+ indent) otherwise.
func (p *printer) sep(structural bool) {
	switch {
	case p.lay.Mode == 2 || (p.lay.Mode == 1 && structural):
		if p.lay.Comments && structural {
			p.n++
			if p.n%3 == 0 {
				p.raw(" # c" + strings.Repeat("x", p.n%4))
			}
		}
		p.nl()
		ind := "  "
		if p.lay.Tabs {
			ind = "\t"
		}
		p.raw(strings.Repeat(ind, p.depth))
	default:
		p.raw(" ")
	}
}

func (p *printer) args(args []Arg) {
	if len(args) == 0 {
		return
	}
	p.raw("(")
	for i, a := range args {
		if i > 0 {
			if p.lay.Commas {
				p.raw(",")
			}
			p.sep(false)
		}
		p.raw(a.Name + ":")
		if p.lay.Mode != 2 {
			p.raw(" ")
		}
		p.raw(ValueText(a.Value))
	}
	p.raw(")")
}

func (p *printer) dirs(ds []DirUse) {
	for i, d := range ds {
		p.raw(" @" + d.Name)
		if len(d.Args) > 0 && (p.lay.Mode == 2 || p.lay.Comments) && (i+len(d.Name))%2 == 0 {
			// ignored tokens between a directive's name and its arguments: a line break (token-per-line layouts) or a blank
			if p.lay.Mode == 2 {
				p.sep(false)
			} else {
				p.raw(" ")
			}
		}
		p.args(d.Args)
	}
}

func (p *printer) sels(sels []Sel) {
	if len(sels) == 0 {
		return
	}
	if p.lay.Mode == 2 {
		p.sep(false)
	} else {
		p.raw(" ")
	}
	p.raw("{")
	p.depth++
	for i, s := range sels {
		if i > 0 && p.lay.Commas {
			p.raw(",")
		}
		p.sep(true)
		p.one(s)
	}
	p.depth--
	p.sep(true)
	p.raw("}")
}

func (p *printer) op(o *Op) {
	o.Line, o.Col = p.line, p.col
	if !o.Shorthand {
		p.raw(o.Kind)
		if o.Name != "" {
			p.raw(" " + o.Name)
		}
		if len(o.Vars) > 0 {
			p.raw("(")
			for i, v := range o.Vars {
				if i > 0 {
					if p.lay.Commas {
						p.raw(",")
					}
					p.sep(false)
				}
				if p.lay.Mode == 2 {
					// one token per line: the variable's name ends its line
					p.raw("$" + v.Name)
					p.sep(false)
					p.raw(": " + v.Type.String())
				} else {
					p.raw("$" + v.Name + ": " + v.Type.String())
				}
				if v.HasDefault {
					p.raw(" = " + ValueText(v.Default))
				}
			}
			p.raw(")")
		}
		p.dirs(o.Dirs)
		p.sels(o.Sels)
	}
}

// Print renders the document in the given layout and records token positions
// in the nodes. It returns the text.
func (d *Doc) Print(lay Layout) string {
	p := &printer{lay: lay, line: 1, col: 1}
	if lay.BOM {
		p.b.WriteString("\xef\xbb\xbf")
		// ggql counts the BOM bytes as columns; positions are compared by line only when a BOM is present on line 1
		p.col += 3
	}
	emitFrag := func(f *FragDef) {
		p.raw("fragment " + f.Name + " on " + f.Cond)
		p.dirs(f.Dirs)
		p.sels(f.Sels)
		p.nl()
	}
	if d.FragsFirst {
		for _, f := range d.Frags {
			emitFrag(f)
		}
	}
	for _, o := range d.Ops {
		if o.Shorthand {
			// write "query" implicitly: emit the selection set with the brace first
			o.Line, o.Col = p.line, p.col
			p.raw("{")
			p.depth++
			for i, s := range o.Sels {
				if i > 0 && lay.Commas {
					p.raw(",")
				}
				p.sep(true)
				p.one(s)
			}
			p.depth--
			p.sep(true)
			p.raw("}")
		} else {
			p.op(o)
		}
		p.nl()
	}
	if !d.FragsFirst {
		for _, f := range d.Frags {
			emitFrag(f)
		}
	}
	return p.b.String()
}

func (p *printer) one(s Sel) {
	switch t := s.(type) {
	case *Field:
		t.Line, t.Col = p.line, p.col
		if t.Alias != "" {
			p.raw(t.Alias + ":")
			if p.lay.Mode == 2 {
				p.sep(false)
			} else {
				p.raw(" ")
			}
		}
		t.NameLine, t.NameCol = p.line, p.col
		p.raw(t.Name)
		p.args(t.Args)
		p.dirs(t.Dirs)
		p.sels(t.Sels)
	case *Inline:
		t.Line, t.Col = p.line, p.col
		p.raw("...")
		if t.Cond != "" {
			p.raw(" on " + t.Cond)
		}
		p.dirs(t.Dirs)
		p.sels(t.Sels)
	case *Spread:
		t.Line, t.Col = p.line, p.col
		p.raw("...")
		t.NameLine, t.NameCol = p.line, p.col
		p.raw(t.Name)
		p.dirs(t.Dirs)
	}
}

// Walk visits every selection of a selection list (not following spreads).
func Walk(sels []Sel, f func(s Sel, parent *[]Sel, idx int)) {
	for i, s := range sels {
		f(s, &sels, i)
		switch t := s.(type) {
		case *Field:
			Walk(t.Sels, f)
		case *Inline:
			Walk(t.Sels, f)
		}
	}
}

// AllSelLists returns pointers to every selection list in the document.
func (d *Doc) AllSelLists() []*[]Sel {
	var out []*[]Sel
	var rec func(l *[]Sel)
	rec = func(l *[]Sel) {
		out = append(out, l)
		for _, s := range *l {
			switch t := s.(type) {
			case *Field:
				if len(t.Sels) > 0 {
					rec(&t.Sels)
				}
			case *Inline:
				rec(&t.Sels)
			}
		}
	}
	for _, o := range d.Ops {
		rec(&o.Sels)
	}
	for _, f := range d.Frags {
		rec(&f.Sels)
	}
	return out
}
