// Package beasts holds Go types whose import path has a dot in an element before the last one (like gopkg.in/yaml.v2 or
// any github.com/... path): the full-path form of the @go directive names them as "<import path>.<Type>".
package beasts

// HairyOne serves the object type Yak.
type HairyOne struct {
	Name string
	Hair int
}

// TallBird serves the object type Emu.
type TallBird struct {
	Name  string
	Speed int
}

// Query is the root operation type.
type Query struct {
	Beasts []interface{}
	Any    []interface{}
	Beast  interface{}
	One    interface{}
}

// Schema is the root value.
type Schema struct{ Query *Query }
