// Package back serves the neutral data graph through ggql's resolver
// strategies and records every resolver invocation (the client boundary).
package back

import (
	"errors"
	"fmt"
	"reflect"
	"strings"
	"sync"
	"time"
	"unicode"

	"github.com/uhn/ggql/pkg/ggql"

	"verif/internal/model"
	"verif/internal/ref"
)

// Strategy of a node.
type Strategy int

const (
	Iface Strategy = iota
	Any
	Reflect
)

func (s Strategy) String() string { return [...]string{"iface", "any", "reflect"}[s] }

// Call is one observed resolver invocation.
type Call struct {
	Key      model.CallKey
	Strategy Strategy
	Raw      map[string]interface{} // deep copy of the args map as received
	Args     map[string]interface{} // canonical form
	NilArgs  bool
}

// Harness owns one root and the monitors attached to its resolvers.
type Harness struct {
	Kind  string
	S     *model.Schema
	G     *model.Graph
	Root  *ggql.Root
	Plan  model.FaultPlan
	Strat func(n *model.Node) Strategy
	// ListMode: 0 plain []interface{}, 1 accessor lists (ListResolver / AnyResolver.Nth), 2 alternate by node id
	ListMode int
	// AllOcc: a planted fault fires at EVERY call with its (node, field, key), not only at the planned occurrence; what a
	// request sees then does not depend on how many other requests the harness has served (concurrent workloads)
	AllOcc bool

	mu    sync.Mutex
	occ   map[model.CallKey]int
	Calls []Call
	// NthCalls counts list accessor invocations.
	NthCalls int

	// StaticTypes, when set, are the (named) Go struct types used for the reflection strategy instead of
	// dynamically built ones; NoRegister leaves their binding to ggql's auto-discovery (by name / @go).
	StaticTypes map[string]reflect.Type
	NoRegister  bool
	// TypedSlices makes reflection objects hold lists of same-typed objects as typed Go slices ([]*T).
	TypedSlices bool

	objs    map[int]interface{}
	ptrNode map[interface{}]*model.Node
	rtypes  map[string]reflect.Type
	rtypes2 map[string]reflect.Type      // second, unregistered Go type of some object types (fields in another order)
	renamed map[string]map[string]string // GraphQL type -> field -> Go field name bound with RegisterField
	regID   int64                        // key of this harness in the hydration registry (0: not registered)
	rootObj interface{}
	hasAny  bool
}

// Kinds lists the back-end kinds Build understands.
var Kinds = []string{"iface", "any", "reflect", "mixed-any", "mixed-reflect"}

// AllKinds adds the precedence back-end: reflection-capable structs with an AnyResolver installed.
var AllKinds = []string{"iface", "any", "reflect", "mixed-any", "mixed-reflect", "any-over-reflect"}

// SentinelErr is the shared *ggql.Error instance of the "sentinel" fault kind.
var SentinelErr = &ggql.Error{Base: fmt.Errorf("%w: %w (shared sentinel instance)", ggql.ErrResolve, ErrInjected)}

// ErrInjected is the base of every injected failure.
var ErrInjected = errors.New("injected failure")

// Opts tunes BuildOpts.
type Opts struct {
	StaticTypes map[string]reflect.Type
	NoRegister  bool
	TypedSlices bool
	Strat       func(n *model.Node) Strategy // overrides the kind's assignment
}

// Build creates a root for the schema text and binds the graph under the
// chosen back-end kind.
func Build(kind string, s *model.Schema, sdl string, g *model.Graph) (*Harness, error) {
	return BuildOpts(kind, s, sdl, g, Opts{TypedSlices: true})
}

// BuildOpts is Build with options.
func BuildOpts(kind string, s *model.Schema, sdl string, g *model.Graph, o Opts) (*Harness, error) {
	h := &Harness{Kind: kind, S: s, G: g, occ: map[model.CallKey]int{}, objs: map[int]interface{}{}, ListMode: 2,
		StaticTypes: o.StaticTypes, NoRegister: o.NoRegister, TypedSlices: o.TypedSlices}
	switch kind {
	case "iface":
		h.Strat = func(*model.Node) Strategy { return Iface }
	case "any":
		h.Strat = func(*model.Node) Strategy { return Any }
		h.hasAny = true
	case "reflect":
		h.Strat = func(*model.Node) Strategy { return Reflect }
	case "mixed-any":
		h.Strat = func(n *model.Node) Strategy {
			if n.ID%2 == 1 {
				return Iface
			}
			return Any
		}
		h.hasAny = true
	case "mixed-reflect":
		h.Strat = func(n *model.Node) Strategy {
			if n.ID%2 == 1 {
				return Iface
			}
			return Reflect
		}
	case "any-over-reflect":
		// objects are reflection-capable structs (and every third one an interface resolver),
		// but an AnyResolver is installed: it must be preferred over reflection
		h.Strat = func(n *model.Node) Strategy {
			if n.ID%3 == 1 {
				return Iface
			}
			return Reflect
		}
		h.hasAny = true
	default:
		return nil, fmt.Errorf("unknown back-end %s", kind)
	}
	if o.Strat != nil {
		h.Strat = o.Strat
	}
	needReflect := kind == "reflect" || kind == "mixed-reflect" || kind == "any-over-reflect"
	h.ptrNode = map[interface{}]*model.Node{}
	if needReflect {
		h.buildTypes()
	}
	h.rootObj = h.obj(g.Root)
	root := ggql.NewRoot(h.rootObj)
	if h.hasAny {
		root.AnyResolver = (*anyRes)(h)
	}
	if err := root.ParseString(sdl); err != nil {
		return nil, fmt.Errorf("schema rejected: %w", err)
	}
	h.Root = root
	if needReflect {
		if err := h.register(); err != nil {
			return nil, err
		}
	}
	return h, nil
}

// Prebuild creates the application objects of all nodes now, on the calling goroutine. Objects are otherwise made when a
// resolver first hands them out, which is the harness's own business and must not happen inside a concurrent workload
// (a reflection object is published to the harness's table before its fields are filled in).
func (h *Harness) Prebuild() {
	for _, n := range h.G.Nodes {
		if n != h.G.Root {
			h.obj(n)
		}
	}
}

// Reset clears the call log and installs a fault plan.
func (h *Harness) Reset(plan model.FaultPlan) {
	h.mu.Lock()
	h.Plan = plan
	h.occ = map[model.CallKey]int{}
	h.Calls = nil
	h.NthCalls = 0
	h.mu.Unlock()
}

// ---------------------------------------------------------------- shared resolver body

func deepCopy(v interface{}) interface{} {
	switch t := v.(type) {
	case map[string]interface{}:
		o := make(map[string]interface{}, len(t))
		for k, e := range t {
			o[k] = deepCopy(e)
		}
		return o
	case []interface{}:
		o := make([]interface{}, len(t))
		for i, e := range t {
			o[i] = deepCopy(e)
		}
		return o
	}
	return v
}

func (h *Harness) resolve(n *model.Node, st Strategy, field *ggql.Field, args map[string]interface{}) (interface{}, error) {
	key := field.Alias
	if key == "" {
		key = field.Name
	}
	h.mu.Lock()
	base := model.CallKey{Node: n.ID, Field: field.Name, Key: key}
	occ := h.occ[base]
	h.occ[base] = occ + 1
	base.Occ = occ
	var raw map[string]interface{}
	if args != nil {
		raw = deepCopy(args).(map[string]interface{})
	}
	canon, _ := ref.Canon(raw).(map[string]interface{})
	if canon == nil {
		canon = map[string]interface{}{}
	}
	h.Calls = append(h.Calls, Call{Key: base, Strategy: st, Raw: raw, Args: canon, NilArgs: args == nil})
	look := base
	if h.AllOcc {
		look.Occ = 0
	}
	flt, bad := h.Plan[look]
	h.mu.Unlock()
	if bad && flt.Kind == "panic" {
		// application code that panics: the caller of ggql recovers; whatever ggql was in the middle of must not stick
		panic(fmt.Sprintf("injected resolver panic at node %d field %s", base.Node, base.Field))
	}
	if bad && flt.Kind != "nth" {
		return nil, makeErr(flt, base)
	}
	td := h.S.Type(n.Type)
	var fd *model.FieldDef
	if td != nil {
		fd = td.Field(field.Name)
	}
	if fd != nil && fd.Echo {
		// only the arguments the request supplied with a non-nil value are rendered
		shown := map[string]interface{}{}
		for k, v := range canon {
			shown[k] = v
		}
		return ref.EchoText(field.Name, shown), nil
	}
	v, has := n.F[field.Name]
	if !has {
		if n == h.G.Root {
			return nil, nil
		}
		return nil, fmt.Errorf("harness: node %d (%s) has no field %s", n.ID, n.Type, field.Name)
	}
	nth := -1
	if bad && flt.Kind == "nth" {
		nth = flt.N
	}
	return h.conv(v, n, nth), nil
}

func makeErr(f model.Fault, k model.CallKey) error {
	switch f.Kind {
	case "group":
		var es ggql.Errors
		for i := 0; i < f.N; i++ {
			if i == 2 {
				// the same error VALUE a second time (a sentinel of the application reported for two items): two members
				es = append(es, es[0])
				continue
			}
			es = append(es, fmt.Errorf("%w #%d in group at node %d field %s", ErrInjected, i, k.Node, k.Field))
		}
		return es
	case "wgroup":
		// a group of errors handed up with context wrapped around it: still one entry per member
		var es ggql.Errors
		for i := 0; i < f.N; i++ {
			if i == 1 {
				// a member that wraps an earlier member (the same cause met again further down) is a member of its own
				es = append(es, fmt.Errorf("again for the next item: %w", es[0]))
				continue
			}
			es = append(es, fmt.Errorf("%w #%d in wrapped group at node %d field %s", ErrInjected, i, k.Node, k.Field))
		}
		return fmt.Errorf("loading batch: %w", es)
	case "ngroup":
		// groups inside a group: {{e0..eN-1}, {eN}, eN+1} - one entry per leaf member, N+2 in all
		var in ggql.Errors
		for i := 0; i < f.N; i++ {
			in = append(in, fmt.Errorf("%w #%d in nested group at node %d field %s", ErrInjected, i, k.Node, k.Field))
		}
		return ggql.Errors{in,
			ggql.Errors{fmt.Errorf("%w #%d in nested group at node %d field %s", ErrInjected, f.N, k.Node, k.Field)},
			fmt.Errorf("%w #%d in nested group at node %d field %s", ErrInjected, f.N+1, k.Node, k.Field)}
	case "gerror":
		return &ggql.Error{Base: fmt.Errorf("%w (ggql.Error) at node %d field %s", ErrInjected, k.Node, k.Field),
			Extensions: map[string]interface{}{"code": "INJECTED"}}
	case "foreign":
		// an error produced by ggql's own parser for ANOTHER text (many lines): its line/column mean nothing in the request
		_, perr := ggql.ParseValueString("{\n\n\n\n\n\n  a: [1,\n\n\n   }")
		if perr == nil {
			perr = fmt.Errorf("%w: foreign text unexpectedly parsed", ErrInjected)
		}
		switch f.N {
		case 1:
			return fmt.Errorf("%w while reading a nested document: %w", ErrInjected, perr)
		case 2:
			return ggql.Errors{perr}
		}
		return perr
	case "plainresolve":
		// a plain Go error (no *ggql.Error) that wraps the exported ErrResolve: what a gateway resolver hands on when the
		// downstream root refused its request before running it. It is an error of THIS field like any other
		return fmt.Errorf("downstream: %w, could not determine operation to evaluate (node %d field %s)", ggql.ErrResolve, k.Node, k.Field)
	case "sentinel":
		// an application-owned error VALUE built once with the public ErrResolve and returned by every failing site,
		// in every request: whatever ggql does with it must not accumulate on the instance
		return SentinelErr
	}
	return fmt.Errorf("%w at node %d field %s", ErrInjected, k.Node, k.Field)
}

// conv turns a data graph value into what a resolver of the owner's strategy returns.
func (h *Harness) conv(v interface{}, owner *model.Node, nth int) interface{} {
	switch t := v.(type) {
	case nil:
		return nil
	case *model.Node:
		if t == nil {
			return nil
		}
		return h.obj(t)
	case model.TypedNil:
		switch h.Strat(&model.Node{ID: owner.ID + 1}) {
		case Iface:
			return (*ifNode)(nil)
		case Any:
			return (*anyNode)(nil)
		default:
			if rt := h.rtypes[t.Type]; rt != nil {
				return reflect.Zero(reflect.PtrTo(rt)).Interface()
			}
			return (*ifNode)(nil)
		}
	case model.VList:
		items := make([]interface{}, len(t))
		for i, e := range t {
			items[i] = h.conv(e, owner, -1)
		}
		accessor := h.ListMode == 1 || (h.ListMode == 2 && owner.ID%2 == 0) || nth >= 0
		if !accessor {
			if ts := basicTypedSlice(items); ts != nil && (owner.ID+len(items))%3 == 0 {
				// a homogeneous leaf list held as a typed Go slice of a basic kind ([]string, []int64, ...): ggql walks these
				// itself under every strategy, a root resolver never has to know them
				return ts
			}
			return items
		}
		if nth < 0 && owner.ID%3 == 1 && len(t) > 0 {
			// a list of objects kept as a NAMED slice of a basic kind (keys) whose accessor hydrates each element: it must
			// go through the ListResolver / AnyResolver accessors, never be flattened into its raw elements
			allNodes := true
			for _, e := range t {
				if n, isN := e.(*model.Node); e != nil && (!isN || n == nil) {
					allNodes = false
				}
			}
			if allNodes {
				hid := h.registryID()
				if h.hasAny && len(t)%2 == 0 {
					// (with a root resolver installed every other such list still is a ListResolver: the root resolver
					// could count and index it, as a slice, but the list's own accessors take precedence)
					refs := make(AnyRefList, len(t))
					for i, e := range t {
						if e != nil {
							refs[i] = fmt.Sprintf("%d:%d", hid, e.(*model.Node).ID)
						}
					}
					return refs
				}
				refs := make(RefList, len(t))
				for i, e := range t {
					if e != nil {
						refs[i] = fmt.Sprintf("%d:%d", hid, e.(*model.Node).ID)
					}
				}
				return refs
			}
		}
		if h.hasAny {
			return &anyList{items: items, failAt: nth}
		}
		if nth >= 0 {
			return &ifList{h: h, items: items} // ListResolver.Nth has no error channel; nth faults only exist with AnyResolver
		}
		return &ifList{h: h, items: items}
	}
	return v
}

func (h *Harness) obj(n *model.Node) interface{} {
	h.mu.Lock()
	o, has := h.objs[n.ID]
	h.mu.Unlock()
	if has {
		return o
	}
	switch h.Strat(n) {
	case Iface:
		o = &ifNode{h: h, n: n}
	case Any:
		o = &anyNode{n: n}
	case Reflect:
		return h.reflectObj(n)
	}
	h.mu.Lock()
	h.objs[n.ID] = o
	h.mu.Unlock()
	return o
}

// ---------------------------------------------------------------- interface strategy

type ifNode struct {
	h *Harness
	n *model.Node
}

func (o *ifNode) Resolve(field *ggql.Field, args map[string]interface{}) (interface{}, error) {
	return o.h.resolve(o.n, Iface, field, args)
}

type ifList struct {
	h     *Harness
	items []interface{}
}

func (l *ifList) Len() int { return len(l.items) }
func (l *ifList) Nth(i int) interface{} {
	l.h.mu.Lock()
	l.h.NthCalls++
	l.h.mu.Unlock()
	return l.items[i]
}

// RefList is a list of objects stored as keys; it implements ggql.ListResolver and hydrates on access.
type RefList []string

// AnyRefList is the same for the AnyResolver (no methods: ggql has to hand it to AnyResolver.Len/Nth).
type AnyRefList []string

// The hydration registry maps the id inside a key to its harness. Only the most recent harnesses are kept (a case never
// uses more than a handful at a time), so long runs do not accumulate them.
var (
	harnessRegMu sync.Mutex
	harnessReg   = map[int64]*Harness{}
	harnessRegID int64
)

const harnessRegKeep = 512

func (h *Harness) registryID() int64 {
	h.mu.Lock()
	defer h.mu.Unlock()
	if h.regID == 0 {
		harnessRegMu.Lock()
		harnessRegID++
		h.regID = harnessRegID
		harnessReg[h.regID] = h
		delete(harnessReg, h.regID-harnessRegKeep)
		harnessRegMu.Unlock()
	}
	return h.regID
}

func hydrate(ref string) interface{} {
	if ref == "" {
		return nil
	}
	var hid int64
	var nid int
	if _, err := fmt.Sscanf(ref, "%d:%d", &hid, &nid); err != nil {
		return nil
	}
	harnessRegMu.Lock()
	h := harnessReg[hid]
	harnessRegMu.Unlock()
	if h == nil {
		return nil
	}
	if nid < 0 || nid >= len(h.G.Nodes) {
		return nil
	}
	return h.obj(h.G.Nodes[nid])
}

func (l RefList) Len() int { return len(l) }
func (l RefList) Nth(i int) interface{} {
	return hydrate(l[i])
}

// ---------------------------------------------------------------- any strategy

type anyNode struct{ n *model.Node }

type anyList struct {
	items  []interface{}
	failAt int
}

type anyRes Harness

func (a *anyRes) Resolve(obj interface{}, field *ggql.Field, args map[string]interface{}) (interface{}, error) {
	h := (*Harness)(a)
	switch t := obj.(type) {
	case *anyNode:
		return h.resolve(t.n, Any, field, args)
	case *ifNode:
		// a Resolver object handed to the AnyResolver: recorded with strategy Any so the precedence monitor sees it
		return h.resolve(t.n, Any, field, args)
	}
	h.mu.Lock()
	n := h.ptrNode[obj]
	h.mu.Unlock()
	if n != nil {
		return h.resolve(n, Any, field, args)
	}
	return nil, fmt.Errorf("harness: AnyResolver got a %T for field %s", obj, field.Name)
}

func (a *anyRes) Len(list interface{}) int {
	if l, isL := list.(*anyList); isL {
		return len(l.items)
	}
	if l, isL := list.(AnyRefList); isL {
		return len(l)
	}
	switch list.(type) {
	case []string, []int, []int64, []bool, []float32, []float64, []time.Time:
		// slices ggql walks itself under every strategy (documented dispatch order): an application's root resolver is
		// written for its own list types and answers "not a list of mine" for these
		return 0
	}
	rv := reflect.ValueOf(list)
	if rv.Kind() == reflect.Slice {
		return rv.Len()
	}
	return 0
}

func (a *anyRes) Nth(list interface{}, i int) (interface{}, error) {
	h := (*Harness)(a)
	h.mu.Lock()
	h.NthCalls++
	h.mu.Unlock()
	if l, isL := list.(*anyList); isL {
		if i == l.failAt {
			return nil, fmt.Errorf("%w in list accessor at index %d", ErrInjected, i)
		}
		return l.items[i], nil
	}
	if l, isL := list.(AnyRefList); isL {
		return hydrate(l[i]), nil
	}
	rv := reflect.ValueOf(list)
	if rv.Kind() == reflect.Slice && i < rv.Len() {
		return rv.Index(i).Interface(), nil
	}
	return nil, fmt.Errorf("harness: not a list %T", list)
}

// ---------------------------------------------------------------- reflection strategy (dynamic struct types)

// GoFieldName is the exported Go field name bound to a GraphQL field name.
func GoFieldName(gql string) string {
	r := []rune(gql)
	r[0] = unicode.ToUpper(r[0])
	return string(r)
}

// ReflectFriendly reports whether every object field name can be bound to an exported Go field.
func ReflectFriendly(s *model.Schema) bool {
	for _, t := range s.Types {
		if t.Kind != model.Object {
			continue
		}
		seen := map[string]bool{}
		for _, f := range t.Fields {
			if f.Name == "" || !unicode.IsLetter(rune(f.Name[0])) {
				return false
			}
			l := strings.ToLower(f.Name)
			if seen[l] {
				return false
			}
			seen[l] = true
		}
	}
	return true
}

func (h *Harness) buildTypes() {
	h.rtypes = map[string]reflect.Type{}
	if h.StaticTypes != nil {
		for k, v := range h.StaticTypes {
			h.rtypes[k] = v
		}
		return
	}
	anyT := reflect.TypeOf((*interface{})(nil)).Elem()
	abstract := false
	for _, t := range h.S.Types {
		if t.Kind == model.Interface || t.Kind == model.Union {
			abstract = true // there the Go type decides the GraphQL type: one Go type per object type
		}
	}
	for i, t := range h.S.Types {
		if t.Kind != model.Object {
			continue
		}
		fields := make([]reflect.StructField, 0, len(t.Fields)+1)
		// a distinct marker field per type keeps struct types of equal shape distinct
		fields = append(fields, reflect.StructField{Name: fmt.Sprintf("Zz_%d_%s", i, sanitize(t.Name)), Type: reflect.TypeOf(struct{}{})})
		// every other type keeps the first half of its fields in an EMBEDDED struct: promoted fields are ordinary Go
		// and must be found by the reflection strategy like direct ones
		var emb []reflect.StructField
		for j, f := range t.Fields {
			goName := GoFieldName(f.Name)
			if i%3 == 2 && j == len(t.Fields)-1 && !h.NoRegister {
				// a Go field whose name does not follow the capitalisation rule: bound explicitly with RegisterField
				goName = "Rf" + sanitize(f.Name) + "Zz"
				if h.renamed == nil {
					h.renamed = map[string]map[string]string{}
				}
				if h.renamed[t.Name] == nil {
					h.renamed[t.Name] = map[string]string{}
				}
				h.renamed[t.Name][f.Name] = goName
			}
			sf := reflect.StructField{Name: goName, Type: anyT}
			if i%2 == 1 && len(t.Fields) >= 2 && j < len(t.Fields)/2 {
				emb = append(emb, sf)
			} else {
				fields = append(fields, sf)
			}
		}
		if len(emb) > 0 {
			fields = append(fields, reflect.StructField{Name: "EmbeddedZz", Type: reflect.StructOf(emb), Anonymous: true})
		}
		h.rtypes[t.Name] = reflect.StructOf(fields)
		defer func(t *model.TypeDef) {
			if t.GoAs != "" && h.rtypes[t.GoAs] != nil {
				h.rtypes[t.Name] = h.rtypes[t.GoAs]
			}
		}(t)
		if !abstract && i%4 == 3 && len(fields) > 2 {
			// a second Go struct type for the same GraphQL object type: same field names, opposite order, a marker of its
			// own. It is never registered; under object-typed positions reflection finds its fields by name all the same.
			rev := []reflect.StructField{{Name: fmt.Sprintf("Zy_%d_%s", i, sanitize(t.Name)), Type: reflect.TypeOf(struct{}{})}}
			for j := len(fields) - 1; j >= 1; j-- {
				rev = append(rev, fields[j])
			}
			if h.rtypes2 == nil {
				h.rtypes2 = map[string]reflect.Type{}
			}
			h.rtypes2[t.Name] = reflect.StructOf(rev)
		}
	}
}

func sanitize(s string) string {
	var b strings.Builder
	for _, r := range s {
		if unicode.IsLetter(r) || unicode.IsDigit(r) {
			b.WriteRune(r)
		}
	}
	return b.String()
}

// ReflRoot is the root object of the reflection back-ends: ggql asks it for
// the fields "query", "mutation" and "subscription".
type ReflRoot struct {
	Query        interface{}
	Mutation     interface{}
	Subscription interface{}
}

func (h *Harness) reflectObj(n *model.Node) interface{} {
	if n == h.G.Root {
		r := &ReflRoot{}
		h.mu.Lock()
		h.objs[n.ID] = r
		h.ptrNode[r] = n
		h.mu.Unlock()
		owner := &model.Node{ID: 1}
		r.Query = h.conv(n.F["query"], owner, -1)
		r.Mutation = h.conv(n.F["mutation"], owner, -1)
		r.Subscription = h.conv(n.F["subscription"], owner, -1)
		return r
	}
	rt := h.rtypes[n.Type]
	if rt == nil {
		return nil
	}
	if r2 := h.rtypes2[n.Type]; r2 != nil && n.ID%2 == 1 {
		rt = r2
	}
	pv := reflect.New(rt)
	o := pv.Interface()
	h.mu.Lock()
	if prev, has := h.objs[n.ID]; has {
		h.mu.Unlock()
		return prev
	}
	h.objs[n.ID] = o
	h.ptrNode[o] = n
	h.mu.Unlock()
	td := h.S.Type(n.Type)
	// structs embedded BY POINTER are allocated: their promoted fields are fields of the value like any other
	for i, st := 0, pv.Elem().Type(); st.Kind() == reflect.Struct && i < st.NumField(); i++ {
		if sf := st.Field(i); sf.Anonymous && sf.Type.Kind() == reflect.Ptr && sf.Type.Elem().Kind() == reflect.Struct && pv.Elem().Field(i).IsNil() {
			pv.Elem().Field(i).Set(reflect.New(sf.Type.Elem()))
		}
	}
	for _, f := range td.Fields {
		v, has := n.F[f.Name]
		if !has || v == nil {
			continue
		}
		cv := h.conv(v, &model.Node{ID: 1}, -1) // reflection lists are plain slices
		if cv == nil {
			continue
		}
		if h.TypedSlices && (n.ID%2 == 0 || f.Name == "selfList") {
			cv = typedSlice(cv)
		}
		goName := GoFieldName(f.Name)
		rnType := n.Type
		if td.GoAs != "" {
			rnType = td.GoAs // served by that type's Go struct, renamed fields included
		}
		if rn := h.renamed[rnType][f.Name]; rn != "" {
			goName = rn
		}
		pv.Elem().FieldByName(goName).Set(reflect.ValueOf(cv))
	}
	return o
}

// typedSlice turns a []interface{} whose elements are all non-nil pointers to one struct type into a []*T.
func typedSlice(v interface{}) interface{} {
	l, isL := v.([]interface{})
	if !isL || len(l) == 0 {
		return v
	}
	var et reflect.Type
	for _, e := range l {
		if e == nil {
			return v
		}
		t := reflect.TypeOf(e)
		if t.Kind() != reflect.Ptr || t.Elem().Kind() != reflect.Struct || (et != nil && t != et) {
			return v
		}
		et = t
	}
	out := reflect.MakeSlice(reflect.SliceOf(et), len(l), len(l))
	for i, e := range l {
		out.Index(i).Set(reflect.ValueOf(e))
	}
	return out.Interface()
}

// register binds every struct type to its GraphQL object type.
func (h *Harness) register() error {
	if h.NoRegister {
		return nil
	}
	for name, rt := range h.rtypes {
		if name == h.S.Query || name == h.S.Mutation || name == h.S.Subscription {
			// root operation types are bound too (they are ordinary objects)
		}
		if err := h.Root.RegisterType(reflect.New(rt).Interface(), name); err != nil {
			return fmt.Errorf("RegisterType(%s): %w", name, err)
		}
		rnType := name
		if td := h.S.Type(name); td != nil && td.GoAs != "" {
			rnType = td.GoAs
		}
		for gf, goName := range h.renamed[rnType] {
			if td := h.S.Type(name); td == nil || td.Field(gf) == nil {
				continue
			}
			if err := h.Root.RegisterField(name, gf, goName); err != nil {
				return fmt.Errorf("RegisterField(%s, %s, %s): %w", name, gf, goName, err)
			}
		}
	}
	return nil
}

// basicTypedSlice turns a non-empty list whose elements all have the same basic Go type (string, int, int64, bool,
// float32, float64, time.Time) into a typed slice of that type; nil otherwise.
func basicTypedSlice(items []interface{}) interface{} {
	if len(items) == 0 {
		return nil
	}
	switch items[0].(type) {
	case string, int, int64, bool, float32, float64, time.Time:
	default:
		return nil
	}
	rt := reflect.TypeOf(items[0])
	for _, e := range items {
		if e == nil || reflect.TypeOf(e) != rt {
			return nil
		}
	}
	out := reflect.MakeSlice(reflect.SliceOf(rt), len(items), len(items))
	for i, e := range items {
		out.Index(i).Set(reflect.ValueOf(e))
	}
	if ts, isT := out.Interface().([]time.Time); isT && len(ts)%2 == 1 {
		// a NAMED slice type whose elements are struct values that are leaves: no fast path of ggql's knows it, it is walked
		// by reflection
		return TimeList(ts)
	}
	return out.Interface()
}

// TimeList is an application's own list type of instants.
type TimeList []time.Time
