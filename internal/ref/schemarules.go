package ref

import (
	"fmt"
	"regexp"

	"verif/internal/model"
)

var nameRe = regexp.MustCompile(`^[_A-Za-z][_0-9A-Za-z]*$`)

func badName(n string) string {
	if !nameRe.MatchString(n) {
		return "ill-formed name"
	}
	if len(n) >= 2 && n[:2] == "__" {
		return "reserved name"
	}
	return ""
}

func isInputTypeName(s *model.Schema, n string) (bool, bool) {
	k, known := s.KindOf(n)
	if !known {
		return false, false
	}
	return k == model.Scalar || k == model.Enum || k == model.Input, true
}

func isOutputTypeName(s *model.Schema, n string) (bool, bool) {
	k, known := s.KindOf(n)
	if !known {
		return false, false
	}
	return k != model.Input, true
}

func typeEqual(a, b *model.TypeRef) bool { return a.String() == b.String() }

// isSubType: sub may stand where target is declared (interface field covariance).
func isSubType(s *model.Schema, target, sub *model.TypeRef) bool {
	if typeEqual(target, sub) {
		return true
	}
	if sub.NonNull && !target.NonNull {
		return isSubType(s, target, sub.Of)
	}
	if target.NonNull {
		return sub.NonNull && isSubType(s, target.Of, sub.Of)
	}
	if target.List {
		return sub.List && isSubType(s, target.Of, sub.Of)
	}
	if sub.List || sub.NonNull {
		return false
	}
	return s.Implements(sub.Name, target.Name)
}

// CheckSchema is the independent re-check of the type-system rules C13 lists.
// It returns one message per violated rule instance (empty = well-formed).
func CheckSchema(s *model.Schema) []string {
	var out []string
	bad := func(f string, a ...interface{}) { out = append(out, fmt.Sprintf(f, a...)) }
	seenT := map[string]bool{}
	dirLoc := func(where string, loc string, uses []model.DirUse) {
		for _, u := range uses {
			if u.Name == "deprecated" || u.Name == "go" || u.Name == "skip" || u.Name == "include" {
				// the directives every root has: what they declare is fixed
				declared := map[string]string{"deprecated": "reason", "go": "type", "skip": "if", "include": "if"}[u.Name]
				for _, a := range u.Args {
					if a.Name != declared {
						bad("%s: @%s has no argument %s", where, u.Name, a.Name)
					}
				}
				continue
			}
			d := s.Dir(u.Name)
			if d == nil {
				bad("%s: directive @%s is not defined", where, u.Name)
				continue
			}
			okLoc := false
			for _, l := range d.On {
				if l == loc {
					okLoc = true
				}
			}
			if !okLoc {
				bad("%s: directive @%s is not declared for %s", where, u.Name, loc)
			}
			seenA := map[string]bool{}
			for _, a := range u.Args {
				var ad *model.ArgDef
				for _, x := range d.Args {
					if x.Name == a.Name {
						ad = x
					}
				}
				if ad == nil {
					bad("%s: @%s has no argument %s", where, u.Name, a.Name)
					continue
				}
				seenA[a.Name] = true
				if _, isVar := a.Value.(model.VarRef); isVar {
					continue
				}
				if _, err := CoerceIn(s, ad.Type, a.Value); err != nil {
					bad("%s: @%s(%s) value can not be coerced: %v", where, u.Name, a.Name, err)
				}
			}
			for _, x := range d.Args {
				if x.Type.NonNull && !x.HasDefault && !seenA[x.Name] {
					bad("%s: @%s is used without its required argument %s", where, u.Name, x.Name)
				}
			}
		}
	}
	inputPos := func(where string, t *model.TypeRef) {
		okIn, known := isInputTypeName(s, t.Base())
		if !known {
			bad("%s: type %s is not defined", where, t.Base())
		} else if !okIn {
			bad("%s: %s is not an input type", where, t.Base())
		}
	}
	args := func(where string, as []*model.ArgDef, loc string) {
		seen := map[string]bool{}
		for _, a := range as {
			if seen[a.Name] {
				bad("%s: duplicate argument %s", where, a.Name)
			}
			seen[a.Name] = true
			if m := badName(a.Name); m != "" {
				bad("%s: argument %s: %s", where, a.Name, m)
			}
			inputPos(where+"."+a.Name, a.Type)
			dirLoc(where+"."+a.Name, loc, a.Dirs)
		}
	}
	fields := func(t *model.TypeDef) {
		if len(t.Fields) == 0 {
			bad("%s has no fields", t.Name)
		}
		seen := map[string]bool{}
		for _, f := range t.Fields {
			if seen[f.Name] {
				bad("%s: duplicate field %s", t.Name, f.Name)
			}
			seen[f.Name] = true
			if m := badName(f.Name); m != "" {
				bad("%s.%s: %s", t.Name, f.Name, m)
			}
			okOut, known := isOutputTypeName(s, f.Type.Base())
			if !known {
				bad("%s.%s: type %s is not defined", t.Name, f.Name, f.Type.Base())
			} else if !okOut {
				bad("%s.%s: %s is not an output type", t.Name, f.Name, f.Type.Base())
			}
			args(t.Name+"."+f.Name, f.Args, "ARGUMENT_DEFINITION")
			dirLoc(t.Name+"."+f.Name, "FIELD_DEFINITION", f.Dirs)
		}
	}
	for _, t := range s.Types {
		if seenT[t.Name] || model.IsBuiltinScalar(t.Name) && t.Kind != model.Scalar {
			bad("duplicate type %s", t.Name)
		}
		seenT[t.Name] = true
		if m := badName(t.Name); m != "" {
			bad("type %s: %s", t.Name, m)
		}
		switch t.Kind {
		case model.Scalar:
			dirLoc(t.Name, "SCALAR", t.Dirs)
		case model.Object:
			dirLoc(t.Name, "OBJECT", t.Dirs)
			fields(t)
			for _, in := range t.Interfaces {
				it := s.Type(in)
				if it == nil {
					bad("%s implements undefined %s", t.Name, in)
					continue
				}
				if it.Kind != model.Interface {
					bad("%s implements %s which is not an interface", t.Name, in)
					continue
				}
				for _, fi := range it.Fields {
					fo := t.Field(fi.Name)
					if fo == nil {
						bad("%s is missing field %s of interface %s", t.Name, fi.Name, in)
						continue
					}
					if !isSubType(s, fi.Type, fo.Type) {
						bad("%s.%s: type %s is not a sub-type of %s (interface %s)", t.Name, fo.Name, fo.Type, fi.Type, in)
					}
					for _, ai := range fi.Args {
						ao := fo.Arg(ai.Name)
						if ao == nil {
							bad("%s.%s: argument %s of interface %s missing", t.Name, fo.Name, ai.Name, in)
						} else if !typeEqual(ai.Type, ao.Type) {
							bad("%s.%s: argument %s type differs from interface %s", t.Name, fo.Name, ai.Name, in)
						}
					}
					for _, ao := range fo.Args {
						if fi.Arg(ao.Name) == nil && ao.Type.NonNull && !ao.HasDefault {
							bad("%s.%s: additional argument %s must be optional (interface %s)", t.Name, fo.Name, ao.Name, in)
						}
					}
				}
			}
		case model.Interface:
			dirLoc(t.Name, "INTERFACE", t.Dirs)
			fields(t)
		case model.Union:
			dirLoc(t.Name, "UNION", t.Dirs)
			if len(t.Members) == 0 {
				bad("union %s has no members", t.Name)
			}
			for _, m := range t.Members {
				mt := s.Type(m)
				if mt == nil {
					bad("union %s: member %s is not defined", t.Name, m)
				} else if mt.Kind != model.Object {
					bad("union %s: member %s is not an object", t.Name, m)
				}
			}
		case model.Enum:
			dirLoc(t.Name, "ENUM", t.Dirs)
			if len(t.Values) == 0 {
				bad("enum %s has no values", t.Name)
			}
			seen := map[string]bool{}
			for _, v := range t.Values {
				if seen[v.Name] {
					bad("%s: duplicate enum value %s", t.Name, v.Name)
				}
				seen[v.Name] = true
				if m := badName(v.Name); m != "" {
					bad("%s.%s: %s", t.Name, v.Name, m)
				}
				dirLoc(t.Name+"."+v.Name, "ENUM_VALUE", v.Dirs)
			}
		case model.Input:
			dirLoc(t.Name, "INPUT_OBJECT", t.Dirs)
			if len(t.Inputs) == 0 {
				bad("input %s has no fields", t.Name)
			}
			seen := map[string]bool{}
			for _, f := range t.Inputs {
				if seen[f.Name] {
					bad("%s: duplicate input field %s", t.Name, f.Name)
				}
				seen[f.Name] = true
				if m := badName(f.Name); m != "" {
					bad("%s.%s: %s", t.Name, f.Name, m)
				}
				inputPos(t.Name+"."+f.Name, f.Type)
				dirLoc(t.Name+"."+f.Name, "INPUT_FIELD_DEFINITION", f.Dirs)
			}
		}
	}
	seenD := map[string]bool{}
	for _, d := range s.Dirs {
		if seenD[d.Name] {
			bad("duplicate directive @%s", d.Name)
		}
		seenD[d.Name] = true
		if m := badName(d.Name); m != "" {
			bad("directive @%s: %s", d.Name, m)
		}
		args("@"+d.Name, d.Args, "ARGUMENT_DEFINITION")
	}
	// directive definition cycles (through directives applied to directive arguments)
	var visit func(name string, path map[string]bool) bool
	visit = func(name string, path map[string]bool) bool {
		if path[name] {
			return true
		}
		d := s.Dir(name)
		if d == nil {
			return false
		}
		path[name] = true
		defer delete(path, name)
		for _, a := range d.Args {
			for _, u := range a.Dirs {
				if visit(u.Name, path) {
					return true
				}
			}
		}
		return false
	}
	for _, d := range s.Dirs {
		if visit(d.Name, map[string]bool{}) {
			bad("directive @%s is part of a definition cycle", d.Name)
		}
	}
	return out
}
