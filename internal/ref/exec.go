package ref

import (
	"fmt"
	"reflect"
	"sort"

	"verif/internal/model"
)

// Call is one expected resolver invocation.
type Call struct {
	Key  model.CallKey
	Args map[string]interface{} // canonical coerced arguments (only those supplied)
	Path []interface{}
}

// ExpErr is one expected error entry.
type ExpErr struct {
	Path []interface{}
	Kind string // resolver | coerce-out | arg | var | unknown-field | not-list | not-object | op | abstract
}

// Result is what the reference predicts for a request.
type Result struct {
	// ReqErr: the request fails before execution (no data or null data, no resolver call).
	ReqErr bool
	Data   interface{} // map[string]interface{} or nil
	Errs   []ExpErr
	Calls  []Call
	// Excluded lists (node, field, key) triples whose selections were excluded by @skip/@include.
	Excluded []model.CallKey
}

// Exec holds one reference execution.
type Exec struct {
	S    *model.Schema
	D    *model.Doc
	G    *model.Graph
	Plan model.FaultPlan
	Fl   Flags

	vars map[string]interface{}
	occ  map[model.CallKey]int
	res  *Result
}

// EchoText is the value an Echo field returns for canonical args.
func EchoText(field string, args map[string]interface{}) string {
	keys := make([]string, 0, len(args))
	for k := range args {
		keys = append(keys, k)
	}
	sort.Strings(keys)
	s := "echo " + field + "("
	for i, k := range keys {
		if i > 0 {
			s += ","
		}
		s += k + "=" + Render(args[k])
	}
	return s + ")"
}

// Execute runs the reference semantics.
func Execute(s *model.Schema, d *model.Doc, opName string, vars map[string]interface{}, g *model.Graph, plan model.FaultPlan, fl Flags) *Result {
	x := &Exec{S: s, D: d, G: g, Plan: plan, Fl: fl, occ: map[model.CallKey]int{}, res: &Result{}}
	op := x.chooseOp(opName)
	if op == nil {
		x.res.ReqErr = true
		x.res.Errs = append(x.res.Errs, ExpErr{Kind: "op"})
		return x.res
	}
	if err := x.bindVars(op, vars); err != nil {
		x.res.ReqErr = true
		x.res.Errs = append(x.res.Errs, ExpErr{Kind: "var"})
		return x.res
	}
	rootField := op.Kind
	rootType := s.Query
	switch op.Kind {
	case "mutation":
		rootType = s.Mutation
	case "subscription":
		rootType = s.Subscription
	}
	// the root object is asked for the operation's root value first
	ck := x.nextCall(g.Root.ID, rootField, "data")
	x.res.Calls = append(x.res.Calls, Call{Key: ck, Path: nil})
	if f, bad := plan[ck]; bad {
		x.fail(nil, f)
		x.res.Data = nil
		return x.res
	}
	rv := g.Root.F[rootField]
	n, isNode := rv.(*model.Node)
	if !isNode || n == nil {
		x.res.Data = nil
		return x.res
	}
	_ = rootType
	out := map[string]interface{}{}
	x.execSels(n, n.Type, op.Sels, out, nil)
	x.res.Data = out
	return x.res
}

func (x *Exec) chooseOp(name string) *model.Op {
	if name != "" {
		for _, o := range x.D.Ops {
			if o.Name == name {
				return o
			}
		}
		return nil
	}
	if len(x.D.Ops) == 1 {
		return x.D.Ops[0]
	}
	return nil
}

func (x *Exec) bindVars(op *model.Op, vars map[string]interface{}) error {
	x.vars = map[string]interface{}{}
	for _, vd := range op.Vars {
		v, provided := vars[vd.Name]
		if provided && v == nil && x.Fl.NullVarDefault {
			provided = false
		}
		switch {
		case provided:
			c, err := CoerceIn(x.S, vd.Type, v)
			if err != nil {
				return err
			}
			x.vars[vd.Name] = c
		case vd.HasDefault:
			c, err := CoerceIn(x.S, vd.Type, vd.Default)
			if err != nil {
				return err
			}
			x.vars[vd.Name] = c
		default:
			if vd.Type.NonNull {
				return inErr("variable $%s is required", vd.Name)
			}
			// absent: stays unset
		}
	}
	return nil
}

func (x *Exec) nextCall(node int, field, key string) model.CallKey {
	base := model.CallKey{Node: node, Field: field, Key: key}
	n := x.occ[base]
	x.occ[base] = n + 1
	base.Occ = n
	return base
}

func (x *Exec) err(path []interface{}, kind string) {
	p := append([]interface{}{}, path...)
	x.res.Errs = append(x.res.Errs, ExpErr{Path: p, Kind: kind})
}

func (x *Exec) fail(path []interface{}, f model.Fault) {
	n := 1
	if f.Kind == "group" || f.Kind == "wgroup" {
		n = f.N
	}
	if f.Kind == "ngroup" {
		n = f.N + 2
	}
	for i := 0; i < n; i++ {
		x.err(path, "resolver")
	}
}

// subst replaces variable references inside a literal by their coerced values.
func (x *Exec) subst(v interface{}) (interface{}, bool) {
	switch t := v.(type) {
	case model.VarRef:
		c, has := x.vars[string(t)]
		if !has {
			return nil, false
		}
		return Coerced{V: c}, true
	case []interface{}:
		o := make([]interface{}, len(t))
		for i, e := range t {
			o[i], _ = x.subst(e)
		}
		return o, true
	case *model.ObjLit:
		o := model.NewObjLit()
		for _, k := range t.Keys {
			sv, has := x.subst(t.Vals[k])
			if _, isVar := t.Vals[k].(model.VarRef); isVar && !has {
				continue // unset variable: the field is treated as absent
			}
			o.Set(k, sv)
		}
		return o, true
	}
	return v, true
}

// CoerceArgs coerces the supplied arguments of a field.
func (x *Exec) CoerceArgs(fd *model.FieldDef, args []model.Arg) (map[string]interface{}, error) {
	out := map[string]interface{}{}
	seen := map[string]bool{}
	for _, a := range args {
		ad := fd.Arg(a.Name)
		if ad == nil {
			return nil, inErr("%s is not an argument of %s", a.Name, fd.Name)
		}
		seen[a.Name] = true
		sv, has := x.subst(a.Value)
		if !has {
			// unset variable: as if the argument was not supplied
			if ad.Type.NonNull && !ad.HasDefault {
				return nil, inErr("required argument %s missing", a.Name)
			}
			continue
		}
		c, err := CoerceIn(x.S, ad.Type, sv)
		if err != nil {
			return nil, err
		}
		out[a.Name] = c
	}
	for _, ad := range fd.Args {
		if !seen[ad.Name] && ad.Type.NonNull && !ad.HasDefault {
			return nil, inErr("required argument %s missing", ad.Name)
		}
	}
	return out, nil
}

func (x *Exec) dirIf(d model.DirUse) (bool, bool) {
	for _, a := range d.Args {
		if a.Name == "if" {
			switch t := a.Value.(type) {
			case bool:
				return t, true
			case model.VarRef:
				b, isB := x.vars[string(t)].(bool)
				return b, isB
			}
		}
	}
	return false, false
}

// Included evaluates @skip/@include on a selection.
func (x *Exec) Included(dirs []model.DirUse) bool {
	inc := true
	for _, d := range dirs {
		switch d.Name {
		case "skip":
			if b, okv := x.dirIf(d); okv && b {
				inc = false
			}
		case "include":
			if b, okv := x.dirIf(d); okv && !b {
				inc = false
			}
		}
	}
	return inc
}

func (x *Exec) applies(cond, concrete, static string) bool {
	if cond == "" {
		return true
	}
	if x.Fl.CondIdentity {
		return cond == static
	}
	return cond == concrete || x.S.Implements(concrete, cond)
}

func (x *Exec) markExcluded(node *model.Node, sel model.Sel) {
	switch t := sel.(type) {
	case *model.Field:
		x.res.Excluded = append(x.res.Excluded, model.CallKey{Node: node.ID, Field: t.Name, Key: t.Key()})
	case *model.Inline:
		for _, s := range t.Sels {
			x.markExcluded(node, s)
		}
	case *model.Spread:
		if f := x.D.Frag(t.Name); f != nil {
			for _, s := range f.Sels {
				x.markExcluded(node, s)
			}
		}
	}
}

func (x *Exec) execSels(node *model.Node, static string, sels []model.Sel, out map[string]interface{}, path []interface{}) {
	concrete := node.Type
	for _, sel := range sels {
		switch t := sel.(type) {
		case *model.Field:
			if !x.Included(t.Dirs) {
				x.markExcluded(node, sel)
				continue
			}
			x.execField(node, static, t, out, path)
		case *model.Inline:
			if !x.Included(t.Dirs) {
				x.markExcluded(node, sel)
				continue
			}
			if x.applies(t.Cond, concrete, static) {
				x.execSels(node, static, t.Sels, out, path)
			}
		case *model.Spread:
			if !x.Included(t.Dirs) {
				x.markExcluded(node, sel)
				continue
			}
			f := x.D.Frag(t.Name)
			if f != nil && x.applies(f.Cond, concrete, static) {
				fp := path
				if x.Fl.SpreadMarks {
					fp = append(append([]interface{}{}, path...), t)
				}
				x.execSels(node, static, f.Sels, out, fp)
			}
		}
	}
}

func (x *Exec) execField(node *model.Node, static string, f *model.Field, out map[string]interface{}, path []interface{}) {
	key := f.Key()
	p := append(append([]interface{}{}, path...), key)
	typeName := node.Type
	if x.Fl.StaticAbstract {
		typeName = static
	}
	if f.Name == "__typename" {
		out[key] = typeName
		return
	}
	td := x.S.Type(typeName)
	var fd *model.FieldDef
	if td != nil {
		fd = td.Field(f.Name)
	}
	if fd == nil {
		x.err(p, "unknown-field")
		return
	}
	args, err := x.CoerceArgs(fd, f.Args)
	if err != nil {
		x.err(p, "arg")
		x.set(out, key, nil)
		return
	}
	ck := x.nextCall(node.ID, f.Name, key)
	x.res.Calls = append(x.res.Calls, Call{Key: ck, Args: args, Path: p})
	lk := ck
	if x.Fl.AllOcc {
		lk.Occ = 0
	}
	if flt, bad := x.Plan[lk]; bad && flt.Kind != "nth" {
		x.fail(p, flt)
		x.set(out, key, nil)
		return
	}
	var v interface{}
	if fd.Echo {
		v = EchoText(f.Name, args)
	} else {
		k := f.Name
		if fd.Variant != nil {
			k += fd.Variant(args)
		}
		v = node.F[k]
	}
	nth := -1
	if flt, bad := x.Plan[ck]; bad && flt.Kind == "nth" {
		nth = flt.N
	}
	val := x.complete(fd.Type, v, f, p, nth)
	x.set(out, key, val)
}

func (x *Exec) set(out map[string]interface{}, key string, val interface{}) {
	if old, has := out[key]; has && !x.Fl.LastWins {
		out[key] = mergeVals(old, val)
		return
	}
	out[key] = val
}

func mergeVals(a, b interface{}) interface{} {
	switch ta := a.(type) {
	case map[string]interface{}:
		if tb, isMap := b.(map[string]interface{}); isMap {
			for k, v := range tb {
				if old, has := ta[k]; has {
					ta[k] = mergeVals(old, v)
				} else {
					ta[k] = v
				}
			}
			return ta
		}
	case []interface{}:
		if tb, isList := b.([]interface{}); isList && len(ta) == len(tb) {
			for i := range ta {
				ta[i] = mergeVals(ta[i], tb[i])
			}
			return ta
		}
	}
	return b
}

func (x *Exec) complete(t *model.TypeRef, v interface{}, f *model.Field, path []interface{}, nth int) interface{} {
	if v == nil {
		return nil
	}
	if _, isTN := v.(model.TypedNil); isTN {
		return nil
	}
	if isNilPtr(v) {
		return nil // a nil pointer / map / func / chan is Go's null whatever the declared type
	}
	if m, isM := v.(Matcher); isM {
		return m // a data value that is itself a set of acceptable outcomes
	}
	if t.NonNull {
		return x.complete(t.Of, v, f, path, nth)
	}
	if t.List {
		unordered := false
		if u, isU := v.(model.VUnordered); isU {
			v, unordered = model.VList(u), true
		}
		if unordered {
			defer func() {}()
		}
		items, isList := AsList(v)
		if !isList {
			x.err(path, "not-list")
			return nil
		}
		out := make([]interface{}, len(items))
		for i, e := range items {
			p := append(append([]interface{}{}, path...), i)
			if i == nth {
				x.err(p, "resolver")
				out[i] = nil
				continue
			}
			out[i] = x.complete(t.Of, e, f, p, -1)
		}
		if unordered {
			return Unordered(out)
		}
		return out
	}
	kind, known := x.S.KindOf(t.Name)
	if !known {
		x.err(path, "unknown-type")
		return nil
	}
	switch kind {
	case model.Scalar, model.Enum:
		if _, isNode := v.(*model.Node); isNode {
			x.err(path, "coerce-out")
			return nil
		}
		if _, isList := v.(model.VList); isList {
			x.err(path, "coerce-out")
			return nil
		}
		r := CoerceOut(x.S, t.Name, v, x.Fl)
		if !r.OK {
			x.err(path, "coerce-out")
			return nil
		}
		if r.MayReject {
			x.err(path, "optional")
			return OptionalLeaf{V: r.Value}
		}
		return r.Value
	default:
		n, isNode := v.(*model.Node)
		if !isNode {
			x.err(path, "not-object")
			return nil
		}
		if n == nil {
			return nil
		}
		if kind != model.Object && !x.S.Implements(n.Type, t.Name) {
			x.err(path, "abstract")
			return nil
		}
		m := map[string]interface{}{}
		x.execSels(n, t.Name, f.Sels, m, path)
		return m
	}
}

// AsList views a data graph value as a list.
func AsList(v interface{}) ([]interface{}, bool) {
	switch t := v.(type) {
	case model.VList:
		return t, true
	case []interface{}:
		return t, true
	case string, []byte:
		return nil, false
	}
	rv := reflect.ValueOf(v)
	if rv.Kind() == reflect.Slice || rv.Kind() == reflect.Array {
		// a typed Go slice is the list of its elements
		out := make([]interface{}, rv.Len())
		for i := range out {
			out[i] = rv.Index(i).Interface()
		}
		return out, true
	}
	return nil, false
}

// Describe renders a result for replay files.
func (r *Result) Describe() map[string]interface{} {
	errs := make([]string, len(r.Errs))
	for i, e := range r.Errs {
		errs[i] = fmt.Sprintf("%s@%s", e.Kind, PathString(e.Path))
	}
	return map[string]interface{}{"req_err": r.ReqErr, "data": Render(r.Data), "errors": errs, "calls": len(r.Calls)}
}

func isNilPtr(v interface{}) bool {
	rv := reflect.ValueOf(v)
	switch rv.Kind() {
	case reflect.Ptr, reflect.Map, reflect.Interface, reflect.Func, reflect.Chan:
		return rv.IsNil()
	}
	return false
}
