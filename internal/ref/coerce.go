package ref

import (
	"fmt"
	"math"
	"math/big"
	"reflect"
	"regexp"
	"sort"
	"strconv"
	"strings"
	"time"

	"verif/internal/model"
)

// Flags switch on the behaviour predicted by an open known finding. A flag is
// only ever set when the finding is listed as open.
type Flags struct {
	TruncFrac      bool // K-C05-frac: Int/Int64 output truncates fractional floats
	Num2Bool       bool // K-C05-num2bool: Boolean output maps float32/int32 to v != 0
	EnumUndeclared bool // K-C05-enum-undeclared: undeclared enum names pass through on output
	LastWins       bool // K-C01-merge: same response key selected twice: last selection wins
	StaticAbstract bool // K-C08: interface-typed fields resolved against the static interface
	CondIdentity   bool // K-C08: fragment conditions compared by identity with the container type
	NullVarDefault bool // K-C04-nullvar: explicit null variable replaced by the default
	// AllOcc is no defect model but a harness mode (back.Harness.AllOcc): a planted fault, keyed with occurrence 0, fires at
	// every call with its (node, field, key)
	AllOcc bool
	// SpreadMarks is no defect model either: expected error paths carry the *model.Spread they were reached through, at
	// the place where ggql puts its "fragment at L:C" segment (K-C06-fragseg), so that a monitor can tell WHICH spread a
	// segment has to name
	SpreadMarks bool
}

func bigOf(v interface{}) (*big.Float, bool) {
	switch t := v.(type) {
	case int:
		return new(big.Float).SetInt64(int64(t)), true
	case int8:
		return new(big.Float).SetInt64(int64(t)), true
	case int16:
		return new(big.Float).SetInt64(int64(t)), true
	case int32:
		return new(big.Float).SetInt64(int64(t)), true
	case int64:
		return new(big.Float).SetInt64(t), true
	case uint:
		return new(big.Float).SetUint64(uint64(t)), true
	case uint8:
		return new(big.Float).SetUint64(uint64(t)), true
	case uint16:
		return new(big.Float).SetUint64(uint64(t)), true
	case uint32:
		return new(big.Float).SetUint64(uint64(t)), true
	case uint64:
		return new(big.Float).SetUint64(t), true
	case float32:
		if math.IsNaN(float64(t)) || math.IsInf(float64(t), 0) {
			return nil, false
		}
		return new(big.Float).SetFloat64(float64(t)), true
	case float64:
		if math.IsNaN(t) || math.IsInf(t, 0) {
			return nil, false
		}
		return new(big.Float).SetFloat64(t), true
	}
	return nil, false
}

func isNumericKind(v interface{}) bool {
	switch v.(type) {
	case int, int8, int16, int32, int64, uint, uint8, uint16, uint32, uint64, float32, float64:
		return true
	}
	return false
}

func isFloatKind(v interface{}) bool {
	switch v.(type) {
	case float32, float64:
		return true
	}
	return false
}

// integral value of v within [lo,hi] → Num.
func intIn(v interface{}, lo, hi int64) (Num, bool, bool) { // num, ok, fractionalInRange
	bf, ok := bigOf(v)
	if !ok {
		return "", false, false
	}
	if bf.Cmp(new(big.Float).SetInt64(lo)) < 0 || bf.Cmp(new(big.Float).SetInt64(hi)) > 0 {
		return "", false, false
	}
	if !bf.IsInt() {
		return "", false, true
	}
	bi, _ := bf.Int(nil)
	return Num(bi.String()), true, false
}

// OutResult is the reference verdict for one leaf.
type OutResult struct {
	OK    bool        // representable: Value must appear
	Value interface{} // canonical
	// AnyOf, when set, lists additional acceptable canonical values (representation freedom).
	AnyOf []interface{}
	// MayReject: the conversion preserves the value but an implementation may also refuse it
	// (null + error); the properties never demand acceptance.
	MayReject bool
}

// OptionalLeaf matches its value or null.
type OptionalLeaf struct{ V interface{} }

// Match accepts the value or null.
func (o OptionalLeaf) Match(got interface{}) bool { return got == nil || LeafEqual(o.V, got) }

func fail() OutResult { return OutResult{} }
func ok(v interface{}, alts ...interface{}) OutResult {
	return OutResult{OK: true, Value: v, AnyOf: alts}
}

// CoerceOut says how a resolver value v must appear under a leaf of the named
// type (DESIGN Appendix A.1). v is never nil here.
func CoerceOut(s *model.Schema, typeName string, v interface{}, fl Flags) OutResult {
	if td := s.Type(typeName); td != nil {
		switch td.Kind {
		case model.Enum:
			var name string
			switch t := v.(type) {
			case string:
				name = t
			case model.Sym:
				name = string(t)
			default:
				rv := reflect.ValueOf(v)
				if rv.Kind() == reflect.String {
					name = rv.String()
				} else {
					return fail()
				}
			}
			if td.HasValue(name) || fl.EnumUndeclared {
				return ok(name)
			}
			return fail()
		case model.Scalar:
			return coerceOutString(v) // custom scalars behave as strings in ggql
		default:
			return fail()
		}
	}
	switch typeName {
	case "Int", "Int64":
		lo, hi := int64(math.MinInt32), int64(math.MaxInt32)
		if typeName == "Int64" {
			lo, hi = math.MinInt64, math.MaxInt64
		}
		if s, isStr := v.(string); isStr {
			i, err := strconv.ParseInt(s, 10, 64)
			if err != nil || i < lo || i > hi {
				return fail()
			}
			return ok(Num(strconv.FormatInt(i, 10)))
		}
		if !isNumericKind(v) {
			return fail()
		}
		n, good, frac := intIn(v, lo, hi)
		if good {
			return ok(n)
		}
		if frac && fl.TruncFrac {
			bf, _ := bigOf(v)
			bi, _ := bf.Int(nil) // truncates toward zero
			return ok(Num(bi.String()))
		}
		return fail()
	case "Float", "Float64":
		var f float64
		switch t := v.(type) {
		case string:
			p, err := strconv.ParseFloat(strings.TrimSpace(t), 64)
			if err != nil || t != strings.TrimSpace(t) {
				return fail()
			}
			f = p
		default:
			bf, good := bigOf(v)
			if !good {
				return fail()
			}
			f, _ = bf.Float64()
		}
		if typeName == "Float" {
			f = float64(float32(f))
		}
		if math.IsNaN(f) || math.IsInf(f, 0) {
			return fail()
		}
		return ok(floatNum(f))
	case "String":
		return coerceOutString(v)
	case "ID":
		switch t := v.(type) {
		case string:
			return ok(t)
		case float32, float64, bool:
			return fail()
		}
		if n, isNum := NumOf(v); isNum {
			return ok(string(n))
		}
		return fail()
	case "Boolean":
		switch t := v.(type) {
		case bool:
			return ok(t)
		case string:
			b, err := strconv.ParseBool(t)
			if err != nil {
				return fail()
			}
			return ok(b)
		case float32:
			if fl.Num2Bool {
				return ok(t != 0)
			}
		case int32:
			if fl.Num2Bool {
				return ok(t != 0)
			}
		}
		return fail()
	case "Time":
		var tt time.Time
		switch t := v.(type) {
		case time.Time:
			tt = t
		case string:
			p, err := time.Parse(time.RFC3339Nano, t)
			if err != nil {
				return fail()
			}
			tt = p
		case int64:
			if t < -62135596800 || t > 253402300799 {
				return fail()
			}
			tt = time.Unix(t, 0)
		case float64:
			if math.IsNaN(t) || t < -62135596800 || t >= 253402300800 {
				return fail()
			}
			secs := math.Floor(t)
			tt = time.Unix(int64(secs), int64((t-secs)*1e9))
			// sub-second representation of a float is not exact: accept any text within 1µs
			return OutResult{OK: true, Value: TimeNear{T: tt.UTC(), Tol: time.Microsecond}}
		default:
			return fail()
		}
		if y := tt.UTC().Year(); y < 0 || y > 9999 {
			return fail() // RFC 3339 has four digits for the year: such an instant has no representation
		}
		return OutResult{OK: true, Value: TimeNear{T: tt.UTC()}}
	}
	return fail()
}

// RFC3339Shape is the grammar of an RFC 3339 date-time (what a Time leaf looks like in a response).
var RFC3339Shape = regexp.MustCompile(`^\d{4}-\d{2}-\d{2}[Tt]\d{2}:\d{2}:\d{2}(\.\d+)?([Zz]|[+-]\d{2}:\d{2})$`)

// TimeNear matches an RFC 3339 string denoting T (within Tol).
type TimeNear struct {
	T   time.Time
	Tol time.Duration
}

// Match reports whether canonical value got is an RFC 3339 string for t.
func (t TimeNear) Match(got interface{}) bool {
	s, isStr := got.(string)
	if !isStr {
		return false
	}
	// Go's parser is lenient (a one-digit hour, a comma before the fraction): the text must have the RFC 3339 shape itself
	if !RFC3339Shape.MatchString(s) {
		return false
	}
	p, err := time.Parse(time.RFC3339Nano, s)
	if err != nil {
		return false
	}
	d := p.Sub(t.T)
	if d < 0 {
		d = -d
	}
	return d <= t.Tol
}

func coerceOutString(v interface{}) OutResult {
	switch t := v.(type) {
	case string:
		return ok(t)
	case bool:
		return ok(strconv.FormatBool(t))
	case float32:
		return OutResult{OK: true, Value: FloatText(float64(t))}
	case float64:
		return OutResult{OK: true, Value: FloatText(t)}
	}
	if n, isNum := NumOf(v); isNum {
		return ok(string(n))
	}
	rv := reflect.ValueOf(v)
	if rv.Kind() == reflect.String {
		return OutResult{OK: true, Value: rv.String(), MayReject: true} // named string types (e.g. Symbol)
	}
	return fail()
}

// FloatText matches any decimal text that parses to exactly this float
// (the textual form of a float under String is representation, not value).
type FloatText float64

// Match reports whether got is a string whose numeric value equals f.
func (f FloatText) Match(got interface{}) bool {
	s, isStr := got.(string)
	if !isStr {
		return false
	}
	p, err := strconv.ParseFloat(s, 64)
	if err != nil {
		return false
	}
	if math.IsNaN(float64(f)) {
		return math.IsNaN(p)
	}
	return p == float64(f) || float32(p) == float32(f)
}

// Matcher is implemented by expected leaves that accept a set of texts.
type Matcher interface{ Match(got interface{}) bool }

// LeafEqual compares an expected canonical leaf (possibly a Matcher) with a canonical observed leaf.
func LeafEqual(exp, got interface{}) bool {
	if m, isM := exp.(Matcher); isM {
		return m.Match(got)
	}
	return reflect.DeepEqual(exp, got)
}

// Match compares expected (may contain Matchers) with observed canonical values.
func Match(exp, got interface{}) bool {
	switch e := exp.(type) {
	case map[string]interface{}:
		g, isMap := got.(map[string]interface{})
		if !isMap || len(g) != len(e) {
			return false
		}
		for k, ev := range e {
			gv, has := g[k]
			if !has || !Match(ev, gv) {
				return false
			}
		}
		return true
	case []interface{}:
		g, isList := got.([]interface{})
		if !isList || len(g) != len(e) {
			return false
		}
		for i := range e {
			if !Match(e[i], g[i]) {
				return false
			}
		}
		return true
	}
	return LeafEqual(exp, got)
}

// Mismatch locates the first position where observed differs from expected ("" when they match): a path plus both values.
func Mismatch(exp, got interface{}) string { return mismatch(exp, got, "$") }

func mismatch(exp, got interface{}, at string) string {
	switch e := exp.(type) {
	case map[string]interface{}:
		g, isMap := got.(map[string]interface{})
		if !isMap {
			return fmt.Sprintf("%s: expected an object, observed %s", at, Render(got))
		}
		keys := make([]string, 0, len(e))
		for k := range e {
			keys = append(keys, k)
		}
		sort.Strings(keys)
		for _, k := range keys {
			gv, has := g[k]
			if !has {
				return fmt.Sprintf("%s: key %q missing", at, k)
			}
			if d := mismatch(e[k], gv, at+"."+k); d != "" {
				return d
			}
		}
		for k := range g {
			if _, has := e[k]; !has {
				return fmt.Sprintf("%s: unexpected key %q", at, k)
			}
		}
		return ""
	case []interface{}:
		g, isList := got.([]interface{})
		if !isList {
			return fmt.Sprintf("%s: expected a list, observed %s", at, Render(got))
		}
		if len(g) != len(e) {
			return fmt.Sprintf("%s: list of %d, expected %d", at, len(g), len(e))
		}
		for i := range e {
			if d := mismatch(e[i], g[i], fmt.Sprintf("%s[%d]", at, i)); d != "" {
				return d
			}
		}
		return ""
	}
	if LeafEqual(exp, got) {
		return ""
	}
	return fmt.Sprintf("%s: expected %s, observed %s", at, Render(exp), Render(got))
}

// ---------------------------------------------------------------- input

// InErr is a reference coercion failure.
type InErr struct{ Msg string }

func (e *InErr) Error() string { return e.Msg }

func inErr(f string, a ...interface{}) error { return &InErr{Msg: fmt.Sprintf(f, a...)} }

// Lenient switches CoerceIn to also accept the value-preserving conversions an
// implementation may (but need not) perform: a decimal string for Int64 /
// Float64, numeric epoch seconds for Time. The checks evaluate both modes: what
// a resolver receives must equal one of the two results.
var Lenient = false

// ShallowDefaults is the defect model of K-C04-nested-default: an object or list DEFAULT of an input field is inserted as
// written - the fields it leaves to the nested type's own defaults stay absent.
var ShallowDefaults = false

var noFill int

// FillLevel models ONE further coercion pass over an already coerced canonical value under ShallowDefaults: every input
// object in it gets its absent defaulted fields filled with the default as written; what it inserts is not looked into.
func FillLevel(s *model.Schema, t *model.TypeRef, v interface{}) interface{} {
	if v == nil {
		return nil
	}
	if t.NonNull {
		return FillLevel(s, t.Of, v)
	}
	if t.List {
		l, isL := v.([]interface{})
		if !isL {
			return v
		}
		out := make([]interface{}, len(l))
		for i, e := range l {
			out[i] = FillLevel(s, t.Of, e)
		}
		return out
	}
	td := s.Type(t.Name)
	m, isM := v.(map[string]interface{})
	if td == nil || td.Kind != model.Input || !isM {
		return v
	}
	out := map[string]interface{}{}
	for k, e := range m {
		out[k] = e
	}
	for _, f := range td.Inputs {
		if e, has := m[f.Name]; has {
			out[f.Name] = FillLevel(s, f.Type, e)
		} else if f.HasDefault {
			save := ShallowDefaults
			ShallowDefaults = true
			noFill++
			c, err := CoerceIn(s, f.Type, f.Default)
			noFill--
			ShallowDefaults = save
			if err == nil {
				out[f.Name] = c
			}
		}
	}
	return out
}

// Coerced wraps an already coerced (canonical) value substituted for a variable.
type Coerced struct{ V interface{} }

// CoerceIn is the reference input coercion (DESIGN Appendix A.2). v is a
// literal of the document model (nil,bool,int64,float64,string,Sym,[]interface{},
// *ObjLit,RawLit,Coerced) or a variable value as Go data (JSON kinds and native
// numeric kinds, map[string]interface{}). The result is canonical.
func CoerceIn(s *model.Schema, t *model.TypeRef, v interface{}) (interface{}, error) {
	if rl, isRaw := v.(model.RawLit); isRaw {
		v = rl.Value
	}
	if c, isC := v.(Coerced); isC {
		if c.V == nil && t.NonNull {
			return nil, inErr("null for non-null %s", t)
		}
		if ShallowDefaults {
			// the defect model coerces a variable's value a second time when the argument is assembled: one more level
			// of (as-written) defaults gets filled in
			return FillLevel(s, t, c.V), nil
		}
		return c.V, nil
	}
	if t.NonNull {
		if v == nil {
			return nil, inErr("null for non-null %s", t)
		}
		return CoerceIn(s, t.Of, v)
	}
	if v == nil {
		return nil, nil
	}
	if t.List {
		var items []interface{}
		switch l := v.(type) {
		case []interface{}:
			items = l
		case model.VList:
			items = l
		default:
			// spec: a single value is coerced to a list of one; ggql may reject. Mark as error
			// (rejecting is always allowed; see Lenient).
			return nil, inErr("not a list for %s", t)
		}
		out := make([]interface{}, len(items))
		for i, e := range items {
			c, err := CoerceIn(s, t.Of, e)
			if err != nil {
				return nil, err
			}
			out[i] = c
		}
		return out, nil
	}
	name := t.Name
	if td := s.Type(name); td != nil {
		switch td.Kind {
		case model.Enum:
			sym, isSym := v.(model.Sym)
			if !isSym {
				return nil, inErr("%T is not an enum symbol for %s", v, name)
			}
			if !td.HasValue(string(sym)) {
				return nil, inErr("%s is not a value of %s", sym, name)
			}
			return string(sym), nil
		case model.Input:
			keys := []string{}
			vals := map[string]interface{}{}
			switch o := v.(type) {
			case *model.ObjLit:
				keys = o.Keys
				vals = o.Vals
			case map[string]interface{}:
				for k := range o {
					keys = append(keys, k)
				}
				vals = o
			default:
				return nil, inErr("%T is not an input object for %s", v, name)
			}
			out := map[string]interface{}{}
			for _, k := range keys {
				f := td.InputField(k)
				if f == nil {
					return nil, inErr("%s is not a field of %s", k, name)
				}
				c, err := CoerceIn(s, f.Type, vals[k])
				if err != nil {
					return nil, err
				}
				out[k] = c
			}
			for _, f := range td.Inputs {
				if _, has := out[f.Name]; has {
					continue
				}
				if f.HasDefault && noFill > 0 {
					continue // inside a default taken as written (defect model ShallowDefaults)
				}
				if f.HasDefault {
					_, isObj := f.Default.(*model.ObjLit)
					_, isList := f.Default.([]interface{})
					if ShallowDefaults && (isObj || isList) {
						noFill++
					}
					c, err := CoerceIn(s, f.Type, f.Default)
					if ShallowDefaults && (isObj || isList) {
						noFill--
					}
					if err != nil {
						return nil, err
					}
					out[f.Name] = c
				} else if f.Type.NonNull {
					return nil, inErr("required field %s of %s missing", f.Name, name)
				}
			}
			return out, nil
		case model.Scalar:
			if str, isStr := v.(string); isStr {
				return str, nil
			}
			return nil, inErr("%T for custom scalar %s", v, name)
		default:
			return nil, inErr("%s is not an input type", name)
		}
	}
	switch name {
	case "Int", "Int64":
		lo, hi := int64(math.MinInt32), int64(math.MaxInt32)
		if name == "Int64" {
			lo, hi = math.MinInt64, math.MaxInt64
		}
		if str, isStr := v.(string); isStr && Lenient && name == "Int64" {
			i, err := strconv.ParseInt(str, 10, 64)
			if err != nil {
				return nil, inErr("%q is not an Int64", str)
			}
			return Num(strconv.FormatInt(i, 10)), nil
		}
		if !isNumericKind(v) {
			return nil, inErr("%T is not an %s", v, name)
		}
		n, good, _ := intIn(v, lo, hi)
		if !good {
			return nil, inErr("%v does not fit %s", v, name)
		}
		return n, nil
	case "Float", "Float64":
		if str, isStr := v.(string); isStr && Lenient && name == "Float64" {
			f, err := strconv.ParseFloat(str, 64)
			if err != nil || math.IsNaN(f) || math.IsInf(f, 0) {
				return nil, inErr("%q is not a Float64", str)
			}
			return floatNum(f), nil
		}
		bf, good := bigOf(v)
		if !good {
			return nil, inErr("%T is not a %s", v, name)
		}
		f, _ := bf.Float64()
		if name == "Float" {
			f = float64(float32(f))
		}
		if math.IsInf(f, 0) || math.IsNaN(f) {
			return nil, inErr("%v does not fit %s", v, name)
		}
		return floatNum(f), nil
	case "String":
		if str, isStr := v.(string); isStr {
			return str, nil
		}
		return nil, inErr("%T is not a String", v)
	case "ID":
		switch id := v.(type) {
		case string:
			return id, nil
		case float32, float64:
			return nil, inErr("float is not an ID")
		}
		if n, isNum := NumOf(v); isNum {
			return string(n), nil
		}
		return nil, inErr("%T is not an ID", v)
	case "Boolean":
		if b, isB := v.(bool); isB {
			return b, nil
		}
		return nil, inErr("%T is not a Boolean", v)
	case "Time":
		switch tv := v.(type) {
		case string:
			p, err := time.Parse(time.RFC3339Nano, tv)
			if err != nil {
				return nil, inErr("bad time")
			}
			return Opaque("time.Time:" + p.Format(time.RFC3339Nano)), nil
		case time.Time:
			return Opaque("time.Time:" + tv.Format(time.RFC3339Nano)), nil
		}
		if Lenient && isNumericKind(v) {
			bf, _ := bigOf(v)
			if bf == nil {
				return nil, inErr("not a number of seconds")
			}
			f, _ := bf.Float64()
			if f < -62135596800 || f >= 253402300800 {
				return nil, inErr("seconds out of range for Time")
			}
			secs := math.Floor(f)
			tt := time.Unix(int64(secs), int64((f-secs)*1e9)).UTC()
			return Opaque("time.Time:" + tt.Format(time.RFC3339Nano)), nil
		}
		return nil, inErr("%T is not a Time", v)
	}
	return nil, inErr("unknown type %s", name)
}

// AnyLeaf accepts any value (used where the statement leaves the value open).
type AnyLeaf struct{}

// Match accepts everything.
func (AnyLeaf) Match(got interface{}) bool { return true }

// OneOf accepts any of the listed canonical values.
type OneOf []interface{}

// Match reports whether got equals one of the alternatives.
func (o OneOf) Match(got interface{}) bool {
	for _, e := range o {
		if Match(e, got) {
			return true
		}
	}
	return false
}

// Unordered matches a list whose elements match the expected ones in any order.
type Unordered []interface{}

// Match finds a bijection between expected and observed elements (maximum bipartite matching: expected elements may
// contain wildcards, so taking the first observed element that fits is not enough).
func (u Unordered) Match(got interface{}) bool {
	g, isL := got.([]interface{})
	if !isL || len(g) != len(u) {
		return false
	}
	n := len(u)
	fits := make([][]bool, n)
	for i, e := range u {
		fits[i] = make([]bool, n)
		for j, x := range g {
			fits[i][j] = Match(e, x)
		}
	}
	owner := make([]int, n) // observed j is taken by expected owner[j]
	for j := range owner {
		owner[j] = -1
	}
	var try func(i int, seen []bool) bool
	try = func(i int, seen []bool) bool {
		for j := 0; j < n; j++ {
			if fits[i][j] && !seen[j] {
				seen[j] = true
				if owner[j] < 0 || try(owner[j], seen) {
					owner[j] = i
					return true
				}
			}
		}
		return false
	}
	for i := 0; i < n; i++ {
		if !try(i, make([]bool, n)) {
			return false
		}
	}
	return true
}
