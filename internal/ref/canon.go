// Package ref is the reference model: selection semantics, input and output
// coercion, written from the property statements. It does not import ggql.
package ref

import (
	"fmt"
	"math"
	"math/big"
	"reflect"
	"sort"
	"strconv"
	"strings"
	"time"
)

// Num is the canonical form of any number: decimal integer text when the
// value is integral, shortest float64 text otherwise.
type Num string

// NumOf canonicalises a Go numeric value; ok=false when v is not numeric.
func NumOf(v interface{}) (Num, bool) {
	switch t := v.(type) {
	case int:
		return Num(strconv.FormatInt(int64(t), 10)), true
	case int8:
		return Num(strconv.FormatInt(int64(t), 10)), true
	case int16:
		return Num(strconv.FormatInt(int64(t), 10)), true
	case int32:
		return Num(strconv.FormatInt(int64(t), 10)), true
	case int64:
		return Num(strconv.FormatInt(t, 10)), true
	case uint:
		return Num(strconv.FormatUint(uint64(t), 10)), true
	case uint8:
		return Num(strconv.FormatUint(uint64(t), 10)), true
	case uint16:
		return Num(strconv.FormatUint(uint64(t), 10)), true
	case uint32:
		return Num(strconv.FormatUint(uint64(t), 10)), true
	case uint64:
		return Num(strconv.FormatUint(t, 10)), true
	case float32:
		return floatNum(float64(t)), true
	case float64:
		return floatNum(t), true
	}
	return "", false
}

func floatNum(f float64) Num {
	if math.IsNaN(f) {
		return "NaN"
	}
	if math.IsInf(f, 1) {
		return "+Inf"
	}
	if math.IsInf(f, -1) {
		return "-Inf"
	}
	if f == math.Trunc(f) {
		// integral: exact decimal
		bf := new(big.Float).SetFloat64(f)
		bi, _ := bf.Int(nil)
		return Num(bi.String())
	}
	return Num(strconv.FormatFloat(f, 'g', -1, 64))
}

// Canon converts a response-shaped Go value (as ggql returns it, or as the
// reference builds it) to canonical form: maps, lists, string, bool, nil, Num.
// Values of other kinds are rendered as Opaque so they never compare equal to
// a legitimate value by accident.
func Canon(v interface{}) interface{} { return canonDepth(v, 0) }

// Cyclic reports whether a response-shaped value contains itself (a map or slice reachable from itself): such a value
// cannot be serialised, and walking it would never end.
func Cyclic(v interface{}) bool {
	onPath := map[uintptr]bool{}
	var walk func(v interface{}, depth int) bool
	walk = func(v interface{}, depth int) bool {
		if depth > 100000 {
			return true
		}
		var p uintptr
		switch t := v.(type) {
		case map[string]interface{}:
			if t == nil {
				return false
			}
			p = reflect.ValueOf(t).Pointer()
			if onPath[p] {
				return true
			}
			onPath[p] = true
			for _, e := range t {
				if walk(e, depth+1) {
					return true
				}
			}
			delete(onPath, p)
		case []interface{}:
			if len(t) == 0 {
				return false
			}
			p = reflect.ValueOf(t).Pointer()
			// two slices may share a backing array start without being the same list; a genuine cycle revisits it while it is still on the path
			if onPath[p] {
				return true
			}
			onPath[p] = true
			for _, e := range t {
				if walk(e, depth+1) {
					return true
				}
			}
			delete(onPath, p)
		}
		return false
	}
	return walk(v, 0)
}

func canonDepth(v interface{}, depth int) interface{} {
	if depth > 100000 {
		return Opaque("deeper than 100000 levels (cyclic?)")
	}
	if v == nil {
		return nil
	}
	if n, ok := NumOf(v); ok {
		return n
	}
	switch t := v.(type) {
	case Num:
		return t
	case string:
		return t
	case bool:
		return t
	case map[string]interface{}:
		o := make(map[string]interface{}, len(t))
		for k, e := range t {
			o[k] = canonDepth(e, depth+1)
		}
		return o
	case []interface{}:
		o := make([]interface{}, len(t))
		for i, e := range t {
			o[i] = canonDepth(e, depth+1)
		}
		return o
	case time.Time:
		return Opaque("time.Time:" + t.Format(time.RFC3339Nano))
	case Opaque:
		return t
	}
	rv := reflect.ValueOf(v)
	switch rv.Kind() {
	case reflect.String:
		return rv.String() // named string types (ggql.Symbol)
	case reflect.Ptr, reflect.Map, reflect.Slice, reflect.Interface, reflect.Func, reflect.Chan:
		if rv.IsNil() {
			return Opaque(fmt.Sprintf("typed-nil:%T", v))
		}
	}
	if rv.Kind() == reflect.Slice {
		o := make([]interface{}, rv.Len())
		for i := range o {
			o[i] = canonDepth(rv.Index(i).Interface(), depth+1)
		}
		return o
	}
	return Opaque(fmt.Sprintf("%T:%v", v, v))
}

// Opaque marks a non-JSON-shaped value found in a response.
type Opaque string

// Equal compares two canonical values.
func Equal(a, b interface{}) bool { return reflect.DeepEqual(a, b) }

// Render prints a canonical value deterministically (for keys, replays).
func Render(v interface{}) string {
	var b strings.Builder
	render(&b, v)
	return b.String()
}

func render(b *strings.Builder, v interface{}) {
	switch t := v.(type) {
	case nil:
		b.WriteString("null")
	case Num:
		b.WriteString(string(t))
	case string:
		b.WriteString(strconv.Quote(t))
	case bool:
		b.WriteString(strconv.FormatBool(t))
	case Opaque:
		b.WriteString("<<" + string(t) + ">>")
	case []interface{}:
		b.WriteByte('[')
		for i, e := range t {
			if i > 0 {
				b.WriteByte(',')
			}
			render(b, e)
		}
		b.WriteByte(']')
	case map[string]interface{}:
		keys := make([]string, 0, len(t))
		for k := range t {
			keys = append(keys, k)
		}
		sort.Strings(keys)
		b.WriteByte('{')
		for i, k := range keys {
			if i > 0 {
				b.WriteByte(',')
			}
			b.WriteString(strconv.Quote(k))
			b.WriteByte(':')
			render(b, t[k])
		}
		b.WriteByte('}')
	default:
		fmt.Fprintf(b, "<<%T %v>>", v, v)
	}
}

// PathString renders an error path.
func PathString(p []interface{}) string {
	parts := make([]string, len(p))
	for i, e := range p {
		parts[i] = fmt.Sprint(e)
	}
	return strings.Join(parts, "/")
}
