// Package extract reads a schema back out of a ggql root through its public
// API (Types(), exported struct fields, introspection for what has no
// accessor) into the harness's own model, and renders models canonically.
package extract

import (
	"fmt"
	"sort"
	"strings"

	"github.com/uhn/ggql/pkg/ggql"

	"verif/internal/model"
	"verif/internal/ref"
)

var coreDirs = map[string]bool{"skip": true, "include": true, "deprecated": true, "go": true}

func typeRef(t ggql.Type) *model.TypeRef {
	switch tt := t.(type) {
	case *ggql.List:
		return model.ListOf(typeRef(tt.Base))
	case *ggql.NonNull:
		return model.NonNullOf(typeRef(tt.Base))
	case nil:
		return model.Named("<nil>")
	}
	return model.Named(t.Name())
}

// Value converts a ggql value (literal as parsed) into the document model.
func Value(v interface{}) interface{} {
	switch t := v.(type) {
	case ggql.Symbol:
		return model.Sym(t)
	case ggql.Var:
		return model.VarRef(t)
	case int:
		return int64(t)
	case int32:
		return int64(t)
	case float32:
		return float64(t)
	case []interface{}:
		o := make([]interface{}, len(t))
		for i, e := range t {
			o[i] = Value(e)
		}
		return o
	case map[string]interface{}:
		keys := make([]string, 0, len(t))
		for k := range t {
			keys = append(keys, k)
		}
		sort.Strings(keys)
		o := model.NewObjLit()
		for _, k := range keys {
			o.Set(k, Value(t[k]))
		}
		return o
	}
	return v
}

func dirUses(dus []*ggql.DirectiveUse) []model.DirUse {
	var out []model.DirUse
	for _, du := range dus {
		u := model.DirUse{Name: "<nil>"}
		if du.Directive != nil {
			u.Name = du.Directive.Name()
			if _, isRef := du.Directive.(*ggql.Ref); isRef {
				u.Name += " (UNRESOLVED reference: the use never got its directive)"
			}
		}
		names := make([]string, 0, len(du.Args))
		for k := range du.Args {
			names = append(names, k)
		}
		sort.Strings(names)
		for _, k := range names {
			av := du.Args[k]
			u.Args = append(u.Args, model.Arg{Name: k, Value: Value(av.Value)})
		}
		out = append(out, u)
	}
	return out
}

func args(as []*ggql.Arg) []*model.ArgDef {
	var out []*model.ArgDef
	for _, a := range as {
		ad := &model.ArgDef{Name: a.Name(), Desc: a.Description(), Type: typeRef(a.Type), Dirs: dirUses(a.Directives())}
		if a.Default != nil {
			ad.HasDefault, ad.Default = true, Value(a.Default)
		}
		out = append(out, ad)
	}
	return out
}

func fields(fs []*ggql.FieldDef) []*model.FieldDef {
	var out []*model.FieldDef
	for _, f := range fs {
		out = append(out, &model.FieldDef{Name: f.Name(), Desc: f.Description(), Type: typeRef(f.Type), Args: args(f.Args()), Dirs: dirUses(f.Directives())})
	}
	return out
}

// FullIntrospection is the query used for what the Go API does not expose.
const dirQuery = `{ __schema { queryType { name } mutationType { name } subscriptionType { name }
 directives { name description locations args { name description defaultValue type { ...T } } } } }
fragment T on __Type { kind name ofType { kind name ofType { kind name ofType { kind name ofType { kind name ofType { kind name ofType { kind name } } } } } } }`

func introType(m map[string]interface{}) *model.TypeRef {
	if m == nil {
		return model.Named("<nil>")
	}
	switch m["kind"] {
	case "LIST":
		inner, _ := m["ofType"].(map[string]interface{})
		return model.ListOf(introType(inner))
	case "NON_NULL":
		inner, _ := m["ofType"].(map[string]interface{})
		return model.NonNullOf(introType(inner))
	}
	n, _ := m["name"].(string)
	return model.Named(n)
}

// FromRoot extracts the user-defined part of the schema of root.
func FromRoot(root *ggql.Root) (*model.Schema, error) {
	s := &model.Schema{}
	for _, t := range root.Types() {
		if t.Core() || model.IsBuiltinScalar(t.Name()) || strings.HasPrefix(t.Name(), "__") {
			continue
		}
		td := &model.TypeDef{Name: t.Name(), Desc: t.Description(), Dirs: dirUses(t.Directives())}
		switch tt := t.(type) {
		case *ggql.Object:
			td.Kind = model.Object
			td.Fields = fields(tt.Fields())
			for _, i := range tt.Interfaces {
				td.Interfaces = append(td.Interfaces, i.Name())
			}
		case *ggql.Interface:
			td.Kind = model.Interface
			td.Fields = fields(tt.Fields())
		case *ggql.Union:
			td.Kind = model.Union
			for _, m := range tt.Members {
				td.Members = append(td.Members, m.Name())
			}
		case *ggql.Enum:
			td.Kind = model.Enum
			for _, v := range tt.Values() {
				td.Values = append(td.Values, &model.EnumVal{Name: string(v.Value), Desc: v.Description, Dirs: dirUses(v.Directives)})
			}
		case *ggql.Input:
			td.Kind = model.Input
			for _, f := range tt.Fields() {
				ad := &model.ArgDef{Name: f.Name(), Desc: f.Description(), Type: typeRef(f.Type), Dirs: dirUses(f.Directives())}
				if f.Default != nil {
					ad.HasDefault, ad.Default = true, Value(f.Default)
				}
				td.Inputs = append(td.Inputs, ad)
			}
		case *ggql.Scalar:
			td.Kind = model.Scalar
		default:
			if t.Rank() >= 0 && fmt.Sprintf("%T", t) != "*ggql.Schema" {
				td.Kind = model.Scalar // custom scalar implementations
			} else {
				continue
			}
		}
		s.Types = append(s.Types, td)
	}
	res := root.ResolveString(dirQuery, "", nil)
	if es, has := res["errors"]; has {
		return s, fmt.Errorf("introspection of directives failed: %v", es)
	}
	data, _ := res["data"].(map[string]interface{})
	sch, _ := data["__schema"].(map[string]interface{})
	name := func(k string) string {
		m, _ := sch[k].(map[string]interface{})
		n, _ := m["name"].(string)
		return n
	}
	s.Query, s.Mutation, s.Subscription = name("queryType"), name("mutationType"), name("subscriptionType")
	dl, _ := sch["directives"].([]interface{})
	for _, d := range dl {
		dm, _ := d.(map[string]interface{})
		n, _ := dm["name"].(string)
		if coreDirs[n] {
			continue
		}
		dd := &model.DirDef{Name: n}
		dd.Desc, _ = dm["description"].(string)
		ll, _ := dm["locations"].([]interface{})
		for _, l := range ll {
			dd.On = append(dd.On, fmt.Sprint(l))
		}
		al, _ := dm["args"].([]interface{})
		for _, a := range al {
			am, _ := a.(map[string]interface{})
			ad := &model.ArgDef{}
			ad.Name, _ = am["name"].(string)
			ad.Desc, _ = am["description"].(string)
			tm, _ := am["type"].(map[string]interface{})
			ad.Type = introType(tm)
			if dv, isS := am["defaultValue"].(string); isS {
				ad.HasDefault, ad.Default = true, DefaultFromText(s, ad.Type, dv)
			}
			dd.Args = append(dd.Args, ad)
		}
		s.Dirs = append(s.Dirs, dd)
	}
	s.Reindex()
	return s, nil
}

// ---------------------------------------------------------------- canonical rendering

// CanonOpts tunes the canonical rendering.
type CanonOpts struct {
	NoDesc          bool
	NoDirUses       bool
	FillDirDefaults bool // fill directive-argument defaults into every use (C16's allowed normalisation)
	// AsWritten adds, for every directive-use argument whose value is not the argument's default, the value in the form
	// ggql holds it (kind of scalar, fields an object carries): what a use says is what was written, not its coercion
	AsWritten bool
	NoRoots         bool
}

func canonValue(s *model.Schema, t *model.TypeRef, v interface{}) string {
	c, err := ref.CoerceIn(s, t, stripStringy(s, t, v))
	if err != nil {
		return "<<uncoercible " + model.ValueText(v) + ": " + err.Error() + ">>"
	}
	return ref.Render(c)
}

// stripStringy lets a bare symbol stand for a string where the type is a string-like scalar
// (ggql prints string defaults in introspection both ways).
func stripStringy(s *model.Schema, t *model.TypeRef, v interface{}) interface{} { return v }

func canonDirUses(s *model.Schema, uses []model.DirUse, o CanonOpts) string {
	if o.NoDirUses {
		return ""
	}
	var parts []string
	for _, u := range uses {
		dd := s.Dir(u.Name)
		vals := map[string]string{}
		for _, a := range u.Args {
			var t *model.TypeRef
			if dd != nil {
				if ad := dirArg(dd, a.Name); ad != nil {
					t = ad.Type
				}
			}
			if u.Name == "deprecated" && a.Name == "reason" {
				t = model.Named("String")
			}
			if u.Name == "go" {
				t = model.Named("String")
			}
			if t != nil {
				if a.Value == nil {
					// null for an argument without default is what "absent" means (ggql writes the absent
					// argument of a known directive as null); null for an argument WITH a default is an explicit null
					if ad := dirArgOf(dd, a.Name); ad != nil && ad.HasDefault && ad.Default != nil {
						vals[a.Name] = "null"
					}
					continue
				}
				vals[a.Name] = canonValue(s, t, a.Value)
				if o.AsWritten {
					isDefault := false
					if ad := dirArgOf(dd, a.Name); ad != nil && ad.HasDefault && canonValue(s, t, ad.Default) == vals[a.Name] {
						isDefault = true // written or filled in: indistinguishable, and allowed to differ
					}
					if !isDefault {
						vals[a.Name] += " written as " + writtenForm(a.Value)
					}
				}
			} else {
				vals[a.Name] = model.ValueText(a.Value)
			}
		}
		if o.FillDirDefaults && dd != nil {
			for _, ad := range dd.Args {
				if _, has := vals[ad.Name]; !has && ad.HasDefault {
					vals[ad.Name] = canonValue(s, ad.Type, ad.Default)
				}
			}
		}
		if u.Name == "deprecated" {
			// the built-in default reason is filled in by ggql when the directive is known at parse time
			if r, has := vals["reason"]; has && (r == `"No longer supported"` || r == `"\"No longer supported\""`) {
				delete(vals, "reason")
			}
		}
		keys := make([]string, 0, len(vals))
		for k := range vals {
			keys = append(keys, k)
		}
		sort.Strings(keys)
		p := "@" + u.Name + "("
		for _, k := range keys {
			p += k + "=" + vals[k] + ","
		}
		parts = append(parts, p+")")
	}
	sort.Strings(parts)
	return strings.Join(parts, " ")
}

func dirArgOf(d *model.DirDef, n string) *model.ArgDef {
	if d == nil {
		return nil
	}
	return dirArg(d, n)
}

func dirArg(d *model.DirDef, n string) *model.ArgDef {
	for _, a := range d.Args {
		if a.Name == n {
			return a
		}
	}
	return nil
}

func canonArgs(s *model.Schema, as []*model.ArgDef, o CanonOpts) string {
	var parts []string
	for _, a := range as {
		p := a.Name + ":" + a.Type.String()
		if a.HasDefault {
			p += "=" + canonValue(s, a.Type, a.Default)
		}
		if !o.NoDesc {
			p += " desc=" + fmt.Sprintf("%q", a.Desc)
		}
		p += " " + canonDirUses(s, a.Dirs, o)
		parts = append(parts, p)
	}
	sort.Strings(parts)
	return "(" + strings.Join(parts, "; ") + ")"
}

// Canon renders a schema deterministically: types, members, arguments and uses sorted by name,
// default values canonicalised by coercion to their declared type.
func Canon(s *model.Schema, o CanonOpts) string {
	var lines []string
	for _, t := range s.Types {
		head := fmt.Sprintf("%s %s", t.Kind, t.Name)
		if !o.NoDesc {
			head += fmt.Sprintf(" desc=%q", t.Desc)
		}
		head += " " + canonDirUses(s, t.Dirs, o)
		var body []string
		switch t.Kind {
		case model.Object, model.Interface:
			ifs := append([]string{}, t.Interfaces...)
			sort.Strings(ifs)
			head += " implements[" + strings.Join(ifs, ",") + "]"
			for _, f := range t.Fields {
				l := "  field " + f.Name + canonArgs(s, f.Args, o) + ":" + f.Type.String()
				if !o.NoDesc {
					l += fmt.Sprintf(" desc=%q", f.Desc)
				}
				l += " " + canonDirUses(s, f.Dirs, o)
				body = append(body, l)
			}
		case model.Union:
			ms := append([]string{}, t.Members...)
			sort.Strings(ms)
			head += " = " + strings.Join(ms, "|")
		case model.Enum:
			for _, v := range t.Values {
				l := "  value " + v.Name
				if !o.NoDesc {
					l += fmt.Sprintf(" desc=%q", v.Desc)
				}
				l += " " + canonDirUses(s, v.Dirs, o)
				body = append(body, l)
			}
		case model.Input:
			for _, f := range t.Inputs {
				l := "  input " + f.Name + ":" + f.Type.String()
				if f.HasDefault {
					l += "=" + canonValue(s, f.Type, f.Default)
				}
				if !o.NoDesc {
					l += fmt.Sprintf(" desc=%q", f.Desc)
				}
				l += " " + canonDirUses(s, f.Dirs, o)
				body = append(body, l)
			}
		}
		sort.Strings(body)
		lines = append(lines, head+"\n"+strings.Join(body, "\n"))
	}
	for _, d := range s.Dirs {
		on := append([]string{}, d.On...)
		sort.Strings(on)
		l := "directive @" + d.Name + canonArgs(s, d.Args, CanonOpts{NoDesc: o.NoDesc, NoDirUses: true}) + " on " + strings.Join(on, "|")
		if !o.NoDesc {
			l += fmt.Sprintf(" desc=%q", d.Desc)
		}
		lines = append(lines, l)
	}
	sort.Strings(lines)
	if !o.NoRoots {
		lines = append(lines, fmt.Sprintf("roots query=%s mutation=%s subscription=%s", s.Query, s.Mutation, s.Subscription))
	}
	return strings.Join(lines, "\n")
}

// DefaultFromText interprets an introspection defaultValue for a type of schema s. The statement
// does not fix the text format: ggql reports string defaults bare, everything else as a GraphQL literal.
func DefaultFromText(s *model.Schema, t *model.TypeRef, text string) interface{} {
	pv, err := ggql.ParseValueString(text)
	base := t.Base()
	wrapped := t.List || (t.Of != nil && t.Of.List)
	kind, known := s.KindOf(base)
	stringy := !wrapped && (base == "String" || base == "ID" || base == "Time" || (known && kind == model.Scalar && !model.IsBuiltinScalar(base)))
	if stringy {
		if base == "ID" {
			if i, isI := pv.(int64); isI && err == nil {
				return i
			}
		}
		if base == "Time" {
			// a Time default is reported bare while it is still the string of the document and as a string literal once
			// validation has turned it into a time (directive arguments): the same instant either way
			if str, isS := pv.(string); isS && err == nil && strings.HasPrefix(text, "\"") {
				return str
			}
		}
		return text
	}
	if err != nil {
		return model.RawLit{Text: "<<unparsable defaultValue " + text + ">>", Value: text}
	}
	return Value(pv)
}

// DefaultAlternatives lists the readings of a defaultValue text worth comparing: for string-like
// types both the bare text and the unquoted GraphQL string literal.
func DefaultAlternatives(s *model.Schema, t *model.TypeRef, text string) []interface{} {
	out := []interface{}{DefaultFromText(s, t, text)}
	if pv, err := ggql.ParseValueString(text); err == nil {
		if str, isS := pv.(string); isS {
			out = append(out, str)
		}
	}
	return out
}

// writtenForm renders a value with the kind of every scalar and the fields every object carries; integer and float widths
// are not told apart (ggql's parser and its coercions use several), a time is told from its string.
func writtenForm(v interface{}) string {
	switch t := v.(type) {
	case nil:
		return "null"
	case bool:
		return fmt.Sprintf("bool(%v)", t)
	case int, int8, int16, int32, int64, uint, uint8, uint16, uint32, uint64:
		return fmt.Sprintf("int(%v)", t)
	case float32:
		return fmt.Sprintf("float(%v)", float64(t))
	case float64:
		return fmt.Sprintf("float(%v)", t)
	case string:
		return fmt.Sprintf("string(%q)", t)
	case model.Sym:
		return "symbol(" + string(t) + ")"
	case model.RawLit:
		return writtenForm(t.Value)
	case []interface{}:
		parts := make([]string, len(t))
		for i, e := range t {
			parts[i] = writtenForm(e)
		}
		return "[" + strings.Join(parts, ",") + "]"
	case model.VList:
		return writtenForm([]interface{}(t))
	case *model.ObjLit:
		var parts []string
		for _, k := range t.Keys {
			parts = append(parts, k+":"+writtenForm(t.Vals[k]))
		}
		sort.Strings(parts)
		return "{" + strings.Join(parts, ",") + "}"
	}
	return fmt.Sprintf("%T(%v)", v, v)
}
