package zoo

import (
	"reflect"

	"verif/internal/model"
)

// The farm schema has concrete object types only, served by named Go struct types that ggql binds by name
// (no RegisterType, no @go): the auto-discovered reflection binding of mixed graphs.

// Barn is bound by name.
type Barn struct {
	*SizeBase
	Name, Cows, Best, Next interface{}
	// unexported twins of two exported fields (names that differ in case only): reflection binds the exported ones
	name, size interface{} //nolint
}

// SizeBase is embedded in Barn BY POINTER: Size is a promoted field reached through a pointer.
type SizeBase struct {
	Size interface{}
}

// MilkBase is embedded in Cow: Milk is a promoted field, one level below the unexported twin Cow.milk.
type MilkBase struct {
	Milk interface{}
}

// Cow is bound by name.
type Cow struct {
	MilkBase
	Name, Barn, Tags, Calves interface{}
	milk interface{} //nolint
}

// Query is the farm's query root type (bound by name).
type FarmQuery struct {
	Barns, Barn, Cows, Cow, Hello interface{}
}

// FarmTypes maps the GraphQL type names to the Go struct types.
func FarmTypes() map[string]reflect.Type {
	return map[string]reflect.Type{"Barn": reflect.TypeOf(Barn{}), "Cow": reflect.TypeOf(Cow{}), "Query": reflect.TypeOf(FarmQuery{})}
}

// FarmModel is the schema.
func FarmModel() *model.Schema {
	f := func(n string, t *model.TypeRef) *model.FieldDef { return &model.FieldDef{Name: n, Type: t} }
	str, integer := model.Named("String"), model.Named("Int")
	barn, cow := model.Named("Barn"), model.Named("Cow")
	return &model.Schema{Query: "Query", Types: []*model.TypeDef{
		{Kind: model.Object, Name: "Barn", Fields: []*model.FieldDef{f("name", str), f("size", integer), f("cows", model.ListOf(cow)), f("best", cow), f("next", barn)}},
		{Kind: model.Object, Name: "Cow", Fields: []*model.FieldDef{f("name", str), f("milk", integer), f("barn", barn), f("tags", model.ListOf(str)), f("calves", model.ListOf(model.ListOf(cow)))}},
		{Kind: model.Object, Name: "Query", Fields: []*model.FieldDef{f("barns", model.ListOf(barn)), f("barn", barn), f("cows", model.ListOf(cow)), f("cow", cow), f("hello", str)}},
	}}
}
