package zoo

import (
	"github.com/uhn/ggql/pkg/ggql"

	"verif/internal/model"
)

// The pets schema binds Go types to GraphQL object types by the @go directive and by name only
// (no RegisterType), with suffix-related Go type names and heterogeneous lists under an interface and a union.

// SdbCat is bound to Cat by @go(type: "zoo.SdbCat").
type SdbCat struct {
	Name  string
	Lives int
	Buddy interface{}
	Twin  *SdbCat
}

// BigSdbCat is bound to Lion by @go(type: "BigSdbCat") (name only form).
type BigSdbCat struct {
	Name  string
	Roar  string
	Buddy interface{}
	Twin  *BigSdbCat
}

// Dog is bound by name.
type Dog struct {
	Name   string
	Tricks []string
	Buddy  interface{}
	Twin   *Dog
}

// PetI is a Go interface all three pet types satisfy: a slice typed by it is neither []interface{} nor a slice of one struct type.
type PetI interface{ PetKind() string }

func (c *SdbCat) PetKind() string    { return "cat" }
func (c *BigSdbCat) PetKind() string { return "lion" }
func (d *Dog) PetKind() string       { return "dog" }

// PetQuery is the query root.
type PetQuery struct {
	Pets    []interface{}
	Animals []interface{}
	Pet     interface{}
	Animal  interface{}
	Cats    []*SdbCat
	Lions   []*BigSdbCat
	Typed   []PetI // [Pet]: a slice typed by a Go interface, mixing the bound types
	DogCopy Dog    // Dog: a struct VALUE (not a pointer) under an object-typed field
	// the query root type implements Pet itself (relay style) and is handed out under Pet-typed fields
	Name   string
	Buddy  interface{}
	Twin   *PetQuery
	Me     interface{}
	WithMe []interface{}
	// a Dog answered by ANOTHER Go type (a view struct with the same field names) under an object-typed field
	DogView *DogView
	// a Hound answered by another Go type than the registered one
	HoundView *HoundView
}

// PetHound is bound to the object type Hound by RegisterType (neither its name nor an @go directive says so).
type PetHound struct {
	Name  string
	Pack  int
	Buddy interface{}
	Twin  *PetHound
}

func (h *PetHound) PetKind() string { return "hound" }

// HoundView is a second Go type the application uses for Hound under an object-typed field.
type HoundView struct {
	Name  string
	Pack  int
	Buddy interface{}
	Twin  *HoundView
}

// DogView is a second Go type the application uses for the object type Dog; it is bound to nothing and only ever stands
// where the schema says Dog.
type DogView struct {
	Name   string
	Tricks []string
	Buddy  interface{}
	Twin   *DogView
}

// PetRoot is the root object.
type PetRoot struct{ Query *PetQuery }

// PetsModel is the schema in the harness's model (the SDL is printed from it).
func PetsModel() *model.Schema { return PetsModelV(0) }

// PetsModelV varies the binding forms: (variant/4)%2 writes Cat's @go value in the name-only form ("SdbCat", a proper
// suffix of the other Go type's name "BigSdbCat"), (variant/8)%2 lists Cat before Lion in the union.
func PetsModelV(variant int) *model.Schema {
	f := func(n string, t *model.TypeRef) *model.FieldDef { return &model.FieldDef{Name: n, Type: t} }
	str, integer := model.Named("String"), model.Named("Int")
	goDir := func(v string) []model.DirUse {
		return []model.DirUse{{Name: "go", Args: []model.Arg{{Name: "type", Value: v}}}}
	}
	catGo := "zoo.SdbCat"
	if (variant/4)%2 == 1 {
		catGo = "SdbCat"
	}
	members := []string{"Lion", "Cat", "Dog"}
	if (variant/8)%2 == 1 {
		members = []string{"Cat", "Dog", "Lion"}
	}
	s := &model.Schema{Query: "Query"}
	s.Types = []*model.TypeDef{
		{Kind: model.Interface, Name: "Pet", Fields: []*model.FieldDef{f("name", str), f("buddy", model.Named("Pet")), f("twin", model.Named("Pet"))}},
		{Kind: model.Object, Name: "Lion", Interfaces: []string{"Pet"}, Dirs: goDir("BigSdbCat"), Fields: []*model.FieldDef{f("name", str), f("roar", str), f("buddy", model.Named("Pet")), f("twin", model.Named("Lion"))}},
		{Kind: model.Object, Name: "Cat", Interfaces: []string{"Pet"}, Dirs: goDir(catGo), Fields: []*model.FieldDef{f("name", str), f("lives", integer), f("buddy", model.Named("Pet")), f("twin", model.Named("Cat"))}},
		{Kind: model.Object, Name: "Dog", Interfaces: []string{"Pet"}, Fields: []*model.FieldDef{f("name", str), f("tricks", model.ListOf(str)), f("buddy", model.Named("Pet")), f("twin", model.Named("Dog"))}},
		{Kind: model.Object, Name: "Hound", Interfaces: []string{"Pet"}, Fields: []*model.FieldDef{f("name", str), f("pack", integer), f("buddy", model.Named("Pet")), f("twin", model.Named("Hound"))}},
		{Kind: model.Union, Name: "Animal", Members: members},
		{Kind: model.Object, Name: "Query", Interfaces: []string{"Pet"}, Fields: []*model.FieldDef{
			f("name", str), f("buddy", model.Named("Pet")), f("twin", model.Named("Query")), f("me", model.Named("Pet")), f("withMe", model.ListOf(model.Named("Pet"))), f("dogView", model.Named("Dog")), f("houndView", model.Named("Hound")),
			f("pets", model.ListOf(model.Named("Pet"))), f("animals", model.ListOf(model.Named("Animal"))), f("pet", model.Named("Pet")), f("animal", model.Named("Animal")),
			f("cats", model.ListOf(model.Named("Cat"))), f("lions", model.ListOf(model.Named("Lion"))),
			f("typed", model.ListOf(model.Named("Pet"))), f("dogCopy", model.Named("Dog"))}},
	}
	return s
}

// PetsData builds the Go objects and the equivalent neutral data graph. variant rotates which concrete type comes first.
func PetsData(variant int) (*PetRoot, *model.Graph) {
	g := &model.Graph{}
	node := func(t string, fields map[string]interface{}) *model.Node {
		n := &model.Node{ID: len(g.Nodes), Type: t, F: fields}
		g.Nodes = append(g.Nodes, n)
		return n
	}
	root := node("__root", map[string]interface{}{})
	g.Root = root
	c1 := &SdbCat{Name: "tom", Lives: 9}
	c2 := &SdbCat{Name: "kit", Lives: 7}
	l1 := &BigSdbCat{Name: "leo", Roar: "RAWR"}
	d1 := &Dog{Name: "rex", Tricks: []string{"sit", "roll"}}
	c1.Buddy, l1.Buddy, d1.Buddy = d1, c1, l1
	c1.Twin, c2.Twin, l1.Twin, d1.Twin = c2, c1, l1, d1
	nc1 := node("Cat", map[string]interface{}{"name": "tom", "lives": 9})
	nc2 := node("Cat", map[string]interface{}{"name": "kit", "lives": 7, "buddy": nil})
	nl1 := node("Lion", map[string]interface{}{"name": "leo", "roar": "RAWR"})
	nd1 := node("Dog", map[string]interface{}{"name": "rex", "tricks": model.VList{"sit", "roll"}})
	nc1.F["buddy"], nl1.F["buddy"], nd1.F["buddy"] = nd1, nc1, nl1
	nc1.F["twin"], nc2.F["twin"], nl1.F["twin"], nd1.F["twin"] = nc2, nc1, nl1, nd1
	h1 := &PetHound{Name: "rolf", Pack: 5, Buddy: c2}
	h1.Twin = h1
	nh1 := node("Hound", map[string]interface{}{"name": "rolf", "pack": 5, "buddy": nc2})
	nh1.F["twin"] = nh1
	objs := []interface{}{c1, l1, d1, c2}
	nodes := []interface{}{nc1, nl1, nd1, nc2}
	k := variant % len(objs)
	rot := func(a []interface{}) []interface{} { return append(append([]interface{}{}, a[k:]...), a[:k]...) }
	ro, rn := rot(objs), rot(nodes)
	q := &PetQuery{Pets: ro, Animals: ro, Pet: ro[0], Animal: ro[1], Cats: []*SdbCat{c1, c2}, Lions: []*BigSdbCat{l1}, DogCopy: *d1}
	for _, o := range ro {
		q.Typed = append(q.Typed, o.(PetI))
	}
	q.Name, q.Buddy, q.Twin, q.Me, q.WithMe = "the root", d1, q, q, []interface{}{d1, q, h1, c2}
	nq := node("Query", map[string]interface{}{"name": "the root", "buddy": nd1, "pets": model.VList(rn), "animals": model.VList(rn), "pet": rn[0], "animal": rn[1],
		"cats": model.VList{nc1, nc2}, "lions": model.VList{nl1}, "typed": model.VList(rn), "dogCopy": nd1})
	nq.F["twin"], nq.F["me"], nq.F["withMe"] = nq, nq, model.VList{nd1, nq, nh1, nc2}
	hv := &HoundView{Name: "view of rolf", Pack: 1}
	hv.Twin = hv
	q.HoundView = hv
	nhv := node("Hound", map[string]interface{}{"name": "view of rolf", "pack": 1, "buddy": nil})
	nhv.F["twin"] = nhv
	nq.F["houndView"] = nhv
	dv := &DogView{Name: "view of rex", Tricks: []string{"sit"}}
	dv.Twin = dv
	q.DogView = dv
	ndv := node("Dog", map[string]interface{}{"name": "view of rex", "tricks": model.VList{"sit"}, "buddy": nil})
	ndv.F["twin"] = ndv
	nq.F["dogView"] = ndv
	root.F["query"] = nq
	return &PetRoot{Query: q}, g
}

// NewPetsRoot loads the pets schema on a fresh (cold) root.
func NewPetsRoot(variant int) (*ggql.Root, *model.Schema, *model.Graph, error) {
	ms := PetsModelV(variant)
	ro, g := PetsData(variant)
	root := ggql.NewRoot(ro)
	if err := root.ParseString(ms.SDL(model.SDLOpts{})); err != nil {
		return nil, nil, nil, err
	}
	// the one explicit registration of the pets schema: a Go type whose name says nothing about its object type
	if err := root.RegisterType(&PetHound{}, "Hound"); err != nil {
		return nil, nil, nil, err
	}
	return root, ms, g, nil
}
