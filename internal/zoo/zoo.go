// Package zoo is the hand-written reflection schema: named Go types with
// fields and methods (string/boolean/int arguments, (value, error) returns),
// bound by name, by @go directive and by RegisterType.
package zoo

import (
	"errors"
	"fmt"
	"sort"
	"strings"
	"sync"
	"sync/atomic"
	"time"

	"github.com/uhn/ggql/pkg/ggql"
)

// SDL of the zoo schema.
const SDL = `
type Query {
  tracks: [Track]
  crowd: [Item]
  firstTrack: Track
  items: [Item]
  name: String
  count: Int @deprecated(reason: "use items")
  stamps: [Time]
  hello(name: String): String
  add(a: Int, b: Int): Int
  flag(on: Boolean): String
  pick(i: Int): Item
  label(prefix: String!, upper: Boolean = false): String
  thing: Thing
  things: [Thing]
  mixedThings: [Thing]
  node: Node
  nodes: [Node]
  when: Time
  ratio: Float
  self: Query
  fail: String
  mustFail: Item!
  mustFails: [Item!]!
  box(in: Box): String
  ghost: String
  countdown(n: Int): String
  search(opts: Opts): String
  searchIn(opts: Opts): String
  shout(word: String = "hey", times: Int = 2): String
  url: String
  account: Account
  member: Node
  accountVal: Account
  accountBot: Account
  firstN(n: Int): [Item]
  ofKind(kind: Kind, kinds: [Kind!]): [Item]
  motto: String
  stranger: Node
  strangers: [Node]
}

type Account {
  id: ID
  name: String
  greeting(prefix: String): String
}

type Member implements Node @go(type: "zoo.Person") {
  id: ID
  name: String
  since: Int
}

type Track {
  name: String
  title: String
  length: Int
  plays: Int
}

input Opts {
  page: Page = {size: 10}
  tags: [String] = ["a", "b"]
  any: [Page!] = [{size: 1}, {}]
  text: String
}

input Page {
  size: Int
  offset: Int = 0
  order: Kind = SMALL
}

input Box {
  d: [Int]
  name: String = "box"
  inner: Box
  fixed: [Float!]
}

interface Node {
  id: ID
}

type Item implements Node @go(type: "zoo.Item") {
  id: ID
  size: Int
  tags: [String]
  next: Item
  label(prefix: String, upper: Boolean): String
  kind: Kind
  ghost: Int
}

type Other implements Node {
  id: ID
  note: String
}

union Thing = Item | Other

enum Kind {
  SMALL
  LARGE
}

type Mutation {
  bump(by: Int): Int
  diff(a: Int, b: Int): Int
  sub(a: Int, b: Int): Int
  renamed: String
  find(artist: String, album: String, title: String, year: Int): String
}
`

// MethodCalls counts invocations of the argument-taking methods, per method name (the resolver call log of the zoo).
var MethodCalls sync.Map

func called(name string) {
	v, _ := MethodCalls.LoadOrStore(name, new(int64))
	atomic.AddInt64(v.(*int64), 1)
}

// CallCount reads a method's invocation count.
func CallCount(name string) int64 {
	if v, has := MethodCalls.Load(name); has {
		return atomic.LoadInt64(v.(*int64))
	}
	return 0
}

// Root is the root object.
type Root struct {
	Query    *Query
	Mutation *Mutation
}

// Query is the query root.
type Query struct {
	// Tracks holds VALUES, FirstTrack a pointer: the object type Track meets both forms of its Go type
	Tracks     []Track
	FirstTrack *Track
	Items      []*Item
	Name       string
	Count      int
	When       time.Time
	Ratio      float64
	Self       *Query

	root  *ggql.Root // for Countdown, which resolves a request on the same root from inside a resolver
	motto string     // unexported, read through the method Motto
}

// Countdown answers "n ... 1 0" by asking the same root for countdown(n-1): application code that resolves on the root it
// is being resolved on (stitching, delegation). Nothing the library holds while it calls a method may be needed again
// by that nested request.
func (q *Query) Countdown(n int32) string {
	called("Query.Countdown")
	if n <= 0 || n > 8 || q.root == nil {
		return "0"
	}
	res := q.root.ResolveString(fmt.Sprintf("{ countdown(n: %d) }", n-1), "", nil)
	data, _ := res["data"].(map[string]interface{})
	return fmt.Sprintf("%d %v", n, data["countdown"])
}

// Hello greets.
func (q *Query) Hello(name string) string { called("Query.Hello"); return "hello " + name }

// Add adds with Go ints.
func (q *Query) Add(a int, b int) int { called("Query.Add"); return a + b }

// Flag returns a value and an error.
func (q *Query) Flag(on bool) (string, error) {
	if on {
		return "on", nil
	}
	return "", errors.New("flag is off")
}

// Pick picks an item by int32 index.
func (q *Query) Pick(i int32) *Item {
	if int(i) < len(q.Items) && i >= 0 {
		return q.Items[i]
	}
	return nil
}

// Motto is the getter of the UNEXPORTED field motto (the usual Go idiom): reflection must use the method.
func (q *Query) Motto() string { return q.motto }

// OfKind filters the items by an enum argument (or a list of them).
func (q *Query) OfKind(kind string, kinds []interface{}) []*Item {
	called("Query.OfKind")
	var out []*Item
	for _, it := range q.Items {
		ok := kind == "" && len(kinds) == 0 || string(it.Kind) == kind
		for _, k := range kinds {
			if fmt.Sprint(k) == string(it.Kind) {
				ok = true
			}
		}
		if ok {
			out = append(out, it)
		}
	}
	return out
}

// Label has a required and a defaulted argument.
func (q *Query) Label(prefix string, upper bool) string {
	called("Query.Label")
	s := prefix + q.Name
	if upper {
		s = strings.ToUpper(s)
	}
	return s
}

// Thing returns a union member.
func (q *Query) Thing() interface{} { return q.Items[0] }

// Things mixes members.
func (q *Query) Things() []interface{} {
	return []interface{}{q.Items[0], &Other{ID: "o1", Note: "note"}, q.Items[1]}
}

// MixedThings holds members as struct VALUES next to pointers of the same Go types (an application that copies some of its
// records): whichever form a type was first met in, both are values of the member type.
func (q *Query) MixedThings() []interface{} {
	return []interface{}{*q.Items[1], &Other{ID: "o3", Note: "ptr"}, Other{ID: "o4", Note: "val"}, q.Items[0]}
}

// Stamps is a NAMED slice type of struct values that are leaves (time.Time): ggql walks it by reflection.
type Stamps []time.Time

// Stamps serves a list of a scalar whose Go values are structs.
func (q *Query) Stamps() Stamps {
	return Stamps{time.Date(2020, 1, 2, 3, 4, 5, 0, time.UTC), time.Date(2021, 6, 7, 8, 9, 10, 0, time.UTC)}
}

// Node returns an interface implementer.
func (q *Query) Node() interface{} { return &Other{ID: "o2", Note: "n2"} }

// Nodes mixes implementers.
func (q *Query) Nodes() []interface{} {
	return []interface{}{&Other{ID: "o3"}, q.Items[1]}
}

// Drifter is a Go type NO object type is bound to or can be bound to (no type of that name, no @go, never registered).
type Drifter struct{ ID string }

// Stranger hands a Drifter out where the interface Node is declared.
func (q *Query) Stranger() interface{} { return &Drifter{ID: "d1"} }

// Strangers mixes Drifters with real implementers.
func (q *Query) Strangers() []interface{} {
	return []interface{}{&Drifter{ID: "d2"}, q.Items[0], &Other{ID: "o4"}, &Drifter{ID: "d3"}}
}

// BoxIn is the Go type registered for the input type Box.
type BoxIn struct {
	D     []int
	Name  string
	Inner *BoxIn
	// Fixed is a Go ARRAY behind a list-typed input field: ggql fills slices, an array is none
	Fixed [2]float64
}

// Box takes a registered input type.
func (q *Query) Box(in *BoxIn) string {
	called("Query.Box")
	if in == nil {
		return "no box"
	}
	return fmt.Sprintf("%s%v", in.Name, in.D)
}

// Person backs TWO object types: Account (plain, under an object-typed field) and Member (implements Node, bound with @go).
type Person struct {
	ID    string
	Name  string
	Since int
}

// Greeting is a method with a pointer receiver: bound to Account.greeting and Member... (only Account declares it).
func (p *Person) Greeting(prefix string) string {
	called("Person.Greeting")
	return prefix + " " + p.Name
}

// Robot is ANOTHER Go type served under the object type Account (same field names, its own Greeting method).
type Robot struct {
	ID   string
	Name string
}

// Greeting of a robot.
func (b *Robot) Greeting(prefix string) string { return prefix + " unit " + b.Name }

// AccountVal returns a Person VALUE (not a pointer) as an Account.
func (q *Query) AccountVal() Person { return Person{ID: "p3", Name: "val"} }

// AccountBot returns a *Robot as an Account.
func (q *Query) AccountBot() *Robot { return &Robot{ID: "r1", Name: "rob"} }

// FirstN returns the first n items (n may exceed what there is: then all, cycled up to n <= 6).
func (q *Query) FirstN(n int32) []*Item {
	var out []*Item
	for i := 0; i < int(n) && i < 6 && len(q.Items) > 0; i++ {
		out = append(out, q.Items[i%len(q.Items)])
	}
	return out
}

// Account returns a Person as an Account.
func (q *Query) Account() *Person { return &Person{ID: "p1", Name: "pat", Since: 2001} }

// Member returns a Person under the interface Node: it is a Member there.
func (q *Query) Member() interface{} { return &Person{ID: "p2", Name: "mo", Since: 2010} }

// Search takes an input object (unregistered: a map) whose fields have object and list defaults.
func (q *Query) Search(opts map[string]interface{}) string {
	called("Query.Search")
	keys := make([]string, 0, len(opts))
	for k := range opts {
		keys = append(keys, k)
	}
	sort.Strings(keys)
	var b strings.Builder
	for _, k := range keys {
		fmt.Fprintf(&b, "%s=%v;", k, renderSorted(opts[k]))
	}
	return b.String()
}

// Crowd is a long list of objects (120, a generic list): whatever ggql does to get through long lists faster, the answer is the one a
// plain walk gives, errors in list order, and one request stays on its goroutine.
func (q *Query) Crowd() []interface{} {
	called("Query.Crowd")
	out := make([]interface{}, 120)
	for i := range out {
		out[i] = &Item{ID: fmt.Sprintf("c%d", i), Size: i}
	}
	return out
}

// Shout is a method whose arguments have (non-zero) defaults in the schema. ggql hands a method what the request wrote: an
// argument the request leaves out reaches the method as the zero value, as it reaches a Resolver as an absent key.
func (q *Query) Shout(word string, times int) string {
	called("Query.Shout")
	return fmt.Sprintf("%q x%d", word, times)
}

// URL is found for the field url although only the case of ALL its letters differs (Go initialisms).
func (q *Query) URL() string { called("Query.URL"); return "https://example.org/zoo" }

// Track has a method with a value receiver and one with a pointer receiver; both serve fields.
type Track struct {
	Name string
	Secs int
	n    int
}

// Plays has a pointer receiver and WRITES its receiver (a counter the application keeps per value it handed out): the
// elements of Query.Tracks are struct values, every request works on its own copy of them.
func (t *Track) Plays() int { t.n++; return t.n }

// Title has a value receiver.
func (t Track) Title() string { return "T:" + t.Name }

// Length has a pointer receiver.
func (t *Track) Length() int { return t.Secs }

// OptsIn is a Go struct for the input type Opts that is NOT registered for it: Opts values stay maps.
type OptsIn struct {
	Text string
	Tags []string
}

// SearchIn wants the (unregistered) input object Opts as a struct. ggql hands input objects of an unregistered type over
// as maps, so this call is refused - every time, whatever else the root has resolved before.
func (q *Query) SearchIn(opts *OptsIn) string {
	called("Query.SearchIn")
	if opts == nil {
		return "no opts"
	}
	return fmt.Sprintf("%s%v", opts.Text, opts.Tags)
}

func renderSorted(v interface{}) string {
	switch t := v.(type) {
	case map[string]interface{}:
		keys := make([]string, 0, len(t))
		for k := range t {
			keys = append(keys, k)
		}
		sort.Strings(keys)
		s := "{"
		for _, k := range keys {
			s += k + ":" + renderSorted(t[k]) + " "
		}
		return s + "}"
	case []interface{}:
		s := "["
		for _, e := range t {
			s += renderSorted(e) + " "
		}
		return s + "]"
	}
	return fmt.Sprint(v)
}

// Fail always fails.
func (q *Query) Fail() (string, error) { return "", fmt.Errorf("always fails") }

// MustFail serves a NON-NULL field and always fails with nothing to show: one failure, one error.
func (q *Query) MustFail() (*Item, error) { return nil, fmt.Errorf("must always fails") }

// MustFails is the same for a non-null list.
func (q *Query) MustFails() ([]*Item, error) { return nil, fmt.Errorf("musts always fail") }

// Item is bound with @go.
type Item struct {
	ID   string
	Size int
	Tags []string
	Next *Item
	Kind string
}

// Label is a method with two arguments.
func (i *Item) Label(prefix string, upper bool) string {
	called("Item.Label")
	s := prefix + i.ID
	if upper {
		s = strings.ToUpper(s)
	}
	return s
}

// Other is bound by name.
type Other struct {
	ID   string
	Note string
}

// Mutation root.
type Mutation struct{ N int }

// Bump adds.
func (m *Mutation) Bump(by int32) int { return m.N + int(by) }

// Minus is bound to Mutation.diff with RegisterField; its parameters are in the opposite order of the GraphQL arguments.
func (m *Mutation) Minus(b int, a int) int { called("Mutation.Minus"); return a - b }

// Sub has the NAME reflection finds by itself (Mutation.sub) but takes its parameters in the opposite order of the GraphQL
// arguments; RegisterField("Mutation", "sub", "Sub", "b", "a") states that order.
func (m *Mutation) Sub(b int, a int) int { called("Mutation.Sub"); return a - b }

// FindTrack is bound to Mutation.find with RegisterField; its first three parameters are a rotation of the GraphQL arguments (a permutation that is not its own inverse).
func (m *Mutation) FindTrack(title string, artist string, album string, year int) string {
	called("Mutation.FindTrack")
	return fmt.Sprintf("artist=%s album=%s title=%s year=%d", artist, album, title, year)
}

// OtherName is bound to Mutation.renamed with RegisterField (the names are unrelated).
func (m *Mutation) OtherName() string { return "renamed ok" }

// NewRoot builds a fresh zoo root (cold: nothing lazily registered).
func NewRoot() (*ggql.Root, *Root, error) {
	root, r, late, err := NewRootLate()
	if err == nil {
		err = late()
	}
	if err != nil {
		return nil, nil, err
	}
	return root, r, nil
}

// NewRootMutationAdded is NewRoot for an application that parses its schema WITHOUT the Mutation type and adds that type
// through the Go API afterwards (AddTypes), before it registers anything.
func NewRootMutationAdded() (*ggql.Root, *Root, error) {
	root, r, late, err := newRootLate(SDL[:strings.Index(SDL, "type Mutation {")])
	if err != nil {
		return nil, nil, err
	}
	ref := func(n string) ggql.Type { return &ggql.Ref{Base: ggql.Base{N: n}} }
	field := func(name, typ string, args ...string) *ggql.FieldDef {
		fd := &ggql.FieldDef{Base: ggql.Base{N: name}, Type: ref(typ)}
		for i := 0; i+1 < len(args); i += 2 {
			_ = fd.AddArg(&ggql.Arg{Base: ggql.Base{N: args[i]}, Type: ref(args[i+1])})
		}
		return fd
	}
	m := &ggql.Object{Base: ggql.Base{N: "Mutation"}}
	for _, fd := range []*ggql.FieldDef{field("bump", "Int", "by", "Int"), field("diff", "Int", "a", "Int", "b", "Int"), field("sub", "Int", "a", "Int", "b", "Int"),
		field("renamed", "String"), field("find", "String", "artist", "String", "album", "String", "title", "String", "year", "Int")} {
		_ = m.AddField(fd)
	}
	if err = root.AddTypes(m); err == nil {
		err = late()
	}
	if err != nil {
		return nil, nil, err
	}
	return root, r, nil
}

// NewRootLate is NewRoot with the explicit type and field registrations handed back as a function: an application may
// register late, after its root has already answered requests (a health check, a warm-up).
func NewRootLate() (*ggql.Root, *Root, func() error, error) { return newRootLate(SDL) }

func newRootLate(sdl string) (*ggql.Root, *Root, func() error, error) {
	i2 := &Item{ID: "i2", Size: 2, Tags: []string{"x", "y"}, Kind: "LARGE"}
	i1 := &Item{ID: "i1", Size: 1, Tags: []string{"a"}, Next: i2, Kind: "SMALL"}
	q := &Query{motto: "see for yourself", Items: []*Item{i1, i2}, Name: "zoo", Count: 2, When: time.Date(2020, 1, 2, 3, 4, 5, 0, time.UTC), Ratio: 0.5}
	q.Self = q
	q.Tracks, q.FirstTrack = []Track{{Name: "a", Secs: 1}, {Name: "b", Secs: 2}}, &Track{Name: "f", Secs: 9}
	r := &Root{Query: q, Mutation: &Mutation{N: 10}}
	root := ggql.NewRoot(r)
	q.root = root
	if err := root.ParseString(sdl); err != nil {
		return nil, nil, nil, err
	}
	if err := root.RegisterType(&BoxIn{}, "Box"); err != nil {
		return nil, nil, nil, err
	}
	late := func() error {
		// explicit type and field registration (the other object types are discovered by name or @go)
		if err := root.RegisterType(&Mutation{}, "Mutation"); err != nil {
			return err
		}
		if err := root.RegisterField("Mutation", "diff", "Minus", "b", "a"); err != nil {
			return err
		}
		if err := root.RegisterField("Mutation", "find", "FindTrack", "title", "artist", "album", "year"); err != nil {
			return err
		}
		if err := root.RegisterField("Mutation", "sub", "Sub", "b", "a"); err != nil {
			return err
		}
		return root.RegisterField("Mutation", "renamed", "OtherName")
	}
	return root, r, late, nil
}

// Requests is a fixed mix of valid requests that covers every first-use path
// (reflection fields, methods, (value,error) methods, union dispatch,
// interface-typed fields, fragments, variables, introspection).
var Requests = []struct {
	Text string
	Vars map[string]interface{}
}{
	{`{ name count ratio when }`, nil},
	{`{ items { id size tags kind next { id } } }`, nil},
	{`{ hello(name: "bob") }`, nil},
	{`query($n: String){ hello(name: $n) }`, map[string]interface{}{"n": "ann"}},
	{`{ flag(on: true) }`, nil},
	{`{ flag(on: false) }`, nil},
	{`{ label(prefix: "p-", upper: true) }`, nil},
	{`{ items { label(prefix: "x", upper: false) } }`, nil},
	{`{ thing { __typename ... on Item { id size } ... on Other { note } } }`, nil},
	{`{ things { __typename ... on Item { id } ... on Other { id note } } }`, nil},
	{`{ node { __typename id ... on Other { note } } }`, nil},
	{`{ mixedThings { __typename ... on Item { id size } ... on Other { id note } } }`, nil},
	{`{ nodes { __typename id ...F } } fragment F on Item { size tags }`, nil},
	{`{ self { self { name items { id } } } }`, nil},
	{`{ fail name }`, nil},
	{`{ __schema { queryType { name } types { name kind } } }`, nil},
	{`{ __type(name: "Item") { name kind fields { name type { name kind ofType { name } } } interfaces { name } } }`, nil},
	{`query Q($s: Boolean = true) { name @skip(if: $s) count @include(if: $s) }`, nil},
	{`{ __schema { mutationType { name fields { name } } subscriptionType { name } } }`, nil},
	{`mutation { bump(by: 3) }`, nil},
	{`mutation { diff(a: 10, b: 3) renamed }`, nil},
	{`mutation { sub(a: 10, b: 3) s2: sub(b: 1) }`, nil},
	{`mutation { find(album: "b", year: 1999, artist: "a", title: "t") }`, nil},
	{`mutation($x: Int = 2) { d1: diff(b: $x, a: 1) d2: diff(a: $x) }`, nil},
	{`{ pick(i: 1) { id } }`, nil},
	{`{ add(a: 1, b: 2) }`, nil},
	{`{ box(in: {d: [1, 2], name: "n"}) }`, nil},
	{`{ ghost name }`, nil},
	{`{ firstN(n: 3) { id } a: firstN(n: 0) { id } }`, nil},
	{`{ account { id name } }`, nil},
	{`{ member { __typename id ... on Member { name since } } }`, nil},
	{`{ account { __typename name } member { __typename ... on Member { since } } }`, nil},
	{`{ search(opts: {}) }`, nil},
	{`{ search(opts: {text: "x", page: {size: 3}}) s2: search(opts: {any: [{}]}) }`, nil},
	{`query($o: Opts = {text: "d"}) { search(opts: $o) }`, nil},
	{`query($o: Opts) { search(opts: $o) }`, map[string]interface{}{"o": map[string]interface{}{"tags": []interface{}{"v"}}}},
	{`{ searchIn(opts: {text: "q", tags: ["x"]}) }`, nil},
	{`{ tracks { name title } }`, nil},
	{`{ tracks { name plays } }`, nil},
	{`{ stamps }`, nil},
	{`{ crowd { id size label(prefix: "c", upper: false) } }`, nil},
	{`{ firstTrack { name title length } }`, nil},
	{`{ tracks { title length } }`, nil},
	{`{ url shout s3: shout(times: 3) s4: shout(word: "ho") }`, nil},
	{`{ s2: search(opts: {text: "after searchIn"}) }`, nil},
	{`{ countdown(n: 3) name }`, nil},
	{`{ motto name self { motto } }`, nil},
	{`{ ofKind(kind: LARGE) { id kind } small: ofKind(kinds: [SMALL]) { id } }`, nil},
	{`query($k: Kind = SMALL) { ofKind(kind: $k) { id } }`, nil},
	{`query($k: Kind) { ofKind(kind: $k) { id } }`, map[string]interface{}{"k": "LARGE"}},
	{`query($ks: [Kind!]) { ofKind(kinds: $ks) { id } }`, map[string]interface{}{"ks": []interface{}{"SMALL", "LARGE", "SMALL", "LARGE", "SMALL", "LARGE", "SMALL", "LARGE", "SMALL", "LARGE", "SMALL", "LARGE"}}},
	{`{ ofKind(kind: "LARGE") { id } }`, nil},
	{`{ stranger { id } name }`, nil},
	{`{ strangers { id } nodes { id } }`, nil},
	{`{ strangers { __typename id ... on Other { note } } stranger { ... on Item { size } } }`, nil},
	{`{ items { id ghost } count }`, nil},
	{`{ name g: ghost items { g2: ghost } }`, nil},
	{`query($b: Box){ box(in: $b) }`, map[string]interface{}{"b": map[string]interface{}{"d": []interface{}{float64(3)}}}},
}
