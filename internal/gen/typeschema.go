package gen

import (
	"fmt"
	"math/rand"
	"strings"

	"verif/internal/model"
)

// TypeOpts steers the type-system oriented schema generator.
type TypeOpts struct {
	NastyStrings bool // descriptions / string defaults with quotes, backslashes, newlines, """ , non-ASCII
	Directives   bool
	CustomRoots  bool // allow schema { query: Q ... } with non-default names
	Small        bool
}

var nastyParts = []string{"plain", "tag \U000E0020 char", "last \U0010FFFF rune", "with \"quotes\"", "back\\slash", "tab\there", "üñíçødé", "emoji 😀", "trail\\", "\"", "a \"\"\" b", "x\\n literal", "{braces}", "#hash", "'single'", "ctrl\x01char", "esc\x1b[31m", "vt\x0bff\x0c", "so\x0e si\x0f sub\x1a us\x1f", "bell\x07", "semi;colon", "日本語", "\\\\double", "q\"\"q", "slower by 20%, use ratio", "100%", "%d of %s", "%!v(PANIC)", "ends with a quote\"", "10%\rdone", "cr\rin a line with a \"quote\"",
	// a quote directly followed by a backslash, runs of four and more quotes
	"a \"\\ b", "quote then backslash \"\\", "four \"\"\"\" quotes", "five \"\"\"\"\" q", "\"\"\"\"", "\"\\n is not a line end"}

// Desc draws a description in ggql's normalised form (lines trimmed, no empty lines).
func Desc(r *rand.Rand, nasty bool) string {
	if r.Intn(3) == 0 {
		return ""
	}
	line := func() string {
		if nasty && r.Intn(2) == 0 {
			return nastyParts[r.Intn(len(nastyParts))]
		}
		return fmt.Sprintf("desc %d", r.Intn(100))
	}
	n := 1
	if r.Intn(4) == 0 {
		n = 2 + r.Intn(2)
	}
	var ls []string
	for i := 0; i < n; i++ {
		l := strings.TrimSpace(line())
		if l != "" {
			ls = append(ls, l)
		}
	}
	return strings.Join(ls, "\n")
}

func nastyString(r *rand.Rand, nasty bool) string {
	if nasty && r.Intn(2) == 0 {
		return nastyParts[r.Intn(len(nastyParts))] + " " + nastyParts[r.Intn(len(nastyParts))] + "\nline2"
	}
	return RandString(r)
}

// typedLiteral draws a valid default literal for an input type, with numeric forms of every kind.
func typedLiteral(r *rand.Rand, s *model.Schema, t *model.TypeRef, depth int, nasty bool) (interface{}, bool) {
	if t.NonNull {
		return typedLiteral(r, s, t.Of, depth, nasty)
	}
	if r.Intn(12) == 0 {
		return nil, false // no default
	}
	if t.List {
		n := r.Intn(3)
		l := make([]interface{}, 0, n)
		for i := 0; i < n; i++ {
			v, okv := typedLiteral(r, s, t.Of, depth-1, nasty)
			if !okv {
				if t.Of.NonNull {
					continue
				}
				v = nil
			}
			l = append(l, v)
		}
		return l, true
	}
	if td := s.Type(t.Name); td != nil {
		switch td.Kind {
		case model.Enum:
			return model.Sym(td.Values[r.Intn(len(td.Values))].Name), true
		case model.Input:
			if depth <= 0 {
				return nil, false
			}
			o := model.NewObjLit()
			for _, f := range td.Inputs {
				if f.HasDefault && r.Intn(2) == 0 {
					continue // left to the nested type's own default
				}
				v, okv := typedLiteral(r, s, f.Type, depth-1, nasty)
				if !okv {
					if f.Type.NonNull && !f.HasDefault {
						return nil, false
					}
					continue
				}
				o.Set(f.Name, v)
			}
			return o, true
		case model.Scalar:
			return nastyString(r, nasty), true
		}
		return nil, false
	}
	switch t.Name {
	case "Int":
		return int64(r.Intn(2000) - 1000), true
	case "Int64":
		return r.Int63n(1<<45) - (1 << 44), true
	case "Float", "Float64":
		if t.Name == "Float64" && r.Intn(6) == 0 {
			// magnitudes that every writer prints in exponent form
			big := []model.RawLit{{Text: "1e21", Value: 1e21}, {Text: "5e22", Value: 5e22}, {Text: "1e-7", Value: 1e-7}, {Text: "2E-5", Value: 2e-5}, {Text: "-3e300", Value: -3e300}, {Text: "7.5e-9", Value: 7.5e-9}}
			return big[r.Intn(len(big))], true
		}
		switch r.Intn(5) {
		case 0:
			return model.RawLit{Text: "1", Value: int64(1)}, true
		case 1:
			return model.RawLit{Text: "1.0", Value: 1.0}, true
		case 2:
			return model.RawLit{Text: "1.5e3", Value: 1500.0}, true
		case 3:
			return model.RawLit{Text: "-0.25", Value: -0.25}, true
		}
		return float64(float32(r.NormFloat64() * 10)), true
	case "String":
		return nastyString(r, nasty), true
	case "ID":
		if r.Intn(3) == 0 {
			return int64(r.Intn(100)), true
		}
		return fmt.Sprintf("id%d", r.Intn(100)), true
	case "Boolean":
		return r.Intn(2) == 0, true
	case "Time":
		return "2020-01-02T03:04:05Z", true
	}
	return nil, false
}

var allLocations = []string{"SCHEMA", "SCALAR", "OBJECT", "FIELD_DEFINITION", "ARGUMENT_DEFINITION", "INTERFACE", "UNION", "ENUM", "ENUM_VALUE", "INPUT_OBJECT", "INPUT_FIELD_DEFINITION",
	"QUERY", "MUTATION", "SUBSCRIPTION", "FIELD", "FRAGMENT_DEFINITION", "FRAGMENT_SPREAD", "INLINE_FRAGMENT"}

type typeGen struct {
	r      *rand.Rand
	o      TypeOpts
	s      *model.Schema
	enums  []string
	inputs []string
	leafs  []string
	dirs   []*model.DirDef
}

func (g *typeGen) inType(depth int) *model.TypeRef {
	var t *model.TypeRef
	switch k := g.r.Intn(10); {
	case k < 5:
		t = model.Named([]string{"Int", "Float", "String", "Boolean", "ID", "Int64", "Float64", "Time"}[g.r.Intn(8)])
	case k < 7 && len(g.enums) > 0:
		t = model.Named(g.enums[g.r.Intn(len(g.enums))])
	case k < 9 && len(g.inputs) > 0:
		t = model.Named(g.inputs[g.r.Intn(len(g.inputs))])
	default:
		t = model.Named("String")
	}
	for d := 0; d < depth && g.r.Intn(3) == 0; d++ {
		if g.r.Intn(3) == 0 {
			t = model.NonNullOf(t)
		}
		t = model.ListOf(t)
	}
	if g.r.Intn(5) == 0 {
		t = model.NonNullOf(t)
	}
	return t
}

func (g *typeGen) uses(loc string) []model.DirUse {
	var out []model.DirUse
	if !g.o.Directives {
		return nil
	}
	for _, d := range g.dirs {
		okLoc := false
		for _, l := range d.On {
			if l == loc {
				okLoc = true
			}
		}
		if !okLoc || g.r.Intn(3) != 0 {
			continue
		}
		u := model.DirUse{Name: d.Name}
		for _, a := range d.Args {
			if !a.Type.NonNull && a.HasDefault && a.Default != nil && g.r.Intn(6) == 0 {
				u.Args = append(u.Args, model.Arg{Name: a.Name, Value: nil}) // an explicit null is not the default
				continue
			}
			if !a.Type.NonNull && g.r.Intn(2) == 0 {
				continue
			}
			v, okv := typedLiteral(g.r, g.s, a.Type, 2, g.o.NastyStrings)
			if !okv {
				if a.Type.NonNull {
					v = InputLiteral(g.r, g.s, a.Type, 3)
					if v == nil {
						continue
					}
				} else {
					continue
				}
			}
			u.Args = append(u.Args, model.Arg{Name: a.Name, Value: v})
		}
		// a required argument without value would be invalid: make sure they are all there
		complete := true
		for _, a := range d.Args {
			if a.Type.NonNull && !a.HasDefault {
				found := false
				for _, x := range u.Args {
					if x.Name == a.Name {
						found = true
					}
				}
				if !found {
					complete = false
				}
			}
		}
		if complete {
			out = append(out, u)
		}
	}
	if (loc == "FIELD_DEFINITION" || loc == "ENUM_VALUE") && g.r.Intn(5) == 0 {
		u := model.DirUse{Name: "deprecated"}
		if g.r.Intn(2) == 0 {
			u.Args = []model.Arg{{Name: "reason", Value: nastyString(g.r, g.o.NastyStrings)}}
		}
		if g.r.Intn(2) == 0 {
			out = append([]model.DirUse{u}, out...) // @deprecated written before the other directives of the member
		} else {
			out = append(out, u)
		}
	}
	return out
}

func (g *typeGen) args(n int) []*model.ArgDef {
	var out []*model.ArgDef
	for j := 0; j < n; j++ {
		a := &model.ArgDef{Name: fmt.Sprintf("a%d", j), Desc: Desc(g.r, g.o.NastyStrings), Type: g.inType(2)}
		if g.r.Intn(2) == 0 {
			if v, okv := typedLiteral(g.r, g.s, a.Type, 2, g.o.NastyStrings); okv {
				a.HasDefault, a.Default = true, v
			}
		}
		a.Dirs = g.uses("ARGUMENT_DEFINITION")
		out = append(out, a)
	}
	return out
}

func (g *typeGen) outLeaf() *model.TypeRef {
	t := model.Named(g.leafs[g.r.Intn(len(g.leafs))])
	for d := 0; d < 3 && g.r.Intn(3) == 0; d++ {
		if g.r.Intn(3) == 0 {
			t = model.NonNullOf(t)
		}
		t = model.ListOf(t)
	}
	if g.r.Intn(5) == 0 {
		t = model.NonNullOf(t)
	}
	return t
}

// TypeSchema generates a well-formed schema exercising every type kind.
func TypeSchema(r *rand.Rand, o TypeOpts) *model.Schema {
	g := &typeGen{r: r, o: o, s: &model.Schema{Query: "Query"}}
	s := g.s
	g.leafs = []string{"Int", "Float", "String", "Boolean", "ID", "Int64", "Float64", "Time"}
	scale := 3
	if o.Small {
		scale = 2
	}
	for i, n := 0, r.Intn(scale); i < n; i++ {
		s.Types = append(s.Types, &model.TypeDef{Kind: model.Scalar, Name: fmt.Sprintf("Sc%d", i), Desc: Desc(r, o.NastyStrings)})
		g.leafs = append(g.leafs, fmt.Sprintf("Sc%d", i))
	}
	for i, n := 0, 1+r.Intn(scale); i < n; i++ {
		e := &model.TypeDef{Kind: model.Enum, Name: fmt.Sprintf("En%d", i), Desc: Desc(r, o.NastyStrings)}
		for j, m := 0, 1+r.Intn(4); j < m; j++ {
			e.Values = append(e.Values, &model.EnumVal{Name: fmt.Sprintf("E%d_%d", i, j), Desc: Desc(r, o.NastyStrings)})
		}
		s.Types = append(s.Types, e)
		g.enums = append(g.enums, e.Name)
		g.leafs = append(g.leafs, e.Name)
	}
	s.Reindex()
	// directive definitions (arguments use scalars and enums only, so definitions cannot form loops through inputs)
	if o.Directives {
		for i, n := 0, 1+r.Intn(scale); i < n; i++ {
			d := &model.DirDef{Name: fmt.Sprintf("dir%d", i), Desc: Desc(r, o.NastyStrings)}
			perm := r.Perm(len(allLocations))
			for j, m := 0, 1+r.Intn(6); j < m; j++ {
				d.On = append(d.On, allLocations[perm[j]])
			}
			for j, m := 0, r.Intn(3); j < m; j++ {
				a := &model.ArgDef{Name: fmt.Sprintf("d%d", j), Desc: Desc(r, o.NastyStrings), Type: g.inType(2)}
				if r.Intn(2) == 0 || true {
					if v, okv := typedLiteral(r, s, a.Type, 2, o.NastyStrings); okv {
						a.HasDefault, a.Default = true, v
					}
				}
				if a.Type.NonNull && !a.HasDefault && r.Intn(2) == 0 {
					a.Type = a.Type.Of
				}
				d.Args = append(d.Args, a)
			}
			s.Dirs = append(s.Dirs, d)
		}
		g.dirs = s.Dirs
		if r.Intn(3) == 0 {
			// directives on the arguments of directive definitions: one marker used on two arguments of one definition, and
			// reached along two branches (a diamond) - a use is no loop
			lo := []string{"ARGUMENT_DEFINITION", "INPUT_FIELD_DEFINITION"}
			leaf := &model.DirDef{Name: "argMarkZz", On: lo}
			mid1 := &model.DirDef{Name: "argMidAZz", On: lo, Args: []*model.ArgDef{{Name: "m", Type: model.Named("Int"), Dirs: []model.DirUse{{Name: "argMarkZz"}}}}}
			mid2 := &model.DirDef{Name: "argMidBZz", On: lo, Args: []*model.ArgDef{{Name: "m", Type: model.Named("String"), Dirs: []model.DirUse{{Name: "argMarkZz"}}}}}
			top := &model.DirDef{Name: "argTopZz", On: []string{"OBJECT", "ENUM"}, Args: []*model.ArgDef{
				{Name: "a", Type: model.Named("Int"), Dirs: []model.DirUse{{Name: "argMarkZz"}, {Name: "argMidAZz"}}},
				{Name: "b", Type: model.Named("Int"), Dirs: []model.DirUse{{Name: "argMarkZz"}, {Name: "argMidBZz"}}}}}
			s.Dirs = append(s.Dirs, top, mid1, mid2, leaf)
		}
	}
	for _, t := range s.Types {
		switch t.Kind {
		case model.Scalar:
			t.Dirs = g.uses("SCALAR")
		case model.Enum:
			t.Dirs = g.uses("ENUM")
			for _, v := range t.Values {
				v.Dirs = g.uses("ENUM_VALUE")
			}
		}
	}
	// inputs (acyclic: an input only refers to earlier inputs)
	for i, n := 0, 1+r.Intn(scale); i < n; i++ {
		in := &model.TypeDef{Kind: model.Input, Name: fmt.Sprintf("Inp%d", i), Desc: Desc(r, o.NastyStrings)}
		for j, m := 0, 1+r.Intn(4); j < m; j++ {
			f := &model.ArgDef{Name: fmt.Sprintf("k%d", j), Desc: Desc(r, o.NastyStrings), Type: g.inType(2)}
			if r.Intn(2) == 0 {
				if v, okv := typedLiteral(r, s, f.Type, 2, o.NastyStrings); okv {
					f.HasDefault, f.Default = true, v
				}
			}
			f.Dirs = g.uses("INPUT_FIELD_DEFINITION")
			in.Inputs = append(in.Inputs, f)
		}
		in.Dirs = g.uses("INPUT_OBJECT")
		s.Types = append(s.Types, in)
		s.Reindex()
		g.inputs = append(g.inputs, in.Name)
	}
	// interfaces
	var ifaces []*model.TypeDef
	for i, n := 0, r.Intn(scale); i < n; i++ {
		it := &model.TypeDef{Kind: model.Interface, Name: fmt.Sprintf("If%d", i), Desc: Desc(r, o.NastyStrings)}
		ifaces = append(ifaces, it)
		s.Types = append(s.Types, it)
	}
	// objects
	var objs []*model.TypeDef
	for i, n := 0, 2+r.Intn(scale+1); i < n; i++ {
		ot := &model.TypeDef{Kind: model.Object, Name: fmt.Sprintf("Ob%d", i), Desc: Desc(r, o.NastyStrings)}
		objs = append(objs, ot)
		s.Types = append(s.Types, ot)
	}
	var unions []*model.TypeDef
	for i, n := 0, r.Intn(scale); i < n; i++ {
		u := &model.TypeDef{Kind: model.Union, Name: fmt.Sprintf("Un%d", i), Desc: Desc(r, o.NastyStrings)}
		perm := r.Perm(len(objs))
		for j, m := 0, 1+r.Intn(minInt(3, len(objs))); j < m; j++ {
			u.Members = append(u.Members, objs[perm[j]].Name)
		}
		unions = append(unions, u)
		s.Types = append(s.Types, u)
	}
	s.Reindex()
	composite := func() string {
		k := r.Intn(len(objs) + len(ifaces) + len(unions))
		switch {
		case k < len(objs):
			return objs[k].Name
		case k < len(objs)+len(ifaces):
			return ifaces[k-len(objs)].Name
		}
		return unions[k-len(objs)-len(ifaces)].Name
	}
	outType := func() *model.TypeRef {
		if r.Intn(3) == 0 {
			t := model.Named(composite())
			switch r.Intn(5) {
			case 0:
				return model.ListOf(t)
			case 1:
				return model.NonNullOf(t)
			case 2:
				return model.NonNullOf(model.ListOf(model.NonNullOf(t)))
			}
			return t
		}
		return g.outLeaf()
	}
	// interface fields
	for i, it := range ifaces {
		for j, m := 0, 1+r.Intn(3); j < m; j++ {
			f := &model.FieldDef{Name: fmt.Sprintf("i%d_%d", i, j), Desc: Desc(r, o.NastyStrings), Type: outType(), Args: g.args(r.Intn(3))}
			f.Dirs = g.uses("FIELD_DEFINITION")
			it.Fields = append(it.Fields, f)
		}
		it.Dirs = g.uses("INTERFACE")
	}
	// object fields: implement interfaces covariantly. The implements lists are fixed first so that a field typed by an
	// interface or union can be narrowed to an object that implements / belongs to it.
	for _, ot := range objs {
		for _, it := range ifaces {
			if r.Intn(2) == 0 {
				ot.Interfaces = append(ot.Interfaces, it.Name)
			}
		}
	}
	s.Reindex()
	for _, ot := range objs {
		for _, in := range ot.Interfaces {
			it := s.Type(in)
			for _, fi := range it.Fields {
				if ot.Field(fi.Name) != nil {
					continue
				}
				f := &model.FieldDef{Name: fi.Name, Desc: Desc(r, o.NastyStrings), Type: fi.Type}
				// covariance: T -> T!, or an abstract named type -> one of its possible object types
				if k, known := s.KindOf(fi.Type.Base()); known && (k == model.Interface || k == model.Union) && !fi.Type.List && !fi.Type.NonNull && r.Intn(2) == 0 {
					if pts := s.PossibleTypes(fi.Type.Name); len(pts) > 0 {
						f.Type = model.Named(pts[r.Intn(len(pts))])
					}
				} else if known && (k == model.Interface || k == model.Union) && (fi.Type.List || fi.Type.NonNull) && r.Intn(2) == 0 {
					// the same narrowing below list and non-null wrappers: [Node] -> [Leaf], [[Node!]]! -> [[Leaf!]]!
					if pts := s.PossibleTypes(fi.Type.Base()); len(pts) > 0 {
						f.Type = narrowBase(fi.Type, pts[r.Intn(len(pts))])
					}
				} else if !fi.Type.NonNull && r.Intn(3) == 0 {
					f.Type = model.NonNullOf(fi.Type)
				}
				for _, a := range fi.Args {
					f.Args = append(f.Args, &model.ArgDef{Name: a.Name, Type: a.Type, HasDefault: a.HasDefault, Default: a.Default, Desc: Desc(r, o.NastyStrings)})
				}
				// an additional optional argument
				if r.Intn(3) == 0 {
					f.Args = append(f.Args, &model.ArgDef{Name: "extra", Type: model.Named("Int")})
				}
				f.Dirs = g.uses("FIELD_DEFINITION")
				ot.Fields = append(ot.Fields, f)
			}
		}
		for j, m := 0, 1+r.Intn(4); j < m; j++ {
			f := &model.FieldDef{Name: fmt.Sprintf("f%d", j), Desc: Desc(r, o.NastyStrings), Type: outType(), Args: g.args(r.Intn(3))}
			f.Dirs = g.uses("FIELD_DEFINITION")
			ot.Fields = append(ot.Fields, f)
		}
		ot.Dirs = g.uses("OBJECT")
	}
	for _, u := range unions {
		u.Dirs = g.uses("UNION")
	}
	// root operation types
	qn, mn, sn := "Query", "Mutation", "Subscription"
	if o.CustomRoots && r.Intn(3) == 0 {
		qn, mn, sn = "RootQ", "RootM", "RootS"
		s.ExplicitSchema = true
	}
	q := &model.TypeDef{Kind: model.Object, Name: qn, Desc: Desc(r, o.NastyStrings)}
	for i, ot := range objs {
		q.Fields = append(q.Fields, &model.FieldDef{Name: fmt.Sprintf("o%d", i), Type: model.Named(ot.Name), Args: g.args(r.Intn(2))})
	}
	q.Fields = append(q.Fields, &model.FieldDef{Name: "plain", Type: g.outLeaf(), Desc: Desc(r, o.NastyStrings), Dirs: g.uses("FIELD_DEFINITION")})
	q.Dirs = g.uses("OBJECT")
	// a root operation type may implement an interface like any other object
	implementRoot := func(t *model.TypeDef) {
		if len(ifaces) == 0 || r.Intn(3) != 0 {
			return
		}
		it := ifaces[r.Intn(len(ifaces))]
		t.Interfaces = append(t.Interfaces, it.Name)
		for _, fi := range it.Fields {
			if t.Field(fi.Name) != nil {
				continue
			}
			f := &model.FieldDef{Name: fi.Name, Type: fi.Type}
			for _, a := range fi.Args {
				f.Args = append(f.Args, &model.ArgDef{Name: a.Name, Type: a.Type, HasDefault: a.HasDefault, Default: a.Default})
			}
			t.Fields = append(t.Fields, f)
		}
	}
	implementRoot(q)
	s.Types = append(s.Types, q)
	s.Query = qn
	if r.Intn(2) == 0 {
		m := &model.TypeDef{Kind: model.Object, Name: mn, Fields: []*model.FieldDef{{Name: "mut", Type: model.Named("Int"), Args: g.args(1)}}}
		implementRoot(m)
		s.Types = append(s.Types, m)
		s.Mutation = mn
	} else if o.CustomRoots && r.Intn(4) == 0 {
		// an ORDINARY object type that merely has the default name of a root operation: the explicit schema definition
		// does not list it, so it is no root operation type
		s.Types = append(s.Types, &model.TypeDef{Kind: model.Object, Name: "Mutation", Fields: []*model.FieldDef{{Name: "mut", Type: model.Named("Int")}}})
		q.Fields = append(q.Fields, &model.FieldDef{Name: "notARoot", Type: model.Named("Mutation")})
		s.ExplicitSchema = true
	}
	if r.Intn(3) == 0 {
		m := &model.TypeDef{Kind: model.Object, Name: sn, Fields: []*model.FieldDef{{Name: "sub", Type: model.Named(objs[0].Name)}}}
		s.Types = append(s.Types, m)
		s.Subscription = sn
	}
	if !s.ExplicitSchema && o.CustomRoots && r.Intn(4) == 0 {
		s.ExplicitSchema = true
	}
	s.Reindex()
	return s
}

// PadDescriptions gives some single-line descriptions leading and/or trailing blanks (space, tab) and mixes in a
// double quote: what a hand-written schema file looks like. ggql normalises descriptions when it reads them, so a model
// treated this way is only good for checks that compare ggql with itself (print / re-parse), not with the model.
func PadDescriptions(r *rand.Rand, s *model.Schema) int {
	n := 0
	pad := func(d *string) {
		if *d == "" || strings.Contains(*d, "\n") || r.Intn(3) != 0 {
			return
		}
		v := *d
		if r.Intn(2) == 0 && !strings.Contains(v, "\"") {
			v += " \"q\" end"
		}
		blanks := []string{" ", "\t", "  ", " \t"}
		if r.Intn(3) != 0 {
			v = blanks[r.Intn(len(blanks))] + v
		}
		if r.Intn(3) != 0 {
			v += blanks[r.Intn(len(blanks))]
		}
		*d = v
		n++
	}
	args := func(as []*model.ArgDef) {
		for _, a := range as {
			pad(&a.Desc)
		}
	}
	for _, t := range s.Types {
		pad(&t.Desc)
		for _, f := range t.Fields {
			pad(&f.Desc)
			args(f.Args)
		}
		args(t.Inputs)
		for _, v := range t.Values {
			pad(&v.Desc)
		}
	}
	for _, d := range s.Dirs {
		pad(&d.Desc)
		args(d.Args)
	}
	return n
}

// narrowBase rebuilds t with its innermost named type replaced.
func narrowBase(t *model.TypeRef, to string) *model.TypeRef {
	switch {
	case t.NonNull:
		return model.NonNullOf(narrowBase(t.Of, to))
	case t.List:
		return model.ListOf(narrowBase(t.Of, to))
	}
	return model.Named(to)
}
