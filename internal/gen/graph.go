package gen

import (
	"math/rand"

	"verif/internal/model"
)

// GraphOpts steers the data graph generator.
type GraphOpts struct {
	NullProb int // percent of nullable positions that are null (default 12)
	TypedNil int // percent of object positions holding a typed nil pointer
	PerType  int // nodes per object type (default 1..3)
}

// Graph generates a data graph typed by s. Node 0 is the schema root whose
// fields "query"/"mutation" hold the operation roots.
func Graph(r *rand.Rand, s *model.Schema, o GraphOpts) *model.Graph {
	if o.NullProb == 0 {
		o.NullProb = 12
	}
	g := &model.Graph{}
	newNode := func(t string) *model.Node {
		n := &model.Node{ID: len(g.Nodes), Type: t, F: map[string]interface{}{}}
		g.Nodes = append(g.Nodes, n)
		return n
	}
	g.Root = newNode("__root")
	byType := map[string][]*model.Node{}
	for _, t := range s.Types {
		if t.Kind != model.Object {
			continue
		}
		n := 1 + r.Intn(3)
		if o.PerType > 0 {
			n = o.PerType
		}
		if t.Name == s.Query || t.Name == s.Mutation || t.Name == s.Subscription {
			n = 1
		}
		for i := 0; i < n; i++ {
			byType[t.Name] = append(byType[t.Name], newNode(t.Name))
		}
	}
	if s.Query != "" && len(byType[s.Query]) > 0 {
		g.Root.F["query"] = byType[s.Query][0]
	}
	if s.Mutation != "" && len(byType[s.Mutation]) > 0 {
		g.Root.F["mutation"] = byType[s.Mutation][0]
	}
	if s.Subscription != "" && len(byType[s.Subscription]) > 0 {
		g.Root.F["subscription"] = byType[s.Subscription][0]
	}
	pick := func(name string) interface{} {
		td := s.Type(name)
		var cands []*model.Node
		if td.Kind == model.Object {
			cands = byType[name]
		} else {
			for _, pt := range s.PossibleTypes(name) {
				cands = append(cands, byType[pt]...)
			}
		}
		if len(cands) == 0 {
			return nil
		}
		return cands[r.Intn(len(cands))]
	}
	var value func(t *model.TypeRef, depth int) interface{}
	value = func(t *model.TypeRef, depth int) interface{} {
		if t.NonNull {
			for i := 0; i < 4; i++ {
				if v := value(t.Of, depth); v != nil {
					return v
				}
			}
			return value(t.Of, depth)
		}
		if r.Intn(100) < o.NullProb {
			return nil
		}
		if t.List {
			n := r.Intn(4)
			l := make(model.VList, n)
			for i := range l {
				l[i] = value(t.Of, depth+1)
			}
			return l
		}
		if s.IsLeaf(t.Name) {
			return LeafValue(r, s, t.Name)
		}
		if o.TypedNil > 0 && r.Intn(100) < o.TypedNil {
			if td := s.Type(t.Name); td != nil && td.Kind == model.Object {
				return model.TypedNil{Type: t.Name}
			}
		}
		return pick(t.Name)
	}
	for _, n := range g.Nodes[1:] {
		td := s.Type(n.Type)
		for _, f := range td.Fields {
			if f.Echo {
				continue
			}
			if (f.Name == "self" || f.Name == "selfReq") && n.Type == s.Query {
				n.F[f.Name] = n
				continue
			}
			if f.Name == "selfList" && n.Type == s.Query {
				n.F[f.Name] = model.VList{n}
				continue
			}
			n.F[f.Name] = value(f.Type, 0)
		}
	}
	return g
}
