package gen

import (
	"fmt"
	"math/rand"
	"sort"
	"strings"

	"verif/internal/model"
)

// DocOpts steers the document generator.
type DocOpts struct {
	Depth      int
	MaxSels    int
	MaxOps     int
	Frags      bool
	Dirs       bool
	DirEvery   int // with Dirs: one selection in DirEvery carries directives (0 = 5)
	Vars       bool
	Aliases    bool
	DupKeys    bool // allow the same response key twice in one scope (merge territory)
	Abstract   bool // conditions on interfaces / unions / unrelated types
	Mutation   bool
	NoTypename bool
}

// DocCase is a generated document with its variable values and feature set.
type DocCase struct {
	Doc   *model.Doc
	Vars  map[string]interface{}
	Feats map[string]bool
	// OpName is a valid choice of operation name ("" when the document has one operation).
	OpName string
}

type docGen struct {
	r       *rand.Rand
	s       *model.Schema
	o       DocOpts
	d       *model.Doc
	nextID  int
	vars    []*model.VarDef
	varVals map[string]interface{}
	feats   map[string]bool
	fragKey map[string][]string // fragment name -> top-level response keys it may contribute
}

// Doc generates a valid document against s.
func Doc(r *rand.Rand, s *model.Schema, o DocOpts) *DocCase {
	if o.Depth == 0 {
		o.Depth = 3
	}
	if o.MaxSels == 0 {
		o.MaxSels = 4
	}
	if o.MaxOps == 0 {
		o.MaxOps = 3
	}
	g := &docGen{r: r, s: s, o: o, d: &model.Doc{}, varVals: map[string]interface{}{}, feats: map[string]bool{}, fragKey: map[string][]string{}}
	nOps := 1
	if r.Intn(3) == 0 {
		nOps = 1 + r.Intn(o.MaxOps)
	}
	for i := 0; i < nOps; i++ {
		op := &model.Op{Kind: "query"}
		root := s.Query
		if o.Mutation && s.Mutation != "" && r.Intn(4) == 0 {
			op.Kind = "mutation"
			root = s.Mutation
			g.feats["mutation"] = true
		}
		if nOps == 1 {
			switch r.Intn(3) {
			case 0:
				op.Shorthand = op.Kind == "query"
			case 1:
				op.Name = "Only"
			}
		} else {
			op.Name = fmt.Sprintf("Op%d", i)
		}
		op.Sels = g.selSet(root, o.Depth, map[string]bool{})
		g.d.Ops = append(g.d.Ops, op)
	}
	if nOps > 1 {
		g.feats["multi-op"] = true
	}
	if len(g.vars) > 0 {
		for _, op := range g.d.Ops {
			if op.Shorthand {
				op.Shorthand = false // variables need the long form
			}
			op.Vars = g.vars
		}
		g.feats["variables"] = true
	}
	g.d.FragsFirst = r.Intn(2) == 0
	c := &DocCase{Doc: g.d, Vars: g.varVals, Feats: g.feats}
	if nOps > 1 {
		c.OpName = g.d.Ops[r.Intn(nOps)].Name
	} else if r.Intn(2) == 0 {
		c.OpName = g.d.Ops[0].Name
	}
	return c
}

func (g *docGen) id() int { g.nextID++; return g.nextID }

func (g *docGen) boolVar(val bool) model.VarRef {
	name := fmt.Sprintf("v%d", len(g.vars))
	vd := &model.VarDef{Name: name}
	switch g.r.Intn(3) {
	case 0: // required, supplied
		vd.Type = model.NonNullOf(model.Named("Boolean"))
		g.varVals[name] = val
	case 1: // defaulted, not supplied
		vd.Type = model.Named("Boolean")
		vd.HasDefault = true
		vd.Default = val
		g.feats["var-default"] = true
	default: // defaulted with the opposite value, supplied value wins
		vd.Type = model.Named("Boolean")
		vd.HasDefault = true
		vd.Default = !val
		g.varVals[name] = val
		g.feats["var-over-default"] = true
	}
	g.vars = append(g.vars, vd)
	return model.VarRef(name)
}

func (g *docGen) dirs() []model.DirUse {
	every := 5
	if g.o.DirEvery > 0 {
		every = g.o.DirEvery
	}
	if !g.o.Dirs || g.r.Intn(every) != 0 {
		return nil
	}
	var out []model.DirUse
	mk := func(name string) {
		val := g.r.Intn(2) == 0
		var v interface{} = val
		if g.o.Vars && g.r.Intn(2) == 0 {
			v = g.boolVar(val)
		}
		out = append(out, model.DirUse{Name: name, Args: []model.Arg{{Name: "if", Value: v}}})
	}
	switch g.r.Intn(4) {
	case 0:
		mk("skip")
	case 1:
		mk("include")
	case 2:
		mk("skip")
		mk("include")
	default:
		mk("include")
		mk("skip")
	}
	g.feats["directives"] = true
	return out
}

// argValue makes a literal for an argument, possibly routed through variables.
func (g *docGen) argValue(t *model.TypeRef) interface{} {
	lit := InputLiteral(g.r, g.s, t, 2)
	if lit == nil && t.NonNull {
		lit = InputLiteral(g.r, g.s, t, 3)
	}
	if g.o.Vars && g.r.Intn(3) == 0 {
		name := fmt.Sprintf("v%d", len(g.vars))
		vd := &model.VarDef{Name: name, Type: t}
		j, jsonable := LiteralToJSON(lit)
		if jsonable && g.r.Intn(3) != 0 {
			g.varVals[name] = j
			if g.r.Intn(3) == 0 {
				if dv := InputLiteral(g.r, g.s, t, 1); dv != nil {
					vd.HasDefault = true
					vd.Default = dv
					g.feats["var-over-default"] = true
				}
			}
		} else {
			if lit == nil {
				return lit
			}
			vd.HasDefault = true
			vd.Default = lit
			g.feats["var-default"] = true
		}
		g.vars = append(g.vars, vd)
		g.feats["arg-var"] = true
		return model.VarRef(name)
	}
	return lit
}

func (g *docGen) args(fd *model.FieldDef) []model.Arg {
	var out []model.Arg
	perm := g.r.Perm(len(fd.Args))
	for _, i := range perm {
		ad := fd.Args[i]
		if !ad.Type.NonNull && g.r.Intn(3) == 0 {
			continue
		}
		v := g.argValue(ad.Type)
		if v == nil && ad.Type.NonNull {
			continue
		}
		out = append(out, model.Arg{Name: ad.Name, Value: v})
	}
	// a required argument must be there
	for _, ad := range fd.Args {
		if !ad.Type.NonNull {
			continue
		}
		found := false
		for _, a := range out {
			if a.Name == ad.Name {
				found = true
			}
		}
		if !found {
			out = append(out, model.Arg{Name: ad.Name, Value: InputLiteral(g.r, g.s, ad.Type, 3)})
		}
	}
	if len(out) > 0 {
		g.feats["args"] = true
	}
	return out
}

func (g *docGen) fieldsOf(typeName string) []*model.FieldDef {
	td := g.s.Type(typeName)
	if td == nil {
		return nil
	}
	return td.Fields
}

// selSet generates a selection set for a value of static type typeName.
func (g *docGen) selSet(typeName string, depth int, keys map[string]bool) []model.Sel {
	td := g.s.Type(typeName)
	var sels []model.Sel
	n := 1 + g.r.Intn(g.o.MaxSels)
	fields := g.fieldsOf(typeName)
	for i := 0; i < n; i++ {
		k := g.r.Intn(10)
		switch {
		case k == 0 && !g.o.NoTypename:
			f := &model.Field{Name: "__typename", ID: g.id()}
			if g.o.Aliases && g.r.Intn(3) == 0 {
				f.Alias = g.freshKey(keys, "tn")
			}
			if keys[f.Key()] {
				continue
			}
			keys[f.Key()] = true
			sels = append(sels, f)
			g.feats["__typename"] = true
		case k <= 2 && g.o.Frags && depth > 0:
			if s := g.fragment(typeName, depth, keys); s != nil {
				sels = append(sels, s)
			}
		default:
			if len(fields) == 0 {
				continue
			}
			fd := fields[g.r.Intn(len(fields))]
			if f := g.field(fd, depth, keys); f != nil {
				sels = append(sels, f)
			}
		}
	}
	if len(sels) == 0 {
		// guarantee a non-empty selection set
		if td != nil && td.Kind != model.Union {
			for _, fd := range fields {
				if g.s.IsLeaf(fd.Type.Base()) && len(fd.Args) == 0 {
					if f := g.field(fd, 0, keys); f != nil {
						return []model.Sel{f}
					}
				}
			}
		}
		f := &model.Field{Name: "__typename", ID: g.id(), Alias: g.freshKey(keys, "tn")}
		keys[f.Key()] = true
		sels = append(sels, f)
	}
	return sels
}

func (g *docGen) freshKey(keys map[string]bool, prefix string) string {
	// "data" is also the key of ggql's internal root pseudo field: a legal alias that must behave like any other
	if !keys["data"] && g.r.Intn(10) == 0 {
		return "data"
	}
	for i := 0; ; i++ {
		k := fmt.Sprintf("%s%d", prefix, i)
		if !keys[k] {
			return k
		}
	}
}

func (g *docGen) field(fd *model.FieldDef, depth int, keys map[string]bool) *model.Field {
	leaf := g.s.IsLeaf(fd.Type.Base())
	if !leaf && depth <= 0 {
		return nil
	}
	f := &model.Field{Name: fd.Name, ID: g.id()}
	if g.o.Aliases && g.r.Intn(4) == 0 {
		f.Alias = g.freshKey(keys, "al")
		g.feats["alias"] = true
	}
	if keys[f.Key()] {
		// a response key may only be repeated by the same field (anything else is an invalid document:
		// "fields in set can merge"); the owner of a key is recorded under a reserved entry of the same map
		if g.o.DupKeys && len(fd.Args) == 0 && keys[fmt.Sprintf("\x00own:%s=%p", f.Key(), fd)] && g.r.Intn(2) == 0 {
			g.feats["dup-key"] = true
			if !leaf {
				g.feats["dup-key-composite"] = true
			}
		} else {
			f.Alias = g.freshKey(keys, "al")
			g.feats["alias"] = true
		}
	}
	keys[f.Key()] = true
	keys[fmt.Sprintf("\x00own:%s=%p", f.Key(), fd)] = true
	if len(fd.Args) > 0 {
		f.Args = g.args(fd)
	}
	f.Dirs = g.dirs()
	if !leaf {
		f.Sels = g.selSet(fd.Type.Base(), depth-1, map[string]bool{})
		g.feats["nested"] = true
		if fd.Type.List || (fd.Type.Of != nil && fd.Type.Of.List) {
			g.feats["list-of-objects"] = true
		}
		if k, _ := g.s.KindOf(fd.Type.Base()); k == model.Interface || k == model.Union {
			g.feats["abstract-field"] = true
		}
	} else if fd.Type.List || (fd.Type.Of != nil && fd.Type.Of.List) {
		g.feats["list-of-leaves"] = true
		if fd.Type.Of != nil && fd.Type.Of.List && fd.Type.List {
			g.feats["list-of-list"] = true
		}
	}
	return f
}

// conds lists candidate type conditions for a value of static type typeName.
func (g *docGen) conds(typeName string) []string {
	td := g.s.Type(typeName)
	out := []string{typeName}
	if td == nil {
		return out
	}
	if !g.o.Abstract {
		if td.Kind != model.Object {
			return g.s.PossibleTypes(typeName)
		}
		return out
	}
	switch td.Kind {
	case model.Object:
		out = append(out, td.Interfaces...)
		for _, t := range g.s.Types {
			if t.Kind == model.Union && g.s.Implements(typeName, t.Name) {
				out = append(out, t.Name)
			}
		}
		// unrelated object type
		for _, t := range g.s.Types {
			if t.Kind == model.Object && t.Name != typeName && g.r.Intn(4) == 0 {
				out = append(out, t.Name)
				break
			}
		}
	case model.Interface, model.Union:
		out = append(out, g.s.PossibleTypes(typeName)...)
		for _, t := range g.s.Types {
			if (t.Kind == model.Interface || t.Kind == model.Union) && t.Name != typeName && g.r.Intn(3) == 0 {
				out = append(out, t.Name)
			}
		}
	}
	return out
}

func (g *docGen) fragment(typeName string, depth int, keys map[string]bool) model.Sel {
	cs := g.conds(typeName)
	if len(cs) == 0 {
		return nil
	}
	cond := cs[g.r.Intn(len(cs))]
	ck, _ := g.s.KindOf(cond)
	if cond != typeName {
		g.feats["cond-other-type"] = true
	}
	if ck == model.Interface || ck == model.Union {
		g.feats["cond-abstract"] = true
	}
	named := g.r.Intn(2) == 0
	if named {
		// often reuse an existing fragment on the same condition whose keys are free here (one fragment reached by several
		// routes: from two operations, from two fragments, twice from the same fragment at different depths)
		if g.r.Intn(2) == 0 {
			for _, fr := range g.d.Frags {
				if _, done := g.fragKey[fr.Name]; !done || fr.Cond != cond {
					continue
				}
				free := true
				for _, k := range g.fragKey[fr.Name] {
					if keys[k] {
						free = false
					}
				}
				if free {
					for _, k := range g.fragKey[fr.Name] {
						keys[k] = true
					}
					g.feats["fragment-reuse"] = true
					return &model.Spread{Name: fr.Name, Dirs: g.dirs()}
				}
			}
		}
		before := copyKeys(keys)
		fr := &model.FragDef{Name: fmt.Sprintf("F%d", len(g.d.Frags)), Cond: cond}
		g.d.Frags = append(g.d.Frags, fr)
		saveVars := g.o.Vars
		fr.Sels = g.selSet(cond, depth-1, keys)
		g.o.Vars = saveVars
		var added []string
		for k := range keys {
			if !before[k] && !strings.HasPrefix(k, "\x00") {
				added = append(added, k)
			}
		}
		sort.Strings(added)
		g.fragKey[fr.Name] = added
		g.feats["named-fragment"] = true
		return &model.Spread{Name: fr.Name, Dirs: g.dirs()}
	}
	in := &model.Inline{Cond: cond, Dirs: g.dirs()}
	if cond == typeName && g.r.Intn(3) == 0 {
		in.Cond = ""
		g.feats["inline-nocond"] = true
	}
	in.Sels = g.selSet(cond, depth-1, keys)
	g.feats["inline-fragment"] = true
	return in
}

func copyKeys(m map[string]bool) map[string]bool {
	o := make(map[string]bool, len(m))
	for k, v := range m {
		o[k] = v
	}
	return o
}

// AltVars draws a fresh, valid variable map for the document's variable
// definitions (same types, other values; some variables left to their defaults).
func AltVars(r *rand.Rand, s *model.Schema, dc *DocCase) map[string]interface{} {
	out := map[string]interface{}{}
	if len(dc.Doc.Ops) == 0 {
		return out
	}
	for _, vd := range dc.Doc.Ops[0].Vars {
		old, had := dc.Vars[vd.Name]
		if vd.HasDefault && r.Intn(3) == 0 {
			continue // fall back to the default this time
		}
		if vd.Type.Base() == "Boolean" && !vd.Type.List && (vd.Type.Of == nil || !vd.Type.Of.List) {
			// directive conditions and boolean arguments: flip or keep
			if b, isB := old.(bool); isB {
				if r.Intn(2) == 0 {
					out[vd.Name] = !b
				} else {
					out[vd.Name] = b
				}
				continue
			}
			if vd.HasDefault {
				if r.Intn(2) == 0 {
					out[vd.Name] = r.Intn(2) == 0
				}
				continue
			}
		}
		lit := InputLiteral(r, s, vd.Type, 2)
		j, jsonable := LiteralToJSON(lit)
		if jsonable && (lit != nil || !vd.Type.NonNull) {
			if lit == nil && !had {
				continue
			}
			out[vd.Name] = j
			continue
		}
		if had {
			out[vd.Name] = old
		}
	}
	return out
}
