// Package gen holds the seeded generators: schemas, data graphs, documents, values.
package gen

import (
	"fmt"
	"math"
	"math/rand"
	"time"

	"verif/internal/model"
)

// SchemaOpts steers the executor-oriented schema generator.
type SchemaOpts struct {
	Abstract bool // interfaces and unions
	Args     bool // echo fields with arguments
	Mutation bool
	MaxObj   int
	Scalars  []string // leaf scalar pool (default: all built-ins + custom)
}

var fieldNames = []string{"id", "name", "x", "y", "val", "n", "f", "b", "t", "e", "items", "kids", "next", "peer", "grid",
	"tags", "u", "i", "data", "alpha", "beta", "gamma", "count", "flag", "when", "big", "ratio", "kind", "owner", "parts", "lead", "aB", "zEd"}

// ExecSchema generates a schema suited for execution workloads. Every object
// type is reachable from Query.
func ExecSchema(r *rand.Rand, o SchemaOpts) *model.Schema {
	if o.MaxObj == 0 {
		o.MaxObj = 5
	}
	s := &model.Schema{Query: "Query"}
	leafs := o.Scalars
	if leafs == nil {
		leafs = []string{"Int", "Float", "String", "Boolean", "ID", "Int64", "Float64", "Time"}
	}
	// enums
	nEnum := r.Intn(3)
	for i := 0; i < nEnum; i++ {
		e := &model.TypeDef{Kind: model.Enum, Name: fmt.Sprintf("E%d", i)}
		for j, n := 0, 2+r.Intn(3); j < n; j++ {
			e.Values = append(e.Values, &model.EnumVal{Name: fmt.Sprintf("V%d_%d", i, j)})
		}
		s.Types = append(s.Types, e)
		leafs = append(leafs, e.Name)
	}
	if r.Intn(3) == 0 {
		s.Types = append(s.Types, &model.TypeDef{Kind: model.Scalar, Name: "Custom"})
		leafs = append(leafs, "Custom")
	}
	// inputs
	var inputs []string
	if o.Args {
		for i, n := 0, 1+r.Intn(2); i < n; i++ {
			in := &model.TypeDef{Kind: model.Input, Name: fmt.Sprintf("In%d", i)}
			for j, m := 0, 1+r.Intn(4); j < m; j++ {
				f := &model.ArgDef{Name: fmt.Sprintf("k%d", j)}
				f.Type = inputType(r, s, inputs, 2)
				if r.Intn(3) == 0 {
					if dv, okd := DefaultFor(r, s, f.Type); okd {
						f.HasDefault = true
						f.Default = dv
					}
				}
				in.Inputs = append(in.Inputs, f)
			}
			s.Types = append(s.Types, in)
			inputs = append(inputs, in.Name)
		}
	}
	// interfaces
	var ifaces []*model.TypeDef
	if o.Abstract {
		for i, n := 0, 1+r.Intn(2); i < n; i++ {
			it := &model.TypeDef{Kind: model.Interface, Name: fmt.Sprintf("I%d", i)}
			for j, m := 0, 1+r.Intn(2); j < m; j++ {
				it.Fields = append(it.Fields, &model.FieldDef{Name: fmt.Sprintf("if%d_%d", i, j), Type: wrapLeaf(r, leafs[r.Intn(len(leafs))])})
			}
			// a field typed by the interface itself: implementers declare it covariantly with their own type
			it.Fields = append(it.Fields, &model.FieldDef{Name: fmt.Sprintf("twin%d", i), Type: model.Named(it.Name)})
			ifaces = append(ifaces, it)
			s.Types = append(s.Types, it)
		}
	}
	// objects
	nObj := 2 + r.Intn(o.MaxObj-1)
	var objs []*model.TypeDef
	for i := 0; i < nObj; i++ {
		ot := &model.TypeDef{Kind: model.Object, Name: fmt.Sprintf("T%d", i)}
		for _, it := range ifaces {
			if r.Intn(2) == 0 {
				ot.Interfaces = append(ot.Interfaces, it.Name)
				for _, f := range it.Fields {
					ft := f.Type
					if f.Type.Name == it.Name && !f.Type.List && !f.Type.NonNull && r.Intn(3) != 0 {
						ft = model.Named(ot.Name) // covariant: the implementer's own type
					}
					ot.Fields = append(ot.Fields, &model.FieldDef{Name: f.Name, Type: ft})
				}
			}
		}
		objs = append(objs, ot)
		s.Types = append(s.Types, ot)
	}
	// make sure every interface has at least one implementer
	for _, it := range ifaces {
		if len(s.PossibleTypes(it.Name)) == 0 {
			ot := objs[r.Intn(len(objs))]
			ot.Interfaces = append(ot.Interfaces, it.Name)
			for _, f := range it.Fields {
				ot.Fields = append(ot.Fields, &model.FieldDef{Name: f.Name, Type: f.Type})
			}
		}
	}
	// unions
	var unions []string
	if o.Abstract {
		for i, n := 0, 1+r.Intn(2); i < n; i++ {
			u := &model.TypeDef{Kind: model.Union, Name: fmt.Sprintf("U%d", i)}
			perm := r.Perm(len(objs))
			for j, m := 0, 1+r.Intn(minInt(3, len(objs))); j < m; j++ {
				u.Members = append(u.Members, objs[perm[j]].Name)
			}
			unions = append(unions, u.Name)
			s.Types = append(s.Types, u)
		}
	}
	composite := []string{}
	for _, ot := range objs {
		composite = append(composite, ot.Name)
	}
	abstract := []string{}
	for _, it := range ifaces {
		abstract = append(abstract, it.Name)
	}
	abstract = append(abstract, unions...)
	// object fields
	for _, ot := range objs {
		used := map[string]bool{}
		for _, f := range ot.Fields {
			used[lower(f.Name)] = true
		}
		for j, n := 0, 2+r.Intn(5); j < n; j++ {
			name := fieldNames[r.Intn(len(fieldNames))]
			if used[lower(name)] {
				continue
			}
			used[lower(name)] = true
			f := &model.FieldDef{Name: name}
			switch k := r.Intn(10); {
			case k < 4:
				f.Type = wrapLeaf(r, leafs[r.Intn(len(leafs))])
			case k < 6:
				f.Type = wrapObj(r, composite[r.Intn(len(composite))])
			case k < 7 && len(abstract) > 0:
				f.Type = wrapObj(r, abstract[r.Intn(len(abstract))])
			case k < 8:
				f.Type = model.ListOf(model.ListOf(wrapLeaf(r, leafs[r.Intn(len(leafs))])))
			default:
				f.Type = model.ListOf(model.Named(composite[r.Intn(len(composite))]))
				if r.Intn(3) == 0 {
					f.Type = model.ListOf(f.Type)
				}
			}
			ot.Fields = append(ot.Fields, f)
		}
		if len(ot.Fields) == 0 {
			ot.Fields = append(ot.Fields, &model.FieldDef{Name: "id", Type: model.Named("ID")})
		}
	}
	// Query
	q := &model.TypeDef{Kind: model.Object, Name: "Query"}
	for i, ot := range objs {
		q.Fields = append(q.Fields, &model.FieldDef{Name: fmt.Sprintf("t%d", i), Type: model.Named(ot.Name)})
		if r.Intn(2) == 0 {
			q.Fields = append(q.Fields, &model.FieldDef{Name: fmt.Sprintf("all%d", i), Type: model.ListOf(model.Named(ot.Name))})
		}
	}
	for i, a := range abstract {
		q.Fields = append(q.Fields, &model.FieldDef{Name: fmt.Sprintf("abs%d", i), Type: model.Named(a)})
		q.Fields = append(q.Fields, &model.FieldDef{Name: fmt.Sprintf("absList%d", i), Type: model.ListOf(model.Named(a))})
	}
	q.Fields = append(q.Fields, &model.FieldDef{Name: "hello", Type: model.Named("String")})
	q.Fields = append(q.Fields, &model.FieldDef{Name: "self", Type: model.Named("Query")})
	q.Fields = append(q.Fields, &model.FieldDef{Name: "selfReq", Type: model.NonNullOf(model.Named("Query"))})
	q.Fields = append(q.Fields, &model.FieldDef{Name: "selfList", Type: model.ListOf(model.Named("Query"))})
	if o.Args {
		for i, n := 0, 1+r.Intn(3); i < n; i++ {
			f := &model.FieldDef{Name: fmt.Sprintf("echo%d", i), Type: model.Named("String"), Echo: true}
			for j, m := 0, 1+r.Intn(4); j < m; j++ {
				f.Args = append(f.Args, &model.ArgDef{Name: fmt.Sprintf("a%d", j), Type: inputType(r, s, inputs, 2)})
			}
			q.Fields = append(q.Fields, f)
			// an echo field on an object type too
			ot := objs[r.Intn(len(objs))]
			if ot.Field("echo") == nil {
				ot.Fields = append(ot.Fields, &model.FieldDef{Name: "echo", Type: model.Named("String"), Echo: true,
					Args: []*model.ArgDef{{Name: "s", Type: model.Named("String")}, {Name: "b", Type: model.Named("Boolean")}}})
			}
		}
	}
	s.Types = append(s.Types, q)
	if o.Mutation {
		m := &model.TypeDef{Kind: model.Object, Name: "Mutation"}
		m.Fields = append(m.Fields, &model.FieldDef{Name: "bump", Type: model.Named("Int")})
		m.Fields = append(m.Fields, &model.FieldDef{Name: "pick", Type: model.Named(objs[0].Name)})
		s.Types = append(s.Types, m)
		s.Mutation = "Mutation"
	}
	s.Reindex()
	return s
}

func lower(s string) string {
	b := []byte(s)
	for i, c := range b {
		if 'A' <= c && c <= 'Z' {
			b[i] = c + 32
		}
	}
	return string(b)
}

func minInt(a, b int) int {
	if a < b {
		return a
	}
	return b
}

func wrapLeaf(r *rand.Rand, name string) *model.TypeRef {
	t := model.Named(name)
	switch r.Intn(8) {
	case 0:
		return model.NonNullOf(t)
	case 1:
		return model.ListOf(t)
	case 2:
		return model.ListOf(model.NonNullOf(t))
	case 3:
		return model.NonNullOf(model.ListOf(t))
	}
	return t
}

func wrapObj(r *rand.Rand, name string) *model.TypeRef {
	t := model.Named(name)
	switch r.Intn(6) {
	case 0:
		return model.NonNullOf(t)
	case 1:
		return model.ListOf(t)
	}
	return t
}

var inputScalars = []string{"Int", "Float", "String", "Boolean", "ID", "Int64", "Float64"}

func inputType(r *rand.Rand, s *model.Schema, inputs []string, depth int) *model.TypeRef {
	var t *model.TypeRef
	k := r.Intn(10)
	switch {
	case k < 6:
		t = model.Named(inputScalars[r.Intn(len(inputScalars))])
	case k < 8:
		var enums []string
		for _, td := range s.Types {
			if td.Kind == model.Enum {
				enums = append(enums, td.Name)
			}
		}
		if len(enums) > 0 {
			t = model.Named(enums[r.Intn(len(enums))])
		} else {
			t = model.Named("String")
		}
	default:
		if len(inputs) > 0 {
			t = model.Named(inputs[r.Intn(len(inputs))])
		} else {
			t = model.Named("Int")
		}
	}
	if depth > 0 && r.Intn(4) == 0 {
		t = model.ListOf(t)
		if r.Intn(4) == 0 {
			t = model.ListOf(t)
		}
	}
	if r.Intn(6) == 0 {
		t = model.NonNullOf(t)
	}
	return t
}

// LeafValue draws a well-typed resolver value for a leaf type.
func LeafValue(r *rand.Rand, s *model.Schema, name string) interface{} {
	if td := s.Type(name); td != nil {
		switch td.Kind {
		case model.Enum:
			return td.Values[r.Intn(len(td.Values))].Name
		case model.Scalar:
			return fmt.Sprintf("custom-%d", r.Intn(100))
		}
	}
	switch name {
	case "Int":
		switch r.Intn(4) {
		case 0:
			return int32(r.Intn(2000) - 1000)
		case 1:
			return int(r.Int31())
		case 2:
			return []interface{}{int32(math.MaxInt32), int32(math.MinInt32), 0, int64(7), uint8(200), int8(-7), uint16(60000), int16(-300), uint32(70000),
				int(math.MinInt32), int64(math.MinInt32), int64(math.MaxInt32), int(math.MaxInt32), uint32(math.MaxInt32)}[r.Intn(14)]
		}
		return r.Intn(100)
	case "Int64":
		if r.Intn(3) == 0 {
			return []int64{math.MaxInt64, math.MinInt64, 1 << 53, -1}[r.Intn(4)]
		}
		return r.Int63() - (1 << 62)
	case "Float":
		switch r.Intn(8) {
		case 0:
			// one significant digit, large or small: the shortest text has an exponent and no fraction ("3e+06")
			return float32(float64(1+r.Intn(9)) * math.Pow(10, float64(r.Intn(50)-25)))
		case 1, 2, 3:
			return float32(r.NormFloat64() * 100)
		}
		return float64(float32(r.NormFloat64() * 1e6))
	case "Float64":
		if r.Intn(8) == 0 {
			return float64(1+r.Intn(9)) * math.Pow(10, float64(r.Intn(80)-40))
		}
		if r.Intn(4) == 0 {
			// single precision data widened to double precision: exactly a float32, but its shortest double text is long
			return float64(float32(r.NormFloat64() * 10))
		}
		return r.NormFloat64() * math.Pow(10, float64(r.Intn(40)-20))
	case "String":
		if r.Intn(8) == 0 {
			return ctrlPool[r.Intn(len(ctrlPool))]
		}
		return RandString(r)
	case "ID":
		if r.Intn(3) == 0 {
			return r.Intn(100000)
		}
		return fmt.Sprintf("id-%d", r.Intn(1000))
	case "Boolean":
		return r.Intn(2) == 0
	case "Time":
		return time.Unix(int64(r.Intn(2000000000)), int64(r.Intn(1000))*1000000).UTC()
	}
	return nil
}

var strPool = []string{"", "a", "hello", "with space", "quote\"d", "back\\slash", "new\nline", "tab\t", "üñí", "😀", "{}", "null", "0", "true", "tag \U000E0001 char", "last \U0010FFFF rune"}

// ctrlPool are resolver-side strings (data only, never written into documents) made of characters a JSON writer must
// escape or pass through with care, WITHOUT any of the everyday escapes (quote, backslash, \b \f \n \r \t) next to them.
var ctrlPool = []string{"tag \U000E0001 char", "last \U0010FFFF rune", "private \U000F0000 use", "nul\x00z", "\x01", "esc\x1b[0m", "del\x7f", "bell\x07", "us\x1f", "\x02\x03", "ls\u2028ps\u2029", "real \ufffd replacement char", "nel\u0085", "\x0b vt \x0e so",
	// bytes that are not UTF-8 (a resolver may hand out anything): a lone 0xff before ordinary characters, before a quote, as
	// the last byte, a truncated two-byte sequence at the very end
	"a\xffbcd", "q\xff\"b\\", "last\xff", "caf\xc3",
	// long plain text with a character that needs a six-byte escape at offsets 56..62 (buffer boundaries of a writer)
	"the quick brown fox jumps over the lazy dog and then some more\x1b!", "0123456789012345678901234567890123456789012345678901234567\x01cafe",
	"0123456789012345678901234567890123456789012345678901234567 \x1f tail", "abcdefghijklmnopqrstuvwxyzabcdefghijklmnopqrstuvwxyzabcdef\x02\x03\x04\x05\x06 end",
	"012345678901234567890123456789012345678901234567890123456\x1b0123456789012345678901234567890123456789012345678901234567\x1b"}

// RandString draws a string with occasional awkward content.
func RandString(r *rand.Rand) string {
	if r.Intn(3) == 0 {
		return strPool[r.Intn(len(strPool))]
	}
	return fmt.Sprintf("s%d", r.Intn(1000))
}

// DefaultFor draws a literal default of the given input type (valid).
func DefaultFor(r *rand.Rand, s *model.Schema, t *model.TypeRef) (interface{}, bool) {
	v := inputLiteral(r, s, t, 3, true)
	if v == nil {
		return nil, false
	}
	return v, true
}

// InputLiteral draws a valid literal (document model value) of an input type.
func InputLiteral(r *rand.Rand, s *model.Schema, t *model.TypeRef, depth int) interface{} {
	return inputLiteral(r, s, t, depth, false)
}

// inputLiteral with full=true writes every field of nested input objects (used for
// default values, so that no default depends on another default being filled in).
func inputLiteral(r *rand.Rand, s *model.Schema, t *model.TypeRef, depth int, full bool) interface{} {
	if t.NonNull {
		return inputLiteral(r, s, t.Of, depth, full)
	}
	if t.List {
		n := r.Intn(3)
		if depth <= 0 {
			n = 0
		}
		l := make([]interface{}, n)
		for i := range l {
			l[i] = inputLiteral(r, s, t.Of, depth-1, full)
			if l[i] == nil && t.Of.NonNull {
				return []interface{}{}
			}
		}
		return l
	}
	if td := s.Type(t.Name); td != nil {
		switch td.Kind {
		case model.Enum:
			return model.Sym(td.Values[r.Intn(len(td.Values))].Name)
		case model.Input:
			o := model.NewObjLit()
			for _, f := range td.Inputs {
				if !full && !f.Type.NonNull && r.Intn(3) == 0 {
					continue
				}
				if !full && depth <= 0 && !f.Type.NonNull {
					continue
				}
				fv := inputLiteral(r, s, f.Type, depth-1, full)
				if fv == nil && full && !f.Type.NonNull {
					continue // a null for a nullable field: leave it out (same meaning without a default)
				}
				o.Set(f.Name, fv)
			}
			return o
		case model.Scalar:
			return RandString(r)
		}
	}
	switch t.Name {
	case "Int":
		return int64(r.Intn(20000) - 10000)
	case "Int64":
		n := r.Int63n(1<<40) - (1 << 39)
		return model.RawLit{Text: fmt.Sprint(n), Value: n}
	case "Float":
		return float64(float32(r.NormFloat64() * 10))
	case "Float64":
		return r.NormFloat64() * 1000
	case "String":
		return RandString(r)
	case "ID":
		return fmt.Sprintf("id%d", r.Intn(100))
	case "Boolean":
		return r.Intn(2) == 0
	}
	return nil
}

// LiteralToJSON converts a literal of the document model into the Go value a
// JSON-decoded variable map would carry (symbols cannot be expressed: ok=false).
func LiteralToJSON(v interface{}) (interface{}, bool) {
	switch t := v.(type) {
	case nil, bool, string:
		return t, true
	case model.RawLit:
		return t.Value, true // Int64 positions: ggql only takes native integers there
	case int64:
		return float64(t), true
	case float64:
		return t, true
	case model.Sym:
		return nil, false
	case []interface{}:
		o := make([]interface{}, len(t))
		for i, e := range t {
			j, okj := LiteralToJSON(e)
			if !okj {
				return nil, false
			}
			o[i] = j
		}
		return o, true
	case *model.ObjLit:
		o := map[string]interface{}{}
		for _, k := range t.Keys {
			j, okj := LiteralToJSON(t.Vals[k])
			if !okj {
				return nil, false
			}
			o[k] = j
		}
		return o, true
	}
	return nil, false
}

// Menagerie is a small schema built to put ONE request field node under several concrete types: an interface whose
// implementers declare its self-typed fields covariantly (valid GraphQL), heterogeneous interface- and union-typed
// lists, and the implementers also reachable through object-typed fields. The number of implementers and the extra
// leaf fields vary with r.
func Menagerie(r *rand.Rand) *model.Schema {
	s := &model.Schema{Query: "Query"}
	n := 2 + r.Intn(2)
	names := []string{"Dog", "Cat", "Eel"}[:n]
	it := &model.TypeDef{Kind: model.Interface, Name: "Animal", Fields: []*model.FieldDef{
		{Name: "name", Type: model.Named("String")},
		{Name: "friend", Type: model.Named("Animal")},
		{Name: "pals", Type: model.ListOf(model.Named("Animal"))},
		{Name: "rival", Type: model.Named("Animal")},
	}}
	s.Types = append(s.Types, it)
	un := &model.TypeDef{Kind: model.Union, Name: "Pet"}
	for i, nm := range names {
		ot := &model.TypeDef{Kind: model.Object, Name: nm, Interfaces: []string{"Animal"}}
		nameField := &model.FieldDef{Name: "name", Type: model.Named("String")}
		if i == 0 {
			// an implementer may add optional arguments to an interface field: only this type's `name` takes `limit`
			nameField.Args = []*model.ArgDef{{Name: "limit", Type: model.Named("Int")}}
		}
		ot.Fields = append(ot.Fields,
			nameField,
			&model.FieldDef{Name: "friend", Type: model.Named(nm)},                   // covariant: own type
			&model.FieldDef{Name: "pals", Type: model.ListOf(model.Named("Animal"))}, // stays abstract
		)
		if r.Intn(2) == 0 {
			ot.Fields = append(ot.Fields, &model.FieldDef{Name: "rival", Type: model.Named(names[(i+1)%n])}) // covariant: another implementer
		} else {
			ot.Fields = append(ot.Fields, &model.FieldDef{Name: "rival", Type: model.Named("Animal")})
		}
		ot.Fields = append(ot.Fields, &model.FieldDef{Name: []string{"barks", "lives", "volts"}[i], Type: model.Named("Int")})
		if r.Intn(2) == 0 {
			ot.Fields = append(ot.Fields, &model.FieldDef{Name: "tag", Type: model.Named([]string{"String", "Int", "ID"}[i])}) // same name, other type per implementer
		}
		s.Types = append(s.Types, ot)
		un.Members = append(un.Members, nm)
	}
	s.Types = append(s.Types, un)
	// Ant sorts before every implementer, implements nothing, is in no union - and is served by the SAME Go type as Dog
	s.Types = append(s.Types, &model.TypeDef{Kind: model.Object, Name: "Ant", GoAs: "Dog", Fields: []*model.FieldDef{
		{Name: "name", Type: model.Named("String")}, {Name: "barks", Type: model.Named("Int")}}})
	q := &model.TypeDef{Kind: model.Object, Name: "Query", Fields: []*model.FieldDef{
		{Name: "ant", Type: model.Named("Ant")},
		{Name: "pets", Type: model.ListOf(model.Named("Animal"))},
		{Name: "anyPet", Type: model.ListOf(model.Named("Pet"))},
		{Name: "a1", Type: model.Named("Animal")},
		{Name: "a2", Type: model.Named("Animal")},
		{Name: "grid", Type: model.ListOf(model.ListOf(model.Named("Animal")))},
	}}
	for _, nm := range names {
		q.Fields = append(q.Fields, &model.FieldDef{Name: lower(nm), Type: model.Named(nm)})
	}
	s.Types = append(s.Types, q)
	return s
}
