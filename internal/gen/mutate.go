package gen

import (
	"math/rand"

	"verif/internal/model"
)

// SchemaMutation breaks exactly one type-system rule of a well-formed schema in place.
// It returns the identifier an error message is expected to name; ok=false when not applicable.
type SchemaMutation struct {
	Rule  string
	Apply func(r *rand.Rand, s *model.Schema) (offender string, ok bool)
}

func pickType(r *rand.Rand, s *model.Schema, kinds ...model.Kind) *model.TypeDef {
	var c []*model.TypeDef
	for _, t := range s.Types {
		for _, k := range kinds {
			if t.Kind == k {
				c = append(c, t)
			}
		}
	}
	if len(c) == 0 {
		return nil
	}
	return c[r.Intn(len(c))]
}

func innermost(t *model.TypeRef) *model.TypeRef {
	for t.Of != nil {
		t = t.Of
	}
	return t
}

func pickField(r *rand.Rand, s *model.Schema, withArgs bool) (*model.TypeDef, *model.FieldDef) {
	type tf struct {
		t *model.TypeDef
		f *model.FieldDef
	}
	var c []tf
	for _, t := range s.Types {
		if t.Kind != model.Object && t.Kind != model.Interface {
			continue
		}
		for _, f := range t.Fields {
			if !withArgs || len(f.Args) > 0 {
				c = append(c, tf{t, f})
			}
		}
	}
	if len(c) == 0 {
		return nil, nil
	}
	x := c[r.Intn(len(c))]
	return x.t, x.f
}

// nestWrap wraps a named type into [[T!]] with probability 1/2 (the wrapper must not hide the offence).
func nestWrap(r *rand.Rand, name string) *model.TypeRef {
	if r.Intn(2) == 0 {
		return model.Named(name)
	}
	return model.ListOf(model.ListOf(model.NonNullOf(model.Named(name))))
}

// ownFields are the fields of an object that do not come from an interface it implements.
func ownField(r *rand.Rand, s *model.Schema, t *model.TypeDef) *model.FieldDef {
	var c []*model.FieldDef
	for _, f := range t.Fields {
		inherited := false
		for _, in := range t.Interfaces {
			if it := s.Type(in); it != nil && it.Field(f.Name) != nil {
				inherited = true
			}
		}
		if !inherited {
			c = append(c, f)
		}
	}
	if len(c) == 0 {
		return nil
	}
	return c[r.Intn(len(c))]
}

// implementer finds an object with an interface field (for conformance breaches).
func implementer(r *rand.Rand, s *model.Schema, needArgs bool) (*model.TypeDef, *model.TypeDef, *model.FieldDef, *model.FieldDef) {
	type cand struct {
		o, i   *model.TypeDef
		fo, fi *model.FieldDef
	}
	var c []cand
	for _, o := range s.Types {
		if o.Kind != model.Object {
			continue
		}
		for _, in := range o.Interfaces {
			it := s.Type(in)
			if it == nil {
				continue
			}
			for _, fi := range it.Fields {
				if fo := o.Field(fi.Name); fo != nil && (!needArgs || len(fi.Args) > 0) {
					c = append(c, cand{o, it, fo, fi})
				}
			}
		}
	}
	if len(c) == 0 {
		return nil, nil, nil, nil
	}
	x := c[r.Intn(len(c))]
	return x.o, x.i, x.fo, x.fi
}

// SchemaMutations is the rule catalogue of C13.
func SchemaMutations() []SchemaMutation {
	return []SchemaMutation{
		{"undefined-field-type", func(r *rand.Rand, s *model.Schema) (string, bool) {
			_, f := pickField(r, s, false)
			if f == nil {
				return "", false
			}
			innermost(f.Type).Name = "NopeTypeZz"
			return "NopeTypeZz", true
		}},
		{"undefined-arg-type", func(r *rand.Rand, s *model.Schema) (string, bool) {
			_, f := pickField(r, s, true)
			if f == nil {
				return "", false
			}
			innermost(f.Args[r.Intn(len(f.Args))].Type).Name = "NopeTypeZz"
			return "NopeTypeZz", true
		}},
		{"undefined-input-field-type", func(r *rand.Rand, s *model.Schema) (string, bool) {
			t := pickType(r, s, model.Input)
			if t == nil {
				return "", false
			}
			f := t.Inputs[r.Intn(len(t.Inputs))]
			f.HasDefault = false
			f.Type = nestWrap(r, "NopeTypeZz")
			return "NopeTypeZz", true
		}},
		{"undefined-union-member", func(r *rand.Rand, s *model.Schema) (string, bool) {
			t := pickType(r, s, model.Union)
			if t == nil {
				return "", false
			}
			t.Members = append(t.Members, "NopeTypeZz")
			return "NopeTypeZz", true
		}},
		{"undefined-interface", func(r *rand.Rand, s *model.Schema) (string, bool) {
			t := pickType(r, s, model.Object)
			if t == nil {
				return "", false
			}
			t.Interfaces = append(t.Interfaces, "NopeTypeZz")
			return "NopeTypeZz", true
		}},
		{"undefined-directive-on-type", func(r *rand.Rand, s *model.Schema) (string, bool) {
			t := pickType(r, s, model.Object, model.Enum, model.Input, model.Interface, model.Union, model.Scalar)
			if t == nil {
				return "", false
			}
			t.Dirs = append(t.Dirs, model.DirUse{Name: "nopeDirZz"})
			return "nopeDirZz", true
		}},
		{"undefined-directive-on-field", func(r *rand.Rand, s *model.Schema) (string, bool) {
			_, f := pickField(r, s, false)
			if f == nil {
				return "", false
			}
			f.Dirs = append(f.Dirs, model.DirUse{Name: "nopeDirZz"})
			return "nopeDirZz", true
		}},
		{"duplicate-type", func(r *rand.Rand, s *model.Schema) (string, bool) {
			t := pickType(r, s, model.Object, model.Enum, model.Input, model.Interface, model.Union)
			if t == nil {
				return "", false
			}
			cp := *t
			s.Types = append(s.Types, &cp)
			return t.Name, true
		}},
		{"duplicate-field", func(r *rand.Rand, s *model.Schema) (string, bool) {
			t, f := pickField(r, s, false)
			if f == nil {
				return "", false
			}
			cp := *f
			t.Fields = append(t.Fields, &cp)
			return f.Name, true
		}},
		{"duplicate-arg", func(r *rand.Rand, s *model.Schema) (string, bool) {
			_, f := pickField(r, s, true)
			if f == nil {
				return "", false
			}
			cp := *f.Args[0]
			f.Args = append(f.Args, &cp)
			return cp.Name, true
		}},
		{"duplicate-enum-value", func(r *rand.Rand, s *model.Schema) (string, bool) {
			t := pickType(r, s, model.Enum)
			if t == nil {
				return "", false
			}
			cp := *t.Values[r.Intn(len(t.Values))]
			t.Values = append(t.Values, &cp)
			return cp.Name, true
		}},
		{"duplicate-input-field", func(r *rand.Rand, s *model.Schema) (string, bool) {
			t := pickType(r, s, model.Input)
			if t == nil {
				return "", false
			}
			cp := *t.Inputs[r.Intn(len(t.Inputs))]
			t.Inputs = append(t.Inputs, &cp)
			return cp.Name, true
		}},
		{"bad-type-name", func(r *rand.Rand, s *model.Schema) (string, bool) {
			// a fresh, unreferenced type so that only the name rule is broken
			n := []string{"9BadZz", "__BadZz"}[r.Intn(2)]
			s.Types = append(s.Types, &model.TypeDef{Kind: model.Object, Name: n, Fields: []*model.FieldDef{{Name: "a", Type: model.Named("Int")}}})
			return n, true
		}},
		{"bad-field-name", func(r *rand.Rand, s *model.Schema) (string, bool) {
			t := pickType(r, s, model.Object, model.Interface)
			if t == nil {
				return "", false
			}
			if t.Kind == model.Interface {
				return "", false // would also break implementers
			}
			n := []string{"9badZz", "__badZz"}[r.Intn(2)]
			t.Fields = append(t.Fields, &model.FieldDef{Name: n, Type: model.Named("Int")})
			return n, true
		}},
		{"bad-arg-name", func(r *rand.Rand, s *model.Schema) (string, bool) {
			t := pickType(r, s, model.Object)
			if t == nil {
				return "", false
			}
			f := ownField(r, s, t)
			if f == nil {
				return "", false
			}
			n := []string{"9badZz", "__badZz"}[r.Intn(2)]
			f.Args = append(f.Args, &model.ArgDef{Name: n, Type: model.Named("Int")})
			return n, true
		}},
		{"bad-enum-value-name", func(r *rand.Rand, s *model.Schema) (string, bool) {
			t := pickType(r, s, model.Enum)
			if t == nil {
				return "", false
			}
			n := []string{"9BADZZ", "__BADZZ"}[r.Intn(2)]
			t.Values = append(t.Values, &model.EnumVal{Name: n})
			return n, true
		}},
		{"bad-input-field-name", func(r *rand.Rand, s *model.Schema) (string, bool) {
			t := pickType(r, s, model.Input)
			if t == nil {
				return "", false
			}
			n := []string{"9badZz", "__badZz"}[r.Intn(2)]
			t.Inputs = append(t.Inputs, &model.ArgDef{Name: n, Type: model.Named("Int")})
			return n, true
		}},
		{"input-type-in-field-position", func(r *rand.Rand, s *model.Schema) (string, bool) {
			in := pickType(r, s, model.Input)
			t := pickType(r, s, model.Object)
			if in == nil || t == nil {
				return "", false
			}
			f := ownField(r, s, t)
			if f == nil {
				return "", false
			}
			f.Type = nestWrap(r, in.Name)
			return f.Name, true
		}},
		{"output-type-in-arg-position", func(r *rand.Rand, s *model.Schema) (string, bool) {
			out := pickType(r, s, model.Object, model.Interface, model.Union)
			t := pickType(r, s, model.Object)
			if out == nil || t == nil {
				return "", false
			}
			f := ownField(r, s, t)
			if f == nil {
				return "", false
			}
			f.Args = append(f.Args, &model.ArgDef{Name: "badArgZz", Type: nestWrap(r, out.Name)})
			return "badArgZz", true
		}},
		{"output-type-in-input-field-position", func(r *rand.Rand, s *model.Schema) (string, bool) {
			out := pickType(r, s, model.Object, model.Interface, model.Union)
			t := pickType(r, s, model.Input)
			if out == nil || t == nil {
				return "", false
			}
			t.Inputs = append(t.Inputs, &model.ArgDef{Name: "badFieldZz", Type: nestWrap(r, out.Name)})
			return "badFieldZz", true
		}},
		{"output-type-in-directive-arg-position", func(r *rand.Rand, s *model.Schema) (string, bool) {
			out := pickType(r, s, model.Object, model.Interface, model.Union)
			if out == nil {
				return "", false
			}
			s.Dirs = append(s.Dirs, &model.DirDef{Name: "badDirZz", On: []string{"OBJECT"}, Args: []*model.ArgDef{{Name: "badArgZz", Type: nestWrap(r, out.Name)}}})
			return "badDirZz", true
		}},
		{"interface-field-missing", func(r *rand.Rand, s *model.Schema) (string, bool) {
			o, _, fo, _ := implementer(r, s, false)
			if o == nil {
				return "", false
			}
			var keep []*model.FieldDef
			for _, f := range o.Fields {
				if f != fo {
					keep = append(keep, f)
				}
			}
			if len(keep) == 0 {
				return "", false
			}
			o.Fields = keep
			return fo.Name, true
		}},
		{"interface-field-not-subtype", func(r *rand.Rand, s *model.Schema) (string, bool) {
			o, _, fo, fi := implementer(r, s, false)
			if o == nil {
				return "", false
			}
			// a type that is certainly not a sub-type: another scalar, or one list level more
			if innermost(fi.Type).Name == "Boolean" {
				fo.Type = model.Named("Int")
			} else {
				fo.Type = model.Named("Boolean")
			}
			if !fi.Type.List && !fi.Type.NonNull && fi.Type.Name == fo.Type.Name {
				return "", false
			}
			return fo.Name, true
		}},
		{"interface-field-object-not-implementing", func(r *rand.Rand, s *model.Schema) (string, bool) {
			// an interface field typed by an interface J, implemented with an object that does not implement J
			for _, o := range s.Types {
				if o.Kind != model.Object {
					continue
				}
				for _, in := range o.Interfaces {
					it := s.Type(in)
					if it == nil {
						continue
					}
					for _, fi := range it.Fields {
						if fi.Type.List || fi.Type.NonNull {
							continue
						}
						if k, known := s.KindOf(fi.Type.Name); !known || (k != model.Interface && k != model.Union) {
							continue
						}
						fo := o.Field(fi.Name)
						if fo == nil {
							continue
						}
						for _, cand := range s.Types {
							if cand.Kind == model.Object && !s.Implements(cand.Name, fi.Type.Name) {
								fo.Type = model.Named(cand.Name)
								return fo.Name, true
							}
						}
					}
				}
			}
			return "", false
		}},
		{"directive-null-for-nonnull-arg", func(r *rand.Rand, s *model.Schema) (string, bool) {
			s.Dirs = append(s.Dirs, &model.DirDef{Name: "needArgZz", On: []string{"OBJECT", "SCALAR", "ENUM"}, Args: []*model.ArgDef{{Name: "level", Type: model.NonNullOf(model.Named("Int"))}}})
			t := pickType(r, s, model.Object, model.Scalar, model.Enum)
			if t == nil {
				return "", false
			}
			t.Dirs = append(t.Dirs, model.DirUse{Name: "needArgZz", Args: []model.Arg{{Name: "level", Value: nil}}})
			return "Int", true
		}},
		{"interface-arg-missing", func(r *rand.Rand, s *model.Schema) (string, bool) {
			o, _, fo, fi := implementer(r, s, true)
			if o == nil {
				return "", false
			}
			drop := fi.Args[r.Intn(len(fi.Args))].Name
			var keep []*model.ArgDef
			for _, a := range fo.Args {
				if a.Name != drop {
					keep = append(keep, a)
				}
			}
			fo.Args = keep
			return fo.Name, true
		}},
		{"interface-arg-type-changed", func(r *rand.Rand, s *model.Schema) (string, bool) {
			o, _, fo, fi := implementer(r, s, true)
			if o == nil {
				return "", false
			}
			n := fi.Args[r.Intn(len(fi.Args))].Name
			a := fo.Arg(n)
			if a == nil {
				return "", false
			}
			a.HasDefault = false
			if innermost(a.Type).Name == "Boolean" && !a.Type.List && !a.Type.NonNull {
				a.Type = model.Named("Int")
			} else {
				a.Type = model.Named("Boolean")
			}
			return n, true
		}},
		{"interface-field-list-of-member", func(r *rand.Rand, s *model.Schema) (string, bool) {
			// an interface field typed by an interface or union, implemented by a LIST of a member (a list is no subtype of its element)
			for _, o := range s.Types {
				if o.Kind != model.Object {
					continue
				}
				for _, in := range o.Interfaces {
					it := s.Type(in)
					if it == nil {
						continue
					}
					for _, fi := range it.Fields {
						if k, known := s.KindOf(fi.Type.Base()); !known || (k != model.Interface && k != model.Union) || fi.Type.List || (fi.Type.Of != nil && fi.Type.Of.List) {
							continue
						}
						fo := o.Field(fi.Name)
						pts := s.PossibleTypes(fi.Type.Base())
						if fo == nil || len(pts) == 0 {
							continue
						}
						fo.Type = model.ListOf(model.Named(pts[r.Intn(len(pts))]))
						return fo.Name, true
					}
				}
			}
			return "", false
		}},
		{"interface-arg-nullability-tightened", func(r *rand.Rand, s *model.Schema) (string, bool) {
			// the same named type with a tighter wrapper (Int -> Int!, [T] -> [T!], [[T]]! -> [[T!]]!): argument types are
			// invariant, a narrower one is as wrong as another type
			o, _, fo, fi := implementer(r, s, true)
			if o == nil {
				return "", false
			}
			n := fi.Args[r.Intn(len(fi.Args))].Name
			a := fo.Arg(n)
			if a == nil {
				return "", false
			}
			var tighten func(t *model.TypeRef) (*model.TypeRef, bool)
			tighten = func(t *model.TypeRef) (*model.TypeRef, bool) {
				switch {
				case t.NonNull:
					if !t.Of.List {
						return t, false // already as tight as it gets
					}
					e, ok := tighten(t.Of.Of)
					return model.NonNullOf(model.ListOf(e)), ok
				case t.List:
					if e, ok := tighten(t.Of); ok && r.Intn(2) == 0 {
						return model.ListOf(e), true
					}
					return model.NonNullOf(t), true
				}
				return model.NonNullOf(t), true
			}
			nt, ok := tighten(a.Type)
			if !ok || nt.String() == a.Type.String() {
				return "", false
			}
			a.Type = nt
			return n, true
		}},
		{"interface-extra-required-arg", func(r *rand.Rand, s *model.Schema) (string, bool) {
			o, _, fo, _ := implementer(r, s, false)
			if o == nil {
				return "", false
			}
			fo.Args = append(fo.Args, &model.ArgDef{Name: "mustHaveZz", Type: model.NonNullOf(model.Named("Int"))})
			return "mustHaveZz", true
		}},
		{"union-non-object-member", func(r *rand.Rand, s *model.Schema) (string, bool) {
			t := pickType(r, s, model.Union)
			m := pickType(r, s, model.Enum, model.Input, model.Interface, model.Scalar)
			if t == nil || m == nil {
				return "", false
			}
			t.Members = append(t.Members, m.Name)
			return m.Name, true
		}},
		{"empty-object", func(r *rand.Rand, s *model.Schema) (string, bool) {
			s.Types = append(s.Types, &model.TypeDef{Kind: model.Object, Name: "EmptyObjZz"})
			return "EmptyObjZz", true
		}},
		{"empty-interface", func(r *rand.Rand, s *model.Schema) (string, bool) {
			s.Types = append(s.Types, &model.TypeDef{Kind: model.Interface, Name: "EmptyIfZz"})
			return "EmptyIfZz", true
		}},
		{"empty-enum", func(r *rand.Rand, s *model.Schema) (string, bool) {
			s.Types = append(s.Types, &model.TypeDef{Kind: model.Enum, Name: "EmptyEnumZz"})
			return "EmptyEnumZz", true
		}},
		{"empty-input", func(r *rand.Rand, s *model.Schema) (string, bool) {
			s.Types = append(s.Types, &model.TypeDef{Kind: model.Input, Name: "EmptyInZz"})
			return "EmptyInZz", true
		}},
		{"directive-wrong-location-on-type", func(r *rand.Rand, s *model.Schema) (string, bool) {
			s.Dirs = append(s.Dirs, &model.DirDef{Name: "onlyEnumZz", On: []string{"ENUM"}})
			t := pickType(r, s, model.Object, model.Input, model.Interface, model.Union, model.Scalar)
			if t == nil {
				return "", false
			}
			t.Dirs = append(t.Dirs, model.DirUse{Name: "onlyEnumZz"})
			return "onlyEnumZz", true
		}},
		{"directive-wrong-location-on-member", func(r *rand.Rand, s *model.Schema) (string, bool) {
			s.Dirs = append(s.Dirs, &model.DirDef{Name: "onlyEnumZz", On: []string{"ENUM"}})
			switch r.Intn(4) {
			case 0:
				_, f := pickField(r, s, false)
				if f == nil {
					return "", false
				}
				f.Dirs = append(f.Dirs, model.DirUse{Name: "onlyEnumZz"})
			case 1:
				_, f := pickField(r, s, true)
				if f == nil {
					return "", false
				}
				f.Args[0].Dirs = append(f.Args[0].Dirs, model.DirUse{Name: "onlyEnumZz"})
			case 2:
				t := pickType(r, s, model.Input)
				if t == nil {
					return "", false
				}
				t.Inputs[0].Dirs = append(t.Inputs[0].Dirs, model.DirUse{Name: "onlyEnumZz"})
			default:
				t := pickType(r, s, model.Enum)
				if t == nil {
					return "", false
				}
				t.Values[0].Dirs = append(t.Values[0].Dirs, model.DirUse{Name: "onlyEnumZz"})
			}
			return "onlyEnumZz", true
		}},
		{"directive-undeclared-arg", func(r *rand.Rand, s *model.Schema) (string, bool) {
			s.Dirs = append(s.Dirs, &model.DirDef{Name: "argDirZz", On: []string{"OBJECT"}, Args: []*model.ArgDef{{Name: "ok", Type: model.Named("Int")}}})
			t := pickType(r, s, model.Object)
			t.Dirs = append(t.Dirs, model.DirUse{Name: "argDirZz", Args: []model.Arg{{Name: "nopeArgZz", Value: int64(1)}}})
			return "nopeArgZz", true
		}},
		{"directive-without-arguments-used-with-one", func(r *rand.Rand, s *model.Schema) (string, bool) {
			s.Dirs = append(s.Dirs, &model.DirDef{Name: "noArgDirZz", On: []string{"OBJECT", "ENUM", "INTERFACE", "UNION", "INPUT_OBJECT", "SCALAR"}})
			t := s.Types[r.Intn(len(s.Types))]
			t.Dirs = append(t.Dirs, model.DirUse{Name: "noArgDirZz", Args: []model.Arg{{Name: "nopeArgZz", Value: int64(3)}}})
			return "nopeArgZz", true
		}},
		{"builtin-directive-undeclared-arg", func(r *rand.Rand, s *model.Schema) (string, bool) {
			// a directive every root knows before the document is read (the parser looks such a use up at once)
			for _, t := range s.Types {
				if t.Kind == model.Enum && len(t.Values) > 0 {
					v := t.Values[r.Intn(len(t.Values))]
					v.Dirs = append(v.Dirs, model.DirUse{Name: "deprecated", Args: []model.Arg{{Name: "reason", Value: "old"}, {Name: "nopeArgZz", Value: "x"}}})
					return "nopeArgZz", true
				}
			}
			return "", false
		}},
		{"directive-required-argument-omitted", func(r *rand.Rand, s *model.Schema) (string, bool) {
			// the use leaves out an argument that is non-null and has no default (the other one is given)
			s.Dirs = append(s.Dirs, &model.DirDef{Name: "needArgZz", On: []string{"OBJECT", "ENUM", "INTERFACE", "UNION", "INPUT_OBJECT", "SCALAR", "ENUM_VALUE"},
				Args: []*model.ArgDef{{Name: "opt", Type: model.Named("Int")}, {Name: "needZz", Type: model.NonNullOf(model.Named("Int"))}}})
			use := model.DirUse{Name: "needArgZz", Args: []model.Arg{{Name: "opt", Value: int64(1)}}}
			if r.Intn(2) == 0 {
				use.Args = nil
			}
			if r.Intn(3) == 0 {
				for _, t := range s.Types {
					if t.Kind == model.Enum && len(t.Values) > 0 {
						v := t.Values[r.Intn(len(t.Values))]
						v.Dirs = append(v.Dirs, use)
						return "needZz", true
					}
				}
			}
			t := s.Types[r.Intn(len(s.Types))]
			t.Dirs = append(t.Dirs, use)
			return "needZz", true
		}},
		{"directive-uncoercible-arg", func(r *rand.Rand, s *model.Schema) (string, bool) {
			s.Dirs = append(s.Dirs, &model.DirDef{Name: "argDirZz", On: []string{"OBJECT"}, Args: []*model.ArgDef{{Name: "ok", Type: model.Named("Int")}}})
			t := pickType(r, s, model.Object)
			t.Dirs = append(t.Dirs, model.DirUse{Name: "argDirZz", Args: []model.Arg{{Name: "ok", Value: "not an int"}}})
			return "Int", true
		}},
		{"directive-definition-cycle", func(r *rand.Rand, s *model.Schema) (string, bool) {
			s.Dirs = append(s.Dirs,
				&model.DirDef{Name: "cycAZz", On: []string{"ARGUMENT_DEFINITION"}, Args: []*model.ArgDef{{Name: "x", Type: model.Named("Int"), Dirs: []model.DirUse{{Name: "cycBZz"}}}}},
				&model.DirDef{Name: "cycBZz", On: []string{"ARGUMENT_DEFINITION"}, Args: []*model.ArgDef{{Name: "y", Type: model.Named("Int"), Dirs: []model.DirUse{{Name: "cycAZz"}}}}})
			return "cyc", true
		}},
	}
}
